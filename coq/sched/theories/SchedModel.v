(* M3 -- scheduler registry and loop step (quartz/scheduler.go), definitions only.

   Go function                      Gallina function
   ------------------------------   ---------------------------------------------
   StdScheduler.ScheduleJob         sched_pre (lines before the locker) ; sched_commit (under the locker)
   StdScheduler.DeleteJob           delete
   StdScheduler.PauseJob            pause
   StdScheduler.ResumeJob           resume
   StdScheduler.Clear               clear
   StdScheduler.GetScheduledJob     get
   StdScheduler.GetJobKeys          keys        (no matchers)
   StdScheduler.validateJob         validate / next_run   (interprets the branch table copied from the source)
   StdScheduler.fetchAndReschedule  fetch
   executeAndReschedule (dispatch)  label LExec of the transition system (all three modes: a valid dequeue
                                    becomes a pending dispatch that starts at some later point)
   JobQueue (interface)             queue_ops + queue_contract (any implementation meeting the contract)

   Integers are unbounded Z; math.MaxInt64 is written explicitly (Params.go_MaxInt64).
   Entries are values: the Suspended flag of the shared *JobDetail is a field of the entry (a queue that
   hands out copies and one that hands out pointers are the same thing here; what the model cannot
   exhibit is a caller re-using one *JobDetail in two ScheduleJob calls). *)
From Coq Require Import ZArith List Bool String.
Require Import QzSched.Gen.Params.
Import ListNotations.
Open Scope string_scope.
Open Scope list_scope.
Open Scope Z_scope.

(* ------------------------------------------------------------------ *)
(* facts derived from the copied call skeletons                        *)
(* ------------------------------------------------------------------ *)

Fixpoint index_of (x : string) (l : list string) : option nat :=
  match l with
  | [] => None
  | y :: r => if String.eqb x y then Some O else option_map S (index_of x r)
  end.

Definition has (x : string) (l : list string) : bool :=
  match index_of x l with Some _ => true | None => false end.

Definition before (a b : string) (l : list string) : bool :=
  match index_of a l, index_of b l with
  | Some i, Some j => Nat.ltb i j
  | _, _ => false
  end.

(* the body takes the queue locker (Lock immediately followed by a deferred Unlock), exactly once, and
   every call on the queue comes after it *)
Fixpoint locked_scan (locked : bool) (l : list string) : bool :=
  match l with
  | [] => locked
  | x :: r =>
    if String.eqb x "queueLocker.Lock" then
      match r with
      | y :: r' => String.eqb y "defer queueLocker.Unlock" && negb locked && locked_scan true r'
      | [] => false
      end
    else if String.prefix "queue." x then locked && locked_scan locked r
    else if String.eqb x "queueLocker.Unlock" || String.eqb x "defer queueLocker.Unlock" then false
    else locked_scan locked r
  end.

Definition all_bodies_locked : bool :=
  forallb (locked_scan false)
    [calls_ScheduleJob; calls_GetJobKeys; calls_GetScheduledJob; calls_DeleteJob; calls_PauseJob;
     calls_ResumeJob; calls_Clear; calls_fetchAndReschedule].

(* `if sched.IsStarted() { sched.Reset() }` closes the success path *)
Definition reset_when_started (calls : list string) : bool :=
  match rev calls with
  | r :: i :: _ => String.eqb r "Reset" && String.eqb i "IsStarted"
  | _ => false
  end.

Definition api_mutations_reset : bool :=
  forallb reset_when_started [calls_ScheduleJob; calls_DeleteJob; calls_PauseJob; calls_ResumeJob; calls_Clear].

Definition fetch_resets_after_push : bool := before "queue.Push" "Reset" calls_fetchAndReschedule.

Definition schedule_trigger_before_lock : bool :=
  before "NextFireTime(NowNano())" "queueLocker.Lock" calls_ScheduleJob.

Definition schedule_trigger_reads_clock : bool := has "NextFireTime(NowNano())" calls_ScheduleJob.

Definition resume_trigger_reads_clock : bool := has "NextFireTime(NowNano())" calls_ResumeJob.

Definition resume_trigger_before_remove : bool :=
  before "queue.Get" "NextFireTime(NowNano())" calls_ResumeJob &&
  before "NextFireTime(NowNano())" "queue.Remove" calls_ResumeJob.

Definition pause_get_remove_push : bool :=
  before "queue.Get" "queue.Remove" calls_PauseJob && before "queue.Remove" "queue.Push" calls_PauseJob.

Definition fetch_pop_validate_push : bool :=
  before "queue.Pop" "validateJob" calls_fetchAndReschedule &&
  before "validateJob" "nextRunTimeExtractor" calls_fetchAndReschedule &&
  before "nextRunTimeExtractor" "queue.Push" calls_fetchAndReschedule.

(* ------------------------------------------------------------------ *)
(* keys, entries, results, events                                      *)
(* ------------------------------------------------------------------ *)

Definition jkey := (string * string)%type.          (* (name, group) *)
Definition key_eqb (a b : jkey) : bool := String.eqb (fst a) (fst b) && String.eqb (snd a) (snd b).
Definition name_empty (k : jkey) : bool := match fst k with EmptyString => true | _ => false end.

Definition tid := nat.      (* identity of a Trigger value *)
Definition terr := nat.     (* class of the error a trigger returns (0 = ErrTriggerExpired) *)

(* scheduledJob {job *JobDetail; trigger; priority} with the two JobDetailOptions the scheduler reads *)
Record entry := mkEntry { e_key : jkey; e_prio : Z; e_susp : bool; e_repl : bool; e_tid : tid }.

(* *JobDetail argument of ScheduleJob: jobKey (possibly nil), opts.Replace, opts.Suspended *)
Record jobdetail := mkJD { jd_key : option jkey; jd_repl : bool; jd_susp : bool }.

Inductive apiop :=
| OpSchedule (jd : option jobdetail) (tr : option tid)
| OpDelete (k : option jkey)
| OpPause (k : option jkey)
| OpResume (k : option jkey)
| OpClear
| OpGet (k : option jkey)
| OpKeys.

Inductive errc := ESent (s : sentinel) | ETrig (e : terr).
Inductive result := ROk | RErr (e : errc) | RJob (e : entry) | RKeys (ks : list jkey).

Definition is_error (r : result) : bool := match r with RErr _ => true | _ => false end.

Inductive cause := CSchedule | CResume | CFetchValid | CFetchRebase.
Inductive fmut := FPush (e : entry) | FRemove (k : jkey) | FClear.

Inductive event :=
| EvTrig (k : jkey) (t : tid) (prev : Z) (res : Z + terr) (c : cause)   (* NextFireTime(prev) = res, asked for job k *)
| EvDeq (id i : nat) (e : entry) (valid : bool) (now : Z)               (* scheduler i popped e at clock now *)
| EvMisfire (id : nat) (k : jkey) (prio : Z)                            (* offered to MisfiredChan *)
| EvExec (id : nat) (k : jkey) (prio : Z) (now : Z)                     (* first attempt of the execution starts *)
| EvApi (op : apiop) (r : result)                                       (* an API call returned r *)
| EvForeign (m : fmut).                                                 (* another process changed the shared queue *)

(* ------------------------------------------------------------------ *)
(* JobQueue: operations and contract                                   *)
(* ------------------------------------------------------------------ *)

Record queue_ops := {
  Q : Type;
  q_empty : Q;
  q_push : entry -> Q -> option Q;               (* None: the error of Push (key exists, no Replace) *)
  q_pop : Q -> option (entry * Q);               (* None: ErrQueueEmpty *)
  q_get : jkey -> Q -> option entry;             (* None: ErrJobNotFound *)
  q_remove : jkey -> Q -> option (entry * Q);    (* None: ErrJobNotFound *)
  q_list : Q -> list entry;                      (* ScheduledJobs(nil) *)
  q_clear : Q -> Q;
  q_wf : Q -> Prop                               (* representation invariant of the implementation *)
}.

(* a keyed min-priority queue: every operation described by its effect on the lookup function *)
Record queue_contract (O : queue_ops) : Prop := {
  qc_empty_wf : q_wf O (q_empty O);
  qc_empty_get : forall k, q_get O k (q_empty O) = None;
  qc_get_key : forall q k e, q_wf O q -> q_get O k q = Some e -> e_key e = k;
  qc_push_ok : forall q e, q_wf O q -> (q_get O (e_key e) q = None \/ e_repl e = true) ->
      exists q', q_push O e q = Some q' /\ q_wf O q' /\
                 forall k, q_get O k q' = if key_eqb k (e_key e) then Some e else q_get O k q;
  qc_push_exists : forall q e, q_wf O q -> q_get O (e_key e) q <> None -> e_repl e = false -> q_push O e q = None;
  qc_remove_some : forall q k e, q_wf O q -> q_get O k q = Some e ->
      exists q', q_remove O k q = Some (e, q') /\ q_wf O q' /\
                 forall k', q_get O k' q' = if key_eqb k' k then None else q_get O k' q;
  qc_remove_none : forall q k, q_wf O q -> q_get O k q = None -> q_remove O k q = None;
  qc_pop_none : forall q, q_wf O q -> q_pop O q = None -> forall k, q_get O k q = None;
  qc_pop_some : forall q e q', q_wf O q -> q_pop O q = Some (e, q') ->
      q_get O (e_key e) q = Some e /\ (forall k e', q_get O k q = Some e' -> e_prio e <= e_prio e') /\
      q_wf O q' /\ forall k', q_get O k' q' = if key_eqb k' (e_key e) then None else q_get O k' q;
  qc_clear_wf : forall q, q_wf O (q_clear O q);
  qc_clear_get : forall q k, q_get O k (q_clear O q) = None;
  qc_list_nodup : forall q, q_wf O q -> NoDup (map e_key (q_list O q));
  qc_list_in : forall q e, q_wf O q -> (In e (q_list O q) <-> q_get O (e_key e) q = Some e)
}.

(* ------------------------------------------------------------------ *)
(* the scheduler over any queue and any family of triggers             *)
(* ------------------------------------------------------------------ *)

Definition cmpZ (op : cmp_op) (a b : Z) : bool :=
  match op with
  | OpGe => b <=? a | OpGt => b <? a | OpLe => a <=? b | OpLt => a <? b
  | OpEq => a =? b | OpNe => negb (a =? b)
  end.

Definition eval_cond (c : vcond) (thr now : Z) (e : entry) : bool :=
  match c with
  | CondSuspended => e_susp e
  | CondPrioVsNowMinusThr op => cmpZ op (e_prio e) (now - thr)
  | CondPrioVsNow op => cmpZ op (e_prio e) now
  end.

(* validateJob: the first branch whose condition holds; the final return otherwise *)
Fixpoint validate_in (bs : list vbranch) (thr now : Z) (e : entry) : vbranch :=
  match bs with
  | [] => validate_default
  | b :: r => if eval_cond (vb_cond b) thr now e then b else validate_in r thr now e
  end.

Definition validate (thr now : Z) (e : entry) : vbranch := validate_in validate_branches thr now e.

Section Sched.
  Variable O : queue_ops.
  Variable tstate : Type.
  (* Trigger.NextFireTime of trigger t in state st: new state, fire time or error *)
  Variable nft : tid -> tstate -> Z -> tstate * (Z + terr).

  Definition tsmap := tid -> tstate.
  Definition upd (ts : tsmap) (t : tid) (v : tstate) : tsmap :=
    fun t' => if Nat.eqb t' t then v else ts t'.

  Definition call_trigger (k : jkey) (t : tid) (prev : Z) (c : cause) (ts : tsmap)
    : tsmap * (Z + terr) * event :=
    let (st', r) := nft t (ts t) prev in (upd ts t st', r, EvTrig k t prev r c).

  (* ---- ScheduleJob, scheduler.go: argument checks and the trigger call (before the locker) ---- *)
  Definition sched_pre (now : Z) (jd : option jobdetail) (tr : option tid) (ts : tsmap)
    : tsmap * list event * (errc + entry) :=
    match jd with
    | None => (ts, [], inl (ESent (nth 0 schedule_arg_sentinels SOther)))
    | Some d =>
      match jd_key d with
      | None => (ts, [], inl (ESent (nth 1 schedule_arg_sentinels SOther)))
      | Some k =>
        if schedule_checks_empty_name && name_empty k
        then (ts, [], inl (ESent (nth 2 schedule_arg_sentinels SOther)))
        else
          match tr with
          | None => (ts, [], inl (ESent (nth 3 schedule_arg_sentinels SOther)))
          | Some t =>
            if schedule_trigger_guard_not_suspended && jd_susp d
            then (ts, [], inr (mkEntry k schedule_park_priority (jd_susp d) (jd_repl d) t))
            else
              let '(ts', r, ev) :=
                  call_trigger k t (if schedule_trigger_reads_clock then now else 0) CSchedule ts in
              match r with
              | inr e => (ts', [ev], inl (ETrig e))
              | inl p => (ts', [ev], inr (mkEntry k p (jd_susp d) (jd_repl d) t))
              end
          end
      end
    end.

  (* ---- ScheduleJob: the part under the locker ---- *)
  Definition sched_commit (e : entry) (q : Q O) : Q O * result :=
    match q_push O e q with
    | Some q' => (q', ROk)
    | None => (q, RErr (ESent queue_push_exists_sentinel))
    end.

  Definition delete (k : option jkey) (q : Q O) : Q O * result :=
    match k with
    | None => (q, RErr (ESent delete_nilkey_sentinel))
    | Some k =>
      match q_remove O k q with
      | Some (_, q') => (q', ROk)
      | None => (q, RErr (ESent queue_remove_missing_sentinel))
      end
    end.

  Definition pause (k : option jkey) (q : Q O) : Q O * result :=
    match k with
    | None => (q, RErr (ESent pause_nilkey_sentinel))
    | Some k =>
      match q_get O k q with
      | None => (q, RErr (ESent queue_get_missing_sentinel))
      | Some job =>
        if e_susp job then (q, RErr (ESent pause_suspended_sentinel))
        else
          match q_remove O k q with
          | None => (q, RErr (ESent queue_remove_missing_sentinel))
          | Some (job', q1) =>
            let paused := mkEntry (e_key job') pause_park_priority pause_sets_suspended (e_repl job') (e_tid job') in
            match q_push O paused q1 with
            | Some q2 => (q2, ROk)
            | None => (q1, RErr (ESent queue_push_exists_sentinel))
            end
          end
      end
    end.

  Definition resume (now : Z) (k : option jkey) (q : Q O) (ts : tsmap)
    : Q O * tsmap * list event * result :=
    match k with
    | None => (q, ts, [], RErr (ESent resume_nilkey_sentinel))
    | Some k =>
      match q_get O k q with
      | None => (q, ts, [], RErr (ESent queue_get_missing_sentinel))
      | Some job =>
        if negb (e_susp job) then (q, ts, [], RErr (ESent resume_active_sentinel))
        else
          let prev := if resume_trigger_reads_clock then now else e_prio job in
          if resume_trigger_before_remove then
            (* ask the trigger first, so that a trigger error leaves the job in place *)
            let '(ts', r, ev) := call_trigger k (e_tid job) prev CResume ts in
            match r with
            | inr e => (q, ts', [ev], RErr (ETrig e))
            | inl p =>
              match q_remove O k q with
              | None => (q, ts', [ev], RErr (ESent queue_remove_missing_sentinel))
              | Some (job', q1) =>
                let resumed := mkEntry (e_key job')
                                 (if resume_priority_is_trigger_result then p else e_prio job')
                                 resume_sets_suspended (e_repl job') (e_tid job') in
                match q_push O resumed q1 with
                | Some q2 => (q2, ts', [ev], ROk)
                | None => (q1, ts', [ev], RErr (ESent queue_push_exists_sentinel))
                end
              end
            end
          else
            (* the order before commit af8a8ba: remove, clear the flag, then ask the trigger *)
            match q_remove O k q with
            | None => (q, ts, [], RErr (ESent queue_remove_missing_sentinel))
            | Some (job', q1) =>
              let '(ts', r, ev) := call_trigger k (e_tid job') prev CResume ts in
              match r with
              | inr e => (q1, ts', [ev], RErr (ETrig e))
              | inl p =>
                let resumed := mkEntry (e_key job')
                                 (if resume_priority_is_trigger_result then p else e_prio job')
                                 resume_sets_suspended (e_repl job') (e_tid job') in
                match q_push O resumed q1 with
                | Some q2 => (q2, ts', [ev], ROk)
                | None => (q1, ts', [ev], RErr (ESent queue_push_exists_sentinel))
                end
              end
            end
      end
    end.

  Definition clear (q : Q O) : Q O * result := (q_clear O q, ROk).

  Definition get (k : option jkey) (q : Q O) : result :=
    match k with
    | None => RErr (ESent get_nilkey_sentinel)
    | Some k =>
      match q_get O k q with
      | Some e => RJob e
      | None => RErr (ESent queue_get_missing_sentinel)
      end
    end.

  Definition keys (q : Q O) : result := RKeys (map e_key (q_list O q)).

  (* one whole API call executed without interference (ScheduleJob = sched_pre ; sched_commit) *)
  Definition api (now : Z) (op : apiop) (q : Q O) (ts : tsmap) : Q O * tsmap * list event * result :=
    match op with
    | OpSchedule jd tr =>
      let '(ts', evs, r) := sched_pre now jd tr ts in
      match r with
      | inl e => (q, ts', evs, RErr e)
      | inr ent => let (q', res) := sched_commit ent q in (q', ts', evs, res)
      end
    | OpDelete k => let (q', r) := delete k q in (q', ts, [], r)
    | OpPause k => let (q', r) := pause k q in (q', ts, [], r)
    | OpResume k => resume now k q ts
    | OpClear => let (q', r) := clear q in (q', ts, [], r)
    | OpGet k => (q, ts, [], get k q)
    | OpKeys => (q, ts, [], keys q)
    end.

  (* ---- the next-run-time extractor returned by validateJob ---- *)
  Definition next_run (b : vbranch) (now : Z) (job : entry) (ts : tsmap) : tsmap * (Z + terr) * list event :=
    match vb_next b with
    | XConst z => (ts, inl z, [])
    | XKeep => (ts, inl (e_prio job), [])
    | XTrigger p =>
      let prev := match p with PrevNow => now | PrevPrio => e_prio job end in
      let '(ts', r, ev) :=
          call_trigger (e_key job) (e_tid job) prev (if vb_valid b then CFetchValid else CFetchRebase) ts in
      (ts', r, [ev])
    end.

  (* ---- fetchAndReschedule of scheduler i (threshold thr) at clock now; id names the dequeue.
     Returns queue, trigger states, events (newest first), the (job, valid) pair handed to
     executeAndReschedule, and whether Reset() was called ---- *)
  Definition fetch (thr now : Z) (id i : nat) (q : Q O) (ts : tsmap)
    : Q O * tsmap * list event * option (entry * bool) * bool :=
    match q_pop O q with
    | None => (q, ts, [], None, false)
    | Some (job, q1) =>
      let b := validate thr now job in
      let valid := vb_valid b in
      let evd := EvDeq id i job valid now in
      let evm := if vb_misfire b then [EvMisfire id (e_key job) (e_prio job)] else [] in
      let '(ts', r, evt) := next_run b now job ts in
      let evs := evt ++ evm ++ [evd] in
      match r with
      | inr _ => (q1, ts', evs, Some (job, valid), false)
      | inl p =>
        let toS := mkEntry (e_key job) (if fetch_priority_is_extractor_result then p else e_prio job)
                           (e_susp job) (e_repl job) (e_tid job) in
        match q_push O toS q1 with
        | Some q2 => (q2, ts', evs, Some (job, valid), fetch_resets_after_push)
        | None => (q1, ts', evs, Some (job, valid), false)
        end
      end
    end.

  (* ---- another process working on the shared queue ---- *)
  Definition foreign (m : fmut) (q : Q O) : Q O :=
    match m with
    | FPush e => match q_push O e q with Some q' => q' | None => q end
    | FRemove k => match q_remove O k q with Some (_, q') => q' | None => q end
    | FClear => q_clear O q
    end.

  (* ---------------------------------------------------------------- *)
  (* transition system: any number of clients and schedulers           *)
  (* ---------------------------------------------------------------- *)

  Variable thr : nat -> Z.     (* OutdatedThreshold of scheduler i *)

  Record pending := mkPend { p_id : nat; p_sched : nat; p_key : jkey; p_prio : Z }.
  Record presched := mkPre { ps_client : nat; ps_jd : option jobdetail; ps_tr : option tid; ps_entry : entry }.

  Record state := mkState {
    s_q : Q O;
    s_ts : tsmap;
    s_now : Z;
    s_log : list event;            (* newest first *)
    s_disp : list pending;         (* valid dequeues whose execution has not started yet *)
    s_pre : list presched;         (* ScheduleJob calls between their trigger call and the locker *)
    s_next : nat                   (* next dequeue id *)
  }.

  Inductive label :=
  | LApi (op : apiop)                                            (* a whole API call *)
  | LSchedPre (c : nat) (jd : option jobdetail) (tr : option tid) (* client c: ScheduleJob up to the locker *)
  | LSchedCommit (c : nat)                                       (* client c: ScheduleJob under the locker *)
  | LFetch (i : nat)                                             (* scheduler i: fetchAndReschedule (any time) *)
  | LExec (id : nat)                                             (* execution of dequeue id starts *)
  | LAdv (dt : Z)                                                (* the clock advances by dt >= 0 *)
  | LForeign (m : fmut).

  Fixpoint find_pend (id : nat) (l : list pending) : option pending :=
    match l with
    | [] => None
    | p :: r => if Nat.eqb (p_id p) id then Some p else find_pend id r
    end.
  Definition drop_pend (id : nat) (l : list pending) : list pending :=
    filter (fun p => negb (Nat.eqb (p_id p) id)) l.
  Fixpoint find_pre (c : nat) (l : list presched) : option presched :=
    match l with
    | [] => None
    | p :: r => if Nat.eqb (ps_client p) c then Some p else find_pre c r
    end.
  Definition drop_pre (c : nat) (l : list presched) : list presched :=
    filter (fun p => negb (Nat.eqb (ps_client p) c)) l.

  Definition step (s : state) (l : label) : option state :=
    match l with
    | LApi op =>
      let '(q', ts', evs, r) := api (s_now s) op (s_q s) (s_ts s) in
      Some (mkState q' ts' (s_now s) (EvApi op r :: evs ++ s_log s) (s_disp s) (s_pre s) (s_next s))
    | LSchedPre c jd tr =>
      match find_pre c (s_pre s) with
      | Some _ => None       (* client c is inside a ScheduleJob call already *)
      | None =>
        let '(ts', evs, r) := sched_pre (s_now s) jd tr (s_ts s) in
        match r with
        | inl e => Some (mkState (s_q s) ts' (s_now s) (EvApi (OpSchedule jd tr) (RErr e) :: evs ++ s_log s)
                                 (s_disp s) (s_pre s) (s_next s))
        | inr ent => Some (mkState (s_q s) ts' (s_now s) (evs ++ s_log s) (s_disp s)
                                   (mkPre c jd tr ent :: s_pre s) (s_next s))
        end
      end
    | LSchedCommit c =>
      match find_pre c (s_pre s) with
      | None => None
      | Some p =>
        let (q', r) := sched_commit (ps_entry p) (s_q s) in
        Some (mkState q' (s_ts s) (s_now s) (EvApi (OpSchedule (ps_jd p) (ps_tr p)) r :: s_log s)
                      (s_disp s) (drop_pre c (s_pre s)) (s_next s))
      end
    | LFetch i =>
      let '(q', ts', evs, ret, _) := fetch (thr i) (s_now s) (s_next s) i (s_q s) (s_ts s) in
      let disp := match ret with
                  | Some (job, valid) =>
                    if valid || negb exec_guard_valid
                    then mkPend (s_next s) i (e_key job) (e_prio job) :: s_disp s else s_disp s
                  | None => s_disp s
                  end in
      Some (mkState q' ts' (s_now s) (evs ++ s_log s) disp (s_pre s) (S (s_next s)))
    | LExec id =>
      match find_pend id (s_disp s) with
      | None => None
      | Some p =>
        Some (mkState (s_q s) (s_ts s) (s_now s) (EvExec id (p_key p) (p_prio p) (s_now s) :: s_log s)
                      (drop_pend id (s_disp s)) (s_pre s) (s_next s))
      end
    | LAdv dt =>
      if dt <? 0 then None
      else Some (mkState (s_q s) (s_ts s) (s_now s + dt) (s_log s) (s_disp s) (s_pre s) (s_next s))
    | LForeign m =>
      Some (mkState (foreign m (s_q s)) (s_ts s) (s_now s) (EvForeign m :: s_log s) (s_disp s) (s_pre s) (s_next s))
    end.

  Fixpoint run (s : state) (tr : list label) : option state :=
    match tr with
    | [] => Some s
    | l :: tr' => match step s l with Some s' => run s' tr' | None => None end
    end.

  Definition init (ts0 : tsmap) (now0 : Z) : state := mkState (q_empty O) ts0 now0 [] [] [] 0%nat.

  (* sequential use of the API: each call with the clock reading it is made at *)
  Fixpoint api_run (ops : list (Z * apiop)) (q : Q O) (ts : tsmap) : list result * Q O * tsmap :=
    match ops with
    | [] => ([], q, ts)
    | (now, op) :: r =>
      let '(q', ts', _, res) := api now op q ts in
      let '(outs, q'', ts'') := api_run r q' ts' in
      (res :: outs, q'', ts'')
    end.
End Sched.
