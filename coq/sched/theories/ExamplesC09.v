(* Non-vacuity for C09. *)
From Coq Require Import ZArith List Bool String.
Require Import QzSched.Gen.Params QzSched.SchedModel QzSched.Registry QzSched.ListQueue QzSched.Triggers QzSched.ExampleDefs.
Import ListNotations.
Open Scope string_scope.
Open Scope Z_scope.

(* C09: every sentinel occurs in a sequential run; the error calls leave the registry as it was *)
Definition ops_c09 : list (Z * apiop) :=
  [ (100, OpSchedule None (Some 0%nat));                              (* IllegalArgument *)
    (100, OpSchedule (jd ("", "g") false false) (Some 0%nat));        (* IllegalArgument: empty name *)
    (100, OpSchedule (jd ka false false) (Some 0%nat));               (* Ok *)
    (101, OpSchedule (jd ka false false) (Some 3%nat));               (* AlreadyExists *)
    (102, OpSchedule (jd ka true true) (Some 1%nat));                 (* Ok: replaced, suspended, run-once *)
    (103, OpPause (Some ka));                                         (* IsSuspended *)
    (104, OpResume (Some ka));                                        (* Ok: 104 + 5 *)
    (105, OpResume (Some ka));                                        (* IsActive *)
    (106, OpPause (Some ka));                                         (* Ok *)
    (107, OpResume (Some ka));                                        (* trigger expired: stays paused *)
    (108, OpGet (Some ka));
    (109, OpDelete (Some kb));                                        (* NotFound *)
    (110, OpSchedule (jd kb false false) (Some 2%nat));               (* the trigger's own error *)
    (111, OpKeys); (112, OpClear); (113, OpKeys); (114, OpDelete None) ].
Example ex_c09_run : fst (fst (api_run list_queue xstate nft_exec ops_c09 [] ts0)) =
  [ RErr (ESent SIllegalArgument); RErr (ESent SIllegalArgument); ROk; RErr (ESent SJobAlreadyExists); ROk;
    RErr (ESent SJobIsSuspended); ROk; RErr (ESent SJobIsActive); ROk; RErr (ETrig 0%nat);
    RJob (mkEntry ka go_MaxInt64 true true 1%nat); RErr (ESent SJobNotFound); RErr (ETrig 7%nat);
    RKeys [ka]; ROk; RKeys []; RErr (ESent SIllegalArgument) ].
Proof. vm_compute. reflexivity. Qed.

(* the same calls on the sorted queue give the same results *)
Example ex_c09_sorted : fst (fst (api_run sorted_queue xstate nft_exec ops_c09 [] ts0)) =
                        fst (fst (api_run list_queue xstate nft_exec ops_c09 [] ts0)).
Proof. vm_compute. reflexivity. Qed.


(* C09: a trigger whose next fire time is math.MaxInt64 ("never") -- the value suspended entries are parked at. The job is
   ACTIVE: ResumeJob answers ErrJobIsActive, PauseJob succeeds, only then PauseJob answers ErrJobIsSuspended; after the
   resume it is active again at MaxInt64 (the same on both queue instances) *)
Definition ts_never : tid -> xstate := fun t => match t with 4%nat => TScript [] (inl go_MaxInt64) | _ => ts0 t end.
Definition ops_c09_never : list (Z * apiop) :=
  [ (100, OpSchedule (jd ka false false) (Some 4%nat)); (101, OpGet (Some ka)); (102, OpResume (Some ka)); (103, OpPause (Some ka));
    (104, OpPause (Some ka)); (105, OpResume (Some ka)); (106, OpGet (Some ka)); (107, OpResume (Some ka)) ].
Example ex_c09_never : fst (fst (api_run list_queue xstate nft_exec ops_c09_never [] ts_never)) =
  [ ROk; RJob (mkEntry ka go_MaxInt64 false false 4%nat); RErr (ESent SJobIsActive); ROk;
    RErr (ESent SJobIsSuspended); ROk; RJob (mkEntry ka go_MaxInt64 false false 4%nat); RErr (ESent SJobIsActive) ] /\
  fst (fst (api_run sorted_queue xstate nft_exec ops_c09_never [] ts_never)) =
  fst (fst (api_run list_queue xstate nft_exec ops_c09_never [] ts_never)).
Proof. vm_compute. split; reflexivity. Qed.
