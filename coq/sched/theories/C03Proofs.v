(* C03 and the accounting part of C04, read off the invariant. *)
From Coq Require Import ZArith List Bool String Lia.
Require Import QzSched.Gen.Params QzSched.SchedModel QzSched.Registry QzSched.ApiProofs QzSched.WfProofs QzSched.FetchProofs
               QzSched.LtsDefs QzSched.LtsProofs.
Import ListNotations.
Open Scope Z_scope.

Lemma exec_ids_app : forall l1 l2, exec_ids (l1 ++ l2) = exec_ids l1 ++ exec_ids l2.
Proof. induction l1 as [|ev l1 IH]; intros l2; simpl; [reflexivity|]. destruct ev; simpl; rewrite ?IH; reflexivity. Qed.
Lemma deq_ids_app : forall l1 l2, deq_ids (l1 ++ l2) = deq_ids l1 ++ deq_ids l2.
Proof. induction l1 as [|ev l1 IH]; intros l2; simpl; [reflexivity|]. destruct ev; simpl; rewrite ?IH; reflexivity. Qed.

Lemma nodup_app_mid : forall (l1 l2 : list nat) x, NoDup (l1 ++ x :: l2) -> ~ In x l1 /\ ~ In x l2.
Proof.
  intros l1 l2 x H. apply NoDup_remove_2 in H. split; intros Hin; apply H; apply in_or_app; auto.
Qed.

Section C03.
  Variable O : queue_ops.
  Hypothesis HC : queue_contract O.
  Variable tstate : Type.
  Variable nft : tid -> tstate -> Z -> tstate * (Z + terr).
  Variable thr : nat -> Z.
  Notation run := (run O tstate nft thr).
  Notation init := (init O tstate).
  Notation s_log := (s_log O tstate).
  Notation s_q := (s_q O tstate).
  Notation s_pre := (s_pre O tstate).

  Lemma reachable_inv : forall ts0 now0 tr s, run (init ts0 now0) tr = Some s -> Inv O tstate s.
  Proof. intros ts0 now0 tr s H. eapply (inv_run O HC tstate nft thr); [|exact H]. apply (inv_init O HC tstate nft thr). Qed.

  (* every execution start is matched by id to an earlier valid dequeue of the same job and fire time
     that was due when it was dequeued; no other execution, earlier or later, uses that dequeue *)
  Theorem exec_has_unique_due_fetch : forall ts0 now0 tr s, run (init ts0 now0) tr = Some s ->
    forall l1 id k p t l2, s_log s = l1 ++ EvExec id k p t :: l2 ->
      (exists i e now', In (EvDeq id i e true now') l2 /\ e_key e = k /\ e_prio e = p /\ p <= now' /\ now' <= t) /\
      ~ In id (exec_ids l2) /\ ~ In id (exec_ids l1).
  Proof.
    intros ts0 now0 tr s Hr l1 id k p t l2 E. pose proof (inv_log _ _ _ (reachable_inv _ _ _ _ Hr)) as Hl.
    rewrite E in Hl. pose proof (log_ok_suffix _ _ Hl) as Hs. simpl in Hs. destruct Hs as (H1 & H2 & _).
    split; [assumption|]. split; [assumption|].
    apply log_ok_nodup in Hl. destruct Hl as [_ Hn]. rewrite exec_ids_app in Hn. simpl in Hn.
    apply nodup_app_mid in Hn. tauto.
  Qed.

  (* dequeue ids are unique, so the matching above is an injection from executions to dequeues *)
  Theorem dequeue_ids_unique : forall ts0 now0 tr s, run (init ts0 now0) tr = Some s ->
    NoDup (deq_ids (s_log s)) /\ NoDup (exec_ids (s_log s)).
  Proof. intros ts0 now0 tr s Hr. apply log_ok_nodup. apply (inv_log _ _ _ (reachable_inv _ _ _ _ Hr)). Qed.

  (* a valid dequeue took an active entry that was due and whose fire time had been produced before:
     returned by its own trigger when asked for this job, or written by another process *)
  Theorem valid_dequeue_has_fire_time : forall ts0 now0 tr s, run (init ts0 now0) tr = Some s ->
    forall l1 id i e now' l2, s_log s = l1 ++ EvDeq id i e true now' :: l2 ->
      e_susp e = false /\ e_prio e <= now' /\ produced l2 (e_key e) (e_tid e) (e_prio e).
  Proof.
    intros ts0 now0 tr s Hr l1 id i e now' l2 E. pose proof (inv_log _ _ _ (reachable_inv _ _ _ _ Hr)) as Hl.
    rewrite E in Hl. apply log_ok_suffix in Hl. simpl in Hl. destruct Hl as (_ & H & _). apply H. reflexivity.
  Qed.

  (* C04: every priority in the queue (and in a ScheduleJob call on its way to the locker) is a result of the
     job's own trigger, MaxInt64 while paused, or foreign *)
  Theorem fire_time_accounting : forall ts0 now0 tr s, run (init ts0 now0) tr = Some s ->
    (forall k e, q_get O k (s_q s) = Some e -> entry_ok (s_log s) e) /\
    (forall p, In p (s_pre s) -> entry_ok (s_log s) (ps_entry p)).
  Proof.
    intros ts0 now0 tr s Hr. pose proof (reachable_inv _ _ _ _ Hr) as HI. split; [apply (inv_entries _ _ _ HI)|apply (inv_pre _ _ _ HI)].
  Qed.

End C03.
