(* C09: the API functions refine the sequential registry specification. *)
From Coq Require Import ZArith List Bool String Lia.
Require Import QzSched.Gen.Params QzSched.SchedModel QzSched.Registry QzSched.ApiProofs.
Import ListNotations.
Open Scope Z_scope.

(* ---------- the generated lock / ordering facts (C09_bodies_locked) ---------- *)
Lemma p_all_locked : all_bodies_locked = true. Proof. reflexivity. Qed.
Lemma p_api_reset : api_mutations_reset = true. Proof. reflexivity. Qed.
Lemma p_fetch_reset : fetch_resets_after_push = true. Proof. reflexivity. Qed.
Lemma p_sched_before_lock : schedule_trigger_before_lock = true. Proof. reflexivity. Qed.
Lemma p_pause_order : pause_get_remove_push = true. Proof. reflexivity. Qed.
Lemma p_fetch_order : fetch_pop_validate_push = true. Proof. reflexivity. Qed.

Lemma r_lookup_remove : forall k k' r, r_lookup k' (r_remove k r) = if key_eqb k' k then None else r_lookup k' r.
Proof.
  intros k k' r. induction r as [|[a v] r IH]; simpl.
  - destruct (key_eqb k' k); reflexivity.
  - destruct (key_eqb a k) eqn:E; simpl.
    + apply key_eqb_eq in E. subst a. rewrite IH. destruct (key_eqb k' k); reflexivity.
    + destruct (key_eqb k' a) eqn:E2.
      * apply key_eqb_eq in E2. subst a. rewrite E. reflexivity.
      * exact IH.
Qed.

Lemma r_lookup_set : forall k v k' r, r_lookup k' (r_set k v r) = if key_eqb k' k then Some v else r_lookup k' r.
Proof.
  intros. unfold r_set. simpl. destruct (key_eqb k' k) eqn:E; [reflexivity|].
  rewrite r_lookup_remove, E. reflexivity.
Qed.

Lemma r_keys_in : forall k r, In k (r_keys r) <-> r_lookup k r <> None.
Proof.
  intros k r. induction r as [|[a v] r IH]; simpl.
  - split; [tauto|congruence].
  - destruct (key_eqb k a) eqn:E.
    + apply key_eqb_eq in E. subst. split; [congruence|auto].
    + apply key_eqb_neq in E. rewrite <- IH. split; [intros [H|H]; [congruence|auto]|auto].
Qed.

Lemma r_remove_keys_in : forall k k' r, In k' (r_keys (r_remove k r)) -> In k' (r_keys r) /\ k' <> k.
Proof.
  intros k k' r H. apply r_keys_in in H. rewrite r_lookup_remove in H.
  destruct (key_eqb k' k) eqn:E; [congruence|]. apply key_eqb_neq in E. split; [apply r_keys_in|]; assumption.
Qed.

Lemma r_remove_nodup : forall k r, NoDup (r_keys r) -> NoDup (r_keys (r_remove k r)).
Proof.
  intros k r. induction r as [|[a v] r IH]; simpl; intros H; [constructor|].
  inversion H as [|? ? Hn Hd]; subst. destruct (key_eqb a k); simpl; auto.
  constructor; auto. intros Hin. apply r_remove_keys_in in Hin. tauto.
Qed.

Lemma r_set_nodup : forall k v r, NoDup (r_keys r) -> NoDup (r_keys (r_set k v r)).
Proof.
  intros k v r H. unfold r_set. simpl. constructor; [|apply r_remove_nodup; assumption].
  intros Hin. apply r_remove_keys_in in Hin. tauto.
Qed.

Section Refine.
  Variable O : queue_ops.
  Hypothesis HC : queue_contract O.
  Variable tstate : Type.
  Variable nft : tid -> tstate -> Z -> tstate * (Z + terr).
  Notation tsmap := (tid -> tstate).

  Lemma refines_empty : refines O (q_empty O) [].
  Proof.
    split; [apply (qc_empty_wf O HC)|]. split; [constructor|]. intros k. rewrite (qc_empty_get O HC). reflexivity.
  Qed.

  Lemma refines_set : forall q q' r k e, refines O q r -> q_wf O q' -> lookup_set O q q' k (Some e) ->
    refines O q' (r_set k (proj e) r).
  Proof.
    intros q q' r k e (Hw & Hn & Hl) Hw' Hs. split; [assumption|]. split; [apply r_set_nodup; assumption|].
    intros k'. rewrite Hs, r_lookup_set. destruct (key_eqb k' k); [reflexivity|apply Hl].
  Qed.

  Lemma refines_remove : forall q q' r k, refines O q r -> q_wf O q' -> lookup_set O q q' k None ->
    refines O q' (r_remove k r).
  Proof.
    intros q q' r k (Hw & Hn & Hl) Hw' Hs. split; [assumption|]. split; [apply r_remove_nodup; assumption|].
    intros k'. rewrite Hs, r_lookup_remove. destruct (key_eqb k' k); [reflexivity|apply Hl].
  Qed.

  Lemma keys_match : forall q r, refines O q r ->
    NoDup (map e_key (q_list O q)) /\ forall k, In k (map e_key (q_list O q)) <-> In k (r_keys r).
  Proof.
    intros q r (Hw & Hn & Hl). split; [apply (qc_list_nodup O HC); assumption|].
    intros k. rewrite r_keys_in, <- Hl. split.
    - intros Hin. apply in_map_iff in Hin. destruct Hin as (e & <- & Hin).
      apply (qc_list_in O HC q e Hw) in Hin. rewrite Hin. simpl. congruence.
    - intros Hne. destruct (q_get O k q) as [e|] eqn:G; [|simpl in Hne; congruence].
      pose proof (qc_get_key O HC q k e Hw G) as Hk. subst k.
      apply in_map. apply (qc_list_in O HC q e Hw). assumption.
  Qed.

  Local Hint Extern 1 (res_match _ _) => simpl : core.

  (* one call: same result, related states, same trigger states *)
  Lemma api_sim : forall now op q ts r q' ts' evs res,
    refines O q r -> api O tstate nft now op q ts = (q', ts', evs, res) ->
    let '(r', sts', sres) := spec_api tstate nft now op r ts in
    refines O q' r' /\ ts' = sts' /\ res_match res sres.
  Proof.
    intros now op q ts r q' ts' evs res HR H. pose proof HR as (Hwf & Hnd & Hl).
    destruct op as [jd tr|k|k|k| |k| ].
    - (* ScheduleJob *)
      simpl in H. destruct (sched_pre tstate nft now jd tr ts) as [[ts1 evs1] r1] eqn:P.
      pose proof (sched_pre_spec tstate nft now jd tr ts ts1 evs1 r1 P) as SP.
      assert (Hins : forall k v repl ent, e_key ent = k -> proj ent = v -> e_repl ent = repl ->
                 forall q1 res1, sched_commit O ent q = (q1, res1) ->
                 let (r', sres) := spec_insert k v repl r in refines O q1 r' /\ res_match res1 sres).
      { intros k v repl ent Hk Hv Hrp q1 res1 Cm. pose proof (sched_commit_spec O HC ent q q1 res1 Hwf Cm) as S.
        unfold spec_insert. rewrite <- Hl, <- Hk. destruct (q_get O (e_key ent) q) as [x|]; simpl.
        - rewrite <- Hrp. destruct (e_repl ent).
          + destruct S as (-> & Hw & Hs). split; [|exact I]. rewrite <- Hv. eapply refines_set; eauto.
          + destruct S as (-> & ->). split; [assumption|reflexivity].
        - destruct S as (-> & Hw & Hs). split; [|exact I]. rewrite <- Hv. eapply refines_set; eauto. }
      unfold sched_args, arg_check_index in SP. simpl.
      destruct jd as [d|].
      2:{ destruct SP as (-> & -> & ->). injection H as <- <- _ <-. destruct tr; simpl; auto. }
      destruct tr as [t|].
      2:{ assert (SP' : ts1 = ts /\ evs1 = [] /\ r1 = inl (ESent SIllegalArgument)).
          { destruct (jd_key d) as [k|]; [destruct (name_empty k)|]; exact SP. }
          destruct SP' as (-> & -> & ->). injection H as <- <- _ <-. auto. }
      destruct (jd_key d) as [k|].
      2:{ destruct SP as (-> & -> & ->). injection H as <- <- _ <-. auto. }
      destruct (name_empty k).
      { destruct SP as (-> & -> & ->). injection H as <- <- _ <-. auto. }
      destruct (jd_susp d).
      + destruct SP as (-> & -> & ->). destruct (sched_commit O _ q) as [q1 res1] eqn:Cm.
        injection H as <- <- _ <-.
        specialize (Hins k (mkR true go_MaxInt64 t) (jd_repl d) (mkEntry k go_MaxInt64 true (jd_repl d) t) eq_refl eq_refl eq_refl q1 res1 Cm).
        destruct (spec_insert k (mkR true go_MaxInt64 t) (jd_repl d) r) as [r' sres]. tauto.
      + destruct (nft t (ts t) now) as [st' [p|err]]; destruct SP as (-> & -> & ->).
        * destruct (sched_commit O _ q) as [q1 res1] eqn:Cm. injection H as <- <- _ <-.
          specialize (Hins k (mkR false p t) (jd_repl d) (mkEntry k p false (jd_repl d) t) eq_refl eq_refl eq_refl q1 res1 Cm).
          destruct (spec_insert k (mkR false p t) (jd_repl d) r) as [r' sres]. tauto.
        * injection H as <- <- _ <-. auto.
    - (* DeleteJob *)
      simpl in H. destruct (delete O k q) as [q1 res1] eqn:D. injection H as <- <- _ <-.
      pose proof (delete_spec O HC k q q1 res1 Hwf D) as S. destruct k as [k|]; simpl.
      + rewrite <- Hl. destruct (q_get O k q); simpl.
        * destruct S as (-> & Hw & Hs). split; [eapply refines_remove; eauto|auto].
        * destruct S as (-> & ->). auto.
      + destruct S as (-> & ->). auto.
    - (* PauseJob *)
      simpl in H. destruct (pause O k q) as [q1 res1] eqn:D. injection H as <- <- _ <-.
      pose proof (pause_spec O HC k q q1 res1 Hwf D) as S. destruct k as [k|]; simpl.
      + rewrite <- Hl. destruct (q_get O k q) as [e|]; simpl.
        * destruct (e_susp e).
          -- destruct S as (-> & ->). auto.
          -- destruct S as (-> & Hw & Hs). split; [|auto].
             change (mkR true go_MaxInt64 (e_tid e)) with (proj (parked e)). eapply refines_set; eauto.
        * destruct S as (-> & ->). auto.
      + destruct S as (-> & ->). auto.
    - (* ResumeJob *)
      simpl in H. pose proof (resume_spec O HC tstate nft now k q ts q' ts' evs res Hwf H) as S.
      destruct k as [k|]; simpl.
      + rewrite <- Hl. destruct (q_get O k q) as [e|]; simpl.
        * destruct (negb (e_susp e)).
          -- destruct S as (-> & -> & _ & ->). auto.
          -- destruct (nft (e_tid e) (ts (e_tid e)) now) as [st' [p|err]]; destruct S as (-> & _ & S).
             ++ destruct S as (-> & Hw & Hs). split; [|auto].
                change (mkR false p (e_tid e)) with (proj (resumed e p)). eapply refines_set; eauto.
             ++ destruct S as (-> & ->). auto.
        * destruct S as (-> & -> & _ & ->). auto.
      + destruct S as (-> & -> & _ & ->). auto.
    - (* Clear *)
      simpl in H. injection H as <- <- _ <-. simpl. split; [|auto].
      split; [apply (qc_clear_wf O HC)|]. split; [constructor|]. intros k. rewrite (qc_clear_get O HC). reflexivity.
    - (* GetScheduledJob *)
      simpl in H. injection H as <- <- _ <-. destruct k as [k|]; simpl; [|auto].
      rewrite <- Hl. destruct (q_get O k q) as [e|] eqn:G; simpl; [|auto].
      split; [assumption|]. split; [reflexivity|]. split; [|reflexivity]. apply (qc_get_key O HC q k e Hwf G).
    - (* GetJobKeys *)
      simpl in H. injection H as <- <- _ <-. simpl. split; [assumption|]. split; [reflexivity|].
      apply keys_match. assumption.
  Qed.

  (* any sequence of calls *)
  Lemma api_refines_registry_gen : forall ops q ts r, refines O q r ->
    let '(outs, q', ts') := api_run O tstate nft ops q ts in
    let '(souts, r', sts') := spec_run tstate nft ops r ts in
    Forall2 res_match outs souts /\ refines O q' r' /\ ts' = sts'.
  Proof.
    induction ops as [|[now op] ops IH]; intros q ts r HR; simpl.
    - auto.
    - destruct (api O tstate nft now op q ts) as [[[q1 ts1] evs1] res1] eqn:A.
      pose proof (api_sim now op q ts r q1 ts1 evs1 res1 HR A) as S.
      destruct (spec_api tstate nft now op r ts) as [[r1 sts1] sres1]. destruct S as (HR1 & <- & Hm).
      specialize (IH q1 ts1 r1 HR1).
      destruct (api_run O tstate nft ops q1 ts1) as [[outs q2] ts2].
      destruct (spec_run tstate nft ops r1 ts1) as [[souts r2] sts2].
      destruct IH as (Hf & HR2 & ->). auto.
  Qed.

  Lemma api_refines_registry : forall ops ts,
    let '(outs, q', ts') := api_run O tstate nft ops (q_empty O) ts in
    let '(souts, r', sts') := spec_run tstate nft ops [] ts in
    Forall2 res_match outs souts /\ refines O q' r' /\ ts' = sts'.
  Proof. intros ops ts. apply api_refines_registry_gen. apply refines_empty. Qed.
End Refine.

(* ---------- C09: each documented sentinel exactly when its precondition fails ---------- *)
Ltac unfold_sent := unfold delete_nilkey_sentinel, pause_nilkey_sentinel, resume_nilkey_sentinel, get_nilkey_sentinel,
  queue_remove_missing_sentinel, queue_get_missing_sentinel, queue_push_exists_sentinel,
  pause_suspended_sentinel, resume_active_sentinel in *.

Lemma arg_sentinel_any : forall jd tr, nth (arg_check_index jd tr) schedule_arg_sentinels SOther = SIllegalArgument.
Proof.
  intros jd tr. unfold arg_check_index. destruct jd as [d|]; [|reflexivity].
  destruct (jd_key d) as [k|]; [|reflexivity]. destruct (name_empty k); reflexivity.
Qed.

Section Sentinels.
  Variable O : queue_ops.
  Hypothesis HC : queue_contract O.
  Variable tstate : Type.
  Variable nft : tid -> tstate -> Z -> tstate * (Z + terr).
  Notation tsmap := (tid -> tstate).

  Definition present (k : jkey) (q : Q O) : bool := match q_get O k q with Some _ => true | None => false end.

  (* the documented precondition table *)
  Definition expected_error (now : Z) (op : apiop) (q : Q O) (ts : tsmap) : option errc :=
    match op with
    | OpSchedule jd tr =>
      match sched_args jd tr with
      | None => Some (ESent SIllegalArgument)                      (* nil job detail / nil key / empty name / nil trigger *)
      | Some (k, d, t) =>
        let exists_err := if present k q && negb (jd_repl d) then Some (ESent SJobAlreadyExists) else None in
        if jd_susp d then exists_err
        else match snd (nft t (ts t) now) with
             | inr e => Some (ETrig e)                             (* the trigger's own error *)
             | inl _ => exists_err
             end
      end
    | OpDelete None | OpPause None | OpResume None | OpGet None => Some (ESent SIllegalArgument)
    | OpDelete (Some k) | OpGet (Some k) => if present k q then None else Some (ESent SJobNotFound)
    | OpPause (Some k) =>
      match q_get O k q with
      | None => Some (ESent SJobNotFound)
      | Some e => if e_susp e then Some (ESent SJobIsSuspended) else None
      end
    | OpResume (Some k) =>
      match q_get O k q with
      | None => Some (ESent SJobNotFound)
      | Some e => if negb (e_susp e) then Some (ESent SJobIsActive)
                  else match snd (nft (e_tid e) (ts (e_tid e)) now) with
                       | inr err => Some (ETrig err)
                       | inl _ => None
                       end
      end
    | OpClear | OpKeys => None
    end.

  Lemma sentinel_iff : forall now op q ts q' ts' evs res, q_wf O q ->
    api O tstate nft now op q ts = (q', ts', evs, res) ->
    forall e, res = RErr e <-> expected_error now op q ts = Some e.
  Proof.
    intros now op q ts q' ts' evs res Hwf H e.
    destruct op as [jd tr|k|k|k| |k| ]; simpl in H; unfold expected_error.

    - destruct (sched_pre tstate nft now jd tr ts) as [[ts1 evs1] r1] eqn:P.
      pose proof (sched_pre_spec tstate nft now jd tr ts ts1 evs1 r1 P) as SP. rewrite arg_sentinel_any in SP.
      assert (Hc : forall ent q1 res1, sched_commit O ent q = (q1, res1) ->
                (res1 = RErr e <-> (if present (e_key ent) q && negb (e_repl ent) then Some (ESent SJobAlreadyExists) else None) = Some e)).
      { intros ent q1 res1 Cm. pose proof (sched_commit_spec O HC ent q q1 res1 Hwf Cm) as S. unfold present. unfold_sent.
        destruct (q_get O (e_key ent) q); [destruct (e_repl ent)|]; simpl.
        - destruct S as (-> & _). split; discriminate.
        - destruct S as (_ & ->). split; congruence.
        - destruct S as (-> & _). split; discriminate. }
      destruct (sched_args jd tr) as [[[k d] t]|].
      + destruct (jd_susp d).
        * destruct SP as (-> & -> & ->). destruct (sched_commit O _ q) as [q1 res1] eqn:Cm.
          injection H as _ _ _ <-. apply (Hc _ _ _ Cm).
        * destruct (nft t (ts t) now) as [st' [p|err]]; destruct SP as (-> & -> & ->); simpl.
          -- destruct (sched_commit O _ q) as [q1 res1] eqn:Cm. injection H as _ _ _ <-. apply (Hc _ _ _ Cm).
          -- injection H as _ _ _ <-. split; congruence.
      + destruct SP as (-> & -> & ->). injection H as _ _ _ <-. split; congruence.
    - destruct (delete O k q) as [q1 res1] eqn:D. injection H as _ _ _ <-.
      pose proof (delete_spec O HC k q q1 res1 Hwf D) as S. unfold_sent. destruct k as [k|]; unfold present.
      + destruct (q_get O k q).
        * destruct S as (-> & _). split; discriminate.
        * destruct S as (_ & ->). split; congruence.
      + destruct S as (_ & ->). split; congruence.
    - destruct (pause O k q) as [q1 res1] eqn:D. injection H as _ _ _ <-.
      pose proof (pause_spec O HC k q q1 res1 Hwf D) as S. unfold_sent. destruct k as [k|].
      + destruct (q_get O k q) as [x|]; [destruct (e_susp x)|].
        * destruct S as (_ & ->). split; congruence.
        * destruct S as (-> & _). split; discriminate.
        * destruct S as (_ & ->). split; congruence.
      + destruct S as (_ & ->). split; congruence.
    - pose proof (resume_spec O HC tstate nft now k q ts q' ts' evs res Hwf H) as S. unfold_sent. destruct k as [k|].
      + destruct (q_get O k q) as [x|]; [destruct (negb (e_susp x))|].
        * destruct S as (_ & _ & _ & ->). split; congruence.
        * destruct (nft (e_tid x) (ts (e_tid x)) now) as [st' [p|err]]; destruct S as (_ & _ & S); simpl.
          -- destruct S as (-> & _). split; discriminate.
          -- destruct S as (_ & ->). split; congruence.
        * destruct S as (_ & _ & _ & ->). split; congruence.
      + destruct S as (_ & _ & _ & ->). split; congruence.
    - unfold clear in H. injection H as _ _ _ <-. split; discriminate.
    - injection H as _ _ _ <-. unfold get, present, queue_get_missing_sentinel, get_nilkey_sentinel. destruct k as [k|].
      + destruct (q_get O k q); split; (discriminate || congruence).
      + split; congruence.
    - injection H as _ _ _ <-. unfold keys. split; discriminate.
  Qed.

  (* the state preconditions of PauseJob / ResumeJob go by the Suspended flag of the registered entry alone, whatever its
     fire time is: an ACTIVE entry whose trigger returned math.MaxInt64 (the value suspended entries are parked at) is
     not taken for a suspended one -- PauseJob does not fail on it, ResumeJob answers ErrJobIsActive -- and a suspended
     entry is recognised at any priority a foreign writer may have given it *)
  Lemma state_errors_by_flag : forall now k q ts x, q_wf O q -> q_get O k q = Some x ->
    (forall q' ts' evs res, api O tstate nft now (OpPause (Some k)) q ts = (q', ts', evs, res) ->
       forall e, res = RErr e <-> (e_susp x = true /\ e = ESent SJobIsSuspended)) /\
    (forall q' ts' evs res, api O tstate nft now (OpResume (Some k)) q ts = (q', ts', evs, res) ->
       (e_susp x = false -> res = RErr (ESent SJobIsActive)) /\
       (res = RErr (ESent SJobIsActive) -> e_susp x = false)).
  Proof.
    intros now k q ts x Hwf G. split; intros q' ts' evs res H.
    - intro e. rewrite (sentinel_iff now _ q ts q' ts' evs res Hwf H e). simpl. rewrite G.
      destruct (e_susp x); split.
      + intro E. injection E as <-. split; reflexivity.
      + intros [_ ->]. reflexivity.
      + discriminate.
      + intros [E _]. discriminate.
    - pose proof (sentinel_iff now _ q ts q' ts' evs res Hwf H (ESent SJobIsActive)) as S. simpl in S. rewrite G in S.
      destruct (e_susp x); simpl in S; split.
      + discriminate.
      + intro E. apply S in E. destruct (snd (nft (e_tid x) (ts (e_tid x)) now)); discriminate.
      + intros _. apply S. reflexivity.
      + reflexivity.
  Qed.
End Sentinels.
