(* C08: pause / delete / clear stop the consumption of fire times; resume re-bases. *)
From Coq Require Import ZArith List Bool String Lia.
Require Import QzSched.Gen.Params QzSched.SchedModel QzSched.Registry QzSched.ApiProofs QzSched.WfProofs QzSched.FetchProofs
               QzSched.LtsDefs QzSched.LtsProofs.
Import ListNotations.
Open Scope Z_scope.

Section C08.
  Variable O : queue_ops.
  Hypothesis HC : queue_contract O.
  Variable tstate : Type.
  Variable nft : tid -> tstate -> Z -> tstate * (Z + terr).
  Variable thr : nat -> Z.
  Notation tsmap := (tid -> tstate).
  Notation state := (state O tstate).
  Notation step := (step O tstate nft thr).
  Notation run := (run O tstate nft thr).
  Notation s_q := (s_q O tstate).
  Notation s_ts := (s_ts O tstate).
  Notation s_now := (s_now O tstate).
  Notation s_log := (s_log O tstate).
  Notation s_disp := (s_disp O tstate).
  Notation s_pre := (s_pre O tstate).
  Notation s_next := (s_next O tstate).

  (* job k is not firing: absent or suspended, and no ScheduleJob call for k is on its way to the locker *)
  Definition inactive (k : jkey) (s : state) : Prop :=
    match q_get O k (s_q s) with None => True | Some e => e_susp e = true end /\
    forall p, In p (s_pre s) -> e_key (ps_entry p) <> k.

  Definition step_claim (k : jkey) (s s' : state) (new : list event) : Prop :=
    s_log s' = new ++ s_log s /\
    Forall (fun ev => ~ consumes k ev) new /\
    (forall ev id, In ev new -> exec_of k ev = Some id -> exists pd, In pd (s_disp s) /\ p_id pd = id /\ p_key pd = k) /\
    inactive k s' /\
    (forall pd, In pd (s_disp s') -> p_key pd = k -> In pd (s_disp s)).

  Lemma sched_pre_key : forall now jd tr ts ts' evs ent, sched_pre tstate nft now jd tr ts = (ts', evs, inr ent) ->
    sched_key jd = Some (e_key ent) /\ (evs = [] \/ exists t prev fire c, evs = [EvTrig (e_key ent) t prev fire c]).
  Proof.
    intros now jd tr ts ts' evs ent P. pose proof (sched_pre_spec tstate nft _ _ _ _ _ _ _ P) as SP.
    destruct (sched_args jd tr) as [[[k d] t]|] eqn:Ha.
    - pose proof (sched_args_key _ _ _ _ _ Ha) as Hk. destruct (jd_susp d).
      + destruct SP as (_ & -> & E). injection E as ->. auto.
      + destruct (nft t (ts t) now) as [st' [p|err]]; destruct SP as (_ & -> & E); [|discriminate].
        injection E as ->. split; [assumption|]. right. simpl. eauto.
    - destruct SP as (_ & _ & E). discriminate.
  Qed.

  Lemma sched_pre_err_evs : forall now jd tr ts ts' evs e, sched_pre tstate nft now jd tr ts = (ts', evs, inl e) ->
    evs = [] \/ exists k t prev fire c, sched_key jd = Some k /\ evs = [EvTrig k t prev fire c].
  Proof.
    intros now jd tr ts ts' evs e P. pose proof (sched_pre_spec tstate nft _ _ _ _ _ _ _ P) as SP.
    destruct (sched_args jd tr) as [[[k d] t]|] eqn:Ha.
    - pose proof (sched_args_key _ _ _ _ _ Ha) as Hk. destruct (jd_susp d).
      + destruct SP as (_ & -> & _). auto.
      + destruct (nft t (ts t) now) as [st' fire]; destruct SP as (_ & -> & _). right. eauto 8.
    - destruct SP as (_ & -> & _). auto.
  Qed.

  Lemma quiet_step : forall k s l s', q_wf O (s_q s) -> inactive k s -> quiet_for k l -> step s l = Some s' ->
    exists new, step_claim k s s' new.
  Proof.
    intros k s l s' Hwf (Hq & Hp) Hl H. destruct l; simpl in H.
    - (* API call *)
      destruct (api O tstate nft (s_now s) op (s_q s) (s_ts s)) as [[[q1 ts1] evs1] r1] eqn:A.
      injection H as <-. destruct (api_effect O HC tstate nft _ _ _ _ _ _ _ _ Hwf A) as (Hw1 & Sh).
      exists (EvApi op r1 :: evs1). unfold step_claim, inactive. simpl.
      assert (Hk0 : forall k0, opkey op = Some k0 ->
                ((exists jd tr, op = OpSchedule jd tr) \/ op = OpResume (Some k0)) -> k0 <> k).
      { intros k0 Ho [(jd & tr & ->)| -> ]; simpl in *.
        - intros ->. apply Hl. assumption.
        - assumption. }
      split; [reflexivity|]. split; [|split; [|split; [split; [|assumption]|auto]]].
      + constructor; [simpl; tauto|].
        destruct Sh as [(_ & [->|(k0 & t & f & c & -> & Ho & Hc)])|[(k0 & e & Ho & _ & _ & _ & Hc)|[(_ & _ & _ & -> & _)|(_ & _ & -> & _)]]];
          try constructor.
        * simpl. apply (Hk0 k0 Ho). destruct Hc as [((jd & tr & E) & _)|(E & _)]; eauto.
        * constructor.
        * destruct Hc as [(_ & -> & _)|[(E & old & p & _ & _ & _ & ->)|(E & [(_ & _ & ->)|(_ & ->)])]]; repeat constructor; simpl.
          -- apply (Hk0 k0 Ho). auto.
          -- apply (Hk0 k0 Ho). auto.
      + intros ev id [<-|Hin] He; [discriminate|].
        assert (Hqe : Forall quiet_ev evs1) by (eapply api_shape_quiet; eauto).
        rewrite Forall_forall in Hqe. specialize (Hqe ev Hin). destruct ev; simpl in *; try discriminate; contradiction.
      + destruct Sh as [(-> & _)|[(k0 & e & Ho & _ & Hset & _ & Hc)|[(k0 & _ & Hset & _)|(_ & Hset & _)]]].
        * assumption.
        * rewrite Hset. destruct (key_eqb k k0) eqn:E; [|assumption]. apply key_eqb_eq in E. subst k0.
          destruct Hc as [(_ & _ & old & _ & _ & ->)|[(E & _)|(E & _)]]; [reflexivity| |]; exfalso; apply (Hk0 k Ho); auto.
        * rewrite Hset. destruct (key_eqb k k0); [exact I|assumption].
        * rewrite Hset. exact I.
    - (* ScheduleJob before the locker: of another key *)
      destruct (find_pre c (s_pre s)); [discriminate|].
      destruct (sched_pre tstate nft (s_now s) jd tr (s_ts s)) as [[ts1 evs1] [e|ent]] eqn:P; injection H as <-.
      + exists (EvApi (OpSchedule jd tr) (RErr e) :: evs1). unfold step_claim, inactive. simpl.
        split; [reflexivity|]. split; [|split; [|auto]].
        * constructor; [simpl; tauto|]. destruct (sched_pre_err_evs _ _ _ _ _ _ _ P) as [->|(k0 & t & pv & f & c0 & Hk & ->)]; repeat constructor.
          simpl in *. intros ->. apply Hl. assumption.
        * intros ev id [<-|Hin] He; [discriminate|].
          destruct (sched_pre_err_evs _ _ _ _ _ _ _ P) as [->|(k0 & t & pv & f & c0 & Hk & ->)]; [contradiction|].
          destruct Hin as [<-|[]]. discriminate.
      + destruct (sched_pre_key _ _ _ _ _ _ _ P) as (Hk & Hev).
        exists evs1. unfold step_claim, inactive. simpl. split; [reflexivity|]. split; [|split; [|split; [split; [assumption|]|auto]]].
        * destruct Hev as [->|(t & pv & f & c0 & ->)]; repeat constructor. simpl in *. intros E. apply Hl. congruence.
        * intros ev id Hin He. destruct Hev as [->|(t & pv & f & c0 & ->)]; [contradiction|]. destruct Hin as [<-|[]]. discriminate.
        * intros p [<-|Hin]; [|auto]. simpl in *. intros E. apply Hl. congruence.
    - (* ScheduleJob under the locker: of another key *)
      destruct (find_pre c (s_pre s)) as [p|] eqn:Fp; [|discriminate]. apply find_pre_some in Fp. destruct Fp as [Hin _].
      destruct (sched_commit O (ps_entry p) (s_q s)) as [q1 r1] eqn:Cm. injection H as <-.
      exists [EvApi (OpSchedule (ps_jd p) (ps_tr p)) r1]. unfold step_claim, inactive. simpl.
      split; [reflexivity|]. split; [repeat constructor; simpl; tauto|]. split; [intros ev id [<-|[]]; discriminate|].
      split; [|auto]. split.
      + pose proof (sched_commit_spec O HC _ _ _ _ Hwf Cm) as S. pose proof (Hp p Hin) as Hne.
        assert (Hset : lookup_set O (s_q s) q1 (e_key (ps_entry p)) (Some (ps_entry p)) ->
                  match q_get O k q1 with Some e => e_susp e = true | None => True end).
        { intros Hs. rewrite Hs. destruct (key_eqb k (e_key (ps_entry p))) eqn:E; [|assumption].
          apply key_eqb_eq in E. congruence. }
        destruct (q_get O (e_key (ps_entry p)) (s_q s)); [destruct (e_repl (ps_entry p))|]; try (apply Hset; tauto).
        destruct S as (-> & _). assumption.
      + intros p0 Hp0. apply filter_In in Hp0. apply Hp. tauto.
    - (* fetchAndReschedule *)
      destruct (fetch O tstate nft (thr i) (s_now s) (s_next s) i (s_q s) (s_ts s)) as [[[[q1 ts1] evs1] ret] rst] eqn:F.
      injection H as <-. exists evs1. unfold step_claim, inactive. simpl. split; [reflexivity|].
      destruct (fetch_effect O HC tstate nft _ _ _ _ _ _ _ _ _ _ _ Hwf F) as [(_ & -> & -> & -> & ->)|(job & Gj & Hw1 & Cases)].
      + split; [constructor|]. split; [intros ev id []|]. auto.
      + destruct (key_eq_dec (e_key job) k) as [Ek|Ek].
        * (* the suspended job itself: parked again, nothing consumed *)
          rewrite <- Ek in Hq. rewrite Gj in Hq.
          destruct Cases as [(Hs & -> & -> & -> & Hset)|[(Hs & _)|[(Hs & _)|(Hs & _)]]]; try congruence.
          split; [repeat constructor; simpl; tauto|]. split; [intros ev id [<-|[]]; discriminate|]. simpl.
          split; [|auto]. split; [|assumption]. rewrite Hset, <- Ek, key_eqb_refl. simpl. assumption.
        * (* another job *)
          assert (Hother : forall e_new, lookup_set O (s_q s) q1 (e_key job) e_new ->
                    match q_get O k q1 with Some e => e_susp e = true | None => True end).
          { intros e_new Hset. rewrite Hset. destruct (key_eqb k (e_key job)) eqn:E; [|assumption].
            apply key_eqb_eq in E. congruence. }
          destruct Cases as [(Hs & -> & -> & -> & Hset)|[(Hs & Hlt & -> & st' & fire & N & -> & -> & Hset)|
                             [(Hs & Hlt & -> & -> & -> & Hset)|(Hs & Hlt & -> & st' & fire & N & -> & -> & Hset)]]]; simpl.
          -- split; [repeat constructor; simpl; tauto|]. split; [intros ev id [<-|[]]; discriminate|].
             split; [split; [eapply Hother; eauto|assumption]|auto].
          -- split; [repeat constructor; simpl; tauto|]. split; [intros ev id [<-|[<-|[<-|[]]]]; discriminate|].
             split; [split; [destruct fire; eapply Hother; eauto|assumption]|auto].
          -- split; [repeat constructor; simpl; tauto|]. split; [intros ev id [<-|[]]; discriminate|].
             split; [split; [eapply Hother; eauto|assumption]|auto].
          -- split; [repeat constructor; simpl; tauto|]. split; [intros ev id [<-|[<-|[]]]; discriminate|].
             split; [split; [destruct fire; eapply Hother; eauto|assumption]|].
             intros pd [<-|Hin] Hk; [simpl in Hk; congruence|assumption].
    - (* an execution starts: it was dequeued before *)
      destruct (find_pend id (s_disp s)) as [p|] eqn:Fp; [|discriminate]. injection H as <-.
      apply find_pend_some in Fp. destruct Fp as [Hin Hid].
      exists [EvExec id (p_key p) (p_prio p) (s_now s)]. unfold step_claim, inactive. simpl.
      split; [reflexivity|]. split; [repeat constructor; simpl; tauto|]. split; [|split; [auto|]].
      + intros ev id0 [<-|[]] He. simpl in He. destruct (key_eqb (p_key p) k) eqn:E; [|discriminate].
        injection He as <-. apply key_eqb_eq in E. exists p. auto.
      + intros pd Hpd _. apply filter_In in Hpd. tauto.
    - destruct (dt <? 0); [discriminate|]. injection H as <-. exists []. unfold step_claim, inactive. simpl.
      split; [reflexivity|]. split; [constructor|]. split; [intros ev id []|]. auto.
    - (* a foreign change that does not push k *)
      injection H as <-. exists [EvForeign m]. unfold step_claim, inactive. simpl.
      split; [reflexivity|]. split; [repeat constructor; simpl; tauto|]. split; [intros ev id [<-|[]]; discriminate|].
      split; [|auto]. split; [|assumption].
      destruct (q_get O k (foreign O m (s_q s))) as [e|] eqn:G; [|exact I].
      destruct (foreign_lookup O HC _ _ _ _ Hwf G) as [Go| ->].
      + rewrite Go in Hq. assumption.
      + exfalso. simpl in Hl. apply Hl. apply (qc_get_key O HC _ _ _ (foreign_wf O HC _ _ Hwf) G).
  Qed.

  (* any number of steps *)
  Definition run_claim (k : jkey) (s s' : state) (new : list event) : Prop :=
    s_log s' = new ++ s_log s /\
    Forall (fun ev => ~ consumes k ev) new /\
    (forall ev id, In ev new -> exec_of k ev = Some id -> exists pd, In pd (s_disp s) /\ p_id pd = id /\ p_key pd = k) /\
    inactive k s'.

  Lemma quiet_run_gen : forall k tr s s', q_wf O (s_q s) -> inactive k s -> Forall (quiet_for k) tr -> run s tr = Some s' ->
    exists new, run_claim k s s' new /\ (forall pd, In pd (s_disp s') -> p_key pd = k -> In pd (s_disp s)).
  Proof.
    intros k tr. induction tr as [|l tr IH]; intros s s' Hwf Hi Hq H; simpl in H.
    - injection H as <-. exists []. unfold run_claim. simpl. split; [|auto]. split; [reflexivity|].
      split; [constructor|]. split; [intros ev id []|assumption].
    - inversion Hq as [|? ? Hl Hq']; subst. destruct (step s l) as [s1|] eqn:S; [|discriminate].
      destruct (quiet_step k s l s1 Hwf Hi Hl S) as (n1 & E1 & F1 & X1 & I1 & D1).
      destruct (IH s1 s' (step_wf O HC tstate nft thr _ _ _ Hwf S) I1 Hq' H) as (n2 & (E2 & F2 & X2 & I2) & D2).
      exists (n2 ++ n1). split; [split; [|split; [|split]]|].
      + rewrite E2, E1, app_assoc. reflexivity.
      + apply Forall_app. auto.
      + intros ev id Hin He. apply in_app_or in Hin. destruct Hin as [Hin|Hin].
        * destruct (X2 ev id Hin He) as (pd & Hpd & Hid & Hk). exists pd. auto.
        * eauto.
      + assumption.
      + auto.
  Qed.

  Theorem inactive_job_consumes_nothing : forall k tr s s', q_wf O (s_q s) -> inactive k s ->
    Forall (quiet_for k) tr -> run s tr = Some s' -> exists new, run_claim k s s' new.
  Proof. intros k tr s s' Hwf Hi Hq H. destruct (quiet_run_gen k tr s s' Hwf Hi Hq H) as (new & Hc & _). eauto. Qed.

  (* ---------- what a successful call leaves behind ---------- *)
  Lemma pause_ok_entry : forall now k q ts q' ts' evs, q_wf O q ->
    api O tstate nft now (OpPause (Some k)) q ts = (q', ts', evs, ROk) ->
    exists old, q_get O k q = Some old /\ e_susp old = false /\ evs = [] /\ ts' = ts /\
                q_get O k q' = Some (mkEntry k go_MaxInt64 true (e_repl old) (e_tid old)).
  Proof.
    intros now k q ts q' ts' evs Hwf H. unfold api in H. destruct (pause O (Some k) q) as [q1 r1] eqn:P.
    injection H as <- <- <- ->. pose proof (pause_spec O HC _ _ _ _ Hwf P) as S. simpl in S.
    destruct (q_get O k q) as [old|] eqn:G; [destruct (e_susp old) eqn:Sx|]; try (destruct S as (_ & S); discriminate).
    destruct S as (_ & _ & Hl). exists old. repeat split; auto. rewrite Hl, key_eqb_refl. unfold parked.
    rewrite (qc_get_key O HC _ _ _ Hwf G). reflexivity.
  Qed.

  Lemma delete_ok_entry : forall now k q ts q' ts' evs, q_wf O q ->
    api O tstate nft now (OpDelete (Some k)) q ts = (q', ts', evs, ROk) ->
    q_get O k q' = None /\ evs = [] /\ ts' = ts.
  Proof.
    intros now k q ts q' ts' evs Hwf H. unfold api in H. destruct (delete O (Some k) q) as [q1 r1] eqn:P.
    injection H as <- <- <- ->. pose proof (delete_spec O HC _ _ _ _ Hwf P) as S. simpl in S.
    destruct (q_get O k q); [|destruct S as (_ & S); discriminate]. destruct S as (_ & _ & Hl).
    rewrite Hl, key_eqb_refl. auto.
  Qed.

  Lemma clear_ok_entry : forall now q ts q' ts' evs r, api O tstate nft now OpClear q ts = (q', ts', evs, r) ->
    r = ROk /\ (forall k, q_get O k q' = None) /\ evs = [] /\ ts' = ts.
  Proof.
    intros now q ts q' ts' evs r H. simpl in H. unfold clear in H. injection H as <- <- <- <-.
    repeat split; auto. apply (qc_clear_get O HC).
  Qed.

  Lemma resume_ok_entry : forall now k q ts q' ts' evs, q_wf O q ->
    api O tstate nft now (OpResume (Some k)) q ts = (q', ts', evs, ROk) ->
    exists old st' p, q_get O k q = Some old /\ e_susp old = true /\
      nft (e_tid old) (ts (e_tid old)) now = (st', inl p) /\
      evs = [EvTrig k (e_tid old) now (inl p) CResume] /\
      q_get O k q' = Some (mkEntry k p false (e_repl old) (e_tid old)).
  Proof.
    intros now k q ts q' ts' evs Hwf H. unfold api in H. pose proof (resume_spec O HC tstate nft _ _ _ _ _ _ _ _ Hwf H) as S.
    simpl in S. destruct (q_get O k q) as [old|] eqn:G; [|destruct S as (_ & _ & _ & S); discriminate].
    destruct (negb (e_susp old)) eqn:Sx; [destruct S as (_ & _ & _ & S); discriminate|]. apply negb_false_iff in Sx.
    destruct (nft (e_tid old) (ts (e_tid old)) now) as [st' [p|err]] eqn:N; destruct S as (_ & -> & S).
    - destruct S as (_ & _ & Hl). exists old, st', p. repeat split; auto. rewrite Hl, key_eqb_refl. unfold resumed.
      rewrite (qc_get_key O HC _ _ _ Hwf G). reflexivity.
    - destruct S as (_ & S). discriminate.
  Qed.

  (* ---------- a paused entry keeps its shape ---------- *)
  Definition parked_at (k : jkey) (e : entry) (s : state) : Prop :=
    q_get O k (s_q s) = Some e /\ forall p, In p (s_pre s) -> e_key (ps_entry p) <> k.

  Lemma keeps_step : forall k e s l s', q_wf O (s_q s) -> e_susp e = true -> e_prio e = go_MaxInt64 ->
    parked_at k e s -> keeps k l -> step s l = Some s' -> parked_at k e s'.
  Proof.
    intros k e s l s' Hwf Hs Hpr (Hg & Hp) (Hl & Hl2) H. unfold parked_at. destruct l; simpl in H.
    - destruct (api O tstate nft (s_now s) op (s_q s) (s_ts s)) as [[[q1 ts1] evs1] r1] eqn:A.
      injection H as <-. simpl. split; [|assumption].
      destruct (api_effect O HC tstate nft _ _ _ _ _ _ _ _ Hwf A) as (Hw1 & Sh).
      destruct Sh as [(-> & _)|[(k0 & e0 & Ho & _ & Hset & _ & Hc)|[(k0 & -> & Hset & _)|(-> & _)]]].
      + assumption.
      + rewrite Hset. destruct (key_eqb k k0) eqn:E; [|assumption]. apply key_eqb_eq in E. subst k0. exfalso.
        destruct Hc as [(_ & _ & old & Go & So & _)|[(-> & _)|((jd & tr & ->) & _)]].
        * congruence.
        * simpl in Hl. congruence.
        * simpl in *. congruence.
      + rewrite Hset. destruct (key_eqb k k0) eqn:E; [|assumption]. apply key_eqb_eq in E. simpl in Hl2. congruence.
      + contradiction.
    - destruct (find_pre c (s_pre s)); [discriminate|].
      destruct (sched_pre tstate nft (s_now s) jd tr (s_ts s)) as [[ts1 evs1] [x|ent]] eqn:P; injection H as <-; simpl.
      + auto.
      + split; [assumption|]. destruct (sched_pre_key _ _ _ _ _ _ _ P) as (Hk & _).
        intros p [<-|Hin]; [|auto]. simpl in *. intros E. apply Hl. congruence.
    - destruct (find_pre c (s_pre s)) as [p|] eqn:Fp; [|discriminate]. apply find_pre_some in Fp. destruct Fp as [Hin _].
      destruct (sched_commit O (ps_entry p) (s_q s)) as [q1 r1] eqn:Cm. injection H as <-. simpl.
      split; [|intros p0 Hp0; apply filter_In in Hp0; apply Hp; tauto].
      pose proof (sched_commit_spec O HC _ _ _ _ Hwf Cm) as S. pose proof (Hp p Hin) as Hne.
      assert (Hset : lookup_set O (s_q s) q1 (e_key (ps_entry p)) (Some (ps_entry p)) -> q_get O k q1 = Some e).
      { intros Hx. rewrite Hx. destruct (key_eqb k (e_key (ps_entry p))) eqn:E; [|assumption]. apply key_eqb_eq in E. congruence. }
      destruct (q_get O (e_key (ps_entry p)) (s_q s)); [destruct (e_repl (ps_entry p))|]; try (apply Hset; tauto).
      destruct S as (-> & _). assumption.
    - destruct (fetch O tstate nft (thr i) (s_now s) (s_next s) i (s_q s) (s_ts s)) as [[[[q1 ts1] evs1] ret] rst] eqn:F.
      injection H as <-. simpl. split; [|assumption].
      destruct (fetch_effect O HC tstate nft _ _ _ _ _ _ _ _ _ _ _ Hwf F) as [(_ & -> & _)|(job & Gj & Hw1 & Cases)]; [assumption|].
      destruct (key_eq_dec (e_key job) k) as [Ek|Ek].
      + assert (job = e) by (rewrite Ek in Gj; congruence). subst job.
        destruct Cases as [(_ & _ & _ & _ & Hset)|[(Hx & _)|[(Hx & _)|(Hx & _)]]]; try congruence.
        rewrite Hset, Ek, key_eqb_refl. f_equal. destruct e; simpl in *; subst; reflexivity.
      + assert (Hother : forall e_new, lookup_set O (s_q s) q1 (e_key job) e_new -> q_get O k q1 = Some e).
        { intros e_new Hset. rewrite Hset. destruct (key_eqb k (e_key job)) eqn:E; [|assumption]. apply key_eqb_eq in E. congruence. }
        destruct Cases as [(_ & _ & _ & _ & Hset)|[(_ & _ & _ & st' & fire & _ & _ & _ & Hset)|
                           [(_ & _ & _ & _ & _ & Hset)|(_ & _ & _ & st' & fire & _ & _ & _ & Hset)]]];
          try (eapply Hother; eauto; fail); destruct fire; eapply Hother; eauto.
    - destruct (find_pend id (s_disp s)); [|discriminate]. injection H as <-. simpl. auto.
    - destruct (dt <? 0); [discriminate|]. injection H as <-. simpl. auto.
    - injection H as <-. simpl. split; [|assumption]. destruct m as [x|k0| ]; simpl in *.
      + assert (Hok : forall q2, lookup_set O (s_q s) q2 (e_key x) (Some x) -> q_get O k q2 = Some e).
        { intros q2 Hx. rewrite Hx. destruct (key_eqb k (e_key x)) eqn:E; [|assumption]. apply key_eqb_eq in E. congruence. }
        destruct (q_get O (e_key x) (s_q s)) as [y|] eqn:G.
        * destruct (e_repl x) eqn:R.
          -- destruct (qc_push_ok O HC _ x Hwf (or_intror R)) as (q2 & -> & _ & Hx). auto.
          -- rewrite (qc_push_exists O HC _ x Hwf); [assumption|congruence|assumption].
        * destruct (qc_push_ok O HC _ x Hwf (or_introl G)) as (q2 & -> & _ & Hx). auto.
      + destruct (q_get O k0 (s_q s)) as [y|] eqn:G.
        * destruct (qc_remove_some O HC _ k0 y Hwf G) as (q2 & -> & _ & Hx). rewrite Hx.
          destruct (key_eqb k k0) eqn:E; [|assumption]. apply key_eqb_eq in E. congruence.
        * rewrite (qc_remove_none O HC _ k0 Hwf G). assumption.
      + contradiction.
  Qed.

  Theorem paused_entry_shape : forall k e tr s s', q_wf O (s_q s) -> e_susp e = true -> e_prio e = go_MaxInt64 ->
    parked_at k e s -> Forall (keeps k) tr -> run s tr = Some s' -> q_get O k (s_q s') = Some e.
  Proof.
    intros k e tr. induction tr as [|l tr IH]; intros s s' Hwf Hs Hp Hpk Hk H; simpl in H.
    - injection H as <-. apply Hpk.
    - inversion Hk as [|? ? Hl Hk']; subst. destruct (step s l) as [s1|] eqn:S; [|discriminate].
      apply (IH s1 s'); auto.
      + eapply step_wf; eauto.
      + eapply keeps_step; eauto.
  Qed.
End C08.
