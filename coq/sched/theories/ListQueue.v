(* Two executable JobQueue implementations: an insertion-ordered list with a linear minimum search,
   and a list kept sorted by priority. Definitions only (contracts proved in ListQueueProofs.v). *)
From Coq Require Import ZArith List Bool String Sorted.
Require Import QzSched.Gen.Params QzSched.SchedModel.
Import ListNotations.
Open Scope Z_scope.

Definition lq_get (k : jkey) (q : list entry) : option entry := find (fun e => key_eqb (e_key e) k) q.
Definition lq_del (k : jkey) (q : list entry) : list entry := filter (fun e => negb (key_eqb (e_key e) k)) q.
Definition lq_remove (k : jkey) (q : list entry) : option (entry * list entry) :=
  match lq_get k q with None => None | Some e => Some (e, lq_del k q) end.
Definition lq_push (e : entry) (q : list entry) : option (list entry) :=
  match lq_get (e_key e) q with
  | None => Some (q ++ [e])
  | Some _ => if e_repl e then Some (lq_del (e_key e) q ++ [e]) else None
  end.
Fixpoint lq_min (q : list entry) : option entry :=
  match q with
  | [] => None
  | e :: r => match lq_min r with
              | None => Some e
              | Some m => if e_prio e <=? e_prio m then Some e else Some m
              end
  end.
Definition lq_pop (q : list entry) : option (entry * list entry) :=
  match lq_min q with None => None | Some m => Some (m, lq_del (e_key m) q) end.
Definition lq_wf (q : list entry) : Prop := NoDup (map e_key q).

Definition list_queue : queue_ops :=
  {| Q := list entry; q_empty := []; q_push := lq_push; q_pop := lq_pop; q_get := lq_get;
     q_remove := lq_remove; q_list := fun q => q; q_clear := fun _ => []; q_wf := lq_wf |}.

(* sorted list: Push inserts after the entries of smaller or equal priority, Pop takes the head *)
Fixpoint sq_insert (e : entry) (q : list entry) : list entry :=
  match q with
  | [] => [e]
  | x :: r => if e_prio x <=? e_prio e then x :: sq_insert e r else e :: q
  end.
Definition sq_push (e : entry) (q : list entry) : option (list entry) :=
  match lq_get (e_key e) q with
  | None => Some (sq_insert e q)
  | Some _ => if e_repl e then Some (sq_insert e (lq_del (e_key e) q)) else None
  end.
Definition sq_pop (q : list entry) : option (entry * list entry) :=
  match q with [] => None | e :: r => Some (e, r) end.
Definition prio_le (a b : entry) : Prop := e_prio a <= e_prio b.
Definition sq_wf (q : list entry) : Prop := NoDup (map e_key q) /\ StronglySorted prio_le q.

Definition sorted_queue : queue_ops :=
  {| Q := list entry; q_empty := []; q_push := sq_push; q_pop := sq_pop; q_get := lq_get;
     q_remove := lq_remove; q_list := fun q => q; q_clear := fun _ => []; q_wf := sq_wf |}.
