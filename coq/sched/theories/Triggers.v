(* Executable trigger instances (quartz/trigger.go and scripted test triggers). Definitions only. *)
From Coq Require Import ZArith List Bool String.
Require Import QzSched.Gen.Params QzSched.SchedModel.
Import ListNotations.
Open Scope Z_scope.

Inductive xstate :=
| TSimple (interval : Z)                       (* SimpleTrigger: prev + Interval *)
| TOnce (delay : Z) (expired : bool)           (* RunOnceTrigger: prev + Delay once, then ErrTriggerExpired *)
| TFail (code : terr)                          (* always fails with its own error *)
| TScript (l : list (Z + terr)) (dflt : Z + terr).   (* prescribed results, then dflt for ever *)

Definition nft_exec (t : tid) (st : xstate) (prev : Z) : xstate * (Z + terr) :=
  match st with
  | TSimple i => (st, inl (prev + i))
  | TOnce d false => (TOnce d true, inl (prev + d))
  | TOnce d true => (st, inr 0%nat)
  | TFail c => (st, inr c)
  | TScript (x :: l) d => (TScript l d, x)
  | TScript [] d => (st, d)
  end.

(* RunOnceTrigger.NextFireTime as a function on the Expired flag *)
Definition runonce_nft (delay : Z) (expired : bool) (prev : Z) : bool * (Z + terr) :=
  if expired then (true, inr 0%nat) else (true, inl (prev + delay)).
