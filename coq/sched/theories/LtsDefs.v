(* Predicates over event logs used in the statements of C03 / C04 / C08. Definitions only. *)
From Coq Require Import ZArith List Bool String.
Require Import QzSched.Gen.Params QzSched.SchedModel.
Import ListNotations.
Open Scope Z_scope.

Fixpoint deq_ids (l : list event) : list nat :=
  match l with
  | [] => []
  | EvDeq id _ _ _ _ :: r => id :: deq_ids r
  | _ :: r => deq_ids r
  end.

Fixpoint exec_ids (l : list event) : list nat :=
  match l with
  | [] => []
  | EvExec id _ _ _ :: r => id :: exec_ids r
  | _ :: r => exec_ids r
  end.

(* fire time p of job k was returned by trigger t when asked on behalf of k *)
Definition trig_gave (log : list event) (k : jkey) (t : tid) (p : Z) : Prop :=
  exists prev c, In (EvTrig k t prev (inl p) c) log.

(* ... or was put into the shared queue by another process *)
Definition foreign_wrote (log : list event) (k : jkey) (t : tid) (p : Z) : Prop :=
  exists e, In (EvForeign (FPush e)) log /\ e_key e = k /\ e_tid e = t /\ e_prio e = p.

Definition produced (log : list event) (k : jkey) (t : tid) (p : Z) : Prop :=
  trig_gave log k t p \/ foreign_wrote log k t p.

(* every priority in the queue: a result of the job's own trigger, MaxInt64 while paused, or foreign *)
Definition entry_ok (log : list event) (e : entry) : Prop :=
  foreign_wrote log (e_key e) (e_tid e) (e_prio e) \/
  (if e_susp e then e_prio e = go_MaxInt64 else trig_gave log (e_key e) (e_tid e) (e_prio e)).

(* the log (newest first) read from the oldest event on: an execution start is justified by an older valid
   dequeue with the same id that was due, and no older execution used that id; dequeue ids are fresh; a valid
   dequeue took an active entry whose fire time was produced before *)
Fixpoint log_ok (l : list event) : Prop :=
  match l with
  | [] => True
  | EvExec id k p t :: r =>
    (exists i e now', In (EvDeq id i e true now') r /\ e_key e = k /\ e_prio e = p /\ p <= now' /\ now' <= t) /\
    ~ In id (exec_ids r) /\ log_ok r
  | EvDeq id i e valid now' :: r =>
    ~ In id (deq_ids r) /\
    (valid = true -> e_susp e = false /\ e_prio e <= now' /\ produced r (e_key e) (e_tid e) (e_prio e)) /\
    log_ok r
  | _ :: r => log_ok r
  end.

Definition quiet_ev (ev : event) : Prop :=
  match ev with EvDeq _ _ _ _ _ | EvExec _ _ _ _ => False | _ => True end.

(* ---- C08 ---- *)
Definition sched_key (jd : option jobdetail) : option jkey :=
  match jd with Some d => jd_key d | None => None end.

(* labels that do not re-activate job k: no resume or (re-)schedule of k, no foreign push of k *)
Definition quiet_for (k : jkey) (l : label) : Prop :=
  match l with
  | LApi (OpResume (Some k')) => k' <> k
  | LApi (OpSchedule jd _) => sched_key jd <> Some k
  | LSchedPre _ jd _ => sched_key jd <> Some k
  | LForeign (FPush e) => e_key e <> k
  | _ => True
  end.

(* ... and do not remove it either *)
Definition keeps (k : jkey) (l : label) : Prop :=
  quiet_for k l /\
  match l with
  | LApi (OpDelete (Some k')) => k' <> k
  | LApi OpClear => False
  | LForeign (FRemove k') => k' <> k
  | LForeign FClear => False
  | _ => True
  end.

(* events that consume a fire time of job k *)
Definition consumes (k : jkey) (ev : event) : Prop :=
  match ev with
  | EvTrig k' _ _ _ _ => k' = k
  | EvDeq _ _ e true _ => e_key e = k
  | _ => False
  end.

Definition exec_of (k : jkey) (ev : event) : option nat :=
  match ev with
  | EvExec id k' _ _ => if key_eqb k' k then Some id else None
  | _ => None
  end.

(* ---- C04: no drift ---- *)
(* the most recent fire time a trigger returned when asked on behalf of job k *)
Fixpoint last_fire (k : jkey) (l : list event) : option (tid * Z) :=
  match l with
  | [] => None
  | EvTrig k' t _ (inl p) _ :: r => if key_eqb k' k then Some (t, p) else last_fire k r
  | _ :: r => last_fire k r
  end.

(* labels under which job k keeps its trigger and fire-time chain: no (re-)schedule, no foreign push of k *)
Definition steady_for (k : jkey) (l : label) : Prop :=
  match l with
  | LApi (OpSchedule jd _) => sched_key jd <> Some k
  | LSchedPre _ jd _ => sched_key jd <> Some k
  | LForeign (FPush e) => e_key e <> k
  | _ => True
  end.

(* in the events `new` (newest first) that followed `old`: every on-time trigger call for job k was made
   with prev = the latest fire time returned for k before that call *)
Fixpoint drift_free (k : jkey) (new old : list event) : Prop :=
  match new with
  | [] => True
  | ev :: r =>
    match ev with
    | EvTrig k' t prev _ CFetchValid => k' = k -> last_fire k (r ++ old) = Some (t, prev)
    | _ => True
    end /\ drift_free k r old
  end.
