(* Non-vacuity: concrete runs (default-queue-like list queue, executable triggers) that satisfy the
   hypotheses of the theorems in Props/, evaluated by vm_compute. *)
From Coq Require Import ZArith List Bool String Lia.
Require Import QzSched.Gen.Params QzSched.SchedModel QzSched.Registry QzSched.ListQueue QzSched.Triggers
               QzSched.LtsDefs QzSched.ApiProofs QzSched.ListQueueProofs QzSched.C08Proofs QzSched.C04Proofs QzSched.RunOnceProofs QzSched.ExampleDefs.
Import ListNotations.
Open Scope string_scope.
Open Scope Z_scope.

Notation xrun := (run list_queue xstate nft_exec thr0).
Notation xinit := (init list_queue xstate ts0 100).
Notation xlog := (s_log list_queue xstate).
Notation xq := (s_q list_queue xstate).

(* two schedulers (0 and 1) on one queue, a ScheduleJob split around the locker, a foreign push *)
Definition tr_a : list label :=
  [ LApi (OpSchedule (jd ka false false) (Some 0%nat));
    LSchedPre 7 (jd kb false false) (Some 1%nat); LSchedCommit 7;
    LFetch 0; LAdv 6; LFetch 1; LExec 1; LAdv 5; LFetch 0;
    LApi (OpPause (Some ka)) ].
Definition tr_b : list label := [ LExec 2; LFetch 0; LAdv 100 ].
Definition tr_c : list label :=
  [ LApi (OpResume (Some ka)); LForeign (FPush (mkEntry kb 150 false false 3%nat)); LFetch 1; LApi OpKeys ].

Definition st_a := xrun xinit tr_a.
Definition st_abc := xrun xinit (tr_a ++ tr_b ++ tr_c).

(* C03: a run with two executions, each after its valid dequeue; a stale fetch (LFetch 0 at clock 100, head
   due at 105) executes nothing *)
Example ex_c03_run : exists s, st_abc = Some s /\
  In (EvExec 1 kb 105 106) (xlog s) /\ In (EvExec 2 ka 110 111) (xlog s) /\
  In (EvDeq 0 0 (mkEntry kb 105 false false 1%nat) false 100) (xlog s) /\
  exec_ids (xlog s) = [2%nat; 1%nat] /\ deq_ids (xlog s) = [4%nat; 3%nat; 2%nat; 1%nat; 0%nat].
Proof. eexists. split; [vm_compute; reflexivity|]. vm_compute. repeat split; tauto. Qed.

(* C04: misfire and re-base of the foreign entry (150 < 211 - 3), on-time call chained to the scheduled time *)
Example ex_c04_run : exists s, st_abc = Some s /\
  In (EvTrig kb 3%nat 211 (inl 212) CFetchRebase) (xlog s) /\ In (EvMisfire 4 kb 150) (xlog s) /\
  In (EvTrig ka 0%nat 110 (inl 120) CFetchValid) (xlog s) /\
  q_get list_queue kb (xq s) = Some (mkEntry kb 212 false false 3%nat).
Proof. eexists. split; [vm_compute; reflexivity|]. vm_compute. repeat split; tauto. Qed.

(* C04 no_drift: hypotheses hold after the first ScheduleJob, along a trace with fetches, pause and resume *)
Definition st_1 := xrun xinit [LApi (OpSchedule (jd ka false false) (Some 0%nat))].
Definition tr_steady : list label :=
  [ LAdv 11; LFetch 0; LExec 0; LAdv 10; LFetch 1; LApi (OpPause (Some ka)); LAdv 50; LApi (OpResume (Some ka));
    LAdv 10; LFetch 0 ].
Example ex_c04_chained : exists s, st_1 = Some s /\ q_wf list_queue (xq s) /\
  chained list_queue xstate ka s /\ Forall (steady_for ka) tr_steady /\
  exists s', xrun s tr_steady = Some s' /\
    In (EvTrig ka 0%nat 110 (inl 120) CFetchValid) (xlog s') /\ In (EvTrig ka 0%nat 120 (inl 130) CFetchValid) (xlog s') /\
    In (EvTrig ka 0%nat 171 (inl 181) CResume) (xlog s') /\ In (EvTrig ka 0%nat 181 (inl 191) CFetchValid) (xlog s').
Proof.
  eexists. split; [vm_compute; reflexivity|]. split; [|split; [|split]].
  - vm_compute. repeat constructor; simpl; intuition discriminate.
  - split; [|intros p []]. intros e G S. vm_compute in G. injection G as <-. vm_compute. reflexivity.
  - repeat constructor.
  - eexists. split; [vm_compute; reflexivity|]. vm_compute. repeat split; tauto.
Qed.

(* C08: after PauseJob returned Ok the job is inactive; the following trace is quiet for it and contains the
   one execution that had been dequeued before the call *)
Example ex_c08_paused : exists s, st_a = Some s /\ q_wf list_queue (xq s) /\
  inactive list_queue xstate ka s /\ Forall (quiet_for ka) tr_b /\ Forall (keeps ka) tr_b /\
  q_get list_queue ka (xq s) = Some (mkEntry ka go_MaxInt64 true false 0%nat) /\
  s_disp list_queue xstate s = [mkPend 2 0 ka 110] /\
  exists s', xrun s tr_b = Some s' /\ In (EvExec 2 ka 110 111) (xlog s').
Proof.
  eexists. split; [vm_compute; reflexivity|]. split; [|split; [|split; [|split; [|split; [|split]]]]].
  - vm_compute. repeat constructor; simpl; intuition discriminate.
  - split; [vm_compute; reflexivity|intros p []].
  - repeat constructor.
  - repeat constructor.
  - vm_compute. reflexivity.
  - vm_compute. reflexivity.
  - eexists. split; [vm_compute; reflexivity|]. vm_compute. tauto.
Qed.

Example ex_c08_resume : exists s, xrun xinit (tr_a ++ tr_b ++ [LApi (OpResume (Some ka))]) = Some s /\
  q_get list_queue ka (xq s) = Some (mkEntry ka 221 false false 0%nat) /\
  hd_error (xlog s) = Some (EvApi (OpResume (Some ka)) ROk).
Proof. eexists. split; [vm_compute; reflexivity|]. vm_compute. auto. Qed.

(* run-once: scheduled at 100 with delay 5; fetched on time at 106 -> handed to execution once, gone *)
Example ex_runonce : exists s, xrun xinit [LSchedPre 7 (jd kb false false) (Some 1%nat); LSchedCommit 7; LAdv 6; LFetch 0; LExec 0; LAdv 50; LFetch 0] = Some s /\
  xq s = [] /\ exec_ids (xlog s) = [0%nat] /\ s_ts list_queue xstate s 1%nat = TOnce 5 true.
Proof. eexists. split; [vm_compute; reflexivity|]. vm_compute. auto. Qed.
(* ... fetched late -> misfired, never executed, gone *)
Example ex_runonce_late : exists s, xrun xinit [LApi (OpSchedule (jd kb false false) (Some 1%nat)); LAdv 60; LFetch 0; LAdv 50; LFetch 0] = Some s /\
  xq s = [] /\ exec_ids (xlog s) = [] /\ In (EvMisfire 0 kb 105) (xlog s).
Proof. eexists. split; [vm_compute; reflexivity|]. vm_compute. auto. Qed.

Example ex_runonce_count : ts0 1%nat = TOnce 5 false /\ exists s,
  xrun xinit [LSchedPre 7 (jd kb false false) (Some 1%nat); LSchedCommit 7; LAdv 6; LFetch 0; LExec 0; LAdv 50; LFetch 0] = Some s /\
  vcount 1%nat (xlog s) = 1%nat /\ exec_ids (xlog s) = [0%nat].
Proof. split; [reflexivity|]. eexists. split; [vm_compute; reflexivity|]. vm_compute. auto. Qed.
