(* The two executable queues meet the JobQueue contract. *)
From Coq Require Import ZArith List Bool String Lia Sorted.
Require Import QzSched.Gen.Params QzSched.SchedModel QzSched.ListQueue QzSched.ApiProofs.
Import ListNotations.
Open Scope Z_scope.

Lemma lq_get_some : forall k q e, lq_get k q = Some e -> e_key e = k /\ In e q.
Proof.
  intros k q e H. unfold lq_get in H. apply find_some in H. destruct H as [Hin Hk].
  apply key_eqb_eq in Hk. auto.
Qed.

Lemma lq_get_none : forall k q, lq_get k q = None <-> ~ In k (map e_key q).
Proof.
  intros k q. induction q as [|x q IH]; simpl.
  - tauto.
  - destruct (key_eqb (e_key x) k) eqn:E.
    + apply key_eqb_eq in E. split; [discriminate|]. intros H. exfalso. apply H. auto.
    + apply key_eqb_neq in E. rewrite IH. tauto.
Qed.

Lemma lq_get_del : forall k k' q, lq_get k (lq_del k' q) = if key_eqb k k' then None else lq_get k q.
Proof.
  intros k k' q. induction q as [|x q IH]; simpl.
  - destruct (key_eqb k k'); reflexivity.
  - destruct (key_eqb (e_key x) k') eqn:E; simpl.
    + rewrite IH. destruct (key_eqb k k') eqn:E2; [reflexivity|].
      destruct (key_eqb (e_key x) k) eqn:E3; [|reflexivity].
      apply key_eqb_eq in E, E3. subst. rewrite key_eqb_refl in E2. discriminate.
    + destruct (key_eqb (e_key x) k) eqn:E3.
      * apply key_eqb_eq in E3. subst k. rewrite E. reflexivity.
      * exact IH.
Qed.

Lemma lq_get_app1 : forall k q e, lq_get k (q ++ [e]) =
  match lq_get k q with Some x => Some x | None => if key_eqb (e_key e) k then Some e else None end.
Proof.
  intros k q e. induction q as [|x q IH]; simpl.
  - reflexivity.
  - destruct (key_eqb (e_key x) k); [reflexivity|exact IH].
Qed.

Lemma lq_del_keys_in : forall k k' q, In k' (map e_key (lq_del k q)) <-> In k' (map e_key q) /\ k' <> k.
Proof.
  intros k k' q. induction q as [|x q IH]; simpl.
  - tauto.
  - destruct (key_eqb (e_key x) k) eqn:E; simpl.
    + apply key_eqb_eq in E. rewrite IH. split; [tauto|]. intros [[H|H] Hn]; [congruence|tauto].
    + apply key_eqb_neq in E. rewrite IH. split; [intros [H|H]; [subst; tauto|tauto]|tauto].
Qed.

Lemma lq_del_nodup : forall k q, NoDup (map e_key q) -> NoDup (map e_key (lq_del k q)).
Proof.
  intros k q. induction q as [|x q IH]; simpl; intros H; [constructor|].
  inversion H as [|? ? Hn Hd]; subst. destruct (key_eqb (e_key x) k); simpl; auto.
  constructor; auto. rewrite lq_del_keys_in. tauto.
Qed.

Lemma nodup_app1 : forall (q : list entry) e, NoDup (map e_key q) -> ~ In (e_key e) (map e_key q) ->
  NoDup (map e_key (q ++ [e])).
Proof.
  intros q e Hn Hni. rewrite map_app. simpl. induction q as [|x q IH]; simpl in *.
  - constructor; [tauto|constructor].
  - inversion Hn as [|? ? Hx Hd]; subst. constructor.
    + rewrite in_app_iff. simpl. intros [H|[H|[]]]; [tauto|]. apply Hni. auto.
    + apply IH; auto.
Qed.

Lemma lq_get_in : forall q e, NoDup (map e_key q) -> (In e q <-> lq_get (e_key e) q = Some e).
Proof.
  intros q e. induction q as [|x q IH]; simpl; intros Hn.
  - split; [tauto|discriminate].
  - inversion Hn as [|? ? Hx Hd]; subst. destruct (key_eqb (e_key x) (e_key e)) eqn:E.
    + apply key_eqb_eq in E. split.
      * intros [H|H]; [congruence|]. exfalso. apply Hx. rewrite E. apply in_map. assumption.
      * intros H. left. congruence.
    + apply key_eqb_neq in E. rewrite <- (IH Hd). split; [intros [H|H]; [subst; tauto|assumption]|auto].
Qed.

Lemma lq_min_spec : forall q, match lq_min q with
  | None => q = []
  | Some m => In m q /\ forall e, In e q -> e_prio m <= e_prio e
  end.
Proof.
  induction q as [|x q IH]; simpl; [reflexivity|].
  destruct (lq_min q) as [m|].
  - destruct IH as [Hin Hmin]. destruct (e_prio x <=? e_prio m) eqn:E.
    + apply Z.leb_le in E. split; [auto|]. intros e [<-|H]; [lia|]. specialize (Hmin e H). lia.
    + apply Z.leb_gt in E. split; [auto|]. intros e [<-|H]; [lia|auto].
  - subst q. split; [auto|]. intros e [<-|[]]. lia.
Qed.

Lemma push_lookup_common : forall k q e, lq_get (e_key e) q = None ->
  match lq_get k q with Some x => Some x | None => if key_eqb (e_key e) k then Some e else None end =
  if key_eqb k (e_key e) then Some e else lq_get k q.
Proof.
  intros k q e Hn. rewrite (key_eqb_sym (e_key e) k). destruct (key_eqb k (e_key e)) eqn:E.
  - apply key_eqb_eq in E. subst k. rewrite Hn. reflexivity.
  - destruct (lq_get k q); reflexivity.
Qed.

Theorem list_queue_contract : queue_contract list_queue.
Proof.
  constructor; simpl; unfold lq_wf.
  - constructor.
  - reflexivity.
  - intros q k e _ H. apply lq_get_some in H. tauto.
  - intros q e Hwf Hc. unfold lq_push. destruct (lq_get (e_key e) q) as [x|] eqn:G.
    + destruct Hc as [Hc|Hc]; [discriminate|]. rewrite Hc. eexists. split; [reflexivity|]. split.
      * apply nodup_app1; [apply lq_del_nodup; assumption|]. rewrite lq_del_keys_in. tauto.
      * intros k. rewrite lq_get_app1. rewrite push_lookup_common.
        -- rewrite lq_get_del. destruct (key_eqb k (e_key e)); reflexivity.
        -- rewrite lq_get_del, key_eqb_refl. reflexivity.
    + eexists. split; [reflexivity|]. split.
      * apply nodup_app1; [assumption|]. apply lq_get_none. assumption.
      * intros k. rewrite lq_get_app1. apply push_lookup_common. assumption.
  - intros q e _ Hne Hr. unfold lq_push. destruct (lq_get (e_key e) q); [rewrite Hr; reflexivity|congruence].
  - intros q k e Hwf G. unfold lq_remove. rewrite G. eexists. split; [reflexivity|]. split.
    + apply lq_del_nodup. assumption.
    + intros k'. apply lq_get_del.
  - intros q k _ G. unfold lq_remove. rewrite G. reflexivity.
  - intros q _ H k. unfold lq_pop in H. pose proof (lq_min_spec q) as M.
    destruct (lq_min q); [discriminate|]. subst q. reflexivity.
  - intros q e q' Hwf H. unfold lq_pop in H. pose proof (lq_min_spec q) as M.
    destruct (lq_min q) as [m|]; [|discriminate]. injection H as <- <-. destruct M as [Hin Hmin].
    split; [apply lq_get_in; assumption|]. split.
    + intros k e' G. apply lq_get_some in G. apply Hmin. tauto.
    + split; [apply lq_del_nodup; assumption|]. intros k'. apply lq_get_del.
  - intros _. constructor.
  - reflexivity.
  - auto.
  - intros q e Hwf. apply lq_get_in. assumption.
Qed.

(* ---- the sorted list ---- *)
Lemma sq_insert_perm_keys : forall e q k, In k (map e_key (sq_insert e q)) <-> k = e_key e \/ In k (map e_key q).
Proof.
  intros e q k. induction q as [|x q IH]; simpl.
  - intuition.
  - destruct (e_prio x <=? e_prio e); simpl; [rewrite IH|]; intuition.
Qed.

Lemma sq_insert_nodup : forall e q, NoDup (map e_key q) -> ~ In (e_key e) (map e_key q) ->
  NoDup (map e_key (sq_insert e q)).
Proof.
  intros e q. induction q as [|x q IH]; simpl; intros Hn Hni.
  - constructor; [tauto|constructor].
  - inversion Hn as [|? ? Hx Hd]; subst. destruct (e_prio x <=? e_prio e); simpl.
    + constructor; [|apply IH; tauto]. rewrite sq_insert_perm_keys. intros [H|H]; [|tauto]. apply Hni. auto.
    + constructor; [assumption|assumption].
Qed.

Lemma sq_insert_get : forall e q k, ~ In (e_key e) (map e_key q) ->
  lq_get k (sq_insert e q) = if key_eqb k (e_key e) then Some e else lq_get k q.
Proof.
  intros e q k. induction q as [|x q IH]; simpl; intros Hni.
  - rewrite (key_eqb_sym (e_key e) k). reflexivity.
  - destruct (e_prio x <=? e_prio e); simpl.
    + destruct (key_eqb (e_key x) k) eqn:E.
      * apply key_eqb_eq in E. subst k. destruct (key_eqb (e_key x) (e_key e)) eqn:E2; [|reflexivity].
        apply key_eqb_eq in E2. exfalso. apply Hni. auto.
      * apply IH. tauto.
    + rewrite (key_eqb_sym (e_key e) k). reflexivity.
Qed.

Lemma sq_insert_sorted : forall e q, StronglySorted prio_le q -> StronglySorted prio_le (sq_insert e q).
Proof.
  intros e q. induction q as [|x q IH]; simpl; intros Hs.
  - constructor; constructor.
  - inversion Hs as [|? ? Hs' Hf]; subst. destruct (e_prio x <=? e_prio e) eqn:E.
    + apply Z.leb_le in E. constructor; [apply IH; assumption|].
      rewrite Forall_forall in *. intros y Hy.
      assert (Hy' : y = e \/ In y q).
      { clear - Hy. induction q as [|z q IH]; simpl in *.
        - destruct Hy as [<-|[]]. auto.
        - destruct (e_prio z <=? e_prio e); simpl in *; intuition (subst; auto). }
      destruct Hy' as [->|Hy']; [exact E|apply Hf; assumption].
    + apply Z.leb_gt in E. constructor; [assumption|]. constructor; [unfold prio_le; lia|].
      rewrite Forall_forall in *. intros y Hy. specialize (Hf y Hy). unfold prio_le in *. lia.
Qed.

Lemma lq_del_sorted : forall k q, StronglySorted prio_le q -> StronglySorted prio_le (lq_del k q).
Proof.
  intros k q. induction q as [|x q IH]; simpl; intros Hs; [constructor|].
  inversion Hs as [|? ? Hs' Hf]; subst. destruct (negb (key_eqb (e_key x) k)); [|auto].
  constructor; [auto|]. rewrite Forall_forall in *. intros y Hy. apply Hf.
  unfold lq_del in Hy. apply filter_In in Hy. tauto.
Qed.

Theorem sorted_queue_contract : queue_contract sorted_queue.
Proof.
  constructor; simpl; unfold sq_wf.
  - split; constructor.
  - reflexivity.
  - intros q k e _ H. apply lq_get_some in H. tauto.
  - intros q e [Hn Hs] Hc. unfold sq_push. destruct (lq_get (e_key e) q) as [x|] eqn:G.
    + destruct Hc as [Hc|Hc]; [discriminate|]. rewrite Hc. eexists. split; [reflexivity|].
      assert (Hni : ~ In (e_key e) (map e_key (lq_del (e_key e) q))) by (rewrite lq_del_keys_in; tauto).
      split; [split|].
      * apply sq_insert_nodup; [apply lq_del_nodup; assumption|assumption].
      * apply sq_insert_sorted. apply lq_del_sorted. assumption.
      * intros k. rewrite sq_insert_get by assumption. rewrite lq_get_del. destruct (key_eqb k (e_key e)); reflexivity.
    + assert (Hni : ~ In (e_key e) (map e_key q)) by (apply lq_get_none; assumption).
      eexists. split; [reflexivity|]. split; [split|].
      * apply sq_insert_nodup; assumption.
      * apply sq_insert_sorted. assumption.
      * intros k. apply sq_insert_get. assumption.
  - intros q e _ Hne Hr. unfold sq_push. destruct (lq_get (e_key e) q); [rewrite Hr; reflexivity|congruence].
  - intros q k e [Hn Hs] G. unfold lq_remove. rewrite G. eexists. split; [reflexivity|]. split; [split|].
    + apply lq_del_nodup. assumption.
    + apply lq_del_sorted. assumption.
    + intros k'. apply lq_get_del.
  - intros q k _ G. unfold lq_remove. rewrite G. reflexivity.
  - intros q _ H k. destruct q; [reflexivity|discriminate].
  - intros q e q' [Hn Hs] H. destruct q as [|x q]; [discriminate|]. injection H as <- <-.
    inversion Hn as [|? ? Hx Hd]; subst. inversion Hs as [|? ? Hs' Hf]; subst.
    split; [simpl; rewrite key_eqb_refl; reflexivity|]. split.
    + intros k e' G. apply lq_get_some in G. destruct G as [_ [<-|Hin]]; [lia|].
      rewrite Forall_forall in Hf. apply Hf. assumption.
    + split; [split; assumption|]. intros k'. simpl. rewrite (key_eqb_sym (e_key x) k').
      destruct (key_eqb k' (e_key x)) eqn:E; [|reflexivity].
      apply key_eqb_eq in E. subst k'. apply lq_get_none. assumption.
  - intros _. split; constructor.
  - reflexivity.
  - tauto.
  - intros q e [Hn _]. apply lq_get_in. assumption.
Qed.
