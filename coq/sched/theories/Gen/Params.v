(* The facts copied from the Go sources by harness/cmd/genparams (sections sched-api and sched-fetch):
   ParamsApi.v   -- constants, API sites, sentinels, skeletons of the API bodies (scheduler.go, queue.go, error.go, trigger.go)
   ParamsFetch.v -- the branch table of validateJob, fetchAndReschedule / executeAndReschedule facts and skeletons
   Both files are regenerated on every run of a check; this file only re-exports them. *)
Require Export QzSched.Gen.ParamsApi QzSched.Gen.ParamsFetch.
