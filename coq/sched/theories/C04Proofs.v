(* C04: no drift, trigger errors, run-once, the initial fire time. *)
From Coq Require Import ZArith List Bool String Lia.
Require Import QzSched.Gen.Params QzSched.SchedModel QzSched.Registry QzSched.ApiProofs QzSched.WfProofs QzSched.FetchProofs
               QzSched.LtsDefs QzSched.LtsProofs QzSched.C08Proofs QzSched.Triggers.
Import ListNotations.
Open Scope Z_scope.

Lemma last_fire_skip : forall k evs l,
  Forall (fun ev => match ev with EvTrig k' _ _ (inl _) _ => k' <> k | _ => True end) evs ->
  last_fire k (evs ++ l) = last_fire k l.
Proof.
  intros k evs l H. induction evs as [|ev evs IH]; simpl; [reflexivity|].
  inversion H as [|? ? Hev Hr]; subst. specialize (IH Hr). destruct ev; auto.
  destruct res; auto. apply key_eqb_neq in Hev. rewrite Hev. assumption.
Qed.

Lemma drift_free_app : forall k n2 n1 old, drift_free k n1 old -> drift_free k n2 (n1 ++ old) -> drift_free k (n2 ++ n1) old.
Proof.
  intros k n2 n1 old H1. induction n2 as [|ev n2 IH]; simpl; intros H2; [assumption|].
  destruct H2 as [Hev H2]. split; [|auto]. rewrite <- app_assoc. assumption.
Qed.

Section C04.
  Variable O : queue_ops.
  Hypothesis HC : queue_contract O.
  Variable tstate : Type.
  Variable nft : tid -> tstate -> Z -> tstate * (Z + terr).
  Variable thr : nat -> Z.
  Notation tsmap := (tid -> tstate).
  Notation state := (state O tstate).
  Notation step := (step O tstate nft thr).
  Notation run := (run O tstate nft thr).
  Notation s_q := (s_q O tstate).
  Notation s_ts := (s_ts O tstate).
  Notation s_now := (s_now O tstate).
  Notation s_log := (s_log O tstate).
  Notation s_disp := (s_disp O tstate).
  Notation s_pre := (s_pre O tstate).
  Notation s_next := (s_next O tstate).

  (* the active entry of k carries the latest fire time its trigger returned for k *)
  Definition chained (k : jkey) (s : state) : Prop :=
    (forall e, q_get O k (s_q s) = Some e -> e_susp e = false -> last_fire k (s_log s) = Some (e_tid e, e_prio e)) /\
    forall p, In p (s_pre s) -> e_key (ps_entry p) <> k.

  Lemma steady_step : forall k s l s', q_wf O (s_q s) -> chained k s -> steady_for k l -> step s l = Some s' ->
    exists new, s_log s' = new ++ s_log s /\ drift_free k new (s_log s) /\ chained k s'.
  Proof.
    intros k s l s' Hwf (Hc & Hp) Hl H. destruct l; simpl in H.
    - (* API call *)
      destruct (api O tstate nft (s_now s) op (s_q s) (s_ts s)) as [[[q1 ts1] evs1] r1] eqn:A.
      injection H as <-. destruct (api_effect O HC tstate nft _ _ _ _ _ _ _ _ Hwf A) as (Hw1 & Sh).
      exists (EvApi op r1 :: evs1). unfold chained. simpl. split; [reflexivity|].
      destruct Sh as [(-> & Hev)|[(k0 & e0 & Ho & Hk0 & Hset & _ & Hcase)|[(k0 & -> & Hset & -> & _)|(-> & Hset & -> & _)]]].
      + (* queue unchanged *)
        destruct Hev as [->|(k0 & t & f & c & -> & Ho & Hcc)]; simpl.
        * auto.
        * split; [destruct Hcc as [(_ & ->)|(_ & -> & _)]; auto|]. split; [|assumption].
          intros e G Sx. rewrite <- (Hc e G Sx). destruct Hcc as [((jd & tr & ->) & _)|(_ & _ & err & ->)]; [|reflexivity].
          destruct f; [|reflexivity]. simpl in Ho, Hl. destruct (key_eqb k0 k) eqn:E; [|reflexivity].
          apply key_eqb_eq in E. congruence.
      + (* one key set *)
        destruct Hcase as [(-> & -> & old & Go & So & ->)|[(-> & old & p & Go & So & -> & ->)|((jd & tr & ->) & Hsh)]].
        * (* pause *)
          simpl. split; [auto|]. split; [|assumption]. intros e G Sx. rewrite Hset in G.
          destruct (key_eqb k k0); [injection G as <-; discriminate|auto].
        * (* resume *)
          simpl. split; [auto|]. split; [|assumption]. intros e G Sx. rewrite Hset in G.
          destruct (key_eqb k k0) eqn:E.
          -- injection G as <-. apply key_eqb_eq in E. rewrite <- E, key_eqb_refl. reflexivity.
          -- rewrite key_eqb_sym, E. auto.
        * (* schedule of another key *)
          simpl in Ho, Hl. assert (Hne : k0 <> k) by congruence.
          assert (Hsame : forall e, q_get O k q1 = Some e -> q_get O k (s_q s) = Some e).
          { intros e G. rewrite Hset in G. destruct (key_eqb k k0) eqn:E; [|assumption]. apply key_eqb_eq in E. congruence. }
          destruct Hsh as [(_ & _ & ->)|(_ & ->)]; simpl.
          -- split; [auto|]. split; [|assumption]. auto.
          -- split; [auto|]. split; [|assumption]. intros e G Sx. apply key_eqb_neq in Hne. rewrite Hne. auto.
      + simpl. split; [auto|]. split; [|assumption]. intros e G Sx. rewrite Hset in G.
        destruct (key_eqb k k0); [discriminate|auto].
      + simpl. split; [auto|]. split; [|assumption]. intros e G Sx. rewrite Hset in G. discriminate.
    - (* ScheduleJob before the locker, of another key *)
      destruct (find_pre c (s_pre s)); [discriminate|].
      destruct (sched_pre tstate nft (s_now s) jd tr (s_ts s)) as [[ts1 evs1] [x|ent]] eqn:P; injection H as <-.
      + exists (EvApi (OpSchedule jd tr) (RErr x) :: evs1). unfold chained. simpl. split; [reflexivity|].
        destruct (sched_pre_err_evs tstate nft _ _ _ _ _ _ _ P) as [->|(k0 & t & pv & f & c0 & Hk & ->)]; simpl.
        * auto.
        * assert (Hc0 : c0 = CSchedule).
          { pose proof (sched_pre_spec tstate nft _ _ _ _ _ _ _ P) as SP.
            destruct (sched_args jd tr) as [[[k1 d] t1]|].
            - destruct (jd_susp d); [destruct SP as (_ & E & _); discriminate|].
              destruct (nft t1 (s_ts s t1) (s_now s)) as [st' fire]. destruct SP as (_ & E & _). injection E as _ _ _ _ <-. reflexivity.
            - destruct SP as (_ & E & _). discriminate. }
          subst c0. split; [auto|]. split; [|assumption]. intros e G Sx. rewrite <- (Hc e G Sx).
          destruct f; [|reflexivity]. simpl in Hl. destruct (key_eqb k0 k) eqn:E; [|reflexivity]. apply key_eqb_eq in E. congruence.
      + destruct (sched_pre_key tstate nft _ _ _ _ _ _ _ P) as (Hk & Hev). simpl in Hl.
        assert (Hne : e_key ent <> k) by congruence.
        exists evs1. unfold chained. simpl. split; [reflexivity|].
        assert (Hcs : forall t pv f c0, evs1 = [EvTrig (e_key ent) t pv f c0] -> c0 = CSchedule).
        { intros t pv f c0 ->. pose proof (sched_pre_spec tstate nft _ _ _ _ _ _ _ P) as SP.
          destruct (sched_args jd tr) as [[[k1 d] t1]|].
          - destruct (jd_susp d); [destruct SP as (_ & E & _); discriminate|].
            destruct (nft t1 (s_ts s t1) (s_now s)) as [st' fire]. destruct SP as (_ & E & _). injection E as _ _ _ _ <-. reflexivity.
          - destruct SP as (_ & E & _). discriminate. }
        destruct Hev as [->|(t & pv & f & c0 & ->)]; simpl.
        * split; [exact I|]. split; [assumption|]. intros p [<-|Hin]; [assumption|auto].
        * rewrite (Hcs _ _ _ _ eq_refl). split; [auto|]. split.
          -- intros e G Sx. rewrite <- (Hc e G Sx). destruct f; [|reflexivity]. apply key_eqb_neq in Hne. rewrite Hne. reflexivity.
          -- intros p [<-|Hin]; [assumption|auto].
    - (* ScheduleJob under the locker, of another key *)
      destruct (find_pre c (s_pre s)) as [p|] eqn:Fp; [|discriminate]. apply find_pre_some in Fp. destruct Fp as [Hin _].
      destruct (sched_commit O (ps_entry p) (s_q s)) as [q1 r1] eqn:Cm. injection H as <-.
      exists [EvApi (OpSchedule (ps_jd p) (ps_tr p)) r1]. unfold chained. simpl. split; [reflexivity|]. split; [auto|].
      split; [|intros p0 Hp0; apply filter_In in Hp0; apply Hp; tauto].
      pose proof (sched_commit_spec O HC _ _ _ _ Hwf Cm) as S. pose proof (Hp p Hin) as Hne.
      assert (Hset : lookup_set O (s_q s) q1 (e_key (ps_entry p)) (Some (ps_entry p)) ->
                forall e, q_get O k q1 = Some e -> e_susp e = false -> last_fire k (s_log s) = Some (e_tid e, e_prio e)).
      { intros Hx e G Sx. rewrite Hx in G. destruct (key_eqb k (e_key (ps_entry p))) eqn:E; [|auto]. apply key_eqb_eq in E. congruence. }
      destruct (q_get O (e_key (ps_entry p)) (s_q s)); [destruct (e_repl (ps_entry p))|]; try (apply Hset; tauto).
      destruct S as (-> & _). assumption.
    - (* fetchAndReschedule *)
      destruct (fetch O tstate nft (thr i) (s_now s) (s_next s) i (s_q s) (s_ts s)) as [[[[q1 ts1] evs1] ret] rst] eqn:F.
      injection H as <-. exists evs1. unfold chained. simpl. split; [reflexivity|].
      destruct (fetch_effect O HC tstate nft _ _ _ _ _ _ _ _ _ _ _ Hwf F) as [(_ & -> & -> & -> & ->)|(job & Gj & Hw1 & Cases)].
      + simpl. auto.
      + destruct (key_eq_dec (e_key job) k) as [Ek|Ek].
        * (* job k itself *)
          rewrite Ek in *.
          destruct Cases as [(Hs & -> & -> & -> & Hset)|[(Hs & Hlt & -> & st' & fire & N & -> & -> & Hset)|
                             [(Hs & Hlt & -> & -> & -> & Hset)|(Hs & Hlt & -> & st' & fire & N & -> & -> & Hset)]]]; simpl.
          -- split; [auto|]. split; [|assumption]. intros e G Sx. rewrite Hset, key_eqb_refl in G. injection G as <-.
             simpl in Sx. congruence.
          -- split; [auto|]. split; [|assumption]. intros e G Sx. destruct fire as [p|err].
             ++ rewrite Hset, key_eqb_refl in G. injection G as <-. rewrite key_eqb_refl. reflexivity.
             ++ rewrite Hset, key_eqb_refl in G. discriminate.
          -- split; [auto|]. split; [|assumption]. intros e G Sx. rewrite Hset, key_eqb_refl in G. injection G as <-. auto.
          -- split; [split; [|auto]|].
             ++ intros _. simpl. apply Hc; assumption.
             ++ split; [|assumption]. intros e G Sx. destruct fire as [p|err].
                ** rewrite Hset, key_eqb_refl in G. injection G as <-. rewrite key_eqb_refl. reflexivity.
                ** rewrite Hset, key_eqb_refl in G. discriminate.
        * (* another job *)
          assert (Hother : forall e_new evs, lookup_set O (s_q s) q1 (e_key job) e_new ->
                    last_fire k (evs ++ s_log s) = last_fire k (s_log s) ->
                    forall e, q_get O k q1 = Some e -> e_susp e = false -> last_fire k (evs ++ s_log s) = Some (e_tid e, e_prio e)).
          { intros e_new evs Hset Hlf e G Sx. rewrite Hlf. rewrite Hset in G.
            destruct (key_eqb k (e_key job)) eqn:E; [|auto]. apply key_eqb_eq in E. congruence. }
          assert (Hkb : key_eqb (e_key job) k = false) by (apply key_eqb_neq; assumption).
          destruct Cases as [(Hs & -> & -> & -> & Hset)|[(Hs & Hlt & -> & st' & fire & N & -> & -> & Hset)|
                             [(Hs & Hlt & -> & -> & -> & Hset)|(Hs & Hlt & -> & st' & fire & N & -> & -> & Hset)]]].
          -- split; [simpl; auto|]. split; [|assumption]. eapply Hother; eauto.
          -- split; [simpl; auto|]. split; [|assumption]. destruct fire; eapply Hother; eauto; simpl; rewrite ?Hkb; reflexivity.
          -- split; [simpl; auto|]. split; [|assumption]. eapply Hother; eauto.
          -- split; [simpl; split; [intros; congruence|auto]|]. split; [|assumption].
             destruct fire; eapply Hother; eauto; simpl; rewrite ?Hkb; reflexivity.
    - destruct (find_pend id (s_disp s)) as [p|]; [|discriminate]. injection H as <-.
      exists [EvExec id (p_key p) (p_prio p) (s_now s)]. unfold chained. simpl. auto.
    - destruct (dt <? 0); [discriminate|]. injection H as <-. exists []. unfold chained. simpl. auto.
    - injection H as <-. exists [EvForeign m]. unfold chained. simpl. split; [reflexivity|]. split; [auto|].
      split; [|assumption]. intros e G Sx. destruct (foreign_lookup O HC _ _ _ _ Hwf G) as [Go| ->]; [auto|].
      exfalso. simpl in Hl. apply Hl. apply (qc_get_key O HC _ _ _ (foreign_wf O HC _ _ Hwf) G).
  Qed.

  Theorem no_drift : forall k tr s s', q_wf O (s_q s) -> chained k s -> Forall (steady_for k) tr -> run s tr = Some s' ->
    exists new, s_log s' = new ++ s_log s /\ drift_free k new (s_log s) /\ chained k s'.
  Proof.
    intros k tr. induction tr as [|l tr IH]; intros s s' Hwf Hc Hst H; simpl in H.
    - injection H as <-. exists []. simpl. auto.
    - inversion Hst as [|? ? Hl Hst']; subst. destruct (step s l) as [s1|] eqn:S; [|discriminate].
      destruct (steady_step k s l s1 Hwf Hc Hl S) as (n1 & E1 & D1 & C1).
      destruct (IH s1 s' (step_wf O HC tstate nft thr _ _ _ Hwf S) C1 Hst' H) as (n2 & E2 & D2 & C2).
      exists (n2 ++ n1). split; [rewrite E2, E1, app_assoc; reflexivity|]. split; [|assumption].
      apply drift_free_app; [assumption|]. rewrite <- E1. assumption.
  Qed.

  (* a successful ScheduleJob starts the chain: first priority = NextFireTime(now at the call) *)
  Theorem schedule_initial : forall now d t k q ts q' ts' evs, q_wf O q ->
    jd_key d = Some k -> name_empty k = false -> jd_susp d = false ->
    api O tstate nft now (OpSchedule (Some d) (Some t)) q ts = (q', ts', evs, ROk) ->
    exists st' p, nft t (ts t) now = (st', inl p) /\ evs = [EvTrig k t now (inl p) CSchedule] /\
                  q_get O k q' = Some (mkEntry k p false (jd_repl d) t).
  Proof.
    intros now d t k q ts q' ts' evs Hwf Hk Hne Hs H. unfold api in H.
    destruct (sched_pre tstate nft now (Some d) (Some t) ts) as [[ts1 evs1] r1] eqn:P.
    pose proof (sched_pre_spec tstate nft _ _ _ _ _ _ _ P) as SP. unfold sched_args in SP. rewrite Hk, Hne, Hs in SP.
    destruct (nft t (ts t) now) as [st' [p|err]]; destruct SP as (-> & -> & ->); [|discriminate].
    destruct (sched_commit O _ q) as [q1 res1] eqn:Cm. injection H as <- _ <- ->.
    exists st', p. split; [reflexivity|]. split; [reflexivity|].
    pose proof (sched_commit_spec O HC _ _ _ _ Hwf Cm) as S. simpl in S.
    destruct (q_get O k q); [destruct (jd_repl d)|]; try (destruct S as (_ & S); discriminate);
      destruct S as (_ & _ & Hl); rewrite Hl; simpl; rewrite key_eqb_refl; reflexivity.
  Qed.

  (* ... and establishes `chained` when no other ScheduleJob call for k is on its way *)
  Lemma schedule_establishes_chain : forall s d t k s', q_wf O (s_q s) ->
    jd_key d = Some k -> name_empty k = false -> jd_susp d = false ->
    (forall p, In p (s_pre s) -> e_key (ps_entry p) <> k) ->
    step s (LApi (OpSchedule (Some d) (Some t))) = Some s' ->
    (exists evs, s_log s' = EvApi (OpSchedule (Some d) (Some t)) ROk :: evs ++ s_log s) -> chained k s'.
  Proof.
    intros s d t k s' Hwf Hk Hne Hs Hp H (evs & Hlog). unfold SchedModel.step in H.
    destruct (api O tstate nft (s_now s) (OpSchedule (Some d) (Some t)) (s_q s) (s_ts s)) as [[[q1 ts1] evs1] r1] eqn:A.
    injection H as <-. simpl in Hlog. injection Hlog as -> _.
    destruct (schedule_initial _ _ _ _ _ _ _ _ _ Hwf Hk Hne Hs A) as (st' & p & _ & -> & G).
    split; [|assumption]. simpl. intros e G' _. rewrite G in G'. injection G' as <-. simpl. rewrite key_eqb_refl. reflexivity.
  Qed.

  (* a trigger error inside fetch removes the job; it is handed to execution iff it was on time *)
  Theorem trigger_error_leaves_registry : forall th now id i q ts job q1 q' ts' evs ret rst err,
    q_wf O q -> q_pop O q = Some (job, q1) -> e_susp job = false -> e_prio job <= now ->
    fetch O tstate nft th now id i q ts = (q', ts', evs, ret, rst) ->
    snd (nft (e_tid job) (ts (e_tid job)) (if e_prio job <? now - th then now else e_prio job)) = inr err ->
    q_get O (e_key job) q' = None /\ (forall k, k <> e_key job -> q_get O k q' = q_get O k q) /\
    ret = Some (job, negb (e_prio job <? now - th)).
  Proof.
    intros th now id i q ts job q1 q' ts' evs ret rst err Hwf Hp Hs Hle F Herr.
    pose proof (fetch_classification O HC tstate nft th now id i q ts job q1 q' ts' evs ret rst Hwf Hp F) as (_ & C2 & _ & C4).
    assert (Hfin : lookup_set O q q' (e_key job) None ->
              q_get O (e_key job) q' = None /\ (forall k, k <> e_key job -> q_get O k q' = q_get O k q)).
    { intros Hl. split; [rewrite Hl, key_eqb_refl; reflexivity|]. intros k Hk. rewrite Hl. apply key_eqb_neq in Hk. rewrite Hk. reflexivity. }
    destruct (e_prio job <? now - th) eqn:E.
    - apply Z.ltb_lt in E. specialize (C2 Hs E). destruct (nft (e_tid job) (ts (e_tid job)) now) as [st' fire].
      simpl in Herr. subst fire. destruct C2 as (-> & _ & _ & (_ & Hl)). destruct (Hfin Hl). auto.
    - apply Z.ltb_ge in E. specialize (C4 Hs E Hle). destruct (nft (e_tid job) (ts (e_tid job)) (e_prio job)) as [st' fire].
      simpl in Herr. subst fire. destruct C4 as (-> & _ & _ & (_ & Hl)). destruct (Hfin Hl). auto.
  Qed.
End C04.

(* ---------- RunOnceTrigger (executable trigger semantics) ---------- *)
Section RunOnce.
  Variable O : queue_ops.
  Hypothesis HC : queue_contract O.

  (* the latch: once expired, always expired, and every call fails *)
  Lemma runonce_latch : forall t d prev, nft_exec t (TOnce d true) prev = (TOnce d true, inr 0%nat).
  Proof. reflexivity. Qed.
  Lemma runonce_first : forall t d prev, nft_exec t (TOnce d false) prev = (TOnce d true, inl (prev + d)).
  Proof. reflexivity. Qed.

  (* the one fire time of a run-once job: on time -> handed to execution exactly now and gone;
     late -> misfired, not executed, gone; not due -> stays *)
  Theorem run_once_fetch : forall th now id i q ts job q1 q' ts' evs ret rst d,
    q_wf O q -> q_pop O q = Some (job, q1) -> e_susp job = false ->
    ts (e_tid job) = TOnce d true ->       (* its trigger has produced its single fire time *)
    fetch O xstate nft_exec th now id i q ts = (q', ts', evs, ret, rst) ->
    (now - th <= e_prio job <= now -> ret = Some (job, true) /\ q_get O (e_key job) q' = None) /\
    (e_prio job < now - th -> ret = Some (job, false) /\ q_get O (e_key job) q' = None /\
                              In (EvMisfire id (e_key job) (e_prio job)) evs) /\
    (now - th <= e_prio job -> now < e_prio job -> ret = Some (job, false) /\ q_get O (e_key job) q' = Some job /\ evs = [EvDeq id i job false now]).
  Proof.
    intros th now id i q ts job q1 q' ts' evs ret rst d Hwf Hp Hs Ht F.
    pose proof (fetch_classification O HC xstate nft_exec th now id i q ts job q1 q' ts' evs ret rst Hwf Hp F) as (_ & C2 & C3 & C4).
    split; [|split].
    - intros [L1 L2]. specialize (C4 Hs L1 L2). rewrite Ht in C4. simpl in C4. destruct C4 as (-> & _ & _ & (_ & Hl)).
      split; [reflexivity|]. rewrite Hl, key_eqb_refl. reflexivity.
    - intros L. specialize (C2 Hs L). rewrite Ht in C2. simpl in C2. destruct C2 as (-> & _ & -> & (_ & Hl)).
      split; [reflexivity|]. split; [rewrite Hl, key_eqb_refl; reflexivity|]. simpl. auto.
    - intros L1 L2. destruct (C3 Hs L1 L2) as (-> & _ & -> & (_ & Hl) & _). split; [reflexivity|]. split; [|reflexivity].
      rewrite Hl, key_eqb_refl, with_prio_same. reflexivity.
  Qed.
End RunOnce.
