(* quartz/trigger.go's SimpleTrigger and RunOnceTrigger, translated from the source on every run
   (Gen/TrigSrc.v), are the model's executable trigger instances TSimple and TOnce (Triggers.v) -- the
   instances the run-once theorem of C04 and the examples are about.  int64 is unbounded Z on both sides
   (a wrap of prev + interval is outside the model). *)
From Coq Require Import ZArith List Bool.
Require Import QzSched.Gen.Params QzSched.SchedModel QzSched.Triggers QzSched.Gen.TrigSrc.
Import ListNotations.
Open Scope Z_scope.

(* the (value, error) pair of the Go signature as the model's result: error code 0 = nil,
   c_ErrTriggerExpired = the trigger error class 0 *)
Definition decode (v code : Z) : Z + terr := if code =? 0 then inl v else inr 0%nat.

Theorem src_simple_trigger : forall (t : tid) i prev,
  nft_exec t (TSimple i) prev =
  (TSimple i, let '(v, code) := g_SimpleTrigger_NextFireTime {| SimpleTrigger_Interval := i |} prev in decode v code).
Proof. reflexivity. Qed.

Theorem src_run_once_trigger : forall (t : tid) d e prev,
  nft_exec t (TOnce d e) prev =
  (let '(ot', v, code) := g_RunOnceTrigger_NextFireTime {| RunOnceTrigger_Delay := d; RunOnceTrigger_Expired := e |} prev in
   (TOnce (RunOnceTrigger_Delay ot') (RunOnceTrigger_Expired ot'), decode v code)).
Proof. intros t d [|] prev; reflexivity. Qed.

(* once used, a RunOnceTrigger stays expired and answers ErrTriggerExpired whatever prev is *)
Theorem src_run_once_latch : forall d e prev,
  let '(ot', v, code) := g_RunOnceTrigger_NextFireTime {| RunOnceTrigger_Delay := d; RunOnceTrigger_Expired := e |} prev in
  RunOnceTrigger_Expired ot' = true /\ RunOnceTrigger_Delay ot' = d /\
  (e = true -> code = c_ErrTriggerExpired) /\ (e = false -> code = 0 /\ v = prev + d).
Proof. intros d [|] prev; cbn; repeat split; intros; try discriminate; reflexivity. Qed.
