(* C04, run-once: over a whole run a job scheduled with a fresh RunOnceTrigger used by no foreign writer is
   dequeued as valid at most once. Counting invariant over any queue meeting the contract. *)
From Coq Require Import ZArith List Bool String Lia Permutation.
Require Import QzSched.Gen.Params QzSched.SchedModel QzSched.Registry QzSched.ApiProofs QzSched.WfProofs QzSched.FetchProofs
               QzSched.LtsDefs QzSched.LtsProofs QzSched.Triggers.
Import ListNotations.
Open Scope list_scope.
Open Scope Z_scope.

Lemma perm_filter_length : forall (A : Type) (f : A -> bool) l l', Permutation l l' -> List.length (filter f l) = List.length (filter f l').
Proof.
  intros A f l l' H. induction H; simpl; auto.
  - destruct (f x); simpl; auto.
  - destruct (f x), (f y); reflexivity.
  - congruence.
Qed.

Lemma filter_app_length : forall (A : Type) (f : A -> bool) l l', List.length (filter f (l ++ l')) = (List.length (filter f l) + List.length (filter f l'))%nat.
Proof. intros. rewrite filter_app, app_length. reflexivity. Qed.

(* number of valid dequeues of entries whose trigger is t *)
Fixpoint vcount (t : tid) (log : list event) : nat :=
  match log with
  | [] => 0%nat
  | EvDeq _ _ e true _ :: r => ((if Nat.eqb (e_tid e) t then 1 else 0) + vcount t r)%nat
  | _ :: r => vcount t r
  end.

Lemma vcount_quiet_app : forall t evs l, Forall quiet_ev evs -> vcount t (evs ++ l) = vcount t l.
Proof.
  induction evs as [|ev evs IH]; intros l H; simpl; [reflexivity|].
  inversion H as [|? ? Hq Hr]; subst. destruct ev; simpl in *; try contradiction; auto.
Qed.

Section RunOnce.
  Variable O : queue_ops.
  Hypothesis HC : queue_contract O.
  Variable thr : nat -> Z.
  Variable t : tid.       (* the run-once trigger *)
  Variable d : Z.         (* its delay *)
  Notation state := (state O xstate).
  Notation step := (step O xstate nft_exec thr).
  Notation run := (run O xstate nft_exec thr).
  Notation s_q := (s_q O xstate).
  Notation s_ts := (s_ts O xstate).
  Notation s_now := (s_now O xstate).
  Notation s_log := (s_log O xstate).
  Notation s_disp := (s_disp O xstate).
  Notation s_pre := (s_pre O xstate).
  Notation init := (init O xstate).

  (* an active entry driven by t *)
  Definition holds (e : entry) : bool := negb (e_susp e) && Nat.eqb (e_tid e) t.
  Definition ind (v : option entry) : nat := match v with Some e => if holds e then 1%nat else 0%nat | None => 0%nat end.
  Definition qcount (q : Q O) : nat := List.length (filter holds (q_list O q)).
  Definition pcount (pre : list presched) : nat := List.length (filter (fun p => holds (ps_entry p)) pre).

  Definition olist (v : option entry) : list entry := match v with Some e => [e] | None => [] end.
  Definition others (k : jkey) (q : Q O) : list entry := filter (fun x => negb (key_eqb (e_key x) k)) (q_list O q).

  Lemma nodup_entries : forall q, q_wf O q -> NoDup (q_list O q).
  Proof. intros q Hwf. eapply NoDup_map_inv. apply (qc_list_nodup O HC). assumption. Qed.

  Lemma list_split_at : forall q q0 k v, q_wf O q -> q_wf O q0 ->
    (forall x, In x (q_list O q) <-> (v = Some x \/ (In x (q_list O q0) /\ e_key x <> k))) ->
    (forall e, v = Some e -> e_key e = k) ->
    Permutation (q_list O q) (olist v ++ others k q0).
  Proof.
    intros q q0 k v Hwf Hwf0 Hin Hk. apply NoDup_Permutation.
    - apply nodup_entries. assumption.
    - destruct v as [e|]; simpl.
      + constructor.
        * unfold others. rewrite filter_In. intros [_ Hf]. rewrite (Hk e eq_refl), key_eqb_refl in Hf. discriminate.
        * apply NoDup_filter. apply nodup_entries. assumption.
      + apply NoDup_filter. apply nodup_entries. assumption.
    - intros x. rewrite Hin, in_app_iff. unfold others. rewrite filter_In. destruct v as [e|]; simpl.
      + split.
        * intros [E|[H1 H2]]; [left; left; congruence|right; split; [assumption|]]. apply negb_true_iff, key_eqb_neq. assumption.
        * intros [[E|[]]|[H1 H2]]; [left; congruence|right; split; [assumption|]]. apply negb_true_iff, key_eqb_neq in H2. assumption.
      + split.
        * intros [E|[H1 H2]]; [discriminate|right; split; [assumption|]]. apply negb_true_iff, key_eqb_neq. assumption.
        * intros [[]|[H1 H2]]. right. split; [assumption|]. apply negb_true_iff, key_eqb_neq in H2. assumption.
  Qed.

  (* the count after one key of the lookup function changed *)
  Lemma qcount_set : forall q q' k v, q_wf O q -> q_wf O q' -> lookup_set O q q' k v ->
    (forall e, v = Some e -> e_key e = k) ->
    (qcount q' + ind (q_get O k q) = qcount q + ind v)%nat.
  Proof.
    intros q q' k v Hwf Hwf' Hl Hk.
    assert (P1 : Permutation (q_list O q) (olist (q_get O k q) ++ others k q)).
    { apply list_split_at; auto.
      - intros x. rewrite (qc_list_in O HC q x Hwf). split.
        + intros G. destruct (key_eq_dec (e_key x) k) as [E|E]; [left; congruence|right; tauto].
        + intros [G|[G _]]; [|assumption]. rewrite (qc_get_key O HC q k x Hwf G). assumption.
      - intros e G. apply (qc_get_key O HC q k e Hwf G). }
    assert (P2 : Permutation (q_list O q') (olist v ++ others k q)).
    { apply list_split_at; auto. intros x. rewrite (qc_list_in O HC q' x Hwf'), Hl, (qc_list_in O HC q x Hwf).
      destruct (key_eqb (e_key x) k) eqn:E.
      - apply key_eqb_eq in E. split; [tauto|]. intros [G|[_ G]]; [assumption|contradiction].
      - apply key_eqb_neq in E. split; [tauto|]. intros [G|[G _]]; [|assumption]. exfalso. apply E. apply Hk. assumption. }
    unfold qcount. rewrite (perm_filter_length _ holds _ _ P1), (perm_filter_length _ holds _ _ P2), !filter_app_length.
    assert (Ho : forall w, List.length (filter holds (olist w)) = ind w).
    { intros [e|]; simpl; [destruct (holds e); reflexivity|reflexivity]. }
    rewrite !Ho. lia.
  Qed.

  Lemma qcount_same : forall q q', q_wf O q -> q_wf O q' -> (forall k, q_get O k q' = q_get O k q) -> qcount q' = qcount q.
  Proof.
    intros q q' Hwf Hwf' H. unfold qcount. apply perm_filter_length. apply NoDup_Permutation; try (apply nodup_entries; assumption).
    intros x. rewrite (qc_list_in O HC q' x Hwf'), (qc_list_in O HC q x Hwf), H. tauto.
  Qed.

  Lemma qcount_empty : forall q, q_wf O q -> (forall k, q_get O k q = None) -> qcount q = 0%nat.
  Proof.
    intros q Hwf H. unfold qcount. destruct (q_list O q) as [|x l] eqn:E; [reflexivity|].
    assert (Hin : In x (q_list O q)) by (rewrite E; left; reflexivity).
    apply (qc_list_in O HC q x Hwf) in Hin. rewrite H in Hin. discriminate.
  Qed.

  Lemma pcount_drop : forall c pre p, In p pre -> ps_client p = c ->
    (pcount (drop_pre c pre) + ind (Some (ps_entry p)) <= pcount pre)%nat.
  Proof.
    intros c pre p. unfold pcount, drop_pre. induction pre as [|x pre IH]; intros Hin Hc; [contradiction|].
    simpl. destruct Hin as [->|Hin].
    - rewrite Hc, Nat.eqb_refl. simpl. destruct (holds (ps_entry p)); simpl.
      + clear. induction pre as [|y pre IH]; simpl; [lia|]. destruct (negb (ps_client y =? c)%nat); simpl; destruct (holds (ps_entry y)); simpl; lia.
      + clear. induction pre as [|y pre IH]; simpl; [lia|]. destruct (negb (ps_client y =? c)%nat); simpl; destruct (holds (ps_entry y)); simpl; lia.
    - specialize (IH Hin Hc). destruct (negb (ps_client x =? c)%nat); simpl; destruct (holds (ps_entry x)); simpl in *; lia.
  Qed.

  (* the latch *)
  Lemma once_call : forall t0 ts prev b, ts t = TOnce d b ->
    let '(st', fire) := nft_exec t0 (ts t0) prev in
    (t0 = t -> (b = false -> st' = TOnce d true /\ fire = inl (prev + d)) /\ (b = true -> st' = TOnce d true /\ fire = inr 0%nat)) /\
    (t0 <> t -> upd xstate ts t0 st' t = TOnce d b).
  Proof.
    intros t0 ts prev b Ht. destruct (nft_exec t0 (ts t0) prev) as [st' fire] eqn:N. split.
    - intros ->. rewrite Ht in N. destruct b; simpl in N; injection N as <- <-; split; (discriminate || auto).
    - intros Hne. unfold upd. apply Nat.eqb_neq in Hne. rewrite Nat.eqb_sym, Hne. assumption.
  Qed.

  (* what is counted: active entries driven by t in the queue and on their way to it, and valid dequeues of such entries *)
  Definition total (s : state) : nat := (qcount (s_q s) + pcount (s_pre s) + vcount t (s_log s))%nat.

  Definition RO (s : state) : Prop :=
    q_wf O (s_q s) /\ exists b, s_ts s t = TOnce d b /\ (if b then (total s <= 1)%nat else total s = 0%nat).

  Definition cond (b : bool) (n : nat) : Prop := if b then (n <= 1)%nat else n = 0%nat.

  (* the two ways the counted quantity and the latch move together *)
  Lemma cond_keep : forall b n n', cond b n -> (n' <= n)%nat -> cond b n'.
  Proof. intros [] n n' H L; simpl in *; lia. Qed.
  Lemma cond_fire : forall n n', cond false n -> (n' <= n + 1)%nat -> cond true n'.
  Proof. intros n n' H L; simpl in *; lia. Qed.

  Lemma holds_susp : forall e, e_susp e = true -> holds e = false.
  Proof. intros e H. unfold holds. rewrite H. reflexivity. Qed.
  Lemma holds_other : forall e, e_tid e <> t -> holds e = false.
  Proof. intros e H. unfold holds. apply Nat.eqb_neq in H. rewrite H. apply andb_false_r. Qed.

  (* ScheduleJob before the locker *)
  Lemma pre_ro : forall now jd tr ts ts' evs r b, ts t = TOnce d b ->
    sched_pre xstate nft_exec now jd tr ts = (ts', evs, r) ->
    Forall quiet_ev evs /\
    ((ts' t = TOnce d b /\ forall ent, r = inr ent -> holds ent = false) \/
     (b = false /\ ts' t = TOnce d true /\ exists ent, r = inr ent)).
  Proof.
    intros now jd tr ts ts' evs r b Ht P. pose proof (sched_pre_spec xstate nft_exec _ _ _ _ _ _ _ P) as SP.
    destruct (sched_args jd tr) as [[[k dd] t0]|].
    - destruct (jd_susp dd).
      + destruct SP as (-> & -> & ->). split; [constructor|]. left. split; [assumption|]. intros ent E. injection E as <-. reflexivity.
      + pose proof (once_call t0 ts now b Ht) as OC. destruct (nft_exec t0 (ts t0) now) as [st' fire].
        destruct SP as (-> & -> & ->). split; [repeat constructor|]. destruct OC as [OC1 OC2].
        destruct (Nat.eq_dec t0 t) as [E|E].
        * subst t0. destruct (OC1 eq_refl) as [Of Ot]. destruct b.
          -- destruct (Ot eq_refl) as (-> & ->). left. split; [unfold upd; rewrite Nat.eqb_refl; reflexivity|]. discriminate.
          -- destruct (Of eq_refl) as (-> & ->). right. split; [reflexivity|]. split; [unfold upd; rewrite Nat.eqb_refl; reflexivity|]. eauto.
        * left. split; [apply OC2; assumption|]. intros ent E2. destruct fire; [|discriminate]. injection E2 as <-.
          apply holds_other. assumption.
    - destruct SP as (-> & -> & ->). split; [constructor|]. left. split; [assumption|]. discriminate.
  Qed.

  (* ScheduleJob under the locker *)
  Lemma commit_count : forall ent q q1 res1, q_wf O q -> sched_commit O ent q = (q1, res1) ->
    q_wf O q1 /\ (qcount q1 <= qcount q + ind (Some ent))%nat.
  Proof.
    intros ent q q1 res1 Hwf Cm. pose proof (sched_commit_spec O HC ent q q1 res1 Hwf Cm) as S.
    assert (Hset : res1 = ROk /\ q_wf O q1 /\ lookup_set O q q1 (e_key ent) (Some ent) ->
              q_wf O q1 /\ (qcount q1 <= qcount q + ind (Some ent))%nat).
    { intros (_ & Hw & Hl). split; [assumption|].
      pose proof (qcount_set q q1 (e_key ent) (Some ent) Hwf Hw Hl) as Hc. rewrite <- Hc; [lia|]. intros e E. congruence. }
    destruct (q_get O (e_key ent) q); [destruct (e_repl ent)|]; auto.
    destruct S as (-> & _). split; [assumption|lia].
  Qed.

  Lemma ro_step : forall s l s', RO s -> (forall m, l <> LForeign m) -> step s l = Some s' -> RO s'.
  Proof.
    intros s l s' (Hwf & b & Ht & Hc) Hnf H. unfold RO, total in *.
    destruct l; simpl in H.
    - (* API call *)
      destruct (api O xstate nft_exec (s_now s) op (s_q s) (s_ts s)) as [[[q1 ts1] evs1] r1] eqn:A.
      injection H as <-. simpl. split; [eapply api_wf; eauto|].
      assert (Hq : Forall quiet_ev evs1).
      { destruct (api_effect O HC xstate nft_exec _ _ _ _ _ _ _ _ Hwf A) as (_ & Sh). eapply api_shape_quiet; eauto. }
      cbn [vcount]. rewrite vcount_quiet_app by assumption.
      destruct op as [jd tr|k|k|k| |k| ]; unfold api in A.
      + destruct (sched_pre xstate nft_exec (s_now s) jd tr (s_ts s)) as [[ts2 evs2] r2] eqn:P.
        destruct (pre_ro _ _ _ _ _ _ _ _ Ht P) as (_ & Hp). destruct r2 as [e|ent].
        * injection A as <- <- _ _. destruct Hp as [(Ht' & _)|(_ & _ & ent & E)]; [|discriminate]. exists b. auto.
        * destruct (sched_commit O ent (s_q s)) as [q2 res2] eqn:Cm. injection A as <- <- _ _.
          destruct (commit_count _ _ _ _ Hwf Cm) as (_ & Hcnt).
          destruct Hp as [(Ht' & Hh)|(-> & Ht' & _)].
          -- exists b. split; [assumption|]. eapply cond_keep; [exact Hc|]. simpl in Hcnt. rewrite (Hh ent eq_refl) in Hcnt. lia.
          -- exists true. split; [assumption|]. eapply cond_fire; [exact Hc|]. simpl in Hcnt. destruct (holds ent); lia.
      + destruct (delete O k (s_q s)) as [q2 res2] eqn:D. injection A as <- <- _ _. exists b. split; [assumption|].
        eapply cond_keep; [exact Hc|]. pose proof (delete_spec O HC k _ _ _ Hwf D) as S.
        destruct k as [k|]; [destruct (q_get O k (s_q s)) as [x|] eqn:G|].
        * destruct S as (_ & Hw & Hl). pose proof (qcount_set _ _ k None Hwf Hw Hl ltac:(discriminate)) as Hq2. simpl in Hq2. lia.
        * destruct S as (-> & _). lia.
        * destruct S as (-> & _). lia.
      + destruct (pause O k (s_q s)) as [q2 res2] eqn:D. injection A as <- <- _ _. exists b. split; [assumption|].
        eapply cond_keep; [exact Hc|]. pose proof (pause_spec O HC k _ _ _ Hwf D) as S.
        destruct k as [k|]; [destruct (q_get O k (s_q s)) as [x|] eqn:G; [destruct (e_susp x)|]|]; try (destruct S as (-> & _); lia).
        destruct S as (_ & Hw & Hl).
        pose proof (qcount_set _ _ k (Some (parked x)) Hwf Hw Hl) as Hq2. simpl in Hq2. rewrite G in Hq2.
        rewrite <- (qc_get_key O HC _ _ _ Hwf G) in Hq2. specialize (Hq2 ltac:(intros e E; injection E as <-; reflexivity)). lia.
      + pose proof (resume_spec O HC xstate nft_exec _ _ _ _ _ _ _ _ Hwf A) as S.
        destruct k as [k|]; [destruct (q_get O k (s_q s)) as [x|] eqn:G; [destruct (negb (e_susp x)) eqn:Sx|]|];
          try (destruct S as (-> & -> & _); exists b; split; [assumption|]; eapply cond_keep; [exact Hc|lia]).
        apply negb_false_iff in Sx.
        pose proof (once_call (e_tid x) (s_ts s) (s_now s) b Ht) as OC.
        destruct (nft_exec (e_tid x) (s_ts s (e_tid x)) (s_now s)) as [st' fire]. destruct S as (-> & _ & S). destruct OC as [OC1 OC2].
        assert (Hres : forall p q2, q_wf O q2 -> lookup_set O (s_q s) q2 k (Some (resumed x p)) ->
                  (qcount q2 = qcount (s_q s) + ind (Some (resumed x p)))%nat).
        { intros p q2 Hw Hl. pose proof (qcount_set _ _ k (Some (resumed x p)) Hwf Hw Hl) as Hq2. rewrite G in Hq2.
          simpl in Hq2. rewrite (holds_susp x Sx) in Hq2. rewrite <- (qc_get_key O HC _ _ _ Hwf G) in Hq2.
          specialize (Hq2 ltac:(intros e E; injection E as <-; reflexivity)). simpl. lia. }
        destruct (Nat.eq_dec (e_tid x) t) as [E|E].
        * destruct (OC1 E) as [Of Ot]. destruct b.
          -- destruct (Ot eq_refl) as (-> & ->). destruct S as (-> & _). exists true. split.
             ++ unfold upd. rewrite E, Nat.eqb_refl. reflexivity.
             ++ eapply (cond_keep true); [exact Hc|lia].
          -- destruct (Of eq_refl) as (-> & ->). destruct S as (_ & Hw & Hl). exists true. split.
             ++ unfold upd. rewrite E, Nat.eqb_refl. reflexivity.
             ++ eapply cond_fire; [exact Hc|]. rewrite (Hres _ _ Hw Hl). simpl. destruct (holds (resumed x (s_now s + d))); lia.
        * exists b. split; [apply OC2; assumption|]. eapply cond_keep; [exact Hc|]. destruct fire as [p|err].
          -- destruct S as (_ & Hw & Hl). rewrite (Hres _ _ Hw Hl). simpl. rewrite (holds_other (resumed x p) E). lia.
          -- destruct S as (-> & _). lia.
      + unfold clear in A. injection A as <- <- _ _. exists b. split; [assumption|]. eapply cond_keep; [exact Hc|].
        rewrite (qcount_empty (q_clear O (s_q s)) (qc_clear_wf O HC _) (qc_clear_get O HC _)). lia.
      + injection A as <- <- _ _. exists b. split; [assumption|]. eapply cond_keep; [exact Hc|lia].
      + injection A as <- <- _ _. exists b. split; [assumption|]. eapply cond_keep; [exact Hc|lia].
    - (* ScheduleJob before the locker *)
      destruct (find_pre c (s_pre s)); [discriminate|].
      destruct (sched_pre xstate nft_exec (s_now s) jd tr (s_ts s)) as [[ts2 evs2] r2] eqn:P.
      destruct (pre_ro _ _ _ _ _ _ _ _ Ht P) as (Hq & Hp). destruct r2 as [e|ent]; injection H as <-; simpl; (split; [assumption|]).
      + cbn [vcount]. rewrite vcount_quiet_app by assumption.
        destruct Hp as [(Ht' & _)|(_ & _ & ent & E)]; [|discriminate]. exists b. auto.
      + rewrite vcount_quiet_app by assumption. unfold pcount in *. simpl.
        destruct Hp as [(Ht' & Hh)|(-> & Ht' & _)].
        * exists b. split; [assumption|]. rewrite (Hh ent eq_refl). eapply cond_keep; [exact Hc|lia].
        * exists true. split; [assumption|]. eapply cond_fire; [exact Hc|]. destruct (holds ent); simpl; lia.
    - (* ScheduleJob under the locker *)
      destruct (find_pre c (s_pre s)) as [p|] eqn:Fp; [|discriminate]. apply find_pre_some in Fp. destruct Fp as [Hin Hcl].
      destruct (sched_commit O (ps_entry p) (s_q s)) as [q2 res2] eqn:Cm. injection H as <-. simpl.
      destruct (commit_count _ _ _ _ Hwf Cm) as (Hw & Hcnt). split; [assumption|]. exists b. split; [assumption|].
      eapply cond_keep; [exact Hc|]. pose proof (pcount_drop c (s_pre s) p Hin Hcl). lia.
    - (* fetchAndReschedule *)
      destruct (fetch O xstate nft_exec (thr i) (s_now s) (SchedModel.s_next O xstate s) i (s_q s) (s_ts s)) as [[[[q1 ts1] evs1] ret] rst] eqn:F.
      injection H as <-. simpl.
      destruct (fetch_effect O HC xstate nft_exec _ _ _ _ _ _ _ _ _ _ _ Hwf F) as [(_ & -> & -> & -> & ->)|(job & Gj & Hw1 & Cases)].
      + split; [assumption|]. exists b. auto.
      + split; [assumption|].
        assert (Hset : forall v, lookup_set O (s_q s) q1 (e_key job) v -> (forall e, v = Some e -> e_key e = e_key job) ->
                  (qcount q1 + ind (Some job) = qcount (s_q s) + ind v)%nat).
        { intros v Hl Hk. pose proof (qcount_set _ _ _ v Hwf Hw1 Hl Hk) as Hq2. rewrite Gj in Hq2. exact Hq2. }
        destruct Cases as [(Hs & -> & -> & -> & Hl)|[(Hs & Hlt & -> & st' & fire & N & -> & -> & Hl)|
                           [(Hs & Hlt & -> & -> & -> & Hl)|(Hs & Hlt & -> & st' & fire & N & -> & -> & Hl)]]].
        * (* suspended: parked again *)
          exists b. split; [assumption|]. eapply cond_keep; [exact Hc|].
          pose proof (Hset _ Hl ltac:(intros e E; injection E as <-; reflexivity)) as Hq2. simpl in Hq2 |- *.
          rewrite (holds_susp job Hs) in Hq2. rewrite (holds_susp (with_prio job go_MaxInt64) Hs) in Hq2. lia.
        * (* late: re-based or gone; not a valid dequeue *)
          pose proof (once_call (e_tid job) (s_ts s) (s_now s) b Ht) as OC. rewrite N in OC. destruct OC as [OC1 OC2]. simpl.
          destruct (Nat.eq_dec (e_tid job) t) as [E|E].
          -- assert (Hj : holds job = true) by (unfold holds; rewrite Hs, E, Nat.eqb_refl; reflexivity).
             assert (Hone : (1 <= qcount (s_q s))%nat).
             { pose proof (qcount_set _ _ (e_key job) (q_get O (e_key job) (s_q s)) Hwf Hwf) as X. unfold qcount.
               pose proof (qc_list_in O HC _ job Hwf) as Hin. apply proj2 in Hin. specialize (Hin Gj). clear X.
               induction (q_list O (s_q s)) as [|y l IH]; [contradiction|]. simpl. destruct Hin as [->|Hin].
               - rewrite Hj. simpl. lia.
               - specialize (IH Hin). destruct (holds y); simpl; lia. }
             destruct b; [|simpl in Hc; lia]. destruct (OC1 E) as [_ Ot]. destruct (Ot eq_refl) as (-> & ->).
             exists true. split; [unfold upd; rewrite E, Nat.eqb_refl; reflexivity|]. eapply (cond_keep true); [exact Hc|].
             pose proof (Hset None Hl ltac:(discriminate)) as Hq2. simpl in Hq2. lia.
          -- exists b. split; [apply OC2; assumption|]. eapply cond_keep; [exact Hc|].
             assert (Hj : holds job = false) by (apply holds_other; assumption).
             destruct fire as [p|err].
             ++ pose proof (Hset _ Hl ltac:(intros e E2; injection E2 as <-; reflexivity)) as Hq2. simpl in Hq2.
                rewrite Hj in Hq2. rewrite (holds_other (with_prio job p) E) in Hq2. lia.
             ++ pose proof (Hset None Hl ltac:(discriminate)) as Hq2. simpl in Hq2. lia.
        * (* not due: unchanged *)
          exists b. split; [assumption|]. eapply cond_keep; [exact Hc|].
          pose proof (Hset _ Hl ltac:(intros e E; injection E as <-; reflexivity)) as Hq2. simpl in Hq2 |- *. lia.
        * (* on time: a valid dequeue; the latch makes the trigger fail, the entry is gone *)
          pose proof (once_call (e_tid job) (s_ts s) (e_prio job) b Ht) as OC. rewrite N in OC. destruct OC as [OC1 OC2]. simpl.
          destruct (Nat.eq_dec (e_tid job) t) as [E|E].
          -- assert (Hj : holds job = true) by (unfold holds; rewrite Hs, E, Nat.eqb_refl; reflexivity).
             assert (Hone : (1 <= qcount (s_q s))%nat).
             { unfold qcount. pose proof (qc_list_in O HC _ job Hwf) as Hin. apply proj2 in Hin. specialize (Hin Gj).
               induction (q_list O (s_q s)) as [|y l IH]; [contradiction|]. simpl. destruct Hin as [->|Hin].
               - rewrite Hj. simpl. lia.
               - specialize (IH Hin). destruct (holds y); simpl; lia. }
             destruct b; [|simpl in Hc; lia]. destruct (OC1 E) as [_ Ot]. destruct (Ot eq_refl) as (-> & ->).
             exists true. split; [unfold upd; rewrite E, Nat.eqb_refl; reflexivity|]. eapply (cond_keep true); [exact Hc|].
             pose proof (Hset None Hl ltac:(discriminate)) as Hq2. simpl in Hq2. rewrite Hj in Hq2.
             apply Nat.eqb_eq in E. rewrite E. destruct (true || false); simpl; unfold pcount; simpl; lia.
          -- exists b. split; [apply OC2; assumption|]. eapply cond_keep; [exact Hc|].
             assert (Hj : holds job = false) by (apply holds_other; assumption).
             apply Nat.eqb_neq in E. rewrite E. apply Nat.eqb_neq in E.
             destruct fire as [p|err].
             ++ pose proof (Hset _ Hl ltac:(intros e E2; injection E2 as <-; reflexivity)) as Hq2. simpl in Hq2.
                rewrite Hj in Hq2. rewrite (holds_other (with_prio job p) E) in Hq2. lia.
             ++ pose proof (Hset None Hl ltac:(discriminate)) as Hq2. simpl in Hq2. lia.
    - destruct (find_pend id (s_disp s)); [|discriminate]. injection H as <-. simpl. split; [assumption|]. exists b. auto.
    - destruct (dt <? 0); [discriminate|]. injection H as <-. simpl. split; [assumption|]. exists b. auto.
    - exfalso. apply (Hnf m). reflexivity.
  Qed.

  Definition no_foreign (l : label) : Prop := match l with LForeign _ => False | _ => True end.

  Lemma ro_run : forall tr s s', RO s -> Forall no_foreign tr -> run s tr = Some s' -> RO s'.
  Proof.
    induction tr as [|l tr IH]; intros s s' HR Hnf H; simpl in H.
    - injection H as <-. assumption.
    - inversion Hnf as [|? ? Hl Hnf']; subst. destruct (step s l) as [s1|] eqn:S; [|discriminate].
      apply (IH s1 s'); auto. eapply ro_step; eauto. intros m ->. exact Hl.
  Qed.

  (* never two: in a run without foreign writers, from the empty scheduler with a fresh RunOnceTrigger t, at most one
     valid dequeue ever takes an entry driven by t *)
  Theorem run_once_once : forall ts0 now0 tr s, ts0 t = TOnce d false -> Forall no_foreign tr ->
    run (init ts0 now0) tr = Some s -> (vcount t (s_log s) <= 1)%nat.
  Proof.
    intros ts0 now0 tr s Ht Hnf H.
    assert (HR : RO (init ts0 now0)).
    { split; [apply (qc_empty_wf O HC)|]. exists false. split; [assumption|]. unfold total. simpl.
      rewrite (qcount_empty (q_empty O) (qc_empty_wf O HC) (qc_empty_get O HC)). reflexivity. }
    destruct (ro_run tr _ _ HR Hnf H) as (_ & b & _ & Hc). unfold total in Hc. destruct b; simpl in Hc; lia.
  Qed.
End RunOnce.
