(* Definitions shared by the non-vacuity examples. *)
From Coq Require Import ZArith List Bool String.
Require Import QzSched.Gen.Params QzSched.SchedModel QzSched.Registry QzSched.ListQueue QzSched.Triggers.
Import ListNotations.
Open Scope string_scope.
Open Scope Z_scope.

Definition ka : jkey := ("a", "default").
Definition kb : jkey := ("b", "g").
Definition ts0 : tid -> xstate :=
  fun t => match t with 0%nat => TSimple 10 | 1%nat => TOnce 5 false | 2%nat => TFail 7%nat | _ => TSimple 1 end.
Definition thr0 (i : nat) : Z := 3.
Definition jd (k : jkey) (r s : bool) := Some (mkJD (Some k) r s).

