(* The representation invariant of the queue is kept by every step, whatever validateJob decides
   (used by all four properties; C09's key uniqueness needs nothing else). *)
From Coq Require Import ZArith List Bool String Lia.
Require Import QzSched.Gen.Params QzSched.SchedModel QzSched.Registry QzSched.ApiProofs.
Import ListNotations.
Open Scope Z_scope.

Section Wf.
  Variable O : queue_ops.
  Hypothesis HC : queue_contract O.
  Variable tstate : Type.
  Variable nft : tid -> tstate -> Z -> tstate * (Z + terr).
  Variable thr : nat -> Z.
  Notation tsmap := (tid -> tstate).
  Notation state := (state O tstate).
  Notation step := (step O tstate nft thr).
  Notation run := (run O tstate nft thr).
  Notation s_q := (s_q O tstate).
  Notation s_ts := (s_ts O tstate).
  Notation s_now := (s_now O tstate).
  Notation s_log := (s_log O tstate).
  Notation s_disp := (s_disp O tstate).
  Notation s_pre := (s_pre O tstate).
  Notation s_next := (s_next O tstate).
  Notation init := (init O tstate).

  Lemma fetch_wf : forall th now id i q ts q' ts' evs ret rst, q_wf O q ->
    fetch O tstate nft th now id i q ts = (q', ts', evs, ret, rst) -> q_wf O q'.
  Proof.
    intros th now id i q ts q' ts' evs ret rst Hwf H. unfold fetch in H.
    destruct (q_pop O q) as [[job q1]|] eqn:Hp.
    - destruct (qc_pop_some O HC q job q1 Hwf Hp) as (_ & _ & Hw1 & Hl1).
      destruct (next_run tstate nft (validate th now job) now job ts) as [[ts1 r] evt].
      destruct r as [p|err].
      + set (toS := mkEntry (e_key job) _ (e_susp job) (e_repl job) (e_tid job)) in H.
        assert (Hn : q_get O (e_key toS) q1 = None) by (simpl; rewrite Hl1, key_eqb_refl; reflexivity).
        destruct (qc_push_ok O HC q1 toS Hw1 (or_introl Hn)) as (q2 & Hpush & Hw2 & _).
        rewrite Hpush in H. injection H as <- _ _ _ _. assumption.
      + injection H as <- _ _ _ _. assumption.
    - injection H as <- _ _ _ _. assumption.
  Qed.

  Lemma foreign_wf : forall m q, q_wf O q -> q_wf O (foreign O m q).
  Proof.
    intros m q Hwf. destruct m as [e|k| ]; simpl.
    - destruct (q_get O (e_key e) q) as [x|] eqn:G.
      + destruct (e_repl e) eqn:R.
        * destruct (qc_push_ok O HC q e Hwf (or_intror R)) as (q2 & -> & Hw & _). assumption.
        * rewrite (qc_push_exists O HC q e Hwf); [assumption|congruence|assumption].
      + destruct (qc_push_ok O HC q e Hwf (or_introl G)) as (q2 & -> & Hw & _). assumption.
    - destruct (q_get O k q) as [x|] eqn:G.
      + destruct (qc_remove_some O HC q k x Hwf G) as (q2 & -> & Hw & _). assumption.
      + rewrite (qc_remove_none O HC q k Hwf G). assumption.
    - apply (qc_clear_wf O HC).
  Qed.


  Lemma step_wf : forall s l s', q_wf O (s_q s) -> step s l = Some s' -> q_wf O (s_q s').
  Proof.
    intros s l s' Hwf H. destruct l; simpl in H.
    - destruct (api O tstate nft (s_now s) op (s_q s) (s_ts s)) as [[[q1 ts1] evs1] r1] eqn:A.
      injection H as <-. simpl. eapply api_wf; eauto.
    - destruct (find_pre c (s_pre s)); [discriminate|].
      destruct (sched_pre tstate nft (s_now s) jd tr (s_ts s)) as [[ts1 evs1] [e|ent]]; injection H as <-; assumption.
    - destruct (find_pre c (s_pre s)) as [p|]; [|discriminate].
      destruct (sched_commit O (ps_entry p) (s_q s)) as [q1 r1] eqn:Cm. injection H as <-. simpl.
      pose proof (sched_commit_spec O HC _ _ _ _ Hwf Cm) as S.
      destruct (q_get O (e_key (ps_entry p)) (s_q s)); [destruct (e_repl (ps_entry p))|]; try tauto.
      destruct S as (-> & _). assumption.
    - destruct (fetch O tstate nft (thr i) (s_now s) (s_next s) i (s_q s) (s_ts s)) as [[[[q1 ts1] evs1] ret] rst] eqn:F.
      injection H as <-. simpl. eapply fetch_wf; eauto.
    - destruct (find_pend id (s_disp s)); [|discriminate]. injection H as <-. assumption.
    - destruct (dt <? 0); [discriminate|]. injection H as <-. assumption.
    - injection H as <-. simpl. apply foreign_wf. assumption.
  Qed.

  Lemma run_wf : forall tr s s', q_wf O (s_q s) -> run s tr = Some s' -> q_wf O (s_q s').
  Proof.
    induction tr as [|l tr IH]; intros s s' Hwf H; simpl in H.
    - injection H as <-. assumption.
    - destruct (step s l) as [s1|] eqn:S; [|discriminate]. eapply IH; [|exact H]. eapply step_wf; eauto.
  Qed.


  (* C09: keys are unique in every reachable state *)
  Theorem keys_nodup : forall ts0 now0 tr s, run (init ts0 now0) tr = Some s ->
    NoDup (map e_key (q_list O (s_q s))).
  Proof.
    intros ts0 now0 tr s Hr. apply (qc_list_nodup O HC). eapply run_wf; [|exact Hr]. apply (qc_empty_wf O HC).
  Qed.
End Wf.
