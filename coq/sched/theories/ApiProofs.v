(* Proofs about the API functions over any queue meeting the contract (C09, and the basis of C03/C04/C08). *)
From Coq Require Import ZArith List Bool String Lia.
Require Import QzSched.Gen.Params QzSched.SchedModel QzSched.Registry.
Import ListNotations.
Open Scope Z_scope.

(* ---------- keys ---------- *)
Lemma key_eqb_eq : forall a b : jkey, key_eqb a b = true <-> a = b.
Proof.
  intros [a1 a2] [b1 b2]. unfold key_eqb. simpl. rewrite andb_true_iff, !String.eqb_eq.
  split; [intros [-> ->]; reflexivity | intros H; injection H; auto].
Qed.
Lemma key_eqb_refl : forall a, key_eqb a a = true.
Proof. intros a. apply key_eqb_eq. reflexivity. Qed.
Lemma key_eqb_neq : forall a b : jkey, key_eqb a b = false <-> a <> b.
Proof.
  intros a b. split.
  - intros H E. apply key_eqb_eq in E. congruence.
  - intros H. destruct (key_eqb a b) eqn:E; auto. apply key_eqb_eq in E. contradiction.
Qed.
Lemma key_eqb_sym : forall a b, key_eqb a b = key_eqb b a.
Proof.
  intros a b. destruct (key_eqb a b) eqn:E.
  - apply key_eqb_eq in E. subst. symmetry. apply key_eqb_refl.
  - symmetry. apply key_eqb_neq. apply key_eqb_neq in E. congruence.
Qed.
Lemma key_eq_dec : forall a b : jkey, {a = b} + {a <> b}.
Proof.
  intros a b. destruct (key_eqb a b) eqn:E; [left; apply key_eqb_eq; auto | right; apply key_eqb_neq; auto].
Qed.

(* ---------- what the generated facts say (re-checked whenever Params.v changes) ---------- *)
Lemma p_sched_clock : schedule_trigger_reads_clock = true. Proof. reflexivity. Qed.
Lemma p_resume_clock : resume_trigger_reads_clock = true. Proof. reflexivity. Qed.
Lemma p_resume_order : resume_trigger_before_remove = true. Proof. reflexivity. Qed.
Lemma p_sched_sent : schedule_arg_sentinels = [SIllegalArgument; SIllegalArgument; SIllegalArgument; SIllegalArgument].
Proof. reflexivity. Qed.

Definition lookup_set (O : queue_ops) (q q' : Q O) (k : jkey) (v : option entry) : Prop :=
  forall k', q_get O k' q' = if key_eqb k' k then v else q_get O k' q.

Section Api.
  Variable O : queue_ops.
  Hypothesis HC : queue_contract O.
  Variable tstate : Type.
  Variable nft : tid -> tstate -> Z -> tstate * (Z + terr).
  Notation tsmap := (tid -> tstate).

  (* ---------- exact outcome of each body ---------- *)

  Lemma delete_spec : forall k q q' r, q_wf O q -> delete O k q = (q', r) ->
    match k with
    | None => q' = q /\ r = RErr (ESent delete_nilkey_sentinel)
    | Some k => match q_get O k q with
                | None => q' = q /\ r = RErr (ESent queue_remove_missing_sentinel)
                | Some _ => r = ROk /\ q_wf O q' /\ lookup_set O q q' k None
                end
    end.
  Proof.
    intros [k|] q q' r Hwf H; unfold delete in H.
    - destruct (q_get O k q) as [e|] eqn:G.
      + destruct (qc_remove_some O HC q k e Hwf G) as (q1 & Hr & Hw & Hl). rewrite Hr in H.
        injection H as <- <-. auto.
      + rewrite (qc_remove_none O HC q k Hwf G) in H. injection H as <- <-. auto.
    - injection H as <- <-. auto.
  Qed.

  Definition parked (e : entry) : entry := mkEntry (e_key e) go_MaxInt64 true (e_repl e) (e_tid e).

  Lemma pause_spec : forall k q q' r, q_wf O q -> pause O k q = (q', r) ->
    match k with
    | None => q' = q /\ r = RErr (ESent pause_nilkey_sentinel)
    | Some k => match q_get O k q with
                | None => q' = q /\ r = RErr (ESent queue_get_missing_sentinel)
                | Some e => if e_susp e then q' = q /\ r = RErr (ESent pause_suspended_sentinel)
                            else r = ROk /\ q_wf O q' /\ lookup_set O q q' k (Some (parked e))
                end
    end.
  Proof.
    intros [k|] q q' r Hwf H; unfold pause in H.
    - destruct (q_get O k q) as [e|] eqn:G.
      + destruct (e_susp e) eqn:S.
        * injection H as <- <-. auto.
        * destruct (qc_remove_some O HC q k e Hwf G) as (q1 & Hr & Hw & Hl). rewrite Hr in H.
          pose proof (qc_get_key O HC q k e Hwf G) as Hk.
          set (p := mkEntry (e_key e) pause_park_priority pause_sets_suspended (e_repl e) (e_tid e)) in H.
          assert (Hn : q_get O (e_key p) q1 = None).
          { simpl. rewrite Hk, Hl, key_eqb_refl. reflexivity. }
          destruct (qc_push_ok O HC q1 p Hw (or_introl Hn)) as (q2 & Hp & Hw2 & Hl2).
          rewrite Hp in H. injection H as <- <-. split; [reflexivity|]. split; [assumption|].
          intros k'. rewrite Hl2. simpl. rewrite Hk. destruct (key_eqb k' k) eqn:E.
          -- reflexivity.
          -- rewrite Hl, E. reflexivity.
      + injection H as <- <-. auto.
    - injection H as <- <-. auto.
  Qed.

  Definition resumed (e : entry) (p : Z) : entry := mkEntry (e_key e) p false (e_repl e) (e_tid e).

  Lemma resume_spec : forall now k q ts q' ts' evs r, q_wf O q -> resume O tstate nft now k q ts = (q', ts', evs, r) ->
    match k with
    | None => q' = q /\ ts' = ts /\ evs = [] /\ r = RErr (ESent resume_nilkey_sentinel)
    | Some k =>
      match q_get O k q with
      | None => q' = q /\ ts' = ts /\ evs = [] /\ r = RErr (ESent queue_get_missing_sentinel)
      | Some e =>
        if negb (e_susp e) then q' = q /\ ts' = ts /\ evs = [] /\ r = RErr (ESent resume_active_sentinel)
        else
          let (st', fire) := nft (e_tid e) (ts (e_tid e)) now in
          ts' = upd tstate ts (e_tid e) st' /\ evs = [EvTrig k (e_tid e) now fire CResume] /\
          match fire with
          | inr err => q' = q /\ r = RErr (ETrig err)
          | inl p => r = ROk /\ q_wf O q' /\ lookup_set O q q' k (Some (resumed e p))
          end
      end
    end.
  Proof.
    intros now [k|] q ts q' ts' evs r Hwf H; unfold resume in H.
    - destruct (q_get O k q) as [e|] eqn:G.
      + destruct (negb (e_susp e)) eqn:S.
        * injection H as <- <- <- <-. auto.
        * rewrite p_resume_order, p_resume_clock in H. unfold call_trigger in H.
          destruct (nft (e_tid e) (ts (e_tid e)) now) as [st' fire] eqn:N.
          destruct fire as [p|err].
          -- destruct (qc_remove_some O HC q k e Hwf G) as (q1 & Hr & Hw & Hl). rewrite Hr in H.
             pose proof (qc_get_key O HC q k e Hwf G) as Hk.
             set (p' := mkEntry (e_key e) _ resume_sets_suspended (e_repl e) (e_tid e)) in H.
             assert (Hn : q_get O (e_key p') q1 = None).
             { simpl. rewrite Hk, Hl, key_eqb_refl. reflexivity. }
             destruct (qc_push_ok O HC q1 p' Hw (or_introl Hn)) as (q2 & Hp & Hw2 & Hl2).
             rewrite Hp in H. injection H as <- <- <- <-. repeat split; auto.
             intros k'. rewrite Hl2. simpl. rewrite Hk. destruct (key_eqb k' k) eqn:E.
             ++ reflexivity.
             ++ rewrite Hl, E. reflexivity.
          -- injection H as <- <- <- <-. auto.
      + injection H as <- <- <- <-. auto.
    - injection H as <- <- <- <-. auto.
  Qed.

  Definition sched_args (jd : option jobdetail) (tr : option tid) : option (jkey * jobdetail * tid) :=
    match jd, tr with
    | Some d, Some t =>
      match jd_key d with
      | Some k => if name_empty k then None else Some (k, d, t)
      | None => None
      end
    | _, _ => None
    end.

  (* which of the four argument checks of ScheduleJob fails first *)
  Definition arg_check_index (jd : option jobdetail) (tr : option tid) : nat :=
    match jd with
    | None => 0%nat
    | Some d => match jd_key d with
                | None => 1%nat
                | Some k => if name_empty k then 2%nat else 3%nat
                end
    end.

  Lemma sched_pre_spec : forall now jd tr ts ts' evs r, sched_pre tstate nft now jd tr ts = (ts', evs, r) ->
    match sched_args jd tr with
    | None => ts' = ts /\ evs = [] /\ r = inl (ESent (nth (arg_check_index jd tr) schedule_arg_sentinels SOther))
    | Some (k, d, t) =>
      if jd_susp d then ts' = ts /\ evs = [] /\ r = inr (mkEntry k go_MaxInt64 true (jd_repl d) t)
      else
        let (st', fire) := nft t (ts t) now in
        ts' = upd tstate ts t st' /\ evs = [EvTrig k t now fire CSchedule] /\
        r = match fire with inr e => inl (ETrig e) | inl p => inr (mkEntry k p false (jd_repl d) t) end
    end.
  Proof.
    intros now jd tr ts ts' evs r H. unfold sched_pre in H. unfold sched_args, arg_check_index.
    destruct jd as [d|]; [|injection H as <- <- <-; auto].
    destruct (jd_key d) as [k|] eqn:K.
    2:{ injection H as <- <- <-. destruct tr; auto. }
    change (schedule_checks_empty_name && name_empty k) with (name_empty k) in H.
    destruct (name_empty k) eqn:NE.
    { injection H as <- <- <-. destruct tr; auto. }
    destruct tr as [t|]; [|injection H as <- <- <-; auto].
    change (schedule_trigger_guard_not_suspended && jd_susp d) with (jd_susp d) in H.
    destruct (jd_susp d) eqn:S.
    { injection H as <- <- <-. auto. }
    rewrite p_sched_clock in H. unfold call_trigger in H.
    destruct (nft t (ts t) now) as [st' fire]. destruct fire; injection H as <- <- <-; auto.
  Qed.

  Lemma sched_commit_spec : forall e q q' r, q_wf O q -> sched_commit O e q = (q', r) ->
    match q_get O (e_key e) q with
    | Some _ => if e_repl e then r = ROk /\ q_wf O q' /\ lookup_set O q q' (e_key e) (Some e)
                else q' = q /\ r = RErr (ESent queue_push_exists_sentinel)
    | None => r = ROk /\ q_wf O q' /\ lookup_set O q q' (e_key e) (Some e)
    end.
  Proof.
    intros e q q' r Hwf H. unfold sched_commit in H.
    destruct (q_get O (e_key e) q) as [x|] eqn:G.
    - destruct (e_repl e) eqn:R.
      + destruct (qc_push_ok O HC q e Hwf (or_intror R)) as (q2 & Hp & Hw & Hl). rewrite Hp in H.
        injection H as <- <-. auto.
      + rewrite (qc_push_exists O HC q e Hwf) in H; [|congruence|assumption]. injection H as <- <-. auto.
    - destruct (qc_push_ok O HC q e Hwf (or_introl G)) as (q2 & Hp & Hw & Hl). rewrite Hp in H.
      injection H as <- <-. auto.
  Qed.

  (* ---------- every body keeps the representation invariant ---------- *)
  Lemma api_wf : forall now op q ts q' ts' evs r, q_wf O q -> api O tstate nft now op q ts = (q', ts', evs, r) -> q_wf O q'.
  Proof.
    intros now op q ts q' ts' evs r Hwf H. destruct op; simpl in H.
    - destruct (sched_pre tstate nft now jd tr ts) as [[ts1 evs1] r1] eqn:P. destruct r1 as [e|ent].
      + injection H as <- _ _ _. assumption.
      + destruct (sched_commit O ent q) as [q1 res] eqn:Cm. injection H as <- _ _ _.
        pose proof (sched_commit_spec ent q q1 res Hwf Cm) as S.
        destruct (q_get O (e_key ent) q); [destruct (e_repl ent)|]; try tauto. destruct S as [-> _]. assumption.
    - destruct (delete O k q) as [q1 res] eqn:D. injection H as <- _ _ _.
      pose proof (delete_spec k q q1 res Hwf D) as S. destruct k as [k|]; [destruct (q_get O k q)|]; try tauto;
        destruct S as [-> _]; assumption.
    - destruct (pause O k q) as [q1 res] eqn:D. injection H as <- _ _ _.
      pose proof (pause_spec k q q1 res Hwf D) as S.
      destruct k as [k|]; [destruct (q_get O k q) as [e|]; [destruct (e_susp e)|]|]; try tauto;
        destruct S as [-> _]; assumption.
    - pose proof (resume_spec now k q ts q' ts' evs r Hwf H) as S.
      destruct k as [k|]; [destruct (q_get O k q) as [e|]; [destruct (negb (e_susp e))|]|];
        try (destruct S as [-> _]; assumption).
      destruct (nft (e_tid e) (ts (e_tid e)) now) as [st' [p|err]]; destruct S as (_ & _ & S).
      + tauto.
      + destruct S as [-> _]. assumption.
    - unfold clear in H. injection H as <- _ _ _. apply (qc_clear_wf O HC).
    - injection H as <- _ _ _. assumption.
    - injection H as <- _ _ _. assumption.
  Qed.

  (* ---------- C09: a call that returns an error leaves the queue as it was ---------- *)
  Lemma api_error_unchanged : forall now op q ts q' ts' evs e, q_wf O q ->
    api O tstate nft now op q ts = (q', ts', evs, RErr e) -> q' = q.
  Proof.
    intros now op q ts q' ts' evs e Hwf H. destruct op; simpl in H.
    - destruct (sched_pre tstate nft now jd tr ts) as [[ts1 evs1] r1] eqn:P. destruct r1 as [e1|ent].
      + injection H as <- _ _ _. reflexivity.
      + destruct (sched_commit O ent q) as [q1 res] eqn:Cm. injection H as <- _ _ ->.
        pose proof (sched_commit_spec ent q q1 _ Hwf Cm) as S.
        destruct (q_get O (e_key ent) q); [destruct (e_repl ent)|]; try (destruct S as [S _]; discriminate).
        tauto.
    - destruct (delete O k q) as [q1 res] eqn:D. injection H as <- _ _ ->.
      pose proof (delete_spec k q q1 _ Hwf D) as S. destruct k as [k|]; [destruct (q_get O k q)|]; try tauto.
      destruct S as [S _]; discriminate.
    - destruct (pause O k q) as [q1 res] eqn:D. injection H as <- _ _ ->.
      pose proof (pause_spec k q q1 _ Hwf D) as S.
      destruct k as [k|]; [destruct (q_get O k q) as [x|]; [destruct (e_susp x)|]|]; try tauto.
      destruct S as [S _]; discriminate.
    - pose proof (resume_spec now k q ts q' ts' evs _ Hwf H) as S.
      destruct k as [k|]; [destruct (q_get O k q) as [x|]; [destruct (negb (e_susp x))|]|]; try tauto.
      destruct (nft (e_tid x) (ts (e_tid x)) now) as [st' [p|err]]; destruct S as (_ & _ & S); [|tauto].
      destruct S as [S _]; discriminate.
    - unfold clear in H. discriminate.
    - injection H as <- _ _ _. reflexivity.
    - injection H as <- _ _ _. reflexivity.
  Qed.
End Api.

