(* C03 -- Scheduler never runs a job early, twice, or without a fire time.
   Only the property theorems (closed by `exact`, followed by Print Assumptions).

   The transition system (SchedModel.step) has labels for: whole API calls; ScheduleJob split at the queue
   locker (trigger call before, push under it); fetchAndReschedule of scheduler i for ANY i (n schedulers share
   the queue and the locker) enabled at ANY time (a stale or spurious timer tick is a fetch whose head is not
   due -- nothing here depends on timer behaviour, old or new channel semantics); the start of an execution of
   a valid dequeue at any later point (blocking, worker-pool and goroutine dispatch are all "later"); clock
   advances; arbitrary Foreign changes of the shared queue. The theorems quantify over all label sequences,
   any queue implementation meeting the contract and any triggers. Logs are newest-first. *)
From Coq Require Import ZArith List Bool String.
Require Import QzSched.Gen.Params QzSched.SchedModel QzSched.ListQueue QzSched.Triggers QzSched.LtsDefs
               QzSched.FetchProofs QzSched.C03Proofs QzSched.ExampleDefs QzSched.Examples.
Import ListNotations.
Open Scope list_scope.
Open Scope Z_scope.

(* never early, never twice: every execution start (EvExec id k p t) is matched, through its dequeue id, to
   an EARLIER valid dequeue of the same job k with the same fire time p that was due (p <= clock at the
   dequeue <= clock t at the start), and no execution before or after it uses the same dequeue *)
Theorem C03_exec_has_unique_due_fetch :
  forall (O : queue_ops), queue_contract O ->
  forall (tstate : Type) (nft : tid -> tstate -> Z -> tstate * (Z + terr)) (thr : nat -> Z) ts0 now0 tr s,
    run O tstate nft thr (init O tstate ts0 now0) tr = Some s ->
    forall l1 id k p t l2, s_log O tstate s = l1 ++ EvExec id k p t :: l2 ->
      (exists i e now', In (EvDeq id i e true now') l2 /\ e_key e = k /\ e_prio e = p /\ p <= now' /\ now' <= t) /\
      ~ In id (exec_ids l2) /\ ~ In id (exec_ids l1).
Proof. exact exec_has_unique_due_fetch. Qed.
Print Assumptions C03_exec_has_unique_due_fetch.

(* dequeue ids name dequeues uniquely, so the matching is an injection from executions into dequeues *)
Theorem C03_dequeue_ids_unique :
  forall (O : queue_ops), queue_contract O ->
  forall (tstate : Type) (nft : tid -> tstate -> Z -> tstate * (Z + terr)) (thr : nat -> Z) ts0 now0 tr s,
    run O tstate nft thr (init O tstate ts0 now0) tr = Some s ->
    NoDup (deq_ids (s_log O tstate s)) /\ NoDup (exec_ids (s_log O tstate s)).
Proof. exact dequeue_ids_unique. Qed.
Print Assumptions C03_dequeue_ids_unique.

(* never without a fire time of its own trigger: a valid dequeue took an active entry whose fire time had been
   returned EARLIER by the entry's own trigger asked on behalf of this job (EvTrig key tid _ (inl prio) _), or
   had been written by a Foreign step *)
Theorem C03_valid_dequeue_has_fire_time :
  forall (O : queue_ops), queue_contract O ->
  forall (tstate : Type) (nft : tid -> tstate -> Z -> tstate * (Z + terr)) (thr : nat -> Z) ts0 now0 tr s,
    run O tstate nft thr (init O tstate ts0 now0) tr = Some s ->
    forall l1 id i e now' l2, s_log O tstate s = l1 ++ EvDeq id i e true now' :: l2 ->
      e_susp e = false /\ e_prio e <= now' /\ produced l2 (e_key e) (e_tid e) (e_prio e).
Proof. exact valid_dequeue_has_fire_time. Qed.
Print Assumptions C03_valid_dequeue_has_fire_time.

(* the guard: validateJob (as regenerated from the source) calls a job valid exactly when it is active and its
   fire time lies in [now - OutdatedThreshold, now] *)
Theorem C03_valid_iff_due :
  forall thr now e, vb_valid (validate thr now e) = true <-> e_susp e = false /\ now - thr <= e_prio e <= now.
Proof. exact validate_valid_iff. Qed.
Print Assumptions C03_valid_iff_due.

(* non-vacuity: two schedulers on one queue, a split ScheduleJob, a stale fetch, a foreign push; two executions *)
Theorem C03_example_run : exists s, st_abc = Some s /\
  In (EvExec 1 kb 105 106) (s_log list_queue xstate s) /\ In (EvExec 2 ka 110 111) (s_log list_queue xstate s) /\
  In (EvDeq 0 0 (mkEntry kb 105 false false 1%nat) false 100) (s_log list_queue xstate s) /\
  exec_ids (s_log list_queue xstate s) = [2%nat; 1%nat] /\
  deq_ids (s_log list_queue xstate s) = [4%nat; 3%nat; 2%nat; 1%nat; 0%nat].
Proof. exact ex_c03_run. Qed.
Print Assumptions C03_example_run.
