(* C08 -- Pause, resume, delete and clear take effect on firing immediately.
   Only the property theorems (closed by `exact`, followed by Print Assumptions). Any queue meeting the
   contract, any triggers, all label sequences, any number of schedulers on the queue, all dispatch modes
   (see Props/C03.v for the transition system). *)
From Coq Require Import ZArith List Bool String.
Require Import QzSched.Gen.Params QzSched.SchedModel QzSched.ListQueue QzSched.Triggers QzSched.LtsDefs
               QzSched.ApiProofs QzSched.C08Proofs QzSched.ExampleDefs QzSched.Examples.
Import ListNotations.
Open Scope list_scope.
Open Scope Z_scope.

(* PauseJob k = Ok: the entry is {suspended, MaxInt64, same trigger}; no trigger call *)
Theorem C08_pause_establishes :
  forall (O : queue_ops), queue_contract O ->
  forall (tstate : Type) (nft : tid -> tstate -> Z -> tstate * (Z + terr)) now k q ts q' ts' evs,
    q_wf O q -> api O tstate nft now (OpPause (Some k)) q ts = (q', ts', evs, ROk) ->
    exists old, q_get O k q = Some old /\ e_susp old = false /\ evs = [] /\ ts' = ts /\
                q_get O k q' = Some (mkEntry k go_MaxInt64 true (e_repl old) (e_tid old)).
Proof. exact pause_ok_entry. Qed.
Print Assumptions C08_pause_establishes.

Theorem C08_delete_establishes :
  forall (O : queue_ops), queue_contract O ->
  forall (tstate : Type) (nft : tid -> tstate -> Z -> tstate * (Z + terr)) now k q ts q' ts' evs,
    q_wf O q -> api O tstate nft now (OpDelete (Some k)) q ts = (q', ts', evs, ROk) ->
    q_get O k q' = None /\ evs = [] /\ ts' = ts.
Proof. exact delete_ok_entry. Qed.
Print Assumptions C08_delete_establishes.

Theorem C08_clear_establishes :
  forall (O : queue_ops), queue_contract O ->
  forall (tstate : Type) (nft : tid -> tstate -> Z -> tstate * (Z + terr)) now q ts q' ts' evs r,
    api O tstate nft now OpClear q ts = (q', ts', evs, r) ->
    r = ROk /\ (forall k, q_get O k q' = None) /\ evs = [] /\ ts' = ts.
Proof. exact clear_ok_entry. Qed.
Print Assumptions C08_clear_establishes.

(* from a state in which job k is absent or suspended (what the three calls above establish) and no ScheduleJob
   call for k is on its way to the locker, along ANY trace without a resume / (re-)schedule / foreign push of k:
   the events that follow contain no trigger call for k and no valid dequeue of k; every execution of k that
   still starts had been dequeued before (its dequeue is among the pending dispatches of the starting state);
   and k is still inactive at the end *)
Theorem C08_inactive_job_consumes_nothing :
  forall (O : queue_ops), queue_contract O ->
  forall (tstate : Type) (nft : tid -> tstate -> Z -> tstate * (Z + terr)) (thr : nat -> Z) k tr s s',
    q_wf O (s_q O tstate s) -> inactive O tstate k s -> Forall (quiet_for k) tr ->
    run O tstate nft thr s tr = Some s' ->
    exists new,
      s_log O tstate s' = new ++ s_log O tstate s /\
      Forall (fun ev => ~ consumes k ev) new /\
      (forall ev id, In ev new -> exec_of k ev = Some id ->
         exists pd, In pd (s_disp O tstate s) /\ p_id pd = id /\ p_key pd = k) /\
      inactive O tstate k s'.
Proof. exact inactive_job_consumes_nothing. Qed.
Print Assumptions C08_inactive_job_consumes_nothing.

(* a paused job stays listed with exactly this entry (paused, MaxInt64, trigger intact) until it is resumed,
   re-scheduled, deleted or cleared *)
Theorem C08_paused_entry_shape :
  forall (O : queue_ops), queue_contract O ->
  forall (tstate : Type) (nft : tid -> tstate -> Z -> tstate * (Z + terr)) (thr : nat -> Z) k e tr s s',
    q_wf O (s_q O tstate s) -> e_susp e = true -> e_prio e = go_MaxInt64 ->
    parked_at O tstate k e s -> Forall (keeps k) tr -> run O tstate nft thr s tr = Some s' ->
    q_get O k (s_q O tstate s') = Some e.
Proof. exact paused_entry_shape. Qed.
Print Assumptions C08_paused_entry_shape.

(* ResumeJob k = Ok at clock now: the trigger is asked with prev = now and the entry becomes
   {active, that result, same trigger} *)
Theorem C08_resume_rebases :
  forall (O : queue_ops), queue_contract O ->
  forall (tstate : Type) (nft : tid -> tstate -> Z -> tstate * (Z + terr)) now k q ts q' ts' evs,
    q_wf O q -> api O tstate nft now (OpResume (Some k)) q ts = (q', ts', evs, ROk) ->
    exists old st' p, q_get O k q = Some old /\ e_susp old = true /\
      nft (e_tid old) (ts (e_tid old)) now = (st', inl p) /\
      evs = [EvTrig k (e_tid old) now (inl p) CResume] /\
      q_get O k q' = Some (mkEntry k p false (e_repl old) (e_tid old)).
Proof. exact resume_ok_entry. Qed.
Print Assumptions C08_resume_rebases.

(* non-vacuity: the hypotheses of the two run theorems hold in a concrete run right after PauseJob = Ok, with one
   execution dequeued before the call still starting afterwards *)
Theorem C08_example_paused : exists s, st_a = Some s /\ q_wf list_queue (s_q list_queue xstate s) /\
  inactive list_queue xstate ka s /\ Forall (quiet_for ka) tr_b /\ Forall (keeps ka) tr_b /\
  q_get list_queue ka (s_q list_queue xstate s) = Some (mkEntry ka go_MaxInt64 true false 0%nat) /\
  s_disp list_queue xstate s = [mkPend 2 0 ka 110] /\
  exists s', run list_queue xstate nft_exec thr0 s tr_b = Some s' /\ In (EvExec 2 ka 110 111) (s_log list_queue xstate s').
Proof. exact ex_c08_paused. Qed.
Print Assumptions C08_example_paused.
