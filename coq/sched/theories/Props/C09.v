(* C09 -- Scheduler registry operations are atomic, keyed, and fail without side effects.
   Only the property theorems; each is closed by `exact` of a lemma proved elsewhere in the
   development and followed by Print Assumptions. All statements hold for ANY JobQueue implementation O
   that meets the keyed-min-priority-queue contract (SchedModel.queue_contract) and ANY family of triggers nft. *)
From Coq Require Import ZArith List Bool String.
Require Import QzSched.Gen.Params QzSched.SchedModel QzSched.Registry QzSched.ListQueue QzSched.Triggers
               QzSched.ApiProofs QzSched.RefineProofs QzSched.ListQueueProofs QzSched.WfProofs QzSched.ExampleDefs QzSched.ExamplesC09.
Import ListNotations.
Open Scope list_scope.
Open Scope Z_scope.

(* any sequence of calls (each with the clock reading it is made at) from the empty scheduler: results match
   those of the sequential registry specification (Registry.spec_api), the final queue represents the
   specification's registry, the triggers end in the same states *)
Theorem C09_api_refines_registry :
  forall (O : queue_ops), queue_contract O ->
  forall (tstate : Type) (nft : tid -> tstate -> Z -> tstate * (Z + terr)) (ops : list (Z * apiop)) (ts : tid -> tstate),
    let '(outs, q', ts') := api_run O tstate nft ops (q_empty O) ts in
    let '(souts, r', sts') := spec_run tstate nft ops [] ts in
    Forall2 res_match outs souts /\ refines O q' r' /\ ts' = sts'.
Proof. exact api_refines_registry. Qed.
Print Assumptions C09_api_refines_registry.

(* one call from any related pair of states *)
Theorem C09_api_step_refines :
  forall (O : queue_ops), queue_contract O ->
  forall (tstate : Type) (nft : tid -> tstate -> Z -> tstate * (Z + terr)) now op q ts r q' ts' evs res,
    refines O q r -> api O tstate nft now op q ts = (q', ts', evs, res) ->
    let '(r', sts', sres) := spec_api tstate nft now op r ts in
    refines O q' r' /\ ts' = sts' /\ res_match res sres.
Proof. exact api_sim. Qed.
Print Assumptions C09_api_step_refines.

(* a call that returns an error leaves the queue exactly as it was (including ResumeJob with a trigger error) *)
Theorem C09_error_leaves_unchanged :
  forall (O : queue_ops), queue_contract O ->
  forall (tstate : Type) (nft : tid -> tstate -> Z -> tstate * (Z + terr)) now op q ts q' ts' evs e,
    q_wf O q -> api O tstate nft now op q ts = (q', ts', evs, RErr e) -> q' = q.
Proof. exact api_error_unchanged. Qed.
Print Assumptions C09_error_leaves_unchanged.

(* each sentinel exactly when its documented precondition fails (the table is ApiProofs.expected_error:
   nil job detail / nil key / empty name / nil trigger -> ErrIllegalArgument; present and not Replace ->
   ErrJobAlreadyExists; absent -> ErrJobNotFound; already paused -> ErrJobIsSuspended; not paused ->
   ErrJobIsActive; trigger error -> that error) *)
Theorem C09_sentinel_iff :
  forall (O : queue_ops), queue_contract O ->
  forall (tstate : Type) (nft : tid -> tstate -> Z -> tstate * (Z + terr)) now op q ts q' ts' evs res,
    q_wf O q -> api O tstate nft now op q ts = (q', ts', evs, res) ->
    forall e, res = RErr e <-> expected_error O tstate nft now op q ts = Some e.
Proof. exact sentinel_iff. Qed.
Print Assumptions C09_sentinel_iff.

(* the state preconditions of PauseJob / ResumeJob are decided by the Suspended flag of the registered entry alone, whatever
   fire time it carries: PauseJob fails (and then with ErrJobIsSuspended) exactly when the flag is set, ResumeJob answers
   ErrJobIsActive exactly when it is not -- also for an active entry whose trigger returned math.MaxInt64, the value
   suspended entries are parked at *)
Theorem C09_state_errors_go_by_flag :
  forall (O : queue_ops), queue_contract O ->
  forall (tstate : Type) (nft : tid -> tstate -> Z -> tstate * (Z + terr)) now k q ts x,
    q_wf O q -> q_get O k q = Some x ->
    (forall q' ts' evs res, api O tstate nft now (OpPause (Some k)) q ts = (q', ts', evs, res) ->
       forall e, res = RErr e <-> (e_susp x = true /\ e = ESent SJobIsSuspended)) /\
    (forall q' ts' evs res, api O tstate nft now (OpResume (Some k)) q ts = (q', ts', evs, res) ->
       (e_susp x = false -> res = RErr (ESent SJobIsActive)) /\
       (res = RErr (ESent SJobIsActive) -> e_susp x = false)).
Proof. exact state_errors_by_flag. Qed.
Print Assumptions C09_state_errors_go_by_flag.

(* non-vacuity of the above at the boundary: a job whose trigger returns math.MaxInt64 is active (ResumeJob: ErrJobIsActive),
   can be paused (then PauseJob: ErrJobIsSuspended) and resumed; both executable queues agree *)
Theorem C09_example_never_trigger :
  fst (fst (api_run list_queue xstate nft_exec ops_c09_never [] ts_never)) =
  [ ROk; RJob (mkEntry ka go_MaxInt64 false false 4%nat); RErr (ESent SJobIsActive); ROk;
    RErr (ESent SJobIsSuspended); ROk; RJob (mkEntry ka go_MaxInt64 false false 4%nat); RErr (ESent SJobIsActive) ] /\
  fst (fst (api_run sorted_queue xstate nft_exec ops_c09_never [] ts_never)) =
  fst (fst (api_run list_queue xstate nft_exec ops_c09_never [] ts_never)).
Proof. exact ex_c09_never. Qed.
Print Assumptions C09_example_never_trigger.

(* keys are unique in every state reachable by any interleaving of API calls, split ScheduleJob calls,
   fetches of any number of schedulers, executions, clock advances and foreign queue changes *)
Theorem C09_keys_nodup :
  forall (O : queue_ops), queue_contract O ->
  forall (tstate : Type) (nft : tid -> tstate -> Z -> tstate * (Z + terr)) (thr : nat -> Z) ts0 now0 tr s,
    run O tstate nft thr (init O tstate ts0 now0) tr = Some s ->
    NoDup (map e_key (q_list O (s_q O tstate s))).
Proof. exact keys_nodup. Qed.
Print Assumptions C09_keys_nodup.

(* the contract is satisfiable: two different executable queues meet it *)
Theorem C09_list_queue_meets_contract : queue_contract list_queue.
Proof. exact list_queue_contract. Qed.
Print Assumptions C09_list_queue_meets_contract.

Theorem C09_sorted_queue_meets_contract : queue_contract sorted_queue.
Proof. exact sorted_queue_contract. Qed.
Print Assumptions C09_sorted_queue_meets_contract.

(* the atomicity the labels assume, as far as the source text shows it (regenerated from scheduler.go):
   every API body and fetchAndReschedule takes the queue locker (Lock + deferred Unlock) before its first
   queue call; ScheduleJob asks the trigger before the locker, ResumeJob between Get and Remove *)
Theorem C09_bodies_locked :
  all_bodies_locked = true /\ schedule_trigger_before_lock = true /\ resume_trigger_before_remove = true /\
  pause_get_remove_push = true /\ fetch_pop_validate_push = true /\ api_mutations_reset = true.
Proof. exact (conj p_all_locked (conj p_sched_before_lock (conj p_resume_order (conj p_pause_order (conj p_fetch_order p_api_reset))))). Qed.
Print Assumptions C09_bodies_locked.

(* non-vacuity: a concrete run in which every sentinel occurs *)
Theorem C09_example_all_sentinels : fst (fst (api_run list_queue xstate nft_exec ops_c09 [] ts0)) =
  [ RErr (ESent SIllegalArgument); RErr (ESent SIllegalArgument); ROk; RErr (ESent SJobAlreadyExists); ROk;
    RErr (ESent SJobIsSuspended); ROk; RErr (ESent SJobIsActive); ROk; RErr (ETrig 0%nat);
    RJob (mkEntry ka go_MaxInt64 true true 1%nat); RErr (ESent SJobNotFound); RErr (ETrig 7%nat);
    RKeys [ka]; ROk; RKeys []; RErr (ESent SIllegalArgument) ].
Proof. exact ex_c09_run. Qed.
Print Assumptions C09_example_all_sentinels.
