(* C04 -- Every fire time is accounted for: run on time, or misfired and re-based.
   Only the property theorems (closed by `exact`, followed by Print Assumptions). Any queue meeting the
   contract, any triggers, all label sequences (see Props/C03.v for the transition system). *)
From Coq Require Import ZArith List Bool String.
Require Import QzSched.Gen.Params QzSched.SchedModel QzSched.ListQueue QzSched.Triggers QzSched.LtsDefs
               QzSched.ApiProofs QzSched.FetchProofs QzSched.C03Proofs QzSched.C08Proofs QzSched.C04Proofs QzSched.RunOnceProofs QzSched.ExampleDefs QzSched.Examples
               QzSched.Gen.TrigSrc QzSched.TrigTie.
Import ListNotations.
Open Scope list_scope.
Open Scope Z_scope.

(* what one fetchAndReschedule does with the popped entry `job` at clock `now`, threshold thr:
   suspended -> not executed, no trigger call, requeued at MaxInt64;
   prio < now - thr -> not executed, offered to MisfiredChan, trigger called with prev = now, requeued at its result
                       (or gone if the trigger fails);
   prio > now -> not executed, no trigger call, requeued unchanged;
   otherwise -> handed to execution, trigger called with prev = prio (the scheduled time, not the clock). *)
Theorem C04_fetch_classification :
  forall (O : queue_ops), queue_contract O ->
  forall (tstate : Type) (nft : tid -> tstate -> Z -> tstate * (Z + terr)) thr now id i q ts job q1 q' ts' evs ret rst,
    q_wf O q -> q_pop O q = Some (job, q1) ->
    fetch O tstate nft thr now id i q ts = (q', ts', evs, ret, rst) ->
    (e_susp job = true ->
       ret = Some (job, false) /\ ts' = ts /\ evs = [EvDeq id i job false now] /\
       after_fetch O q q' job (inl go_MaxInt64) /\ rst = true) /\
    (e_susp job = false -> e_prio job < now - thr ->
       let (st', fire) := nft (e_tid job) (ts (e_tid job)) now in
       ret = Some (job, false) /\ ts' = upd tstate ts (e_tid job) st' /\
       evs = [EvTrig (e_key job) (e_tid job) now fire CFetchRebase; EvMisfire id (e_key job) (e_prio job);
              EvDeq id i job false now] /\
       after_fetch O q q' job fire) /\
    (e_susp job = false -> now - thr <= e_prio job -> now < e_prio job ->
       ret = Some (job, false) /\ ts' = ts /\ evs = [EvDeq id i job false now] /\
       after_fetch O q q' job (inl (e_prio job)) /\ rst = true) /\
    (e_susp job = false -> now - thr <= e_prio job -> e_prio job <= now ->
       let (st', fire) := nft (e_tid job) (ts (e_tid job)) (e_prio job) in
       ret = Some (job, true) /\ ts' = upd tstate ts (e_tid job) st' /\
       evs = [EvTrig (e_key job) (e_tid job) (e_prio job) fire CFetchValid; EvDeq id i job true now] /\
       after_fetch O q q' job fire).
Proof. exact fetch_classification. Qed.
Print Assumptions C04_fetch_classification.

(* no drift: from a state in which job k's active entry carries the latest fire time returned for k, along any
   trace without a (re-)schedule or foreign push of k (pause, resume, misfires, other jobs, other schedulers
   allowed): every on-time trigger call for k is made with prev = the latest fire time returned for k before it *)
Theorem C04_no_drift :
  forall (O : queue_ops), queue_contract O ->
  forall (tstate : Type) (nft : tid -> tstate -> Z -> tstate * (Z + terr)) (thr : nat -> Z) k tr s s',
    q_wf O (s_q O tstate s) -> chained O tstate k s -> Forall (steady_for k) tr ->
    run O tstate nft thr s tr = Some s' ->
    exists new, s_log O tstate s' = new ++ s_log O tstate s /\ drift_free k new (s_log O tstate s) /\ chained O tstate k s'.
Proof. exact no_drift. Qed.
Print Assumptions C04_no_drift.

(* every priority in the queue, in every reachable state, is a result of the job's own trigger, MaxInt64 while
   paused, or foreign -- nothing is invented *)
Theorem C04_fire_time_accounting :
  forall (O : queue_ops), queue_contract O ->
  forall (tstate : Type) (nft : tid -> tstate -> Z -> tstate * (Z + terr)) (thr : nat -> Z) ts0 now0 tr s,
    run O tstate nft thr (init O tstate ts0 now0) tr = Some s ->
    (forall k e, q_get O k (s_q O tstate s) = Some e -> entry_ok (s_log O tstate s) e) /\
    (forall p, In p (s_pre O tstate s) -> entry_ok (s_log O tstate s) (ps_entry p)).
Proof. exact fire_time_accounting. Qed.
Print Assumptions C04_fire_time_accounting.

(* a trigger error in fetch removes the job and nothing else; it is handed to execution iff it was on time *)
Theorem C04_trigger_error_leaves_registry :
  forall (O : queue_ops), queue_contract O ->
  forall (tstate : Type) (nft : tid -> tstate -> Z -> tstate * (Z + terr)) th now id i q ts job q1 q' ts' evs ret rst err,
    q_wf O q -> q_pop O q = Some (job, q1) -> e_susp job = false -> e_prio job <= now ->
    fetch O tstate nft th now id i q ts = (q', ts', evs, ret, rst) ->
    snd (nft (e_tid job) (ts (e_tid job)) (if e_prio job <? now - th then now else e_prio job)) = inr err ->
    q_get O (e_key job) q' = None /\ (forall k, k <> e_key job -> q_get O k q' = q_get O k q) /\
    ret = Some (job, negb (e_prio job <? now - th)).
Proof. exact trigger_error_leaves_registry. Qed.
Print Assumptions C04_trigger_error_leaves_registry.

(* run-once, over a whole run: from the empty scheduler, with a RunOnceTrigger t that has not fired yet, along ANY label
   sequence without foreign writers (any clients, split ScheduleJob calls, pause / resume / replace, any number of
   schedulers, the trigger shared by several jobs): at most one valid dequeue ever takes an entry driven by t (vcount),
   hence -- C03: every execution needs its own valid dequeue -- the job is executed at most once *)
Theorem C04_run_once_once :
  forall (O : queue_ops), queue_contract O ->
  forall (thr : nat -> Z) (t : tid) (d : Z) ts0 now0 tr s,
    ts0 t = TOnce d false -> Forall no_foreign tr ->
    run O xstate nft_exec thr (init O xstate ts0 now0) tr = Some s ->
    (vcount t (s_log O xstate s) <= 1)%nat.
Proof. exact run_once_once. Qed.
Print Assumptions C04_run_once_once.

(* run-once, the step: once RunOnceTrigger has produced its single fire time, the fetch that finds it on time hands the
   job to execution (exactly then) and removes it; late -> misfired, not executed, removed; not due -> kept *)
Theorem C04_run_once_step :
  forall (O : queue_ops), queue_contract O ->
  forall th now id i q ts job q1 q' ts' evs ret rst d,
    q_wf O q -> q_pop O q = Some (job, q1) -> e_susp job = false ->
    ts (e_tid job) = TOnce d true ->
    fetch O xstate nft_exec th now id i q ts = (q', ts', evs, ret, rst) ->
    (now - th <= e_prio job <= now -> ret = Some (job, true) /\ q_get O (e_key job) q' = None) /\
    (e_prio job < now - th -> ret = Some (job, false) /\ q_get O (e_key job) q' = None /\
                              In (EvMisfire id (e_key job) (e_prio job)) evs) /\
    (now - th <= e_prio job -> now < e_prio job ->
       ret = Some (job, false) /\ q_get O (e_key job) q' = Some job /\ evs = [EvDeq id i job false now]).
Proof. exact run_once_fetch. Qed.
Print Assumptions C04_run_once_step.

(* non-vacuity: a fresh run-once trigger (tid 1 of the example world), fetched on time: one valid dequeue, one execution *)
Theorem C04_example_run_once : ts0 1%nat = TOnce 5 false /\ exists s,
  run list_queue xstate nft_exec thr0 (init list_queue xstate ts0 100)
      [LSchedPre 7 (jd kb false false) (Some 1%nat); LSchedCommit 7; LAdv 6; LFetch 0; LExec 0; LAdv 50; LFetch 0] = Some s /\
  vcount 1%nat (s_log list_queue xstate s) = 1%nat /\ exec_ids (s_log list_queue xstate s) = [0%nat].
Proof. exact ex_runonce_count. Qed.
Print Assumptions C04_example_run_once.

(* the first priority is NextFireTime(clock at ScheduleJob) *)
Theorem C04_schedule_initial :
  forall (O : queue_ops), queue_contract O ->
  forall (tstate : Type) (nft : tid -> tstate -> Z -> tstate * (Z + terr)) now d t k q ts q' ts' evs,
    q_wf O q -> jd_key d = Some k -> name_empty k = false -> jd_susp d = false ->
    api O tstate nft now (OpSchedule (Some d) (Some t)) q ts = (q', ts', evs, ROk) ->
    exists st' p, nft t (ts t) now = (st', inl p) /\ evs = [EvTrig k t now (inl p) CSchedule] /\
                  q_get O k q' = Some (mkEntry k p false (jd_repl d) t).
Proof. exact schedule_initial. Qed.
Print Assumptions C04_schedule_initial.

(* non-vacuity *)
Theorem C04_example_run : exists s, st_abc = Some s /\
  In (EvTrig kb 3%nat 211 (inl 212) CFetchRebase) (s_log list_queue xstate s) /\
  In (EvMisfire 4 kb 150) (s_log list_queue xstate s) /\
  In (EvTrig ka 0%nat 110 (inl 120) CFetchValid) (s_log list_queue xstate s) /\
  q_get list_queue kb (s_q list_queue xstate s) = Some (mkEntry kb 212 false false 3%nat).
Proof. exact ex_c04_run. Qed.
Print Assumptions C04_example_run.

Theorem C04_example_no_drift_hypotheses : exists s, st_1 = Some s /\ q_wf list_queue (s_q list_queue xstate s) /\
  chained list_queue xstate ka s /\ Forall (steady_for ka) tr_steady /\
  exists s', run list_queue xstate nft_exec thr0 s tr_steady = Some s' /\
    In (EvTrig ka 0%nat 110 (inl 120) CFetchValid) (s_log list_queue xstate s') /\
    In (EvTrig ka 0%nat 120 (inl 130) CFetchValid) (s_log list_queue xstate s') /\
    In (EvTrig ka 0%nat 171 (inl 181) CResume) (s_log list_queue xstate s') /\
    In (EvTrig ka 0%nat 181 (inl 191) CFetchValid) (s_log list_queue xstate s').
Proof. exact ex_c04_chained. Qed.
Print Assumptions C04_example_no_drift_hypotheses.

(* the tie to the SOURCE of quartz/trigger.go: the executable instances TSimple / TOnce used by run_once_once and
   the examples are what the Go methods SimpleTrigger.NextFireTime / RunOnceTrigger.NextFireTime compute
   (Gen/TrigSrc.v is translated from the source on every run; decode maps the (value, error) pair) *)
Theorem C04_simple_trigger_is_the_source : forall (t : tid) i prev,
  nft_exec t (TSimple i) prev =
  (TSimple i, let '(v, code) := g_SimpleTrigger_NextFireTime {| SimpleTrigger_Interval := i |} prev in decode v code).
Proof. exact src_simple_trigger. Qed.
Print Assumptions C04_simple_trigger_is_the_source.

Theorem C04_run_once_trigger_is_the_source : forall (t : tid) d e prev,
  nft_exec t (TOnce d e) prev =
  (let '(ot', v, code) := g_RunOnceTrigger_NextFireTime {| RunOnceTrigger_Delay := d; RunOnceTrigger_Expired := e |} prev in
   (TOnce (RunOnceTrigger_Delay ot') (RunOnceTrigger_Expired ot'), decode v code)).
Proof. exact src_run_once_trigger. Qed.
Print Assumptions C04_run_once_trigger_is_the_source.

Theorem C04_run_once_latch_in_the_source : forall d e prev,
  let '(ot', v, code) := g_RunOnceTrigger_NextFireTime {| RunOnceTrigger_Delay := d; RunOnceTrigger_Expired := e |} prev in
  RunOnceTrigger_Expired ot' = true /\ RunOnceTrigger_Delay ot' = d /\
  (e = true -> code = c_ErrTriggerExpired) /\ (e = false -> code = 0 /\ v = prev + d).
Proof. exact src_run_once_latch. Qed.
Print Assumptions C04_run_once_latch_in_the_source.
