(* Extraction of the executable model for the correspondence driver (ocaml/sched/driver.ml).
   ExtrOcamlBasic only: Z, nat, string stay the extracted inductive types. Compiled by
   ocaml/sched/build.sh with the current directory set to ocaml/sched/gen. *)
From Coq Require Import Extraction ExtrOcamlBasic ZArith List String.
Require Import QzSched.Gen.Params QzSched.SchedModel QzSched.Registry QzSched.ListQueue QzSched.Triggers.
Extraction Language OCaml.
Extraction "schedm.ml" api fetch foreign list_queue sorted_queue nft_exec upd spec_api
  Z.add Z.mul Z.div Z.modulo Z.opp Z.leb Z.eqb go_MaxInt64 default_outdated_threshold_ns default_retry_interval_ns
  key_eqb lq_get Z.of_nat.
