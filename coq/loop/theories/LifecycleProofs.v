(* Proofs about Lifecycle.v (C10). *)
From Coq Require Import ZArith List Bool Lia.
Require Import QzLoop.Gen.Params QzLoop.LoopModel QzLoop.Retry QzLoop.Dispatch QzLoop.DispatchProofs QzLoop.Lifecycle.
Import ListNotations.
Open Scope nat_scope.
Open Scope list_scope.

Fixpoint ids_desc (n : nat) : list nat := match n with O => [] | S m => S m :: ids_desc m end.

Lemma ids_desc_in : forall n k, In k (ids_desc n) <-> 1 <= k <= n.
Proof. induction n; intros k; cbn; [lia|]. rewrite IHn. lia. Qed.
Lemma ids_desc_nodup : forall n, NoDup (ids_desc n).
Proof. induction n; cbn; constructor; auto. rewrite ids_desc_in. lia. Qed.

(* ---- records and lists of records ---- *)
Lemma find_rec_some : forall r l x, find_rec r l = Some x -> In x l /\ r_id x = r.
Proof. unfold find_rec. intros r l x H. apply find_some in H. destruct H as [H1 H2]. apply Nat.eqb_eq in H2. auto. Qed.
Lemma find_rec_none : forall r l, find_rec r l = None -> ~ In r (map r_id l).
Proof.
  unfold find_rec. intros r l H Hin. apply in_map_iff in Hin. destruct Hin as (x & E & Hx).
  pose proof (find_none _ _ H x Hx) as F. cbn in F. rewrite E, Nat.eqb_refl in F. discriminate.
Qed.
Lemma find_rec_in : forall r l, In r (map r_id l) -> exists x, find_rec r l = Some x.
Proof. intros r l H. destruct (find_rec r l) eqn:E; [eauto|]. exfalso. exact (find_rec_none _ _ E H). Qed.
Lemma find_rec_hd : forall x l, find_rec (r_id x) (x :: l) = Some x.
Proof. intros. unfold find_rec. cbn. rewrite Nat.eqb_refl. reflexivity. Qed.

Definition keeps_id (f : rrec -> rrec) : Prop := forall x, r_id (f x) = r_id x.
Lemma keeps_set_done : keeps_id set_done. Proof. intros x; reflexivity. Qed.
Lemma keeps_set_wat : forall v, keeps_id (set_wat v). Proof. intros v x; reflexivity. Qed.
Lemma keeps_set_lp : forall v, keeps_id (set_lp v). Proof. intros v x; reflexivity. Qed.
Lemma keeps_set_wk : forall v, keeps_id (set_wk v). Proof. intros v x; reflexivity. Qed.
Lemma keeps_set_gor : forall v, keeps_id (set_gor v). Proof. intros v x; reflexivity. Qed.
#[local] Hint Resolve keeps_set_done keeps_set_wat keeps_set_lp keeps_set_wk keeps_set_gor : core.

Lemma upd_rec_ids : forall r f l, keeps_id f -> map r_id (upd_rec r f l) = map r_id l.
Proof. intros r f l K. unfold upd_rec. rewrite map_map. apply map_ext. intros x. destruct (r_id x =? r); auto. Qed.
Lemma upd_rec_in : forall r f l y, In y (upd_rec r f l) <-> exists x, In x l /\ y = (if r_id x =? r then f x else x).
Proof. intros. unfold upd_rec. rewrite in_map_iff. split; intros (x & A & B); exists x; auto. Qed.
Lemma upd_rec_notin : forall r f l, ~ In r (map r_id l) -> upd_rec r f l = l.
Proof.
  intros r f l. induction l as [|x t IH]; cbn; intros H; [reflexivity|].
  destruct (r_id x =? r) eqn:E; [apply Nat.eqb_eq in E; tauto|]. f_equal. apply IH. tauto.
Qed.
Lemma upd_rec_hd : forall r f l, hd_error (upd_rec r f l) = option_map (fun x => if r_id x =? r then f x else x) (hd_error l).
Proof. intros r f [|x t]; reflexivity. Qed.

Lemma total_alive_same : forall r f l, (forall x, alive (f x) = alive x) -> total_alive (upd_rec r f l) = total_alive l.
Proof. intros r f l H. induction l as [|x t IH]; [reflexivity|]. cbn [upd_rec map total_alive fold_right]. fold (upd_rec r f t). fold (total_alive (upd_rec r f t)). fold (total_alive t). rewrite IH. destruct (r_id x =? r); rewrite ?H; reflexivity. Qed.
Lemma total_alive_one : forall r f l x, NoDup (map r_id l) -> find_rec r l = Some x ->
  total_alive (upd_rec r f l) + alive x = total_alive l + alive (f x).
Proof.
  intros r f l x. induction l as [|y t IH]; intros Hn Hf; [discriminate|].
  unfold find_rec in Hf. cbn in Hf. cbn [upd_rec map total_alive fold_right]. inversion Hn; subst.
  destruct (r_id y =? r) eqn:E.
  - injection Hf as <-. apply Nat.eqb_eq in E. rewrite <- E. fold (upd_rec (r_id y) f t). rewrite (upd_rec_notin _ _ _ H1).
    fold (total_alive t). lia.
  - fold (upd_rec r f t). fold (total_alive (upd_rec r f t)). fold (total_alive t). specialize (IH H2 Hf). lia.
Qed.
Lemma total_alive_zero : forall l, total_alive l = 0 -> forall x, In x l -> alive x = 0.
Proof. induction l as [|y t IH]; intros H x Hin; [destruct Hin|]. cbn [total_alive fold_right] in H. fold (total_alive t) in H. destruct Hin as [E|Hx]; [subst; lia|apply IH; [lia|exact Hx]]. Qed.

Lemma alive_set_done : forall x, alive (set_done x) = alive x. Proof. reflexivity. Qed.
Lemma alive_set_wat : forall v x, alive (set_wat v x) = alive x. Proof. reflexivity. Qed.

Lemma length_updw : forall ws i v, length (updw i v ws) = length ws.
Proof. induction ws as [|w t IH]; intros [|i] v; cbn; auto. Qed.
Lemma alive_updw : forall ws i v,
  length (filter wk_alive (updw i v ws)) + (if wk_alive (nth i ws WkExited) then 1 else 0) =
  length (filter wk_alive ws) + (if (i <? length ws) && wk_alive v then 1 else 0).
Proof.
  induction ws as [|w t IH]; intros [|i] v; cbn [updw nth filter length]; try (cbn; lia).
  - destruct (wk_alive v), (wk_alive w); cbn; lia.
  - specialize (IH i v). change (S i <? S (length t)) with (i <? length t). destruct (wk_alive w); cbn [length]; lia.
Qed.
Lemma nth_alive_lt : forall ws i, wk_alive (nth i ws WkExited) = true -> i < length ws.
Proof. induction ws as [|w t IH]; intros [|i] H; cbn in *; try discriminate; try lia. specialize (IH i H). lia. Qed.

Ltac lred := cbn [l_started l_run l_cancel_of l_runs l_wg l_late l_want set_runs set_want done_wg].
Ltac lred_in H := cbn [l_started l_run l_cancel_of l_runs l_wg l_late l_want set_runs set_want done_wg] in H.

Section Good.
Variable c : lcfg.
Hypothesis Hwatch : lc_watch c = Some OpEq.
Hypothesis Hadd : lc_add_first c = true.
Hypothesis Hper : lc_per_run c = true.

Lemma do_stop_eq : forall s, do_stop s =
  if l_started s then mklst false (l_run s) (l_cancel_of s) (upd_rec (l_cancel_of s) set_done (l_runs s)) (l_wg s) (l_late s) (l_want s)
  else s.
Proof. intros s. unfold do_stop, stop_returns_if_not_started, stop_clears_started, stop_cancels. destruct (l_started s); reflexivity. Qed.

Lemma lstart_eq : forall s, lstep c s LStart =
  if l_started s then Some s
  else Some (mklst true (S (l_run s)) (S (l_run s))
                   (mkrec (S (l_run s)) false WWaiting LpIdle (repeat WkIdle (pool_size (lc_d c))) 0 :: l_runs s)
                   (l_wg s + S (pool_size (lc_d c))) (l_late s) true).
Proof.
  intros s. cbn [lstep]. unfold start_returns_if_started, start_increments_run, start_sets_started, add_wg. rewrite Hadd.
  destruct (l_started s); reflexivity.
Qed.

Lemma watcher_eq : forall s r x, find_rec r (l_runs s) = Some x ->
  lstep c s (WatcherWake r) =
  if r_done x && (match r_wat x with WWaiting => true | _ => false end)
  then let s1 := if l_run s =? r then do_stop s else s in Some (set_runs (upd_rec r (set_wat WExited) (l_runs s1)) s1)
  else None.
Proof.
  intros s r x H. cbn [lstep]. rewrite H, Hwatch. cbn [cmp]. rewrite Z.eqb_compare, Nat2Z.inj_compare, <- Nat.eqb_compare. reflexivity.
Qed.

(* ---- structure and the WaitGroup ---- *)
Definition LIS (s : lst) : Prop :=
  map r_id (l_runs s) = ids_desc (l_run s) /\ l_cancel_of s = l_run s /\ l_late s = 0 /\ l_wg s = total_alive (l_runs s).

Lemma alive_new_rec : forall r n, alive (mkrec r false WWaiting LpIdle (repeat WkIdle n) 0) = S n.
Proof. intros r n. unfold alive. cbn [r_lp r_wk r_gor]. assert (length (filter wk_alive (repeat WkIdle n)) = n) as -> by (induction n; cbn; auto). lia. Qed.

Lemma lis_nodup : forall s, LIS s -> NoDup (map r_id (l_runs s)).
Proof. intros s (H & _). rewrite H. apply ids_desc_nodup. Qed.

Lemma lis_do_stop : forall s, LIS s -> LIS (do_stop s).
Proof.
  intros s (S1 & S2 & S3 & S4). rewrite do_stop_eq. destruct (l_started s); [|repeat split; auto].
  unfold LIS. lred. rewrite upd_rec_ids by auto. rewrite (total_alive_same _ _ _ alive_set_done). auto.
Qed.

Lemma lis_step : forall s l s', LIS s -> lstep c s l = Some s' -> LIS s'.
Proof.
  intros s l s' I Hs. pose proof (lis_nodup _ I) as Hnd. destruct l.
  - rewrite lstart_eq in Hs. destruct (l_started s); injection Hs as <-; [exact I|].
    destruct I as (S1 & S2 & S3 & S4). unfold LIS. lred. cbn [map r_id total_alive fold_right]. fold (total_alive (l_runs s)). rewrite S1, alive_new_rec. repeat split; auto. lia.
  - cbn [lstep] in Hs. injection Hs as <-. apply (lis_do_stop _ I).
  - cbn [lstep] in Hs. destruct (find_rec r (l_runs s)); [|discriminate]. injection Hs as <-.
    destruct I as (S1 & S2 & S3 & S4). unfold LIS. lred. rewrite upd_rec_ids by auto. rewrite (total_alive_same _ _ _ alive_set_done). auto.
  - destruct (find_rec r (l_runs s)) as [x|] eqn:Ef; [|cbn [lstep] in Hs; rewrite Ef in Hs; discriminate].
    rewrite (watcher_eq _ _ _ Ef) in Hs. destruct (r_done x && _); [|discriminate]. cbv zeta in Hs. injection Hs as <-.
    assert (I1 : LIS (if l_run s =? r then do_stop s else s)) by (destruct (l_run s =? r); [apply lis_do_stop|]; exact I).
    destruct I1 as (S1 & S2 & S3 & S4). unfold LIS. lred. rewrite upd_rec_ids by auto. rewrite (total_alive_same _ _ _ (alive_set_wat _)). auto.
  - cbn [lstep] in Hs. destruct (find_rec r (l_runs s)) as [x|] eqn:Ef; [|discriminate]. destruct (r_lp x) eqn:El; try discriminate.
    destruct (r_done x); [|discriminate]. injection Hs as <-. destruct I as (S1 & S2 & S3 & S4). unfold LIS. lred. rewrite upd_rec_ids by auto.
    pose proof (total_alive_one r (set_lp LpExited) _ x Hnd Ef) as T. unfold alive in T at 1 2. cbn [set_lp r_lp r_wk r_gor] in T. rewrite El in T.
    repeat split; auto. lia.
  - cbn [lstep] in Hs. destruct (find_rec r (l_runs s)) as [x|] eqn:Ef; [|discriminate]. destruct (nth i (r_wk x) WkExited) eqn:En; try discriminate.
    destruct (r_done x); [|discriminate]. injection Hs as <-. destruct I as (S1 & S2 & S3 & S4). unfold LIS. lred. rewrite upd_rec_ids by auto.
    pose proof (total_alive_one r (set_wk (updw i WkExited (r_wk x))) _ x Hnd Ef) as T. unfold alive in T at 1 2. cbn [set_wk r_lp r_wk r_gor] in T.
    pose proof (alive_updw (r_wk x) i WkExited) as A. rewrite En in A. cbn [wk_alive] in A. rewrite andb_false_r in A.
    repeat split; auto. lia.
  - cbn [lstep] in Hs. destruct (find_rec r (l_runs s)) as [x|] eqn:Ef; [|discriminate]. destruct I as (S1 & S2 & S3 & S4).
    destruct (r_lp x) eqn:El; try discriminate. destruct (pick_mode exec_modes (lc_d c)) as [[]|]; try discriminate; destruct w as [i|]; try discriminate.
    + injection Hs as <-. unfold LIS. lred. rewrite upd_rec_ids by auto.
      pose proof (total_alive_one r (set_lp LpExec) _ x Hnd Ef) as T. unfold alive in T at 1 2. cbn [set_lp r_lp r_wk r_gor] in T. rewrite El in T.
      repeat split; auto. lia.
    + destruct (nth i (r_wk x) WkExited) eqn:En; try discriminate. injection Hs as <-. unfold LIS. lred. rewrite upd_rec_ids by auto.
      pose proof (total_alive_one r (set_wk (updw i WkExec (r_wk x))) _ x Hnd Ef) as T. unfold alive in T at 1 2. cbn [set_wk r_lp r_wk r_gor] in T.
      pose proof (alive_updw (r_wk x) i WkExec) as A. rewrite En in A. cbn [wk_alive] in A.
      assert (i <? length (r_wk x) = true) as Hlt by (apply Nat.ltb_lt, nth_alive_lt; rewrite En; reflexivity). rewrite Hlt in A. cbn [andb] in A.
      repeat split; auto. lia.
    + injection Hs as <-. unfold add_wg. rewrite Hadd. unfold LIS. lred. rewrite upd_rec_ids by auto.
      pose proof (total_alive_one r (set_gor (S (r_gor x))) _ x Hnd Ef) as T. unfold alive in T at 1 2. cbn [set_gor r_lp r_wk r_gor] in T.
      repeat split; auto. lia.
  - cbn [lstep] in Hs. destruct (find_rec r (l_runs s)) as [x|] eqn:Ef; [|discriminate]. destruct I as (S1 & S2 & S3 & S4).
    destruct (pick_mode exec_modes (lc_d c)) as [[]|]; try discriminate; destruct w as [i|]; try discriminate.
    + destruct (r_lp x) eqn:El; try discriminate. injection Hs as <-. unfold LIS. lred. rewrite upd_rec_ids by auto.
      pose proof (total_alive_one r (set_lp LpIdle) _ x Hnd Ef) as T. unfold alive in T at 1 2. cbn [set_lp r_lp r_wk r_gor] in T. rewrite El in T.
      repeat split; auto. lia.
    + destruct (nth i (r_wk x) WkExited) eqn:En; try discriminate. injection Hs as <-. unfold LIS. lred. rewrite upd_rec_ids by auto.
      pose proof (total_alive_one r (set_wk (updw i WkIdle (r_wk x))) _ x Hnd Ef) as T. unfold alive in T at 1 2. cbn [set_wk r_lp r_wk r_gor] in T.
      pose proof (alive_updw (r_wk x) i WkIdle) as A. rewrite En in A. cbn [wk_alive] in A.
      assert (i <? length (r_wk x) = true) as Hlt by (apply Nat.ltb_lt, nth_alive_lt; rewrite En; reflexivity). rewrite Hlt in A. cbn [andb] in A.
      repeat split; auto. lia.
    + destruct (r_gor x) eqn:Eg; try discriminate. injection Hs as <-. unfold LIS. lred. rewrite upd_rec_ids by auto.
      pose proof (total_alive_one r (set_gor n) _ x Hnd Ef) as T. unfold alive in T at 1 2. cbn [set_gor r_lp r_wk r_gor] in T. rewrite Eg in T.
      repeat split; auto. lia.
  - cbn [lstep] in Hs. rewrite Hper in Hs. discriminate.
  - cbn [lstep] in Hs. destruct I as (S1 & S2 & S3 & S4). rewrite S3 in Hs. discriminate.
  - cbn [lstep] in Hs. destruct (l_wg s =? 0); [|discriminate]. injection Hs as <-. exact I.
Qed.
End Good.

(* ---- the control projection (id, ctx done, watcher) of every run ---- *)
Definition ctl (x : rrec) : nat * bool * wpc := (r_id x, r_done x, r_wat x).
Definition tid (t : nat * bool * wpc) : nat := fst (fst t).
Definition mark (r : nat) (cs : list (nat * bool * wpc)) : list (nat * bool * wpc) :=
  map (fun t => let '(i, d, w) := t in if i =? r then (i, true, w) else (i, d, w)) cs.
Definition exitw (r : nat) (cs : list (nat * bool * wpc)) : list (nat * bool * wpc) :=
  map (fun t => let '(i, d, w) := t in if i =? r then (i, d, WExited) else (i, d, w)) cs.

Lemma ctl_upd_same : forall r f l, (forall x, ctl (f x) = ctl x) -> map ctl (upd_rec r f l) = map ctl l.
Proof. intros r f l H. unfold upd_rec. rewrite map_map. apply map_ext. intros x. destruct (r_id x =? r); auto. Qed.
Lemma ctl_upd_done : forall r l, map ctl (upd_rec r set_done l) = mark r (map ctl l).
Proof. intros r l. unfold upd_rec, mark. rewrite !map_map. apply map_ext. intros x. unfold ctl. cbn. destruct (r_id x =? r); reflexivity. Qed.
Lemma ctl_upd_wat : forall r l, map ctl (upd_rec r (set_wat WExited) l) = exitw r (map ctl l).
Proof. intros r l. unfold upd_rec, exitw. rewrite !map_map. apply map_ext. intros x. unfold ctl. cbn. destruct (r_id x =? r); reflexivity. Qed.

Lemma tid_mark : forall r cs, map tid (mark r cs) = map tid cs.
Proof. intros r cs. unfold mark. rewrite map_map. apply map_ext. intros [[i d] w]. destruct (i =? r); reflexivity. Qed.
Lemma tid_exitw : forall r cs, map tid (exitw r cs) = map tid cs.
Proof. intros r cs. unfold exitw. rewrite map_map. apply map_ext. intros [[i d] w]. destruct (i =? r); reflexivity. Qed.
Lemma in_mark : forall r cs i d w, In (i, d, w) (mark r cs) ->
  exists d0, In (i, d0, w) cs /\ ((i = r /\ d = true) \/ (i <> r /\ d = d0)).
Proof.
  intros r cs i d w H. unfold mark in H. apply in_map_iff in H. destruct H as ([[i0 d0] w0] & E & Hin).
  destruct (i0 =? r) eqn:Er; injection E as <- <- <-; exists d0; split; auto.
  - left. apply Nat.eqb_eq in Er. auto. - right. apply Nat.eqb_neq in Er. auto.
Qed.
Lemma in_exitw : forall r cs i d w, In (i, d, w) (exitw r cs) ->
  exists w0, In (i, d, w0) cs /\ ((i = r /\ w = WExited) \/ (i <> r /\ w = w0)).
Proof.
  intros r cs i d w H. unfold exitw in H. apply in_map_iff in H. destruct H as ([[i0 d0] w0] & E & Hin).
  destruct (i0 =? r) eqn:Er; injection E as <- <- <-; exists w0; split; auto.
  - left. apply Nat.eqb_eq in Er. auto. - right. apply Nat.eqb_neq in Er. auto.
Qed.
Lemma tid_unique : forall cs i d1 w1 d2 w2, NoDup (map tid cs) -> In (i, d1, w1) cs -> In (i, d2, w2) cs -> d1 = d2 /\ w1 = w2.
Proof.
  induction cs as [|t cs IH]; intros i d1 w1 d2 w2 Hn H1 H2; [destruct H1|]. inversion Hn; subst.
  destruct H1 as [E1|H1], H2 as [E2|H2].
  - rewrite E1 in E2. injection E2; auto.
  - exfalso. apply H3. rewrite E1. apply (in_map tid) in H2. exact H2.
  - exfalso. apply H3. rewrite E2. apply (in_map tid) in H1. exact H1.
  - eapply IH; eauto.
Qed.

Definition CI (st : bool) (run : nat) (want : bool) (cs : list (nat * bool * wpc)) : Prop :=
  map tid cs = ids_desc run /\
  (forall i d w, In (i, d, w) cs -> i < run -> d = true) /\
  (st = false -> forall i d w, In (i, d, w) cs -> d = true) /\
  (forall i d w, In (i, d, w) cs -> d = false -> w = WWaiting) /\
  (forall i w t, cs = (i, true, w) :: t -> want = false) /\
  ((forall i t, cs <> (i, true, WWaiting) :: t) -> st = want).

Lemma ci_ids_le : forall st run want cs i d w, CI st run want cs -> In (i, d, w) cs -> 1 <= i <= run.
Proof. intros st run want cs i d w (H & _) Hin. apply ids_desc_in. rewrite <- H. apply (in_map tid) in Hin. exact Hin. Qed.
Lemma ci_nodup : forall st run want cs, CI st run want cs -> NoDup (map tid cs).
Proof. intros st run want cs (H & _). rewrite H. apply ids_desc_nodup. Qed.
Lemma ci_head : forall st run want cs i d w t, CI st run want cs -> cs = (i, d, w) :: t -> i = run.
Proof. intros st run want cs i d w t (H & _) E. subst cs. destruct run; cbn in H; [discriminate|]. injection H; auto. Qed.

Lemma ci_start : forall run want cs, CI false run want cs -> CI true (S run) true ((S run, false, WWaiting) :: cs).
Proof.
  intros run want cs (C1 & C2 & C3 & C4 & C5 & C6). unfold CI. split; [cbn; f_equal; exact C1|]. split; [|split; [|split; [|split]]].
  - intros i d w [E|H] Hlt; [injection E as <- <- <-; lia|]. exact (C3 eq_refl _ _ _ H).
  - discriminate.
  - intros i d w [E|H] Hd; [injection E as <- <- <-; reflexivity|]. exact (C4 _ _ _ H Hd).
  - intros i w t E. discriminate.
  - reflexivity.
Qed.

Lemma ci_mark_cur : forall st run want cs, CI st run want cs -> CI false run false (mark run cs).
Proof.
  intros st run want cs I. pose proof I as (C1 & C2 & C3 & C4 & C5 & C6). unfold CI. split; [rewrite tid_mark; exact C1|].
  assert (A : forall i d w, In (i, d, w) (mark run cs) -> d = true).
  { intros i d w H. destruct (in_mark _ _ _ _ _ H) as (d0 & Hin & [[_ E]|[Hne E]]); [exact E|]. subst d.
    apply (C2 _ _ _ Hin). pose proof (ci_ids_le _ _ _ _ _ _ _ I Hin). lia. }
  split; [|split; [|split; [|split]]]; auto.
  - intros i d w H _. exact (A _ _ _ H).
  - intros i d w H Hd. rewrite (A _ _ _ H) in Hd. discriminate.
Qed.

Lemma ci_unwant : forall run want cs, CI false run want cs -> CI false run false cs.
Proof. intros run want cs (C1 & C2 & C3 & C4 & C5 & C6). unfold CI. repeat split; auto. Qed.

Lemma mark_hd : forall r i d w t, mark r ((i, d, w) :: t) = (if i =? r then (i, true, w) else (i, d, w)) :: mark r t.
Proof. reflexivity. Qed.
Lemma exitw_hd : forall r i d w t, exitw r ((i, d, w) :: t) = (if i =? r then (i, d, WExited) else (i, d, w)) :: exitw r t.
Proof. reflexivity. Qed.

Lemma ci_cancel : forall st run want cs r, CI st run want cs -> In r (map tid cs) ->
  CI st run (if r =? run then false else want) (mark r cs).
Proof.
  intros st run want cs r I Hr. pose proof I as (C1 & C2 & C3 & C4 & C5 & C6). unfold CI. split; [rewrite tid_mark; exact C1|].
  split; [|split; [|split; [|split]]].
  - intros i d w H Hlt. destruct (in_mark _ _ _ _ _ H) as (d0 & Hin & [[_ E]|[_ E]]); [exact E|]. subst d. exact (C2 _ _ _ Hin Hlt).
  - intros Hst i d w H. destruct (in_mark _ _ _ _ _ H) as (d0 & Hin & [[_ E]|[_ E]]); [exact E|]. subst d. exact (C3 Hst _ _ _ Hin).
  - intros i d w H Hd. destruct (in_mark _ _ _ _ _ H) as (d0 & Hin & [[_ E]|[_ E]]); [congruence|]. rewrite E in Hd. exact (C4 _ _ _ Hin Hd).
  - intros i w t E. destruct cs as [|[[i0 d0] w0] t0]; [discriminate|]. rewrite mark_hd in E.
    pose proof (ci_head _ _ _ _ _ _ _ _ I eq_refl) as Hi. subst i0. destruct (run =? r) eqn:Er.
    + apply Nat.eqb_eq in Er. subst r. rewrite Nat.eqb_refl. reflexivity.
    + injection E as _ Ed _ _. subst d0. rewrite Nat.eqb_sym, Er. exact (C5 _ _ _ eq_refl).
  - intros Hnp. destruct cs as [|[[i0 d0] w0] t0]; [destruct Hr|]. rewrite mark_hd in Hnp.
    pose proof (ci_head _ _ _ _ _ _ _ _ I eq_refl) as Hi. subst i0. destruct (run =? r) eqn:Er.
    + apply Nat.eqb_eq in Er. subst r. rewrite Nat.eqb_refl.
      destruct w0; [exfalso; exact (Hnp _ _ eq_refl)|].
      assert (d0 = true) by (destruct d0; auto; specialize (C4 _ _ _ (or_introl eq_refl) eq_refl); discriminate). subst d0.
      rewrite (C5 _ _ _ eq_refl) in C6. apply C6. intros i t E. discriminate.
    + rewrite Nat.eqb_sym, Er. apply C6. intros i t E. apply (Hnp i (mark r t0)). injection E as <- <- <- <-. reflexivity.
Qed.

Lemma ci_exitw : forall st run want cs r, CI st run want cs -> In (r, true, WWaiting) cs -> (r = run -> st = false) ->
  CI st run want (exitw r cs).
Proof.
  intros st run want cs r I Hr Hcur. pose proof I as (C1 & C2 & C3 & C4 & C5 & C6). pose proof (ci_nodup _ _ _ _ I) as Hnd.
  unfold CI. split; [rewrite tid_exitw; exact C1|]. split; [|split; [|split; [|split]]].
  - intros i d w H Hlt. destruct (in_exitw _ _ _ _ _ H) as (w0 & Hin & _). exact (C2 _ _ _ Hin Hlt).
  - intros Hst i d w H. destruct (in_exitw _ _ _ _ _ H) as (w0 & Hin & _). exact (C3 Hst _ _ _ Hin).
  - intros i d w H Hd. destruct (in_exitw _ _ _ _ _ H) as (w0 & Hin & [[E _]|[_ E]]).
    + subst i. destruct (tid_unique _ _ _ _ _ _ Hnd Hin Hr). congruence.
    + subst w. exact (C4 _ _ _ Hin Hd).
  - intros i w t E. destruct cs as [|[[i0 d0] w0] t0]; [discriminate|]. rewrite exitw_hd in E.
    destruct (i0 =? r); injection E as _ Ed _ _; subst d0; exact (C5 _ _ _ eq_refl).
  - intros Hnp. destruct cs as [|[[i0 d0] w0] t0]; [destruct Hr|]. rewrite exitw_hd in Hnp.
    pose proof (ci_head _ _ _ _ _ _ _ _ I eq_refl) as Hi. subst i0. destruct (run =? r) eqn:Er.
    + apply Nat.eqb_eq in Er. subst r. rewrite (Hcur eq_refl).
      destruct (tid_unique _ _ _ _ _ _ Hnd Hr (or_introl eq_refl)) as [<- _]. symmetry. exact (C5 _ _ _ eq_refl).
    + apply C6. intros i t E. apply (Hnp i (exitw r t0)). injection E as <- <- <- <-. reflexivity.
Qed.

Definition LIC (s : lst) : Prop := CI (l_started s) (l_run s) (l_want s) (map ctl (l_runs s)) /\ l_cancel_of s = l_run s.

Section Good2.
Variable c : lcfg.
Hypothesis Hwatch : lc_watch c = Some OpEq.
Hypothesis Hadd : lc_add_first c = true.
Hypothesis Hper : lc_per_run c = true.

Lemma find_rec_ctl : forall r l x, find_rec r l = Some x -> In (r, r_done x, r_wat x) (map ctl l).
Proof. intros r l x H. destruct (find_rec_some _ _ _ H) as [Hin E]. subst r. change (r_id x, r_done x, r_wat x) with (ctl x). apply in_map. exact Hin. Qed.
Lemma tid_ctl : forall l, map tid (map ctl l) = map r_id l.
Proof. intros l. rewrite map_map. reflexivity. Qed.

Lemma lic_do_stop : forall s, LIC s -> LIC (set_want false (do_stop s)).
Proof.
  intros s [I E]. rewrite do_stop_eq. unfold LIC. destruct (l_started s) eqn:Est; lred.
  - rewrite ctl_upd_done, E. split; [|reflexivity]. eapply ci_mark_cur; exact I.
  - rewrite Est. split; [|exact E]. eapply ci_unwant; exact I.
Qed.

Lemma lic_same : forall s s', LIC s -> l_started s' = l_started s -> l_run s' = l_run s -> l_want s' = l_want s ->
  l_cancel_of s' = l_cancel_of s -> map ctl (l_runs s') = map ctl (l_runs s) -> LIC s'.
Proof. intros s s' [I E] E1 E2 E3 E4 E5. unfold LIC. rewrite E1, E2, E3, E4, E5. auto. Qed.

Lemma lic_step : forall s l s', LIC s -> lstep c s l = Some s' -> LIC s'.
Proof.
  intros s l s' I Hs. destruct l.
  - rewrite (lstart_eq c Hadd) in Hs. destruct (l_started s) eqn:Est; injection Hs as <-; [exact I|].
    destruct I as [I E]. unfold LIC. lred. split; [|reflexivity]. cbn [map ctl r_id r_done r_wat]. fold (ctl). rewrite Est in I. eapply ci_start; exact I.
  - cbn [lstep] in Hs. injection Hs as <-. apply lic_do_stop; exact I.
  - cbn [lstep] in Hs. destruct (find_rec r (l_runs s)) as [x|] eqn:Ef; [|discriminate]. injection Hs as <-.
    destruct I as [I E]. unfold LIC. lred. rewrite ctl_upd_done. split; [|exact E]. apply ci_cancel; [exact I|].
    rewrite tid_ctl. destruct (find_rec_some _ _ _ Ef) as [Hin <-]. apply in_map. exact Hin.
  - destruct (find_rec r (l_runs s)) as [x|] eqn:Ef; [|cbn [lstep] in Hs; rewrite Ef in Hs; discriminate].
    rewrite (watcher_eq c Hwatch _ _ _ Ef) in Hs. destruct (r_done x) eqn:Ed; [|discriminate]. destruct (r_wat x) eqn:Ew; [|discriminate].
    cbv zeta in Hs. cbn [andb] in Hs. injection Hs as <-. pose proof (find_rec_ctl _ _ _ Ef) as Hin. rewrite Ed, Ew in Hin.
    destruct I as [I E]. destruct (l_run s =? r) eqn:Er.
    + apply Nat.eqb_eq in Er. subst r. rewrite do_stop_eq. unfold LIC.
      (* the current run: its context is done, so want = false already *)
      assert (Hw : l_want s = false).
      { destruct I as (C1 & _ & _ & _ & C5 & _). destruct (map ctl (l_runs s)) as [|[[i0 d0] w0] t0] eqn:Ec; [destruct Hin|].
        assert (i0 = l_run s) by (destruct (l_run s); cbn in C1; [discriminate|injection C1; auto]). subst i0.
        assert (Hn : NoDup (map tid ((l_run s, d0, w0) :: t0))) by (rewrite C1; apply ids_desc_nodup).
        destruct (tid_unique _ _ _ _ _ _ Hn Hin (or_introl eq_refl)) as [<- _]. exact (C5 _ _ _ eq_refl). }
      destruct (l_started s) eqn:Est; lred.
      * rewrite ctl_upd_wat, ctl_upd_done, E. split; [|reflexivity]. rewrite Hw.
        apply ci_exitw; [eapply ci_mark_cur; exact I| |reflexivity].
        unfold mark. apply in_map_iff. exists (l_run s, true, WWaiting). rewrite Nat.eqb_refl. auto.
      * rewrite Est, ctl_upd_wat. split; [|exact E]. apply ci_exitw; auto.
    + apply Nat.eqb_neq in Er. unfold LIC. lred. rewrite ctl_upd_wat. split; [|exact E]. apply ci_exitw; auto. intros; congruence.
  - cbn [lstep] in Hs. destruct (find_rec r (l_runs s)) as [x|]; [|discriminate]. destruct (r_lp x); try discriminate. destruct (r_done x); [|discriminate].
    injection Hs as <-. eapply lic_same; [exact I| | | | |]; lred; auto. apply ctl_upd_same. reflexivity.
  - cbn [lstep] in Hs. destruct (find_rec r (l_runs s)) as [x|]; [|discriminate]. destruct (nth i (r_wk x) WkExited); try discriminate. destruct (r_done x); [|discriminate].
    injection Hs as <-. eapply lic_same; [exact I| | | | |]; lred; auto. apply ctl_upd_same. reflexivity.
  - cbn [lstep] in Hs. destruct (find_rec r (l_runs s)) as [x|]; [|discriminate].
    destruct (r_lp x); try discriminate; destruct (pick_mode exec_modes (lc_d c)) as [[]|]; try discriminate; destruct w as [i|]; try discriminate.
    + injection Hs as <-. eapply lic_same; [exact I| | | | |]; lred; auto. apply ctl_upd_same. reflexivity.
    + destruct (nth i (r_wk x) WkExited); try discriminate. injection Hs as <-. eapply lic_same; [exact I| | | | |]; lred; auto. apply ctl_upd_same. reflexivity.
    + injection Hs as <-. unfold add_wg. rewrite Hadd. eapply lic_same; [exact I| | | | |]; lred; auto. apply ctl_upd_same. reflexivity.
  - cbn [lstep] in Hs. destruct (find_rec r (l_runs s)) as [x|]; [|discriminate].
    destruct (pick_mode exec_modes (lc_d c)) as [[]|]; try discriminate; destruct w as [i|]; try discriminate.
    + destruct (r_lp x); try discriminate. injection Hs as <-. eapply lic_same; [exact I| | | | |]; lred; auto. apply ctl_upd_same. reflexivity.
    + destruct (nth i (r_wk x) WkExited); try discriminate. injection Hs as <-. eapply lic_same; [exact I| | | | |]; lred; auto. apply ctl_upd_same. reflexivity.
    + destruct (r_gor x); try discriminate. injection Hs as <-. eapply lic_same; [exact I| | | | |]; lred; auto. apply ctl_upd_same. reflexivity.
  - cbn [lstep] in Hs. rewrite Hper in Hs. discriminate.
  - cbn [lstep] in Hs. destruct (l_late s); [discriminate|]. injection Hs as <-. eapply lic_same; [exact I| | | | |]; lred; auto.
  - cbn [lstep] in Hs. destruct (l_wg s =? 0); [|discriminate]. injection Hs as <-. exact I.
Qed.
End Good2.

(* ================= the C10 statements ================= *)
Lemma code_watch : forall d, lc_watch (code_lcfg d) = Some OpEq. Proof. reflexivity. Qed.
Lemma code_add : forall d, lc_add_first (code_lcfg d) = true. Proof. reflexivity. Qed.
Lemma code_per : forall d, lc_per_run (code_lcfg d) = true. Proof. reflexivity. Qed.

Lemma lis_init : LIS linit. Proof. unfold LIS, linit. cbn. auto. Qed.
Lemma lic_init : LIC linit.
Proof. unfold LIC, linit, CI. cbn. repeat split; auto; intros; try contradiction; try discriminate. Qed.

Lemma reach_inv : forall d tr s, lrun (code_lcfg d) linit tr = Some s -> LIS s /\ LIC s.
Proof.
  intros d tr. assert (G : forall s0, LIS s0 /\ LIC s0 -> forall s, lrun (code_lcfg d) s0 tr = Some s -> LIS s /\ LIC s).
  { induction tr as [|l tr IH]; cbn [lrun]; intros s0 H0 s Hr; [injection Hr as <-; exact H0|].
    destruct (lstep (code_lcfg d) s0 l) eqn:E; [|discriminate]. eapply IH; [|exact Hr]. destruct H0 as [A B]. split.
    - eapply lis_step; eauto; reflexivity. - eapply lic_step; eauto; reflexivity. }
  intros s. apply G. split; [exact lis_init|exact lic_init].
Qed.

(* Start;Start = Start and Stop;Stop = Stop (in every state, reachable or not) *)
Lemma start_stop_idempotent : forall d s s1,
  (lstep (code_lcfg d) s LStart = Some s1 -> lstep (code_lcfg d) s1 LStart = Some s1) /\
  (lstep (code_lcfg d) s LStop = Some s1 -> lstep (code_lcfg d) s1 LStop = Some s1).
Proof.
  intros d s s1. split; intros H.
  - rewrite (lstart_eq _ (code_add d)) in H. rewrite (lstart_eq _ (code_add d)).
    destruct (l_started s) eqn:E; injection H as <-; [rewrite E; reflexivity|reflexivity].
  - cbn [lstep] in *. injection H as <-. rewrite !do_stop_eq. destruct (l_started s) eqn:E; cbn; [reflexivity|]. rewrite E. reflexivity.
Qed.

(* what the ghost l_want records *)
Lemma want_semantics : forall d s l s', lstep (code_lcfg d) s l = Some s' ->
  l_want s' = match l with
              | LStart => if l_started s then l_want s else true
              | LStop => false
              | CtxCancel r => if r =? l_run s then false else l_want s
              | _ => l_want s end.
Proof.
  intros d s l s' H. destruct l.
  - rewrite (lstart_eq _ (code_add d)) in H. destruct (l_started s); injection H as <-; reflexivity.
  - cbn [lstep] in H. injection H as <-. reflexivity.
  - cbn [lstep] in H. destruct (find_rec r (l_runs s)); [|discriminate]. injection H as <-. reflexivity.
  - destruct (find_rec r (l_runs s)) as [x|] eqn:Ef; [|cbn [lstep] in H; rewrite Ef in H; discriminate].
    rewrite (watcher_eq _ (code_watch d) _ _ _ Ef) in H. destruct (r_done x && _); [|discriminate]. cbv zeta in H. injection H as <-.
    destruct (l_run s =? r); [rewrite do_stop_eq; destruct (l_started s)|]; reflexivity.
  - cbn [lstep] in H. destruct (find_rec r (l_runs s)) as [x|]; [|discriminate]. destruct (r_lp x); try discriminate. destruct (r_done x); [|discriminate]. injection H as <-. reflexivity.
  - cbn [lstep] in H. destruct (find_rec r (l_runs s)) as [x|]; [|discriminate]. destruct (nth i (r_wk x) WkExited); try discriminate. destruct (r_done x); [|discriminate]. injection H as <-. reflexivity.
  - cbn [lstep] in H. destruct (find_rec r (l_runs s)) as [x|]; [|discriminate].
    destruct (r_lp x); try discriminate; destruct (pick_mode exec_modes (lc_d (code_lcfg d))) as [[]|]; try discriminate; destruct w as [i|]; try discriminate.
    + injection H as <-. reflexivity.
    + destruct (nth i (r_wk x) WkExited); try discriminate. injection H as <-. reflexivity.
    + injection H as <-. reflexivity.
  - cbn [lstep] in H. destruct (find_rec r (l_runs s)) as [x|]; [|discriminate].
    destruct (pick_mode exec_modes (lc_d (code_lcfg d))) as [[]|]; try discriminate; destruct w as [i|]; try discriminate.
    + destruct (r_lp x); try discriminate. injection H as <-. reflexivity.
    + destruct (nth i (r_wk x) WkExited); try discriminate. injection H as <-. reflexivity.
    + destruct (r_gor x); try discriminate. injection H as <-. reflexivity.
  - cbn [lstep] in H. rewrite (code_per d) in H. discriminate.
  - cbn [lstep] in H. destruct (l_late s); [discriminate|]. injection H as <-. reflexivity.
  - cbn [lstep] in H. destruct (l_wg s =? 0); [|discriminate]. injection H as <-. reflexivity.
Qed.

Lemma is_started_tracks : forall d tr s, lrun (code_lcfg d) linit tr = Some s -> ~ wake_pending s -> l_started s = l_want s.
Proof.
  intros d tr s Hr Hnp. destruct (reach_inv _ _ _ Hr) as [_ [(_ & _ & _ & _ & _ & C6) _]]. apply C6.
  intros i t E. apply Hnp. unfold wake_pending. destruct (l_runs s) as [|x l]; [discriminate|]. exists x. cbn in E. injection E as _ E2 E3 _. auto.
Qed.

(* while a wake-up of the current run's watcher is pending the ghost already says "stopped" *)
Lemma pending_wake_means_cancelled : forall d tr s, lrun (code_lcfg d) linit tr = Some s -> wake_pending s -> l_want s = false.
Proof.
  intros d tr s Hr (x & Hh & Hd & Hw). destruct (reach_inv _ _ _ Hr) as [_ [(_ & _ & _ & _ & C5 & _) _]].
  destruct (l_runs s) as [|y l]; [discriminate|]. cbn in Hh. injection Hh as ->. apply (C5 (r_id x) (r_wat x) (map ctl l)). cbn. unfold ctl. rewrite Hd. reflexivity.
Qed.

Lemma find_rec_upd : forall k r f l, keeps_id f ->
  find_rec k (upd_rec r f l) = option_map (fun x => if r_id x =? r then f x else x) (find_rec k l).
Proof.
  intros k r f l K. unfold find_rec, upd_rec. induction l as [|x t IH]; [reflexivity|]. cbn [map find].
  destruct (r_id x =? r) eqn:E; [rewrite K|]; destruct (r_id x =? k); auto; cbn [option_map]; rewrite E; reflexivity.
Qed.

Definition cur_done (s : lst) : option bool := option_map r_done (find_rec (l_run s) (l_runs s)).

(* once a run is started and its context is live, only Stop or the cancellation of THAT run's context
   clears `started` or cancels that context -- in particular no watcher of an earlier run does *)
Lemma restart_stays_started : forall d tr s l s', lrun (code_lcfg d) linit tr = Some s ->
  l_started s = true -> cur_done s = Some false -> lstep (code_lcfg d) s l = Some s' ->
  l_started s' = false \/ option_map r_done (find_rec (l_run s) (l_runs s')) <> Some false ->
  l = LStop \/ l = CtxCancel (l_run s).
Proof.
  intros d tr s l s' Hr Hst Hcd Hs Hbad. unfold cur_done in Hcd.
  assert (K : forall r f, keeps_id f -> (forall x, r_done (f x) = r_done x) ->
            option_map r_done (find_rec (l_run s) (upd_rec r f (l_runs s))) = Some false).
  { intros r f K1 K2. rewrite find_rec_upd by exact K1. destruct (find_rec (l_run s) (l_runs s)) as [x|]; [|discriminate].
    cbn in *. destruct (r_id x =? r); rewrite ?K2; exact Hcd. }
  destruct l; auto.
  - exfalso. rewrite (lstart_eq _ (code_add d)), Hst in Hs. injection Hs as <-. destruct Hbad as [H|H]; congruence.
  - destruct (Nat.eq_dec r (l_run s)) as [->|Hne]; [auto|exfalso].
    cbn [lstep] in Hs. destruct (find_rec r (l_runs s)) eqn:Ef; [|discriminate]. injection Hs as <-. lred. cbn [l_started l_runs set_want set_runs] in Hbad.
    destruct Hbad as [H|H]; [cbn in H; congruence|]. apply H. cbn [l_runs set_runs set_want]. rewrite find_rec_upd by auto.
    destruct (find_rec (l_run s) (l_runs s)) as [x|] eqn:Ex; [|discriminate]. cbn. destruct (find_rec_some _ _ _ Ex) as [_ Ei].
    rewrite Ei. destruct (l_run s =? r) eqn:E; [apply Nat.eqb_eq in E; congruence|]. exact Hcd.
  - exfalso. destruct (find_rec r (l_runs s)) as [x|] eqn:Ef; [|cbn [lstep] in Hs; rewrite Ef in Hs; discriminate].
    rewrite (watcher_eq _ (code_watch d) _ _ _ Ef) in Hs. destruct (r_done x) eqn:Ed; [|discriminate]. destruct (r_wat x); [|discriminate].
    cbv zeta in Hs. cbn [andb] in Hs. injection Hs as <-. destruct (l_run s =? r) eqn:Er.
    + apply Nat.eqb_eq in Er. subst r. rewrite Ef in Hcd. cbn in Hcd. congruence.
    + lred_in Hbad. destruct Hbad as [H|H]; [congruence|]. apply H. apply K; auto.
  - exfalso. cbn [lstep] in Hs. destruct (find_rec r (l_runs s)) as [x|]; [|discriminate]. destruct (r_lp x); try discriminate. destruct (r_done x); [|discriminate].
    injection Hs as <-. lred_in Hbad. destruct Hbad as [H|H]; [congruence|]. apply H. apply K; auto.
  - exfalso. cbn [lstep] in Hs. destruct (find_rec r (l_runs s)) as [x|]; [|discriminate]. destruct (nth i (r_wk x) WkExited); try discriminate. destruct (r_done x); [|discriminate].
    injection Hs as <-. lred_in Hbad. destruct Hbad as [H|H]; [congruence|]. apply H. apply K; auto.
  - exfalso. cbn [lstep] in Hs. destruct (find_rec r (l_runs s)) as [x|]; [|discriminate].
    destruct (r_lp x); try discriminate; destruct (pick_mode exec_modes (lc_d (code_lcfg d))) as [[]|]; try discriminate; destruct w as [i|]; try discriminate.
    + injection Hs as <-. lred_in Hbad. destruct Hbad as [H|H]; [congruence|]. apply H. apply K; auto.
    + destruct (nth i (r_wk x) WkExited); try discriminate. injection Hs as <-. lred_in Hbad. destruct Hbad as [H|H]; [congruence|]. apply H. apply K; auto.
    + injection Hs as <-. unfold add_wg in Hbad. rewrite (code_add d) in Hbad. lred_in Hbad. destruct Hbad as [H|H]; [cbn in H; congruence|]. apply H. cbn [l_runs set_runs]. apply K; auto.
  - exfalso. cbn [lstep] in Hs. destruct (find_rec r (l_runs s)) as [x|]; [|discriminate].
    destruct (pick_mode exec_modes (lc_d (code_lcfg d))) as [[]|]; try discriminate; destruct w as [i|]; try discriminate.
    + destruct (r_lp x); try discriminate. injection Hs as <-. lred_in Hbad. destruct Hbad as [H|H]; [congruence|]. apply H. apply K; auto.
    + destruct (nth i (r_wk x) WkExited); try discriminate. injection Hs as <-. lred_in Hbad. destruct Hbad as [H|H]; [congruence|]. apply H. apply K; auto.
    + destruct (r_gor x); try discriminate. injection Hs as <-. lred_in Hbad. destruct Hbad as [H|H]; [congruence|]. apply H. apply K; auto.
  - exfalso. cbn [lstep] in Hs. rewrite (code_per d) in Hs. discriminate.
  - exfalso. cbn [lstep] in Hs. destruct (l_late s); [discriminate|]. injection Hs as <-. lred_in Hbad. destruct Hbad as [H|H]; [congruence|]. apply H. exact Hcd.
  - exfalso. cbn [lstep] in Hs. destruct (l_wg s =? 0); [|discriminate]. injection Hs as <-. destruct Hbad as [H|H]; [congruence|]. apply H. exact Hcd.
Qed.

(* after Start the new run is started with a live context (so the hypotheses above hold) *)
Lemma start_gives_live_run : forall d s s', l_started s = false -> lstep (code_lcfg d) s LStart = Some s' ->
  l_started s' = true /\ l_run s' = S (l_run s) /\ cur_done s' = Some false.
Proof.
  intros d s s' Hst H. rewrite (lstart_eq _ (code_add d)), Hst in H. injection H as <-. unfold cur_done. lred.
  rewrite (find_rec_hd (mkrec (S (l_run s)) false WWaiting LpIdle _ 0)). auto.
Qed.

(* sensitivity: with the watcher calling Stop() (the code before the fix of S2) the stale watcher of
   run 1 stops run 2 *)
Example ex_prefix_stale_watcher_kills_restart : exists s,
  lrun (prefix_lcfg (mkd false 0)) linit [LStart; LStop; LStart; WatcherWake 1] = Some s /\
  l_run s = 2 /\ l_started s = false /\ l_want s = true /\ cur_done s = Some true.
Proof. eexists. split; [vm_compute; reflexivity|]. repeat split. Qed.

Example ex_fixed_restart_survives : exists s,
  lrun (code_lcfg (mkd false 0)) linit [LStart; LStop; LStart; WatcherWake 1] = Some s /\
  l_run s = 2 /\ l_started s = true /\ l_want s = true /\ cur_done s = Some false /\ ~ wake_pending s.
Proof. eexists. split; [vm_compute; reflexivity|]. repeat split. intros (x & H & Hd & _). vm_compute in H. injection H as <-. discriminate. Qed.

(* cancelling the context of the current run is the same as Stop, once the watcher has run *)
Lemma upd_rec_idem : forall r f l, keeps_id f -> (forall x, f (f x) = f x) -> upd_rec r f (upd_rec r f l) = upd_rec r f l.
Proof.
  intros r f l K I. unfold upd_rec. rewrite map_map. apply map_ext. intros x. destruct (r_id x =? r) eqn:E; [|rewrite E; reflexivity].
  rewrite K, E. apply I.
Qed.

Lemma cancel_equiv_stop : forall d s, l_started s = true -> l_cancel_of s = l_run s ->
  lrun (code_lcfg d) s [CtxCancel (l_run s); WatcherWake (l_run s)] = lrun (code_lcfg d) s [LStop; WatcherWake (l_run s)].
Proof.
  intros d s Hst Hc.
  assert (E2 : lstep (code_lcfg d) s LStop =
               Some (set_want false (mklst false (l_run s) (l_run s) (upd_rec (l_run s) set_done (l_runs s)) (l_wg s) (l_late s) (l_want s)))).
  { cbn [lstep]. rewrite do_stop_eq, Hst, Hc. reflexivity. }
  assert (E1 : lstep (code_lcfg d) s (CtxCancel (l_run s)) =
               match find_rec (l_run s) (l_runs s) with
               | Some _ => Some (set_want false (set_runs (upd_rec (l_run s) set_done (l_runs s)) s)) | None => None end).
  { cbn [lstep]. rewrite Nat.eqb_refl. reflexivity. }
  cbn [lrun]. rewrite E1, E2. clear E1 E2.
  destruct (find_rec (l_run s) (l_runs s)) as [x|] eqn:Ef.
  - assert (F1 : find_rec (l_run s) (l_runs (set_want false (mklst false (l_run s) (l_run s) (upd_rec (l_run s) set_done (l_runs s)) (l_wg s) (l_late s) (l_want s)))) = Some (set_done x)).
    { lred. rewrite find_rec_upd by auto. rewrite Ef. cbn. destruct (find_rec_some _ _ _ Ef) as [_ ->]. rewrite Nat.eqb_refl. reflexivity. }
    assert (F2 : find_rec (l_run s) (l_runs (set_want false (set_runs (upd_rec (l_run s) set_done (l_runs s)) s))) = Some (set_done x)).
    { lred. rewrite find_rec_upd by auto. rewrite Ef. cbn. destruct (find_rec_some _ _ _ Ef) as [_ ->]. rewrite Nat.eqb_refl. reflexivity. }
    rewrite (watcher_eq _ (code_watch d) _ _ _ F2). rewrite (watcher_eq _ (code_watch d) _ _ _ F1).
    cbn [set_done r_done r_wat andb]. destruct (r_wat x); [|reflexivity]. cbv zeta. lred. rewrite Nat.eqb_refl, !do_stop_eq. lred. rewrite Hst, Hc.
    rewrite upd_rec_idem by (auto; reflexivity). reflexivity.
  - cbn [lstep]. lred. rewrite find_rec_upd by auto. rewrite Ef. reflexivity.
Qed.

Example ex_cancel_equiv_stop : exists s s',
  lrun (code_lcfg (mkd false 2)) linit [LStart; ExecStart 1 (Some 0)] = Some s /\ l_started s = true /\ l_cancel_of s = l_run s /\
  lrun (code_lcfg (mkd false 2)) s [LStop; WatcherWake (l_run s)] = Some s' /\ l_started s' = false /\ cur_done s' = Some true.
Proof. eexists. eexists. split; [vm_compute; reflexivity|]. repeat split. Qed.

(* every context except possibly the current run's is cancelled, and all are once the scheduler is
   stopped: an execution of run r (it holds r's context) sees Done as soon as r is no longer the running run *)
Lemma jobs_see_cancel : forall d tr s x, lrun (code_lcfg d) linit tr = Some s -> In x (l_runs s) ->
  r_id x < l_run s \/ l_started s = false -> r_done x = true.
Proof.
  intros d tr s x Hr Hin Hc. destruct (reach_inv _ _ _ Hr) as [_ [(_ & C2 & C3 & _) _]].
  assert (Hi : In (ctl x) (map ctl (l_runs s))) by (apply in_map; exact Hin). unfold ctl in Hi.
  destruct Hc as [H|H]; [exact (C2 _ _ _ Hi H)|exact (C3 H _ _ _ Hi)].
Qed.

Lemma stop_cancels_all : forall d tr s s' x, lrun (code_lcfg d) linit tr = Some s -> lstep (code_lcfg d) s LStop = Some s' ->
  In x (l_runs s') -> r_done x = true.
Proof.
  intros d tr s s' x Hr Hs Hin. assert (Hr' : lrun (code_lcfg d) linit (tr ++ [LStop]) = Some s').
  { clear Hin. revert Hr. generalize linit. induction tr as [|l tr IH]; cbn [lrun app]; intros s0 H0.
    - injection H0 as ->. rewrite Hs. reflexivity. - destruct (lstep (code_lcfg d) s0 l); [apply IH; exact H0|discriminate]. }
  apply (jobs_see_cancel _ _ _ _ Hr' Hin). right. cbn [lstep] in Hs. injection Hs as <-. rewrite do_stop_eq. destruct (l_started s) eqn:E; [reflexivity|exact E].
Qed.

(* Wait *)
Lemma alive_zero : forall x, alive x = 0 -> r_lp x = LpExited /\ (forall w, In w (r_wk x) -> w = WkExited) /\ r_gor x = 0.
Proof.
  intros x H. unfold alive in H. split; [destruct (r_lp x); auto; lia|]. split; [|lia].
  intros w Hw. destruct w; auto; exfalso;
    (assert (In_f : In WkIdle (filter wk_alive (r_wk x)) \/ In WkExec (filter wk_alive (r_wk x))) by
       (first [left; apply filter_In; split; [exact Hw|reflexivity] | right; apply filter_In; split; [exact Hw|reflexivity]]));
    destruct (filter wk_alive (r_wk x)); [destruct In_f as [[]|[]]|cbn in H; lia| destruct In_f as [[]|[]]|cbn in H; lia].
Qed.

Lemma nth_all_exited : forall ws i, (forall w, In w ws -> w = WkExited) -> nth i ws WkExited = WkExited.
Proof. intros ws i H. destruct (nth_in_or_default i ws WkExited) as [Hin|E]; [apply H; exact Hin|exact E]. Qed.

Lemma quiescent_blocks : forall c s, quiescent s ->
  (forall r w, lstep c s (ExecStart r w) = None) /\ (forall r w, lstep c s (ExecEnd r w) = None) /\
  (forall r, lstep c s (LoopExit r) = None) /\ (forall r i, lstep c s (WorkerExit r i) = None).
Proof.
  intros c s Q. repeat split; intros; cbn [lstep]; destruct (find_rec r (l_runs s)) as [x|] eqn:Ef; try reflexivity;
    destruct (find_rec_some _ _ _ Ef) as [Hin _]; destruct (Q x Hin) as (Q1 & Q2 & Q3); rewrite ?Q1, ?Q3, ?(nth_all_exited _ _ Q2); try reflexivity.
  - destruct (pick_mode exec_modes (lc_d c)) as [[]|]; destruct w; try reflexivity. rewrite (nth_all_exited _ _ Q2). reflexivity.
Qed.

Lemma quiescent_upd : forall r f l, (forall x, r_lp (f x) = r_lp x /\ r_wk (f x) = r_wk x /\ r_gor (f x) = r_gor x) ->
  (forall x, In x l -> r_lp x = LpExited /\ (forall w, In w (r_wk x) -> w = WkExited) /\ r_gor x = 0) ->
  forall y, In y (upd_rec r f l) -> r_lp y = LpExited /\ (forall w, In w (r_wk y) -> w = WkExited) /\ r_gor y = 0.
Proof.
  intros r f l K Q y Hy. apply upd_rec_in in Hy. destruct Hy as (x & Hx & ->). destruct (r_id x =? r); [|exact (Q x Hx)].
  destruct (K x) as (-> & -> & ->). exact (Q x Hx).
Qed.

Lemma quiescent_step : forall d s l s', quiescent s -> is_start l = false -> lstep (code_lcfg d) s l = Some s' -> quiescent s' /\ is_exec_start l = false.
Proof.
  intros d s l s' Q Hl Hs. destruct (quiescent_blocks (code_lcfg d) s Q) as (B1 & B2 & B3 & B4).
  destruct l; try discriminate; try (rewrite ?B1, ?B2, ?B3, ?B4 in Hs; discriminate); (split; [|reflexivity]).
  - cbn [lstep] in Hs. injection Hs as <-. rewrite do_stop_eq. destruct (l_started s); [|exact Q]. unfold quiescent. lred.
    apply quiescent_upd; [intros x; auto|exact Q].
  - cbn [lstep] in Hs. destruct (find_rec r (l_runs s)); [|discriminate]. injection Hs as <-. unfold quiescent. lred.
    apply quiescent_upd; [intros x; auto|exact Q].
  - destruct (find_rec r (l_runs s)) as [x|] eqn:Ef; [|cbn [lstep] in Hs; rewrite Ef in Hs; discriminate].
    rewrite (watcher_eq _ (code_watch d) _ _ _ Ef) in Hs. destruct (r_done x && _); [|discriminate]. cbv zeta in Hs. injection Hs as <-.
    unfold quiescent. lred. apply quiescent_upd; [intros y; auto|]. destruct (l_run s =? r); [|exact Q].
    rewrite do_stop_eq. destruct (l_started s); [|exact Q]. lred. apply quiescent_upd; [intros y; auto|exact Q].
  - cbn [lstep] in Hs. destruct (l_late s); [discriminate|]. injection Hs as <-. exact Q.
  - cbn [lstep] in Hs. destruct (l_wg s =? 0); [|discriminate]. injection Hs as <-. exact Q.
Qed.

(* WaitReturn enabled => wg = 0 => no loop, worker or job goroutine of any run is alive, and no
   execution starts before the next Start *)
Lemma wait_means_quiescent : forall d tr s, lrun (code_lcfg d) linit tr = Some s ->
  (exists s', lstep (code_lcfg d) s WaitReturn = Some s') ->
  l_wg s = 0 /\ quiescent s /\
  forall tr2 s2, Forall (fun l => is_start l = false) tr2 -> lrun (code_lcfg d) s tr2 = Some s2 ->
    quiescent s2 /\ Forall (fun l => is_exec_start l = false) tr2.
Proof.
  intros d tr s Hr [s' Hw]. cbn [lstep] in Hw. destruct (l_wg s =? 0) eqn:E; [|discriminate]. apply Nat.eqb_eq in E.
  destruct (reach_inv _ _ _ Hr) as [(_ & _ & _ & S4) _]. rewrite E in S4.
  assert (Q : quiescent s) by (intros x Hx; apply alive_zero; apply (total_alive_zero _ (eq_sym S4) _ Hx)).
  split; [exact E|]. split; [exact Q|]. clear Hr E S4 Hw. revert Q. generalize s. clear s.
  intros s Q tr2. revert s Q. induction tr2 as [|l tr2 IH]; cbn [lrun]; intros s Q s2 Hf Hr2; [injection Hr2 as <-; auto|].
  inversion Hf; subst. destruct (lstep (code_lcfg d) s l) eqn:Es; [|discriminate].
  destruct (quiescent_step _ _ _ _ Q H1 Es) as [Q' He]. destruct (IH _ Q' _ H2 Hr2). split; [assumption|constructor; assumption].
Qed.

Example ex_wait_after_stop : exists s,
  lrun (code_lcfg (mkd false 2)) linit
       [LStart; ExecStart 1 (Some 0); LStop; LoopExit 1; WorkerExit 1 1; WatcherWake 1; ExecEnd 1 (Some 0); WorkerExit 1 0; WaitReturn] = Some s /\
  l_wg s = 0 /\ l_started s = false.
Proof. eexists. split; [vm_compute; reflexivity|]. repeat split. Qed.

Example ex_wait_blocked_while_job_runs :
  lrun (code_lcfg (mkd false 0)) linit [LStart; ExecStart 1 None; LStop; LoopExit 1; WaitReturn] = None /\
  exists s, lrun (code_lcfg (mkd false 0)) linit [LStart; ExecStart 1 None; LStop; LoopExit 1; ExecEnd 1 None; WaitReturn] = Some s.
Proof. split; [vm_compute; reflexivity|]. eexists. vm_compute. reflexivity. Qed.

Example ex_is_started_tracks_cancel : exists s,
  lrun (code_lcfg (mkd true 0)) linit [LStart; CtxCancel 1; WatcherWake 1] = Some s /\ l_started s = false /\ l_want s = false /\ ~ wake_pending s.
Proof. eexists. split; [vm_compute; reflexivity|]. repeat split. intros (x & H & _ & Hw). vm_compute in H. injection H as <-. discriminate. Qed.

(* ---- each run hands its jobs over on its own channel (fix 4ef8ad4) ---- *)
(* StaleTake r rw i: worker i of run rw takes the job the loop of another run r hands over; it would run
   with run rw's context.  With the per-run channel the label is never enabled, in any state. *)
Lemma job_runs_in_its_own_run : forall d s r rw i, lstep (code_lcfg d) s (StaleTake r rw i) = None.
Proof. intros. cbn [lstep]. rewrite (code_per d). reflexivity. Qed.

(* ... so the only way a hand-over of run r's loop is taken is ExecStart r (Some i): a worker of run r *)
Lemma handover_taken_by_own_worker : forall d s r i s', lstep (code_lcfg d) s (ExecStart r (Some i)) = Some s' ->
  exists x, find_rec r (l_runs s) = Some x /\ r_lp x = LpIdle /\ nth i (r_wk x) WkExited = WkIdle /\
            l_runs s' = upd_rec r (set_wk (updw i WkExec (r_wk x))) (l_runs s).
Proof.
  intros d s r i s' H. cbn [lstep] in H. destruct (find_rec r (l_runs s)) as [x|] eqn:E; [|discriminate]. exists x. split; [reflexivity|].
  destruct (r_lp x); try discriminate; destruct (pick_mode exec_modes (lc_d (code_lcfg d))) as [[]|]; try discriminate.
  destruct (nth i (r_wk x) WkExited) eqn:En; try discriminate. injection H as <-. auto.
Qed.

(* sensitivity: with one channel for all runs (the code before 4ef8ad4) a worker of the stopped run 1, back in
   its select, takes the job handed over by run 2's loop and runs it with run 1's cancelled context *)
Example ex_shared_channel_stale_worker : exists s s' x,
  lrun (shared_lcfg (mkd false 1)) linit [LStart; ExecStart 1 (Some 0); LStop; LStart; ExecEnd 1 (Some 0)] = Some s /\
  l_started s = true /\ l_run s = 2 /\
  lstep (shared_lcfg (mkd false 1)) s (StaleTake 2 1 0) = Some s' /\
  find_rec 1 (l_runs s') = Some x /\ r_done x = true /\ r_wk x = [WkExec].
Proof. eexists. eexists. eexists. split; [vm_compute; reflexivity|]. split; [reflexivity|]. split; [reflexivity|].
  split; [vm_compute; reflexivity|]. split; [vm_compute; reflexivity|]. split; reflexivity. Qed.

Example ex_per_run_channel_same_trace : exists s s',
  lrun (code_lcfg (mkd false 1)) linit [LStart; ExecStart 1 (Some 0); LStop; LStart; ExecEnd 1 (Some 0)] = Some s /\
  lstep (code_lcfg (mkd false 1)) s (StaleTake 2 1 0) = None /\
  lstep (code_lcfg (mkd false 1)) s (ExecStart 2 (Some 0)) = Some s' /\ cur_done s' = Some false.
Proof. eexists. eexists. split; [vm_compute; reflexivity|]. split; [reflexivity|]. split; [vm_compute; reflexivity|]. reflexivity. Qed.

(* Wait (fix f3bea02): a select on the caller's context and on the counter's idle channel, with no helper
   goroutine -- so a Wait that timed out leaves no goroutine of the scheduler behind, and nothing can be
   woken by the counter reaching zero while the next Start increments it (the old shape, a goroutine parked
   in sync.WaitGroup.Wait, could panic the process: "WaitGroup is reused before previous Wait has returned") *)
Lemma wait_shape : wait_waits_wg = true /\ wait_selects_ctx = true /\ wait_leaves_no_goroutine = true.
Proof. repeat split; reflexivity. Qed.
