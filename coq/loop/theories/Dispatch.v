(* Model of the dispatch side of StdScheduler: executeAndReschedule's three-way switch, startWorkers'
   pool, and the goroutine that runs executeWithRetries (seen as ExecStart ... ExecEnd with the
   outcome "returned" or "panicked").  Definitions only. *)
From Coq Require Import ZArith List Bool Lia.
Require Import QzLoop.Gen.Params QzLoop.LoopModel QzLoop.Retry.
Import ListNotations.
Open Scope Z_scope.
Open Scope list_scope.

Record dcfg := mkd { d_blocking : bool; d_limit : Z }.     (* opts.BlockingExecution, opts.WorkerLimit *)

Definition mode_holds (g : mode_guard) (c : dcfg) : bool :=
  match g with MBlocking => d_blocking c | MWorkerLimitPos => 0 <? d_limit c | MDefault => true end.
Fixpoint pick_mode (l : list (mode_guard * mode_action)) (c : dcfg) : option mode_action :=
  match l with [] => None | (g, a) :: r => if mode_holds g c then Some a else pick_mode r c end.

(* number of iterations of `for i := init; i <op> bound; i++` *)
Definition trip_count (init : Z) (op : cmp_op) (bound : Z) : nat :=
  match op with OpLt => Z.to_nat (bound - init) | OpLe => Z.to_nat (bound - init + 1) | _ => O end.

(* startWorkers *)
Definition pool_size (c : dcfg) : nat :=
  if (if workers_guard_nonblocking_and_limit_pos then negb (d_blocking c) && (0 <? d_limit c) else true)
  then trip_count workers_loop_init workers_loop_cmp (d_limit c) else O.

Inductive dpc := LIdle | LHolding | LExec | LSending | LDead.
Inductive wst := WIdle | WBusy | WDead.

Record dst := mkdst {
  d_lpc : dpc;           (* the loop goroutine: between fetches / holds a valid job / runs it inline / blocked in `dispatch <-` *)
  d_due : nat;           (* due entries in the queue (their pushed-back successors are not touched by any label below) *)
  d_workers : list wst;
  d_spawned : nat;       (* job goroutines created by `go`, not yet running *)
  d_running : nat;       (* job goroutines inside executeWithRetries *)
  d_inflight : nat;      (* ghost: ExecStart events minus ExecEnd events *)
  d_wg : nat;            (* the WaitGroup counter *)
  d_crashed : bool       (* an unrecovered panic killed the process *)
}.

Inductive dlabel :=
| MakeDue (k : nat)            (* time passes / jobs are scheduled: k more entries are due *)
| DFetch                       (* the loop pops a due entry that is classified valid *)
| DDispatch                    (* the switch in executeAndReschedule *)
| WorkerTake (i : nat)         (* worker i receives from the dispatch channel: ExecStart *)
| WorkerEnd (i : nat) (o : outc)   (* executeWithRetries ends in worker i *)
| LoopExecEnd (o : outc)       (* ... in the loop goroutine (blocking mode) *)
| GoStart                      (* a job goroutine starts executeWithRetries: ExecStart *)
| GoEnd (o : outc).            (* ... and ends; deferred wg.Done *)

Definition is_busy (w : wst) : bool := match w with WBusy => true | _ => false end.
Definition busy (ws : list wst) : nat := length (filter is_busy ws).
Fixpoint upd (i : nat) (v : wst) (ws : list wst) : list wst :=
  match ws, i with [], _ => [] | _ :: t, O => v :: t | w :: t, S j => w :: upd j v t end.

(* a panic inside executeWithRetries is caught by its deferred recover (Retry.on_panic) *)
Definition survives (o : outc) : bool := match o with APanic => match on_panic with RRecovered => true | _ => false end | _ => true end.

Section D.
Variable c : dcfg.

Definition dstep (s : dst) (l : dlabel) : option dst :=
  if d_crashed s then None else
  match l with
  | MakeDue k => Some (mkdst (d_lpc s) (d_due s + k) (d_workers s) (d_spawned s) (d_running s) (d_inflight s) (d_wg s) false)
  | DFetch => match d_lpc s, d_due s with
              | LIdle, S n => Some (mkdst LHolding n (d_workers s) (d_spawned s) (d_running s) (d_inflight s) (d_wg s) false)
              | _, _ => None end
  | DDispatch => match d_lpc s with
      | LHolding =>
          match pick_mode exec_modes c with
          | Some DInline => Some (mkdst LExec (d_due s) (d_workers s) (d_spawned s) (d_running s) (S (d_inflight s)) (d_wg s) false)
          | Some DSendDispatch => Some (mkdst LSending (d_due s) (d_workers s) (d_spawned s) (d_running s) (d_inflight s) (d_wg s) false)
          | Some DGoroutine => Some (mkdst LIdle (d_due s) (d_workers s) (S (d_spawned s)) (d_running s) (d_inflight s)
                                           (if goroutine_wg_add_before_go then S (d_wg s) else d_wg s) false)
          | None => Some (mkdst LIdle (d_due s) (d_workers s) (d_spawned s) (d_running s) (d_inflight s) (d_wg s) false)
          end
      | _ => None end
  | WorkerTake i => match d_lpc s, nth i (d_workers s) WDead with
      | LSending, WIdle =>
          if worker_runs_execute_with_retries && worker_selects_done_and_dispatch
          then Some (mkdst LIdle (d_due s) (upd i WBusy (d_workers s)) (d_spawned s) (d_running s) (S (d_inflight s)) (d_wg s) false)
          else (* the worker hands the job to yet another goroutine and is free again at once *)
               Some (mkdst LIdle (d_due s) (d_workers s) (d_spawned s) (S (d_running s)) (S (d_inflight s)) (S (d_wg s)) false)
      | _, _ => None end
  | WorkerEnd i o => match nth i (d_workers s) WDead with
      | WBusy => if survives o
                 then Some (mkdst (d_lpc s) (d_due s) (upd i WIdle (d_workers s)) (d_spawned s) (d_running s) (pred (d_inflight s)) (d_wg s) false)
                 else Some (mkdst (d_lpc s) (d_due s) (upd i WDead (d_workers s)) (d_spawned s) (d_running s) (pred (d_inflight s)) (d_wg s) true)
      | _ => None end
  | LoopExecEnd o => match d_lpc s with
      | LExec => if survives o
                 then Some (mkdst LIdle (d_due s) (d_workers s) (d_spawned s) (d_running s) (pred (d_inflight s)) (d_wg s) false)
                 else Some (mkdst LDead (d_due s) (d_workers s) (d_spawned s) (d_running s) (pred (d_inflight s)) (d_wg s) true)
      | _ => None end
  | GoStart => match d_spawned s with
      | S n => Some (mkdst (d_lpc s) (d_due s) (d_workers s) n (S (d_running s)) (S (d_inflight s))
                           (if goroutine_wg_add_before_go then d_wg s else S (d_wg s)) false)
      | O => None end
  | GoEnd o => match d_running s with
      | S n => Some (mkdst (d_lpc s) (d_due s) (d_workers s) (d_spawned s) n (pred (d_inflight s)) (pred (d_wg s)) (negb (survives o)))
      | O => None end
  end.

Fixpoint drun (s : dst) (tr : list dlabel) : option dst :=
  match tr with [] => Some s | l :: tr' => match dstep s l with Some s' => drun s' tr' | None => None end end.

(* after Start: the loop and the pool are running, nothing is due yet *)
Definition dinit : dst := mkdst LIdle O (repeat WIdle (pool_size c)) O O O (S (pool_size c)) false.

End D.

Definition loop_dlabel (l : dlabel) : bool := match l with DFetch | DDispatch => true | _ => false end.

(* n rounds of fetch / dispatch / take by workers 0 .. n-1 *)
Fixpoint fill_from (i n : nat) : list dlabel :=
  match n with O => [] | S m => DFetch :: DDispatch :: WorkerTake i :: fill_from (S i) m end.
Definition fill_pool (n : nat) : list dlabel := MakeDue n :: fill_from O n.

(* one execution that panics in worker i: due, fetched, handed over, taken by worker i, ended by a panic *)
Definition panic_round (i : nat) : list dlabel := [MakeDue 1; DFetch; DDispatch; WorkerTake i; WorkerEnd i APanic].
Fixpoint panic_rounds (ws : list nat) : list dlabel :=
  match ws with [] => [] | i :: t => panic_round i ++ panic_rounds t end.
