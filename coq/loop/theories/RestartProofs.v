(* Proofs about Restart.v: a loop whose context is cancelled neither fetches nor takes the token away
   (the code after fix c87a9a8); the code without the ctx.Err() checks is refuted. *)
From Coq Require Import ZArith List Bool Lia.
Require Import QzLoop.Gen.Params QzLoop.LoopModel QzLoop.LoopProofs QzLoop.Restart.
Import ListNotations.
Open Scope Z_scope.
Open Scope list_scope.

Ltac red2 := cbn [q tok armed dl armed_at chan now lpc pend ff cur stale clean narm lf_size lf_head lf_pop pops disps
  set_q set_tok set_armed set_dl set_armed_at set_chan set_now set_lpc set_pend set_ff set_cur set_stale set_clean
  set_narm set_lf_size set_lf_head set_lf_pop set_pops set_disps nw od].

Lemma stale_checks : forall drain ri,
  c_ctxdone (stale_cfg drain ri) && c_tick_checks_ctx (stale_cfg drain ri) = true /\
  c_ctxdone (stale_cfg drain ri) && c_tok_checks_ctx (stale_cfg drain ri) = true /\
  c_tok_gives_back (stale_cfg drain ri) = true /\ (1 <=? c_cap (stale_cfg drain ri)) = true /\
  c_tok_recomputes (stale_cfg drain ri) = true /\ c_reset_nb (stale_cfg drain ri) = true.
Proof. intros. repeat split; reflexivity. Qed.

Lemma stale_sw : forall drain ri e f z, select_arm (c_sw (stale_cfg drain ri)) e f z = Some (expected_arm e f z).
Proof. intros drain ri [] [] []; reflexivity. Qed.

(* what one move of the stopped run's loop does to the shared part *)
Lemma old_step_effect : forall drain ri o l o',
  lpc o <> PFetch -> old_label_ok l = true -> step (stale_cfg drain ri) o l = Some o' ->
  q o' = q o /\ tok o' = tok o /\ pend o' = pend o /\ now o <= now o' /\ lpc o' <> PFetch /\ pops o' = pops o.
Proof.
  intros drain ri o l o' Hpc Hl Hs. destruct (stale_checks drain ri) as (K1 & K2 & K3 & K4 & K5 & K6).
  destruct l; cbn [old_label_ok loop_label orb] in Hl; try discriminate; cbn [step] in Hs.
  - (* TimerFire *) destruct (armed o && (dl o <=? now o)); [|discriminate]. injection Hs as <-. red_st. repeat split; auto; lia.
  - (* LoopSize *) destruct (lpc o) eqn:Epc; try discriminate. rewrite stale_sw in Hs. pose proof (delay_nonneg o0).
    destruct (expected_arm (failed o0) (ff o) (is_nil (q o))); destruct (failed o0); injection Hs as <-; unfold arm, adv, dur; red_st;
      repeat split; auto; try lia; try discriminate.
  - (* LoopTick *) destruct (lpc o) eqn:Epc; try discriminate. pose proof (delay_nonneg o0).
    destruct (failed o0); [|destruct (q o) eqn:Eq]; injection Hs as <-; unfold arm, adv; red_st; repeat split; auto; try lia; try discriminate.
  - (* SelTick *) destruct (lpc o) eqn:Epc; try discriminate. destruct (chan o); [|discriminate]. rewrite K1 in Hs. injection Hs as <-.
    unfold clear_lf. destruct (stale o); red_st; repeat split; auto; try lia; discriminate.
  - (* SelTok *) destruct (lpc o) eqn:Epc; try discriminate. destruct (tok o) eqn:Et; [|discriminate]. rewrite K2, K3 in Hs. injection Hs as <-.
    unfold send_tok. rewrite K6, K4. cbn [negb]. unfold take_token, clear_lf. rewrite K5. red_st. repeat split; auto; try lia; discriminate.
  - (* SelDone *) destruct (lpc o) eqn:Epc; try discriminate. cbn [c_ctxdone stale_cfg] in Hs. injection Hs as <-. red_st. repeat split; auto; try lia; discriminate.
  - (* LoopFetch *) destruct (lpc o); try discriminate; congruence.
  - (* LoopDispatched *) destruct (lpc o) eqn:Epc; try discriminate. injection Hs as <-. red_st. repeat split; auto; try lia; discriminate.
Qed.

(* T2: whatever the stopped run's loop does (even a fetch already under way), a token that is there stays there *)
Lemma stale_loop_gives_token_back : forall drain ri cn s l s',
  step2 cn (stale_cfg drain ri) s (Old l) = Some s' -> tok (nw s) = tok (od s) -> tok (nw s) = true -> tok (nw s') = true.
Proof.
  intros drain ri cn s l s' Hs Heq Ht. cbn [step2] in Hs. destruct (old_label_ok l) eqn:Hl; [|discriminate].
  destruct (step (stale_cfg drain ri) (od s) l) as [o'|] eqn:E; [|discriminate]. injection Hs as <-. unfold share. red2.
  rewrite Heq in Ht. destruct (stale_checks drain ri) as (K1 & K2 & K3 & K4 & K5 & K6).
  destruct l; cbn [old_label_ok loop_label orb] in Hl; try discriminate; cbn [step] in E.
  - destruct (armed (od s) && (dl (od s) <=? now (od s))); [|discriminate]. injection E as <-. red_st. exact Ht.
  - destruct (lpc (od s)); try discriminate. rewrite stale_sw in E.
    destruct (expected_arm (failed o) (ff (od s)) (is_nil (q (od s)))); destruct (failed o); injection E as <-; unfold arm, adv; red_st; exact Ht.
  - destruct (lpc (od s)); try discriminate. destruct (failed o); [|destruct (q (od s))]; injection E as <-; unfold arm, adv; red_st; exact Ht.
  - destruct (lpc (od s)); try discriminate. destruct (chan (od s)); [|discriminate]. rewrite K1 in E. injection E as <-.
    unfold clear_lf. destruct (stale (od s)); red_st; exact Ht.
  - destruct (lpc (od s)); try discriminate. destruct (tok (od s)); [|discriminate]. rewrite K2, K3 in E. injection E as <-.
    unfold send_tok. rewrite K6, K4. cbn [negb]. red_st. reflexivity.
  - destruct (lpc (od s)); try discriminate. cbn [c_ctxdone stale_cfg] in E. injection E as <-. red_st. exact Ht.
  - destruct (lpc (od s)); try discriminate. destruct (failed po); [injection E as <-; unfold adv; red_st; exact Ht|].
    destruct (q (od s)); [injection E as <-; unfold adv; red_st; exact Ht|]. injection E as <-.
    destruct resched as [p'|]; [destruct (failed pusho)|]; destruct valid; cbn [c_fetch_resets stale_cfg]; unfold fetch_resets_after_push, send_tok; rewrite ?K6, ?K4; cbn [negb];
      unfold adv; red_st; auto.
  - destruct (lpc (od s)); try discriminate. injection E as <-. red_st. exact Ht.
Qed.

(* the two loops see the same shared part *)
Definition coherent (s : st2) : Prop :=
  q (nw s) = q (od s) /\ tok (nw s) = tok (od s) /\ now (nw s) = now (od s) /\ pend (nw s) = pend (od s).

Lemma share_shared : forall a b, q (share a b) = q a /\ tok (share a b) = tok a /\ now (share a b) = now a /\ pend (share a b) = pend a.
Proof. intros. unfold share. red_st. auto. Qed.
Lemma share_private : forall a b, lpc (share a b) = lpc b /\ pops (share a b) = pops b /\ armed (share a b) = armed b /\ dl (share a b) = dl b /\
  armed_at (share a b) = armed_at b /\ chan (share a b) = chan b /\ clean (share a b) = clean b /\ ff (share a b) = ff b.
Proof. intros. unfold share. red_st. repeat split. Qed.

Lemma coherent_step : forall cn co s l s', step2 cn co s l = Some s' -> coherent s'.
Proof.
  intros cn co s l s' Hs. destruct l; cbn [step2] in Hs.
  - destruct (step cn (nw s) l); [|discriminate]. injection Hs as <-. unfold coherent. red2. destruct (share_shared s0 (od s)) as (A & B & C & D). auto.
  - destruct (old_label_ok l); [|discriminate]. destruct (step co (od s) l); [|discriminate]. injection Hs as <-. unfold coherent. red2.
    destruct (share_shared s0 (nw s)) as (A & B & C & D). auto.
Qed.

(* InvA / InvF of the new loop survive a move of the old loop that leaves queue, token and pending calls alone *)
Lemma invA_share : forall n o', InvA n -> q o' = q n -> tok o' = tok n -> pend o' = pend n -> now n <= now o' -> InvA (share o' n).
Proof.
  intros n o' (I1 & I2 & I3 & I4) Hq Ht Hp Hn. unfold InvA, share, parked. red_st. rewrite Hq, Ht, Hp.
  split; [lia|]. split; [exact I2|]. split; assumption.
Qed.

Definition Inv2 (o0 : st) (s : st2) : Prop :=
  coherent s /\ InvA (nw s) /\ InvF (nw s) /\ lpc (od s) <> PFetch /\ pops (od s) = pops o0.

Lemma inv2_init : forall q0 tok0 o0, lpc o0 <> PFetch -> Inv2 o0 (init2 q0 tok0 o0).
Proof.
  intros q0 tok0 o0 H. unfold Inv2, init2. red2. destruct (share_shared (init q0 tok0) o0) as (A & B & C & D).
  destruct (share_private (init q0 tok0) o0) as (P1 & P2 & _).
  split; [unfold coherent; red2; auto|]. split; [destruct (inv_init (code_cfg false 0) q0 tok0) as [IA _]; exact IA|].
  split; [apply invF_init|]. rewrite P1, P2. auto.
Qed.

Lemma inv2_step : forall drain ri o0 s l s',
  (match l with New l' => label_faults l' = false | Old _ => True end) ->
  Inv2 o0 s -> step2 (code_cfg drain ri) (stale_cfg drain ri) s l = Some s' -> Inv2 o0 s'.
Proof.
  intros drain ri o0 s l s' Hl (C & IA & IF & Hpc & Hpops) Hs. pose proof (coherent_step _ _ _ _ _ Hs) as C'.
  destruct (code_good drain ri) as (G1 & G2 & G3 & G4 & G5 & G6 & G7 & G8 & G9 & G10 & G11).
  split; [exact C'|]. destruct l; cbn [step2] in Hs.
  - destruct (step (code_cfg drain ri) (nw s) l) as [n'|] eqn:E; [|discriminate]. injection Hs as <-. red2.
    destruct (share_private n' (od s)) as (P1 & P2 & _). rewrite P1, P2.
    split; [eapply (invA_step (code_cfg drain ri)); eauto|]. split; [eapply (invF_step (code_cfg drain ri)); eauto|]. auto.
  - destruct (old_label_ok l) eqn:Ho; [|discriminate]. destruct (step (stale_cfg drain ri) (od s) l) as [o'|] eqn:E; [|discriminate]. injection Hs as <-. red2.
    destruct (old_step_effect _ _ _ _ _ Hpc Ho E) as (E1 & E2 & E3 & E4 & E5 & E6). destruct C as (C1 & C2 & C3 & C4).
    split; [apply invA_share; auto; try congruence; lia|]. split; [|split; [exact E5|congruence]].
    destruct IF as [F1 F2]. destruct (share_private o' (nw s)) as (P1 & _ & _ & _ & _ & _ & P7 & P8). unfold InvF. rewrite P1, P7, P8. auto.
Qed.

Lemma inv2_run : forall drain ri q0 tok0 o0 tr s, lpc o0 <> PFetch -> new_nofault tr ->
  run2 (code_cfg drain ri) (stale_cfg drain ri) (init2 q0 tok0 o0) tr = Some s -> Inv2 o0 s.
Proof.
  intros drain ri q0 tok0 o0 tr s H0 Hn Hr. pose proof (inv2_init q0 tok0 o0 H0) as I. revert I Hr. generalize (init2 q0 tok0 o0).
  induction tr as [|l tr IH]; cbn [run2]; intros s0 I Hr; [injection Hr as <-; exact I|].
  inversion Hn; subst. destruct (step2 _ _ s0 l) eqn:E; [|discriminate]. eapply IH; [assumption|eapply inv2_step; eauto|exact Hr].
Qed.

(* T1 *)
Lemma stale_loop_never_fetches : forall drain ri q0 tok0 o0 tr s, lpc o0 <> PFetch -> new_nofault tr ->
  run2 (code_cfg drain ri) (stale_cfg drain ri) (init2 q0 tok0 o0) tr = Some s ->
  lpc (od s) <> PFetch /\ pops (od s) = pops o0.
Proof. intros. destruct (inv2_run _ _ _ _ _ _ _ H H0 H1) as (_ & _ & _ & A & B). auto. Qed.

(* T3: the no-lost-wake-up invariant of the new run's loop holds with the old loop still around *)
Lemma restart_no_lost_wakeup : forall drain ri q0 tok0 o0 tr s, lpc o0 <> PFetch -> new_nofault tr ->
  run2 (code_cfg drain ri) (stale_cfg drain ri) (init2 q0 tok0 o0) tr = Some s -> parked (nw s) ->
  armed (nw s) = true /\ (q (nw s) <> [] -> dl (nw s) <= Z.max (armed_at (nw s)) (minp (q (nw s)))).
Proof.
  intros drain ri q0 tok0 o0 tr s H0 Hn Hr Hp. destruct (inv2_run _ _ _ _ _ _ _ H0 Hn Hr) as (_ & (I1 & I2 & _) & (F1 & F2) & _).
  apply I2; [exact Hp|]. apply F2. apply Hp.
Qed.

Lemma restart_fires : forall drain ri q0 tok0 o0 tr s, lpc o0 <> PFetch -> new_nofault tr ->
  run2 (code_cfg drain ri) (stale_cfg drain ri) (init2 q0 tok0 o0) tr = Some s ->
  (parked (nw s) -> armed (nw s) = true /\ (q (nw s) <> [] -> dl (nw s) <= Z.max (armed_at (nw s)) (minp (q (nw s))))) /\
  lpc (od s) <> PFetch /\ pops (od s) = pops o0.
Proof.
  intros drain ri q0 tok0 o0 tr s H0 Hn Hr. split; [exact (restart_no_lost_wakeup drain ri q0 tok0 o0 tr s H0 Hn Hr)|exact (stale_loop_never_fetches drain ri q0 tok0 o0 tr s H0 Hn Hr)].
Qed.

(* ---- sensitivity: the loop without the ctx.Err() checks (before c87a9a8) ---- *)
Definition busy_old : st := set_lpc PDispatch (init [] false).   (* the old loop is inside a blocking job *)
Definition steal_trace : list label2 :=
  [New (LoopSize Ok); New (LoopTick Ok); New (ApiMutate [5; 1000]); New ApiToken;
   Old LoopDispatched; Old (LoopSize Ok); Old (LoopTick Ok); Old SelTok; Old (LoopSize Ok); Old (LoopTick Ok); Old SelDone;
   New (Adv 10)].

Example ex_nocheck_token_stolen : exists s,
  run2 (nocheck_cfg false false 100) (nocheck_cfg true false 100) (init2 [1000] false busy_old) steal_trace = Some s /\
  new_nofault steal_trace /\ parked (nw s) /\ q (nw s) = [5; 1000] /\ minp (q (nw s)) <= now (nw s) /\ dl (nw s) = 1000 /\
  step (nocheck_cfg false false 100) (nw s) TimerFire = None /\ lpc (od s) = PExit.
Proof. eexists. split; [vm_compute; reflexivity|]. split; [repeat constructor|]. repeat split. vm_compute. discriminate. Qed.

Example ex_nocheck_stale_loop_fetches : exists s,
  run2 (nocheck_cfg false false 100) (nocheck_cfg true false 100) (init2 [1000] false busy_old)
       [New (LoopSize Ok); New (LoopTick Ok); New (ApiMutate [5; 1000]); New ApiToken;
        Old LoopDispatched; Old (LoopSize Ok); Old (LoopTick Ok); Old SelTok; Old (LoopSize Ok); Old (LoopTick Ok);
        New (Adv 10); Old TimerFire; Old SelTick; Old (LoopFetch Ok true None Ok)] = Some s /\
  pops (od s) = [5] /\ q (nw s) = [1000].
Proof. eexists. split; [vm_compute; reflexivity|]. split; reflexivity. Qed.

(* the same interleaving with the current code: the old loop returns and leaves the token, the new loop fetches *)
Example ex_fixed_restart : exists s,
  run2 (code_cfg false 100) (stale_cfg false 100) (init2 [1000] false busy_old)
       [New (LoopSize Ok); New (LoopTick Ok); New (ApiMutate [5; 1000]); New ApiToken;
        Old LoopDispatched; Old (LoopSize Ok); Old (LoopTick Ok); Old SelTok;
        New SelTok; New (LoopSize Ok); New (LoopTick Ok); New (Adv 10); New TimerFire; New SelTick; New (LoopFetch Ok true (Some 2000) Ok)] = Some s /\
  lpc (od s) = PExit /\ pops (od s) = [] /\ lpc (nw s) = PDispatch /\ cur (nw s) = 5.
Proof. eexists. split; [vm_compute; reflexivity|]. repeat split. Qed.

Example ex_steal_trace_not_a_run_of_fixed :
  run2 (code_cfg false 100) (stale_cfg false 100) (init2 [1000] false busy_old) steal_trace = None.
Proof. vm_compute. reflexivity. Qed.
