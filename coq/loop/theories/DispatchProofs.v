(* Proofs about Dispatch.v (C12, and the goroutine side of C13). *)
From Coq Require Import ZArith List Bool Lia.
Require Import QzLoop.Gen.Params QzLoop.LoopModel QzLoop.Retry QzLoop.Dispatch.
Import ListNotations.
Open Scope Z_scope.
Open Scope list_scope.

(* ---- what Gen/Params.v says about the switch, the pool and recover ---- *)
Lemma dmode_spec : forall c, pick_mode exec_modes c =
  Some (if d_blocking c then DInline else if 0 <? d_limit c then DSendDispatch else DGoroutine).
Proof. intros [b l]. cbn. destruct b; [reflexivity|]. destruct (0 <? l); reflexivity. Qed.

Lemma pool_size_spec : forall c, pool_size c =
  if d_blocking c then O else if 0 <? d_limit c then Z.to_nat (d_limit c) else O.
Proof.
  intros [b l]. unfold pool_size, workers_guard_nonblocking_and_limit_pos, trip_count, workers_loop_init, workers_loop_cmp. cbn [d_blocking d_limit].
  destruct b; [reflexivity|]. cbn [negb andb]. destruct (0 <? l); [|reflexivity]. f_equal. lia.
Qed.

Lemma survives_all : forall o, survives o = true.
Proof. intros []; reflexivity. Qed.

Lemma wg_add_first : goroutine_wg_add_before_go = true.
Proof. reflexivity. Qed.

Lemma worker_ok : worker_runs_execute_with_retries && worker_selects_done_and_dispatch = true.
Proof. reflexivity. Qed.

(* ---- worker lists ---- *)
Lemma busy_le_length : forall ws, (busy ws <= length ws)%nat.
Proof. unfold busy. induction ws as [|w t IH]; cbn; [lia|]. destruct (is_busy w); cbn; lia. Qed.
Lemma length_upd : forall ws i v, length (upd i v ws) = length ws.
Proof. induction ws as [|w t IH]; intros [|i] v; cbn; auto. Qed.
Lemma busy_upd_take : forall ws i, nth i ws WDead = WIdle -> busy (upd i WBusy ws) = S (busy ws).
Proof.
  unfold busy. induction ws as [|w t IH]; intros [|i] H; cbn in *; try discriminate.
  - subst w. reflexivity.
  - specialize (IH i H). destruct (is_busy w); cbn; rewrite IH; reflexivity.
Qed.
Lemma busy_upd_end : forall ws i v, nth i ws WDead = WBusy -> is_busy v = false -> S (busy (upd i v ws)) = busy ws.
Proof.
  unfold busy. induction ws as [|w t IH]; intros [|i] v H Hv; cbn in *; try discriminate.
  - subst w. rewrite Hv. reflexivity.
  - specialize (IH i v H Hv). destruct (is_busy w); cbn; rewrite <- IH; reflexivity.
Qed.
Lemma nth_upd_same : forall ws i v, (i < length ws)%nat -> nth i (upd i v ws) WDead = v.
Proof. induction ws as [|w t IH]; intros [|i] v H; cbn in *; try lia; auto. apply IH. lia. Qed.
Lemma nth_busy_lt : forall ws i, nth i ws WDead = WBusy -> (i < length ws)%nat.
Proof. induction ws as [|w t IH]; intros [|i] H; cbn in *; try discriminate; try lia. specialize (IH i H). lia. Qed.
Lemma busy_repeat_idle : forall n, busy (repeat WIdle n) = O.
Proof. unfold busy. induction n; cbn; auto. Qed.

(* ---- the invariant ---- *)
Definition DI (c : dcfg) (s : dst) : Prop :=
  d_crashed s = false /\
  d_inflight s = ((match d_lpc s with LExec => 1 | _ => 0 end) + busy (d_workers s) + d_running s)%nat /\
  length (d_workers s) = pool_size c /\
  d_wg s = (1 + pool_size c + d_spawned s + d_running s)%nat /\
  d_lpc s <> LDead /\
  (d_blocking c = true -> d_spawned s = O /\ d_running s = O /\ d_lpc s <> LSending) /\
  (d_blocking c = false -> d_lpc s <> LExec) /\
  (d_blocking c = false -> 0 <? d_limit c = true -> d_spawned s = O /\ d_running s = O) /\
  (d_blocking c = false -> 0 <? d_limit c = false -> d_lpc s <> LSending).

Lemma di_init : forall c, DI c (dinit c).
Proof.
  intros c. unfold DI, dinit. cbn [d_crashed d_inflight d_lpc d_workers d_running d_wg d_spawned].
  rewrite busy_repeat_idle, repeat_length. repeat split; try lia; try discriminate.
Qed.

Ltac spec_all := repeat match goal with
  | H : ?a = ?a -> _ |- _ => specialize (H eq_refl)
  | H : true = false -> _ |- _ => clear H
  | H : false = true -> _ |- _ => clear H
  | H : _ /\ _ |- _ => destruct H end.
Ltac difin := unfold DI; cbn [d_crashed d_inflight d_lpc d_workers d_running d_wg d_spawned d_due];
  repeat split; intros; auto; try discriminate; try lia; try congruence.

Lemma di_step : forall c s l s', DI c s -> dstep c s l = Some s' -> DI c s'.
Proof.
  intros c s l s' (C0 & I1 & I2 & I3 & I4 & B1 & B2 & B3 & B4) Hs. unfold dstep in Hs. rewrite C0 in Hs.
  pose proof (dmode_spec c) as Hm.
  destruct (d_blocking c) eqn:Eb; destruct (0 <? d_limit c) eqn:El; spec_all; destruct l.
  all: try (injection Hs as <-; difin; fail).
  all: try (destruct (d_lpc s) eqn:Epc; try discriminate; destruct (d_due s); [discriminate|]; injection Hs as <-; difin; fail).
  all: try (destruct (d_lpc s) eqn:Epc; try discriminate; rewrite Hm in Hs; injection Hs as <-; rewrite ?wg_add_first; difin; fail).
  all: try (destruct (d_lpc s) eqn:Epc; try discriminate; destruct (nth i (d_workers s) WDead) eqn:En; try discriminate; rewrite worker_ok in Hs; injection Hs as <-;
            unfold DI; cbn [d_crashed d_inflight d_lpc d_workers d_running d_wg d_spawned d_due]; rewrite (busy_upd_take _ _ En), length_upd; difin; fail).
  all: try (destruct (nth i (d_workers s) WDead) eqn:En; try discriminate; rewrite survives_all in Hs; injection Hs as <-;
            unfold DI; cbn [d_crashed d_inflight d_lpc d_workers d_running d_wg d_spawned d_due]; rewrite length_upd;
            pose proof (busy_upd_end _ _ WIdle En eq_refl) as Hb; difin; fail).
  all: try (destruct (d_lpc s) eqn:Epc; try discriminate; rewrite survives_all in Hs; injection Hs as <-; difin; fail).
  all: try (destruct (d_spawned s) eqn:Esp; [discriminate|]; injection Hs as <-; rewrite ?wg_add_first; difin; fail).
  all: try (destruct (d_running s) eqn:Er; [discriminate|]; rewrite survives_all in Hs; injection Hs as <-; difin; fail).
Qed.

Lemma di_run : forall c tr s, drun c (dinit c) tr = Some s -> DI c s.
Proof.
  intros c tr. assert (G : forall s0, DI c s0 -> forall s, drun c s0 tr = Some s -> DI c s).
  { induction tr as [|l tr IH]; cbn [drun]; intros s0 H0 s Hr; [injection Hr as <-; exact H0|].
    destruct (dstep c s0 l) eqn:E; [|discriminate]. eapply IH; [eapply di_step; eauto|exact Hr]. }
  intros s. apply G, di_init.
Qed.

(* ================= C12 ================= *)
Lemma inflight_bounded : forall c tr s, drun c (dinit c) tr = Some s ->
  (d_blocking c = true -> (d_inflight s <= 1)%nat) /\
  (d_blocking c = false -> 0 < d_limit c -> Z.of_nat (d_inflight s) <= d_limit c).
Proof.
  intros c tr s Hr. destruct (di_run _ _ _ Hr) as (C0 & I1 & I2 & I3 & I4 & B1 & B2 & B3 & B4).
  pose proof (busy_le_length (d_workers s)) as Hb. rewrite I2, pool_size_spec in Hb. split.
  - intros E. rewrite E in Hb. destruct (B1 E) as (_ & Hr0 & _). rewrite I1, Hr0. destruct (d_lpc s); lia.
  - intros E Hl. rewrite E in Hb. assert (El : 0 <? d_limit c = true) by (apply Z.ltb_lt; exact Hl). rewrite El in Hb.
    destruct (B3 E El) as (_ & Hr0). rewrite I1, Hr0. specialize (B2 E). destruct (d_lpc s); try congruence; lia.
Qed.

(* the pool really has n independent takers *)
Lemma nth_app_repeat : forall i m, nth i (repeat WBusy i ++ repeat WIdle (S m)) WDead = WIdle.
Proof. induction i; intros m; [reflexivity|]. cbn [repeat app nth]. apply IHi. Qed.
Lemma upd_app_repeat : forall i m, upd i WBusy (repeat WBusy i ++ repeat WIdle (S m)) = repeat WBusy (S i) ++ repeat WIdle m.
Proof. induction i; intros m; [reflexivity|]. cbn [repeat app upd]. f_equal. apply IHi. Qed.

Lemma fill_from_run : forall c, pick_mode exec_modes c = Some DSendDispatch ->
  forall m i sp ru inf wg extra,
  drun c (mkdst LIdle (m + extra) (repeat WBusy i ++ repeat WIdle m) sp ru inf wg false) (fill_from i m) =
  Some (mkdst LIdle extra (repeat WBusy (i + m) ++ []) sp ru (m + inf) wg false).
Proof.
  intros c Hm. induction m as [|m IH]; intros i sp ru inf wg extra.
  - cbn [fill_from drun repeat]. rewrite Nat.add_0_r. reflexivity.
  - cbn [fill_from drun]. unfold dstep at 1. cbn [d_crashed d_lpc d_due Nat.add].
    cbn [d_workers d_spawned d_running d_inflight d_wg].
    unfold dstep at 1. cbn [d_crashed d_lpc]. rewrite Hm. cbn [d_due d_workers d_spawned d_running d_inflight d_wg].
    unfold dstep at 1. cbn [d_crashed d_lpc d_workers]. rewrite nth_app_repeat, worker_ok. cbn [d_due d_spawned d_running d_inflight d_wg].
    rewrite upd_app_repeat. rewrite (IH (S i) sp ru (S inf) wg extra).
    replace (S i + m)%nat with (i + S m)%nat by lia. replace (m + S inf)%nat with (S (m + inf)) by lia. reflexivity.
Qed.

Lemma n_parallel_reachable : forall n, (0 < n)%nat ->
  let c := mkd false (Z.of_nat n) in
  exists s, drun c (dinit c) (fill_pool n) = Some s /\ d_inflight s = n /\ d_due s = O /\ busy (d_workers s) = n.
Proof.
  intros n Hn c. assert (Hm : pick_mode exec_modes c = Some DSendDispatch).
  { rewrite dmode_spec. cbn [d_blocking d_limit c]. assert (0 <? Z.of_nat n = true) as -> by (apply Z.ltb_lt; lia). reflexivity. }
  assert (Hp : pool_size c = n).
  { rewrite pool_size_spec. cbn [d_blocking d_limit c]. assert (0 <? Z.of_nat n = true) as -> by (apply Z.ltb_lt; lia). apply Nat2Z.id. }
  unfold fill_pool, dinit. rewrite Hp. cbn [drun]. unfold dstep at 1. cbn [d_crashed d_lpc d_due d_workers d_spawned d_running d_inflight d_wg].
  replace (0 + n)%nat with (n + 0)%nat by lia.
  change (repeat WIdle n) with (repeat WBusy 0 ++ repeat WIdle n).
  rewrite (fill_from_run c Hm n O O O O (S n) O). eexists. split; [reflexivity|]. cbn [d_inflight d_due d_workers].
  repeat split; try lia. rewrite app_nil_r. unfold busy. cbn [Nat.add]. clear. induction n; cbn; auto.
Qed.

(* p executions that panic, in whichever workers, leave the pool as it was: n can still run in parallel *)
Lemma drun_app : forall c a b s, drun c s (a ++ b) = match drun c s a with Some s' => drun c s' b | None => None end.
Proof. intros c a. induction a as [|l a IH]; intros b s; cbn [app drun]; [reflexivity|]. destruct (dstep c s l); [apply IH|reflexivity]. Qed.
Lemma nth_repeat_idle : forall n i, (i < n)%nat -> nth i (repeat WIdle n) WDead = WIdle.
Proof. induction n as [|n IH]; intros [|i] H; cbn; try lia; [reflexivity|]. apply IH. lia. Qed.
Lemma upd_back_idle : forall n i, upd i WIdle (upd i WBusy (repeat WIdle n)) = repeat WIdle n.
Proof. induction n as [|n IH]; intros [|i]; cbn; try reflexivity. f_equal. apply IH. Qed.

Lemma panic_round_idle : forall c i, pick_mode exec_modes c = Some DSendDispatch -> (i < pool_size c)%nat ->
  drun c (dinit c) (panic_round i) = Some (dinit c).
Proof.
  intros c i Hm Hi. unfold panic_round, dinit. cbn [drun].
  unfold dstep at 1. cbn [d_crashed d_lpc d_due d_workers d_spawned d_running d_inflight d_wg Nat.add].
  unfold dstep at 1. cbn [d_crashed d_lpc d_due d_workers d_spawned d_running d_inflight d_wg].
  unfold dstep at 1. cbn [d_crashed d_lpc]. rewrite Hm. cbn [d_due d_workers d_spawned d_running d_inflight d_wg].
  unfold dstep at 1. cbn [d_crashed d_lpc d_workers]. rewrite (nth_repeat_idle _ _ Hi), worker_ok.
  cbn [d_due d_spawned d_running d_inflight d_wg].
  unfold dstep at 1. cbn [d_crashed d_workers]. rewrite nth_upd_same by (rewrite repeat_length; exact Hi).
  rewrite survives_all. cbn [d_lpc d_due d_workers d_spawned d_running d_inflight d_wg Nat.pred].
  rewrite upd_back_idle. reflexivity.
Qed.

Lemma n_parallel_after_panics : forall n ws, (0 < n)%nat -> Forall (fun i => (i < n)%nat) ws ->
  let c := mkd false (Z.of_nat n) in
  exists s, drun c (dinit c) (panic_rounds ws ++ fill_pool n) = Some s /\ d_inflight s = n /\ d_due s = O /\
            busy (d_workers s) = n /\ d_lpc s = LIdle /\ d_crashed s = false.
Proof.
  intros n ws Hn Hws c. assert (Hm : pick_mode exec_modes c = Some DSendDispatch).
  { rewrite dmode_spec. cbn [d_blocking d_limit c]. assert (0 <? Z.of_nat n = true) as -> by (apply Z.ltb_lt; lia). reflexivity. }
  assert (Hp : pool_size c = n).
  { rewrite pool_size_spec. cbn [d_blocking d_limit c]. assert (0 <? Z.of_nat n = true) as -> by (apply Z.ltb_lt; lia). apply Nat2Z.id. }
  assert (G : drun c (dinit c) (panic_rounds ws) = Some (dinit c)).
  { induction Hws as [|i t Hi Ht IH]; [reflexivity|]. cbn [panic_rounds]. rewrite drun_app, panic_round_idle; [exact IH|exact Hm|rewrite Hp; exact Hi]. }
  rewrite drun_app, G.
  unfold fill_pool, dinit. rewrite Hp. cbn [drun]. unfold dstep at 1. cbn [d_crashed d_lpc d_due d_workers d_spawned d_running d_inflight d_wg].
  replace (0 + n)%nat with (n + 0)%nat by lia.
  change (repeat WIdle n) with (repeat WBusy 0 ++ repeat WIdle n).
  rewrite (fill_from_run c Hm n O O O O (S n) O). eexists. split; [reflexivity|]. cbn [d_inflight d_due d_workers d_lpc d_crashed].
  repeat split; try lia. rewrite app_nil_r. unfold busy. cbn [Nat.add]. clear. induction n; cbn; auto.
Qed.

(* unbounded mode *)
Definition unbounded (c : dcfg) : Prop := d_blocking c = false /\ (0 <? d_limit c) = false.

Lemma loop_guards_ignore_inflight : forall c s s' l, loop_dlabel l = true ->
  d_lpc s = d_lpc s' -> d_due s = d_due s' -> d_crashed s = d_crashed s' ->
  (dstep c s l = None <-> dstep c s' l = None).
Proof.
  intros c s s' l Hl E1 E2 E3. destruct l; try discriminate; unfold dstep; rewrite <- E1, <- E2, <- E3;
    destruct (d_crashed s); try tauto; destruct (d_lpc s); try tauto.
  - destruct (d_due s); split; intros; discriminate || reflexivity.
  - destruct (pick_mode exec_modes c) as [[]|]; split; intros; discriminate.
Qed.

Lemma unbounded_loop_never_blocked : forall c tr s, unbounded c -> drun c (dinit c) tr = Some s ->
  d_lpc s = LIdle \/ d_lpc s = LHolding.
Proof.
  intros c tr s [U1 U2] Hr. destruct (di_run _ _ _ Hr) as (C0 & I1 & I2 & I3 & I4 & B1 & B2 & B3 & B4).
  specialize (B2 U1). specialize (B4 U1 U2). destruct (d_lpc s); auto; congruence.
Qed.

Lemma unbounded_due_reaches_exec : forall c tr s, unbounded c -> drun c (dinit c) tr = Some s ->
  (d_lpc s = LIdle -> (0 < d_due s)%nat ->
     exists s1 s2 s3, dstep c s DFetch = Some s1 /\ dstep c s1 DDispatch = Some s2 /\ dstep c s2 GoStart = Some s3 /\
       d_lpc s2 = LIdle /\ d_inflight s3 = S (d_inflight s) /\ d_wg s3 = S (d_wg s)) /\
  (d_lpc s = LHolding ->
     exists s2 s3, dstep c s DDispatch = Some s2 /\ dstep c s2 GoStart = Some s3 /\
       d_lpc s2 = LIdle /\ d_inflight s3 = S (d_inflight s) /\ d_wg s3 = S (d_wg s)).
Proof.
  intros c tr s [U1 U2] Hr. destruct (di_run _ _ _ Hr) as (C0 & _).
  assert (Hm : pick_mode exec_modes c = Some DGoroutine) by (rewrite dmode_spec, U1, U2; reflexivity).
  split.
  - intros Hpc Hdue. destruct (d_due s) eqn:Ed; [lia|]. unfold dstep at 1. rewrite C0, Hpc, Ed.
    eexists. eexists. eexists. split; [reflexivity|]. unfold dstep at 1. cbn [d_crashed d_lpc]. rewrite Hm.
    split; [reflexivity|]. unfold dstep at 1. cbn [d_crashed d_spawned]. split; [reflexivity|]. rewrite wg_add_first. cbn. auto.
  - intros Hpc. unfold dstep at 1. rewrite C0, Hpc, Hm. eexists. eexists. split; [reflexivity|].
    unfold dstep at 1. cbn [d_crashed d_spawned]. split; [reflexivity|]. rewrite wg_add_first. cbn. auto.
Qed.

(* ================= C13, goroutine side ================= *)
(* a panicking execution ends exactly like a returning one: the loop, worker i or the job goroutine goes on *)
Lemma panic_same_as_return : forall c s i,
  dstep c s (WorkerEnd i APanic) = dstep c s (WorkerEnd i AOk) /\
  dstep c s (LoopExecEnd APanic) = dstep c s (LoopExecEnd AOk) /\
  dstep c s (GoEnd APanic) = dstep c s (GoEnd AOk).
Proof. intros c s i. unfold dstep. rewrite !survives_all. auto. Qed.

Lemma exec_end_effect : forall c s o s',
  (forall i, dstep c s (WorkerEnd i o) = Some s' ->
     nth i (d_workers s') WDead = WIdle /\ d_lpc s' = d_lpc s /\ d_due s' = d_due s /\ d_wg s' = d_wg s /\
     d_crashed s' = false /\ S (d_inflight s') = d_inflight s \/ d_inflight s = O) /\
  (dstep c s (LoopExecEnd o) = Some s' ->
     d_lpc s' = LIdle /\ d_workers s' = d_workers s /\ d_due s' = d_due s /\ d_wg s' = d_wg s /\ d_crashed s' = false) /\
  (dstep c s (GoEnd o) = Some s' ->
     d_lpc s' = d_lpc s /\ d_workers s' = d_workers s /\ d_due s' = d_due s /\ d_wg s' = pred (d_wg s) /\
     S (d_running s') = d_running s /\ d_crashed s' = false).
Proof.
  intros c s o s'. unfold dstep. rewrite !survives_all. destruct (d_crashed s); [repeat split; intros; discriminate|].
  split; [|split].
  - intros i H. destruct (nth i (d_workers s) WDead) eqn:En; try discriminate. injection H as <-. cbn.
    rewrite (nth_upd_same _ _ _ (nth_busy_lt _ _ En)). destruct (d_inflight s); [right; reflexivity|left; auto 10].
  - intros H. destruct (d_lpc s); try discriminate. injection H as <-. cbn. auto.
  - intros H. destruct (d_running s); try discriminate. injection H as <-. cbn. auto 10.
Qed.

(* after a panic the same worker can take the next job *)
Lemma worker_reusable_after_panic : forall c s i s1,
  dstep c s (WorkerEnd i APanic) = Some s1 -> d_lpc s1 = LSending ->
  exists s2, dstep c s1 (WorkerTake i) = Some s2 /\ nth i (d_workers s2) WDead = WBusy.
Proof.
  intros c s i s1 H Hpc. destruct (exec_end_effect c s APanic s1) as (E & _). 
  unfold dstep in H. destruct (d_crashed s) eqn:C0; [discriminate|]. destruct (nth i (d_workers s) WDead) eqn:En; try discriminate.
  rewrite survives_all in H. injection H as <-. cbn in *. unfold dstep. cbn [d_crashed d_lpc d_workers]. rewrite Hpc.
  pose proof (nth_busy_lt _ _ En) as Hlt. rewrite (nth_upd_same _ _ _ Hlt). eexists. split; [reflexivity|]. cbn [d_workers].
  apply nth_upd_same. rewrite length_upd. exact Hlt.
Qed.

(* examples *)
Example ex_pool_of_three : exists s,
  drun (mkd false 3) (dinit (mkd false 3)) (fill_pool 3) = Some s /\ d_inflight s = 3%nat /\ d_lpc s = LIdle.
Proof. eexists. split; [vm_compute; reflexivity|]. split; reflexivity. Qed.

Example ex_pool_full_blocks_loop : exists s,
  drun (mkd false 2) (dinit (mkd false 2)) (MakeDue 3 :: fill_from 0 2 ++ [DFetch; DDispatch]) = Some s /\
  d_lpc s = LSending /\ d_inflight s = 2%nat /\ dstep (mkd false 2) s (WorkerTake 0) = None /\ dstep (mkd false 2) s (WorkerTake 1) = None.
Proof. eexists. split; [vm_compute; reflexivity|]. repeat split. Qed.

Example ex_unbounded_long_job_does_not_block : exists s,
  drun (mkd false 0) (dinit (mkd false 0)) [MakeDue 1; DFetch; DDispatch; GoStart; MakeDue 2; DFetch; DDispatch; GoStart; DFetch; DDispatch; GoStart] = Some s /\
  d_inflight s = 3%nat /\ d_lpc s = LIdle /\ d_wg s = 4%nat.
Proof. eexists. split; [vm_compute; reflexivity|]. repeat split. Qed.

Example ex_blocking_one_at_a_time : exists s,
  drun (mkd true 5) (dinit (mkd true 5)) [MakeDue 2; DFetch; DDispatch] = Some s /\ d_lpc s = LExec /\ d_inflight s = 1%nat /\
  dstep (mkd true 5) s DFetch = None /\ d_workers s = [].
Proof. eexists. split; [vm_compute; reflexivity|]. repeat split. Qed.

Example ex_panic_in_worker_then_next_job : exists s,
  drun (mkd false 1) (dinit (mkd false 1))
       [MakeDue 2; DFetch; DDispatch; WorkerTake 0; WorkerEnd 0 APanic; DFetch; DDispatch; WorkerTake 0; WorkerEnd 0 AOk] = Some s /\
  d_inflight s = 0%nat /\ d_wg s = 2%nat /\ d_crashed s = false /\ d_due s = 0%nat.
Proof. eexists. split; [vm_compute; reflexivity|]. repeat split. Qed.
