(* Model of the execution loop of StdScheduler (quartz/scheduler.go): startExecutionLoop,
   calculateNextTick, the fetch step of executeAndReschedule (classification abstract), Reset and the
   API calls seen from the loop (queue mutation, then token).  Definitions only.

   A labelled transition system: one label per atomic action of a goroutine.  The loop reads Size()
   and Head() WITHOUT the queue locker, so an API call is two labels (ApiMutate, ApiToken) and the
   loop may run between them.  Every queue call of the loop carries a fault-oracle outcome
   (Ok | Fail | Delay dt); the fault-free system is the sub-system whose labels carry Ok only. *)
From Coq Require Import ZArith List Bool Lia.
Require Import QzLoop.Gen.Params.
Import ListNotations.
Open Scope Z_scope.

Inductive outcome := Ok | Fail | Delay (dt : Z).
Definition failed (o : outcome) : bool := match o with Fail => true | _ => false end.
Definition delay_of (o : outcome) : Z := match o with Delay dt => Z.max 0 dt | _ => 0 end.

(* where the loop goroutine is *)
Inductive pc :=
| PSize      (* about to call queue.Size() at the top of the for body *)
| PTick      (* default arm: about to call calculateNextTick (queue.Head()) and timer.Reset *)
| PSelect    (* blocked in select on timer.C / interrupt (ctx.Done: see Lifecycle.v) *)
| PFetch     (* took the tick: about to run fetchAndReschedule *)
| PDispatch  (* holds a valid job: executing it (blocking), handing it to a worker, or forking *)
| PExit.     (* returned (its context was cancelled) *)

Record st := mkst {
  q : list Z;            (* priorities (next run times) of the stored entries; paused = math.MaxInt64 *)
  tok : bool;            (* the capacity-1 interrupt channel holds a token *)
  armed : bool; dl : Z;  (* runtime timer armed, its deadline *)
  armed_at : Z;          (* ghost: when it was last reset *)
  chan : bool;           (* timer.C holds a tick *)
  now : Z;
  lpc : pc;
  pend : nat;            (* API calls between their queue mutation and their Reset() *)
  ff : bool;             (* the local fetchFailed *)
  cur : Z;               (* fire time of the job being dispatched *)
  (* ghost fields, read by no guard *)
  stale : bool;          (* the tick in timer.C predates the last timer.Reset (pre-1.23 channels only) *)
  clean : bool;          (* the last timer.Reset used a duration computed from a successful queue read *)
  narm : nat;            (* number of timer.Reset calls so far *)
  lf_size : option Z; lf_head : option Z; lf_pop : option Z;
                         (* time of the last failing Size/Head/Pop with no token or stale tick consumed since *)
  pops : list Z;         (* fire times popped as valid, newest first *)
  disps : list Z         (* fire times whose dispatch completed, newest first *)
}.

Definition set_q (v : list Z) (s : st) : st := {| q := v; tok := tok s; armed := armed s; dl := dl s; armed_at := armed_at s; chan := chan s; now := now s; lpc := lpc s; pend := pend s; ff := ff s; cur := cur s; stale := stale s; clean := clean s; narm := narm s; lf_size := lf_size s; lf_head := lf_head s; lf_pop := lf_pop s; pops := pops s; disps := disps s |}.
Definition set_tok (v : bool) (s : st) : st := {| q := q s; tok := v; armed := armed s; dl := dl s; armed_at := armed_at s; chan := chan s; now := now s; lpc := lpc s; pend := pend s; ff := ff s; cur := cur s; stale := stale s; clean := clean s; narm := narm s; lf_size := lf_size s; lf_head := lf_head s; lf_pop := lf_pop s; pops := pops s; disps := disps s |}.
Definition set_armed (v : bool) (s : st) : st := {| q := q s; tok := tok s; armed := v; dl := dl s; armed_at := armed_at s; chan := chan s; now := now s; lpc := lpc s; pend := pend s; ff := ff s; cur := cur s; stale := stale s; clean := clean s; narm := narm s; lf_size := lf_size s; lf_head := lf_head s; lf_pop := lf_pop s; pops := pops s; disps := disps s |}.
Definition set_dl (v : Z) (s : st) : st := {| q := q s; tok := tok s; armed := armed s; dl := v; armed_at := armed_at s; chan := chan s; now := now s; lpc := lpc s; pend := pend s; ff := ff s; cur := cur s; stale := stale s; clean := clean s; narm := narm s; lf_size := lf_size s; lf_head := lf_head s; lf_pop := lf_pop s; pops := pops s; disps := disps s |}.
Definition set_armed_at (v : Z) (s : st) : st := {| q := q s; tok := tok s; armed := armed s; dl := dl s; armed_at := v; chan := chan s; now := now s; lpc := lpc s; pend := pend s; ff := ff s; cur := cur s; stale := stale s; clean := clean s; narm := narm s; lf_size := lf_size s; lf_head := lf_head s; lf_pop := lf_pop s; pops := pops s; disps := disps s |}.
Definition set_chan (v : bool) (s : st) : st := {| q := q s; tok := tok s; armed := armed s; dl := dl s; armed_at := armed_at s; chan := v; now := now s; lpc := lpc s; pend := pend s; ff := ff s; cur := cur s; stale := stale s; clean := clean s; narm := narm s; lf_size := lf_size s; lf_head := lf_head s; lf_pop := lf_pop s; pops := pops s; disps := disps s |}.
Definition set_now (v : Z) (s : st) : st := {| q := q s; tok := tok s; armed := armed s; dl := dl s; armed_at := armed_at s; chan := chan s; now := v; lpc := lpc s; pend := pend s; ff := ff s; cur := cur s; stale := stale s; clean := clean s; narm := narm s; lf_size := lf_size s; lf_head := lf_head s; lf_pop := lf_pop s; pops := pops s; disps := disps s |}.
Definition set_lpc (v : pc) (s : st) : st := {| q := q s; tok := tok s; armed := armed s; dl := dl s; armed_at := armed_at s; chan := chan s; now := now s; lpc := v; pend := pend s; ff := ff s; cur := cur s; stale := stale s; clean := clean s; narm := narm s; lf_size := lf_size s; lf_head := lf_head s; lf_pop := lf_pop s; pops := pops s; disps := disps s |}.
Definition set_pend (v : nat) (s : st) : st := {| q := q s; tok := tok s; armed := armed s; dl := dl s; armed_at := armed_at s; chan := chan s; now := now s; lpc := lpc s; pend := v; ff := ff s; cur := cur s; stale := stale s; clean := clean s; narm := narm s; lf_size := lf_size s; lf_head := lf_head s; lf_pop := lf_pop s; pops := pops s; disps := disps s |}.
Definition set_ff (v : bool) (s : st) : st := {| q := q s; tok := tok s; armed := armed s; dl := dl s; armed_at := armed_at s; chan := chan s; now := now s; lpc := lpc s; pend := pend s; ff := v; cur := cur s; stale := stale s; clean := clean s; narm := narm s; lf_size := lf_size s; lf_head := lf_head s; lf_pop := lf_pop s; pops := pops s; disps := disps s |}.
Definition set_cur (v : Z) (s : st) : st := {| q := q s; tok := tok s; armed := armed s; dl := dl s; armed_at := armed_at s; chan := chan s; now := now s; lpc := lpc s; pend := pend s; ff := ff s; cur := v; stale := stale s; clean := clean s; narm := narm s; lf_size := lf_size s; lf_head := lf_head s; lf_pop := lf_pop s; pops := pops s; disps := disps s |}.
Definition set_stale (v : bool) (s : st) : st := {| q := q s; tok := tok s; armed := armed s; dl := dl s; armed_at := armed_at s; chan := chan s; now := now s; lpc := lpc s; pend := pend s; ff := ff s; cur := cur s; stale := v; clean := clean s; narm := narm s; lf_size := lf_size s; lf_head := lf_head s; lf_pop := lf_pop s; pops := pops s; disps := disps s |}.
Definition set_clean (v : bool) (s : st) : st := {| q := q s; tok := tok s; armed := armed s; dl := dl s; armed_at := armed_at s; chan := chan s; now := now s; lpc := lpc s; pend := pend s; ff := ff s; cur := cur s; stale := stale s; clean := v; narm := narm s; lf_size := lf_size s; lf_head := lf_head s; lf_pop := lf_pop s; pops := pops s; disps := disps s |}.
Definition set_narm (v : nat) (s : st) : st := {| q := q s; tok := tok s; armed := armed s; dl := dl s; armed_at := armed_at s; chan := chan s; now := now s; lpc := lpc s; pend := pend s; ff := ff s; cur := cur s; stale := stale s; clean := clean s; narm := v; lf_size := lf_size s; lf_head := lf_head s; lf_pop := lf_pop s; pops := pops s; disps := disps s |}.
Definition set_lf_size (v : option Z) (s : st) : st := {| q := q s; tok := tok s; armed := armed s; dl := dl s; armed_at := armed_at s; chan := chan s; now := now s; lpc := lpc s; pend := pend s; ff := ff s; cur := cur s; stale := stale s; clean := clean s; narm := narm s; lf_size := v; lf_head := lf_head s; lf_pop := lf_pop s; pops := pops s; disps := disps s |}.
Definition set_lf_head (v : option Z) (s : st) : st := {| q := q s; tok := tok s; armed := armed s; dl := dl s; armed_at := armed_at s; chan := chan s; now := now s; lpc := lpc s; pend := pend s; ff := ff s; cur := cur s; stale := stale s; clean := clean s; narm := narm s; lf_size := lf_size s; lf_head := v; lf_pop := lf_pop s; pops := pops s; disps := disps s |}.
Definition set_lf_pop (v : option Z) (s : st) : st := {| q := q s; tok := tok s; armed := armed s; dl := dl s; armed_at := armed_at s; chan := chan s; now := now s; lpc := lpc s; pend := pend s; ff := ff s; cur := cur s; stale := stale s; clean := clean s; narm := narm s; lf_size := lf_size s; lf_head := lf_head s; lf_pop := v; pops := pops s; disps := disps s |}.
Definition set_pops (v : list Z) (s : st) : st := {| q := q s; tok := tok s; armed := armed s; dl := dl s; armed_at := armed_at s; chan := chan s; now := now s; lpc := lpc s; pend := pend s; ff := ff s; cur := cur s; stale := stale s; clean := clean s; narm := narm s; lf_size := lf_size s; lf_head := lf_head s; lf_pop := lf_pop s; pops := v; disps := disps s |}.
Definition set_disps (v : list Z) (s : st) : st := {| q := q s; tok := tok s; armed := armed s; dl := dl s; armed_at := armed_at s; chan := chan s; now := now s; lpc := lpc s; pend := pend s; ff := ff s; cur := cur s; stale := stale s; clean := clean s; narm := narm s; lf_size := lf_size s; lf_head := lf_head s; lf_pop := lf_pop s; pops := pops s; disps := v |}.

(* What the model takes from the source (instantiated from Gen/Params.v by code_cfg). *)
Record cfg := mkcfg {
  c_sw : list (arm_guard * arm_timer);  (* the switch after Size() *)
  c_drain : bool;      (* true: Go >= 1.23 timer channels (Stop/Reset discard a pending tick) *)
  c_ri : Z;            (* opts.RetryInterval *)
  c_cap : Z;           (* capacity of the interrupt channel *)
  c_tick_empty : arm_timer; c_tick_err : arm_timer; c_tick_cmp : cmp_op;   (* calculateNextTick *)
  c_clears_ff : bool;  (* fetchFailed = false before the select *)
  c_sets_ff : bool;    (* fetchFailed = !executeAndReschedule(ctx) *)
  c_tick_fetches : bool;   (* the timer arm calls executeAndReschedule *)
  c_tok_recomputes : bool; (* the interrupt arm falls through to the next iteration *)
  c_fetch_resets : bool;   (* fetchAndReschedule calls Reset() after a successful push-back *)
  c_ctxdone : bool;        (* THIS loop's context is cancelled (a loop of a stopped run that has not returned yet) *)
  c_tick_checks_ctx : bool;   (* the timer arm returns without fetching when ctx.Err() != nil *)
  c_tok_checks_ctx : bool;    (* the interrupt arm returns when ctx.Err() != nil ... *)
  c_tok_gives_back : bool;    (* ... after calling Reset(), i.e. giving the token back *)
  c_reset_nb : bool           (* Reset() is `select { case interrupt <- struct{}{}: default: }` *)
}.

Definition code_cfg (drain : bool) (ri : Z) : cfg :=
  mkcfg loop_switch drain ri interrupt_cap tick_head_empty tick_head_error tick_cmp
        loop_clears_fetch_failed
        (select_tick_sets_fetch_failed && exec_returns_false_on_fetch_error && fetch_pop_error_returns_error)
        select_tick_fetches
        select_interrupt_recomputes fetch_resets_after_push
        false select_tick_checks_ctx select_interrupt_checks_ctx select_interrupt_gives_token_back reset_nonblocking.

(* the loop of a run that has been stopped: same code, its context is cancelled *)
Definition stale_cfg (drain : bool) (ri : Z) : cfg :=
  mkcfg loop_switch drain ri interrupt_cap tick_head_empty tick_head_error tick_cmp
        loop_clears_fetch_failed
        (select_tick_sets_fetch_failed && exec_returns_false_on_fetch_error && fetch_pop_error_returns_error)
        select_tick_fetches
        select_interrupt_recomputes fetch_resets_after_push
        true select_tick_checks_ctx select_interrupt_checks_ctx select_interrupt_gives_token_back reset_nonblocking.

Definition cmp (op : cmp_op) (a b : Z) : bool :=
  match op with OpGe => b <=? a | OpGt => b <? a | OpLe => a <=? b | OpLt => a <? b
              | OpEq => a =? b | OpNe => negb (a =? b) end.

Definition minp (l : list Z) : Z := fold_right Z.min (hd 0 l) l.
Fixpoint remove_one (x : Z) (l : list Z) : list Z :=
  match l with [] => [] | y :: t => if x =? y then t else y :: remove_one x t end.
Definition is_nil (l : list Z) : bool := match l with [] => true | _ => false end.
Definition subset (a b : list Z) : bool := forallb (fun x => existsb (Z.eqb x) b) a.

Definition guard_holds (g : arm_guard) (size_err fetch_failed empty : bool) : bool :=
  match g with GSizeErr => size_err | GFetchFailed => fetch_failed
             | GSizeZero => size_err || empty   (* Size() returns 0 together with an error *)
             | GDefault => true end.
Fixpoint select_arm (sw : list (arm_guard * arm_timer)) (e f z : bool) : option arm_timer :=
  match sw with [] => None
  | (g, t) :: r => if guard_holds g e f z then Some t else select_arm r e f z end.

Section WithCfg.
Variable c : cfg.

Definition dur (t : arm_timer) : Z :=
  match t with TRetryInterval => c_ri c | TMaxDuration => max_timer_duration | _ => 0 end.

Definition adv (dt : Z) (s : st) : st := set_now (now s + dt) s.

(* timer.Reset(d), then `fetchFailed = false`, then the select *)
Definition arm (d : Z) (cl : bool) (s : st) : st :=
  let ch := if c_drain c then false else chan s in
  set_lpc PSelect (set_ff (if c_clears_ff c then false else ff s)
    (set_narm (S (narm s)) (set_clean cl (set_stale ch (set_chan ch
      (set_armed true (set_dl (now s + d) (set_armed_at (now s) s)))))))).

Definition clear_lf (s : st) : st := set_lf_size None (set_lf_head None (set_lf_pop None s)).

(* case <-sched.interrupt: timer.Stop() *)
Definition take_token (s : st) : st :=
  let ch := if c_drain c then false else chan s in
  clear_lf (set_lpc (if c_tok_recomputes c then PSize else PSelect)
    (set_tok false (set_armed false (set_chan ch (set_stale (if c_drain c then false else stale s) s))))).

(* Reset(): non-blocking send on the interrupt channel *)
Definition send_tok (s : st) : st :=
  if negb (c_reset_nb c) then s   (* a blocking send (made under the queue locker) is not a behaviour of this model: no token *)
  else if 1 <=? c_cap c then set_tok true s
  else match lpc s with PSelect => take_token s | _ => s end.   (* unbuffered: only a waiting receiver gets it *)

Inductive label :=
| Adv (dt : Z)                (* the clock advances *)
| TimerFire                   (* the runtime delivers the tick *)
| LoopSize (o : outcome)      (* Size() and the switch *)
| LoopTick (o : outcome)      (* calculateNextTick (Head(), NowNano()) and timer.Reset *)
| SelTick | SelTok            (* the timer arm and the interrupt arm of the select *)
| SelDone                     (* the ctx.Done arm (only a loop whose context is cancelled) *)
| LoopFetch (po : outcome) (valid : bool) (resched : option Z) (pusho : outcome)
                              (* fetchAndReschedule: Pop, classify (abstract), optional Push, Reset *)
| LoopDispatched              (* executeAndReschedule returned *)
| ApiMutate (q' : list Z)     (* an API body changed the queue successfully (any change) *)
| ApiToken                    (* ... and then called Reset() *)
| ApiLose (q' : list Z).      (* entries vanish without a token (an API call whose Push failed after its
                                 Remove; a shared queue losing entries): q' has no new priority *)

Definition loop_label (l : label) : bool :=
  match l with LoopSize _ | LoopTick _ | SelTick | SelTok | SelDone | LoopFetch _ _ _ _ | LoopDispatched => true
             | _ => false end.
Definition label_faults (l : label) : bool :=
  match l with
  | LoopSize o | LoopTick o => match o with Ok => false | _ => true end
  | LoopFetch po _ _ pusho => match po, pusho with Ok, Ok => false | _, _ => true end
  | _ => false end.

Definition step (s : st) (l : label) : option st :=
  match l with
  | Adv dt => if 0 <=? dt then Some (adv dt s) else None
  | TimerFire => if armed s && (dl s <=? now s) then Some (set_armed false (set_chan true s)) else None
  | LoopSize o =>
      match lpc s with
      | PSize =>
          let s1 := adv (delay_of o) s in
          let s2 := if failed o then set_lf_size (Some (now s1)) s1 else s1 in
          match select_arm (c_sw c) (failed o) (ff s) (is_nil (q s)) with
          | Some TNextTick => Some (set_lpc PTick s2)
          | Some TMaxDuration => Some (arm max_timer_duration (negb (failed o) && is_nil (q s)) s2)
          | Some t => Some (arm (dur t) false s2)
          | None => Some (set_lpc PSelect (set_ff (if c_clears_ff c then false else ff s) s2))
          end
      | _ => None end
  | LoopTick o =>
      match lpc s with
      | PTick =>
          let s1 := adv (delay_of o) s in
          if failed o then Some (arm (dur (c_tick_err c)) false (set_lf_head (Some (now s1)) s1))
          else match q s with
               | [] => Some (arm (dur (c_tick_empty c)) true s1)
               | _ => Some (arm (if cmp (c_tick_cmp c) (minp (q s)) (now s1) then minp (q s) - now s1 else 0) true s1)
               end
      | _ => None end
  | SelTick =>
      match lpc s with
      | PSelect => if chan s
                   then let s1 := if stale s then clear_lf s else s in
                        if c_ctxdone c && c_tick_checks_ctx c
                        then Some (set_lpc PExit (set_chan false (set_stale false s1)))     (* stopped run: no fetch *)
                        else Some (set_lpc (if c_tick_fetches c then PFetch else PSize) (set_chan false (set_stale false s1)))
                   else None
      | _ => None end
  | SelTok =>
      match lpc s with
      | PSelect => if tok s
                   then if c_ctxdone c && c_tok_checks_ctx c
                        then Some (set_lpc PExit ((if c_tok_gives_back c then send_tok else fun x => x) (take_token s)))
                        else Some (take_token s)
                   else None
      | _ => None end
  | SelDone => match lpc s with PSelect => if c_ctxdone c then Some (set_lpc PExit (set_armed false s)) else None | _ => None end
  | LoopFetch po valid resched pusho =>
      match lpc s with
      | PFetch =>
          let s1 := adv (delay_of po) s in
          if failed po then Some (set_lpc PSize (set_ff (c_sets_ff c) (set_lf_pop (Some (now s1)) s1)))
          else match q s with
               | [] => Some (set_lpc PSize (set_ff false s1))          (* ErrQueueEmpty: nothing fetched, no error *)
               | _ =>
                   let p := minp (q s) in
                   let rest := remove_one p (q s) in
                   let s2 := match resched with
                             | None => set_q rest s1
                             | Some p' => let s1' := adv (delay_of pusho) s1 in
                                          if failed pusho then set_q rest s1'
                                          else (if c_fetch_resets c then send_tok else fun x => x) (set_q (p' :: rest) s1')
                             end in
                   let s3 := set_ff false s2 in
                   Some (if valid then set_lpc PDispatch (set_cur p (set_pops (p :: pops s) s3)) else set_lpc PSize s3)
               end
      | _ => None end
  | LoopDispatched =>
      match lpc s with PDispatch => Some (set_lpc PSize (set_disps (cur s :: disps s) s)) | _ => None end
  | ApiMutate q' => Some (set_q q' (set_pend (S (pend s)) s))
  | ApiToken => match pend s with O => None | S n => Some (send_tok (set_pend n s)) end
  | ApiLose q' => if subset q' (q s) then Some (set_q q' s) else None
  end.

Fixpoint run (s : st) (tr : list label) : option st :=
  match tr with [] => Some s | l :: tr' => match step s l with Some s' => run s' tr' | None => None end end.

End WithCfg.

(* The state just after Start: any stored jobs, possibly a token left by an earlier run, the loop about
   to call Size() with its new timer (time.NewTimer(maxTimerDuration)). *)
Definition init (q0 : list Z) (tok0 : bool) : st :=
  mkst q0 tok0 true max_timer_duration 0 false 0 PSize 0 false 0 false false 0 None None None [] [].

(* blocked in select with nothing pending and no API call half-way *)
Definition parked (s : st) : Prop :=
  lpc s = PSelect /\ tok s = false /\ chan s = false /\ pend s = O.

Definition nofault (tr : list label) : Prop := Forall (fun l => label_faults l = false) tr.

(* the loop as it was before the fix of S12: no fetchFailed arm *)
Definition prefix_cfg (drain : bool) (ri : Z) : cfg :=
  mkcfg [(GSizeErr, TRetryInterval); (GSizeZero, TMaxDuration); (GDefault, TNextTick)]
        drain ri 1 TZero TRetryInterval OpGt true true true true true false false false false true.

(* the loop as it was before the fix c87a9a8: the select arms do not look at the context *)
Definition nocheck_cfg (ctxdone drain : bool) (ri : Z) : cfg :=
  mkcfg loop_switch drain ri 1 TZero TRetryInterval OpGt true true true true true ctxdone false false false true.

(* ---- an API method seen as the sequence of its queue calls (Gen/Params.v: api_queue_calls) ---- *)
From Coq Require Import String.
Fixpoint assoc {A} (k : string) (l : list (string * A)) : option A :=
  match l with [] => None | (k', v) :: r => if String.eqb k k' then Some v else assoc k r end.

(* runs the calls in order until the first one whose oracle outcome is Fail:
   (calls performed, index of the failing call) ; an exhausted oracle answers Ok *)
Fixpoint api_exec (calls : list string) (outs : list outcome) : list string * option nat :=
  match calls with
  | [] => ([], None)
  | cl :: rest =>
      if failed (hd Ok outs) then ([cl], Some O)
      else let '(p, e) := api_exec rest (tl outs) in (cl :: p, option_map S e)
  end.

Record api_result := mkres { performed : list string; error : option nat; token : bool }.

Definition api_run (m : string) (is_started : bool) (outs : list outcome) : option api_result :=
  match assoc m api_queue_calls with
  | None => None
  | Some calls =>
      let '(p, e) := api_exec calls outs in
      let propagates := match assoc m api_returns_queue_error with Some b => b | None => false end in
      let guarded := match assoc m api_reset_guarded with Some b => b | None => false end in
      Some (mkres p (if propagates then e else None)
                  (match e with None => is_started && guarded | Some _ => false end))
  end.
