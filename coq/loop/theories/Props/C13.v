(* C13 -- failed jobs are retried exactly as configured; panics are contained.
   Only the property theorems; proofs in RetryProofs.v and DispatchProofs.v.
   Model: Retry.v (executeWithRetries as a function of the scripted attempt outcomes `outs`, attempt
   durations `durs`, the winner of each retry wait `ws` (WTimer lag | WDone after), MaxRetries `maxr`
   (any Z), RetryInterval `ri`, start time t0) and Dispatch.v (the goroutine that runs it). *)
From Coq Require Import ZArith List Bool.
Require Import QzLoop.Gen.Params QzLoop.LoopModel QzLoop.Retry QzLoop.RetryProofs QzLoop.Dispatch QzLoop.DispatchProofs.
Import ListNotations.
Open Scope Z_scope.
Open Scope list_scope.

(* attempts = 1 + min(max 0 MaxRetries, failures before the first success) *)
Theorem C13_attempt_count : forall outs durs ws maxr ri t0 f,
  (forall k, outs k <> APanic) -> (forall k, exists lag, ws k = WTimer lag) ->
  (forall j, (j < f)%nat -> outs j = AFail) -> outs f = AOk ->
  Z.of_nat (attempts (execute_with_retries outs durs ws maxr ri t0)) = 1 + Z.min (Z.max 0 maxr) (Z.of_nat f).
Proof. exact attempt_count_formula. Qed.
Print Assumptions C13_attempt_count.

Theorem C13_attempt_count_always_failing : forall outs durs ws maxr ri t0,
  (forall k, outs k = AFail) -> (forall k, exists lag, ws k = WTimer lag) ->
  Z.of_nat (attempts (execute_with_retries outs durs ws maxr ri t0)) = 1 + Z.max 0 maxr.
Proof. exact attempt_count_always_failing. Qed.
Print Assumptions C13_attempt_count_always_failing.

(* MaxRetries at the ends of Go's int range (math.MaxInt = "retry until it succeeds", math.MinInt): the count
   formula above holds for every integer, in particular there is no wrap-around at MaxRetries + 1 *)
Theorem C13_attempt_count_int_extremes : forall durs ri t0,
  attempts (execute_with_retries (script [AFail; AFail; AOk]) durs all_timer 9223372036854775807 ri t0) = 3%nat /\
  attempts (execute_with_retries (script [AFail; AFail; AOk]) durs all_timer (9223372036854775807 - 1) ri t0) = 3%nat /\
  attempts (execute_with_retries (script [AFail; AFail; AOk]) durs all_timer (-9223372036854775808) ri t0) = 1%nat.
Proof. exact attempt_count_int_extremes. Qed.
Print Assumptions C13_attempt_count_int_extremes.

(* the model evaluated with any recursion fuel that turns out to be enough is the model (the correspondence
   check evaluates huge MaxRetries with a fuel of the script's length) *)
Theorem C13_fuel_irrelevant : forall outs durs ws maxr ri fuel t0,
  snd (execute_with_retries_fuel outs durs ws maxr ri fuel t0) <> RFuelOut ->
  execute_with_retries_fuel outs durs ws maxr ri fuel t0 = execute_with_retries outs durs ws maxr ri t0.
Proof. exact ewr_fuel_eq. Qed.
Print Assumptions C13_fuel_irrelevant.

(* any outcomes, any cancellation: at least one attempt, never more than without cancellation, never more
   than one per wait the timer won *)
Theorem C13_attempt_count_cancelled : forall outs durs ws maxr ri t0,
  (attempts (execute_with_retries outs durs ws maxr ri t0) <= 1 + lead_fails outs O (budget maxr))%nat /\
  (attempts (execute_with_retries outs durs ws maxr ri t0) <= 1 + lead_timers ws O (budget maxr))%nat /\
  (1 <= attempts (execute_with_retries outs durs ws maxr ri t0))%nat.
Proof. exact attempt_count_le. Qed.
Print Assumptions C13_attempt_count_cancelled.

(* a wait that observed ctx.Done is the newest event of the log: no attempt starts after it *)
Theorem C13_no_attempt_after_cancel : forall outs durs ws maxr ri t0 w a b,
  let r := execute_with_retries outs durs ws maxr ri t0 in
  In (EvWait w a b false) (r_log (fst r)) ->
  (exists rest, r_log (fst r) = EvWait w a b false :: rest) /\ snd r = RReturned true.
Proof. exact no_attempt_after_cancel. Qed.
Print Assumptions C13_no_attempt_after_cancel.

(* consecutive attempts are separated by a completed RetryInterval wait *)
Theorem C13_retry_spacing : forall outs durs ws maxr ri t0 k s1 e1 o1 s2 e2 o2,
  let l := r_log (fst (execute_with_retries outs durs ws maxr ri t0)) in
  In (EvAttempt k s1 e1 o1) l -> In (EvAttempt (S k) s2 e2 o2) l -> e1 + ri <= s2.
Proof. exact retry_spacing. Qed.
Print Assumptions C13_retry_spacing.

Theorem C13_timer_wait_lasts_interval : forall outs durs ws maxr ri t0 w a b,
  In (EvWait w a b true) (r_log (fst (execute_with_retries outs durs ws maxr ri t0))) -> a + ri <= b.
Proof. exact timer_wait_lasts_interval. Qed.
Print Assumptions C13_timer_wait_lasts_interval.

(* for every outcome stream the call returns (no escaping panic, recursion fuel suffices); a panicking
   attempt is the last event, every earlier attempt failed, and the call ends as "recovered" *)
Theorem C13_panic_contained : forall outs durs ws maxr ri t0 k a b,
  let r := execute_with_retries outs durs ws maxr ri t0 in
  snd r <> RCrashed /\ snd r <> RFuelOut /\
  (In (EvAttempt k a b APanic) (r_log (fst r)) ->
     (exists rest, r_log (fst r) = EvAttempt k a b APanic :: rest /\ all_failed rest) /\ snd r = RRecovered).
Proof. exact panic_contained_fn. Qed.
Print Assumptions C13_panic_contained.

(* in the dispatch system a panicking execution ends exactly like a returning one, for the loop
   goroutine (blocking mode), worker i and a job goroutine; the worker is back in its select, wg is
   decremented for a job goroutine only, the queue (d_due) is untouched, nothing crashes *)
Theorem C13_panic_same_as_return : forall c s i,
  dstep c s (WorkerEnd i APanic) = dstep c s (WorkerEnd i AOk) /\
  dstep c s (LoopExecEnd APanic) = dstep c s (LoopExecEnd AOk) /\
  dstep c s (GoEnd APanic) = dstep c s (GoEnd AOk).
Proof. exact panic_same_as_return. Qed.
Print Assumptions C13_panic_same_as_return.

Theorem C13_exec_end_effect : forall c s o s',
  (forall i, dstep c s (WorkerEnd i o) = Some s' ->
     nth i (d_workers s') WDead = WIdle /\ d_lpc s' = d_lpc s /\ d_due s' = d_due s /\ d_wg s' = d_wg s /\
     d_crashed s' = false /\ S (d_inflight s') = d_inflight s \/ d_inflight s = O) /\
  (dstep c s (LoopExecEnd o) = Some s' ->
     d_lpc s' = LIdle /\ d_workers s' = d_workers s /\ d_due s' = d_due s /\ d_wg s' = d_wg s /\ d_crashed s' = false) /\
  (dstep c s (GoEnd o) = Some s' ->
     d_lpc s' = d_lpc s /\ d_workers s' = d_workers s /\ d_due s' = d_due s /\ d_wg s' = pred (d_wg s) /\
     S (d_running s') = d_running s /\ d_crashed s' = false).
Proof. exact exec_end_effect. Qed.
Print Assumptions C13_exec_end_effect.

Theorem C13_worker_reusable_after_panic : forall c s i s1,
  dstep c s (WorkerEnd i APanic) = Some s1 -> d_lpc s1 = LSending ->
  exists s2, dstep c s1 (WorkerTake i) = Some s2 /\ nth i (d_workers s2) WDead = WBusy.
Proof. exact worker_reusable_after_panic. Qed.
Print Assumptions C13_worker_reusable_after_panic.

(* non-vacuity *)
Theorem C13_ex_retry_three_fails_then_ok :
  let r := execute_with_retries (script [AFail; AFail; AFail; AOk]) (fun _ => 2) all_timer 7 10 100 in
  attempts r = 4%nat /\ snd r = RReturned false /\
  r_log (fst r) = [EvAttempt 3 136 138 AOk; EvWait 2 126 136 true; EvAttempt 2 124 126 AFail; EvWait 1 114 124 true;
                   EvAttempt 1 112 114 AFail; EvWait 0 102 112 true; EvAttempt 0 100 102 AFail].
Proof. exact ex_retry_three_fails_then_ok. Qed.
Print Assumptions C13_ex_retry_three_fails_then_ok.

Theorem C13_ex_retry_budget_and_negative :
  attempts (execute_with_retries (script []) (fun _ => 0) all_timer 2 10 0) = 3%nat /\
  attempts (execute_with_retries (script []) (fun _ => 0) all_timer 0 10 0) = 1%nat /\
  attempts (execute_with_retries (script []) (fun _ => 0) all_timer (-1) 10 0) = 1%nat.
Proof. exact ex_retry_budget_and_negative. Qed.
Print Assumptions C13_ex_retry_budget_and_negative.

Theorem C13_ex_retry_cancel_and_panic :
  (let r := execute_with_retries (script []) (fun _ => 1) (cancel_at 1) 5 10 0 in
   attempts r = 2%nat /\ snd r = RReturned true /\ hd_error (r_log (fst r)) = Some (EvWait 1 13 16 false)) /\
  (let r := execute_with_retries (script [AFail; APanic; AOk]) (fun _ => 1) all_timer 5 10 0 in
   attempts r = 2%nat /\ snd r = RRecovered /\ hd_error (r_log (fst r)) = Some (EvAttempt 1 11 12 APanic)).
Proof. exact ex_retry_cancel_and_panic. Qed.
Print Assumptions C13_ex_retry_cancel_and_panic.

Theorem C13_ex_panic_in_worker_then_next_job : exists s,
  drun (mkd false 1) (dinit (mkd false 1))
       [MakeDue 2; DFetch; DDispatch; WorkerTake 0; WorkerEnd 0 APanic; DFetch; DDispatch; WorkerTake 0; WorkerEnd 0 AOk] = Some s /\
  d_inflight s = 0%nat /\ d_wg s = 2%nat /\ d_crashed s = false /\ d_due s = 0%nat.
Proof. exact ex_panic_in_worker_then_next_job. Qed.
Print Assumptions C13_ex_panic_in_worker_then_next_job.
