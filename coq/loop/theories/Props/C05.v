(* C05 -- a due job is dispatched promptly after any queue change (no lost wake-up).
   Only the property theorems; each is closed by `exact` of a lemma of LoopProofs.v.
   Model: LoopModel.v (labelled transition system of the execution loop, the timer, the capacity-1
   interrupt channel and API calls split into queue mutation + token).  `drain` selects the timer
   channel semantics (false: Go < 1.23, a stale tick may stay in timer.C; true: Go >= 1.23), `ri` is
   RetryInterval, `q0`/`tok0` are the stored jobs and a possibly left-over token at Start.
   `nofault tr`: every queue call of the loop in tr succeeds without delay (faults: see C15.v). *)
From Coq Require Import ZArith List Bool String.
Require Import QzLoop.Gen.Params QzLoop.LoopModel QzLoop.LoopProofs QzLoop.Restart QzLoop.RestartProofs.
Import ListNotations.
Open Scope Z_scope.
Open Scope list_scope.

(* parked s := lpc s = PSelect /\ tok s = false /\ chan s = false /\ pend s = 0 *)
Theorem C05_no_lost_wakeup_inv : forall drain ri q0 tok0 tr s, nofault tr ->
  run (code_cfg drain ri) (init q0 tok0) tr = Some s -> parked s ->
  armed s = true /\ armed_at s <= now s /\ (q s <> [] -> dl s <= Z.max (armed_at s) (minp (q s))).
Proof. exact no_lost_wakeup_inv. Qed.
Print Assumptions C05_no_lost_wakeup_inv.

(* parked with a due minimum: the timer can fire, and the only loop labels enabled from there are
   SelTick and then LoopFetch, which (when Pop succeeds) removes a minimum-priority entry and, when the
   entry is classified valid, holds exactly that fire time for dispatch: 2 loop labels. *)
Theorem C05_due_head_enables_loop : forall drain ri q0 tok0 tr s, nofault tr ->
  run (code_cfg drain ri) (init q0 tok0) tr = Some s -> parked s -> q s <> [] -> minp (q s) <= now s ->
  let c := code_cfg drain ri in
  exists s1, step c s TimerFire = Some s1 /\
    (forall l s2, loop_label l = true -> step c s1 l = Some s2 -> l = SelTick) /\
    exists s2, step c s1 SelTick = Some s2 /\ lpc s2 = PFetch /\ q s2 = q s /\
      (forall l s3, loop_label l = true -> step c s2 l = Some s3 ->
         exists po valid resched pusho, l = LoopFetch po valid resched pusho /\
           (failed po = false -> q s3 = after_fetch (q s) resched pusho /\
                                 (valid = true -> lpc s3 = PDispatch /\ cur s3 = minp (q s)))) /\
      (forall po valid resched pusho, exists s3, step c s2 (LoopFetch po valid resched pusho) = Some s3).
Proof. exact due_head_enables_loop. Qed.
Print Assumptions C05_due_head_enables_loop.

(* a pending token always lets the loop leave the select and start over at Size() *)
Theorem C05_token_enables_recompute : forall drain ri s, lpc s = PSelect -> tok s = true ->
  exists s1, step (code_cfg drain ri) s SelTok = Some s1 /\ lpc s1 = PSize /\ q s1 = q s.
Proof. exact token_enables_recompute. Qed.
Print Assumptions C05_token_enables_recompute.

(* the label pair ApiMutate ; ApiToken is what the API methods do: every method that changes the queue
   (mutating_api = ScheduleJob, DeleteJob, PauseJob, ResumeJob, Clear) ends a successful call with Reset()
   exactly when the scheduler is started (tables regenerated from the source) *)
Theorem C05_mutating_api_calls_send_token : forall m is_started outs calls,
  In m mutating_api -> assoc m api_queue_calls = Some calls ->
  (forall j, (j < List.length calls)%nat -> failed (nth j outs Ok) = false) ->
  exists r, api_run m is_started outs = Some r /\ error r = None /\ performed r = calls /\ token r = is_started.
Proof. exact mutating_api_calls_send_token. Qed.
Print Assumptions C05_mutating_api_calls_send_token.

(* non-vacuity: reachable parked states (far head, empty queue, paused head), API calls placed in the
   window and while parked, resume of a paused head, a due head, a stale tick *)
Theorem C05_ex_parked_far_head : exists s,
  run (code_cfg false 100) (init [1000] false) [LoopSize Ok; LoopTick Ok] = Some s /\
  nofault [LoopSize Ok; LoopTick Ok] /\ parked s /\ q s = [1000] /\ dl s = 1000.
Proof. exact ex_parked_far_head. Qed.
Print Assumptions C05_ex_parked_far_head.

Theorem C05_ex_parked_empty_and_paused :
  (exists s, run (code_cfg true 100) (init [] false) [LoopSize Ok] = Some s /\ parked s /\ q s = [] /\ armed s = true) /\
  (exists s, run (code_cfg true 100) (init [far] false) [LoopSize Ok; LoopTick Ok] = Some s /\ parked s /\ dl s = far).
Proof. exact ex_parked_empty_and_paused. Qed.
Print Assumptions C05_ex_parked_empty_and_paused.

Theorem C05_ex_schedule_in_window : exists s,
  run (code_cfg false 100) (init [1000] false)
      [LoopSize Ok; ApiMutate [5; 1000]; LoopTick Ok; ApiToken; Adv 5; TimerFire; SelTick;
       LoopFetch Ok true (Some 2000) Ok] = Some s /\ lpc s = PDispatch /\ cur s = 5 /\ q s = [2000; 1000].
Proof. exact ex_schedule_in_window. Qed.
Print Assumptions C05_ex_schedule_in_window.

Theorem C05_ex_schedule_while_parked : exists s,
  run (code_cfg false 100) (init [1000] false)
      [LoopSize Ok; LoopTick Ok; Adv 10; ApiMutate [5; 1000]; ApiToken; SelTok; LoopSize Ok; LoopTick Ok;
       TimerFire; SelTick; LoopFetch Ok true (Some 2000) Ok] = Some s /\ lpc s = PDispatch /\ cur s = 5 /\ now s = 10.
Proof. exact ex_schedule_while_parked. Qed.
Print Assumptions C05_ex_schedule_while_parked.

Theorem C05_ex_resume_paused_head : exists s,
  run (code_cfg true 100) (init [far] false)
      [LoopSize Ok; LoopTick Ok; Adv 3; ApiMutate [7]; ApiToken; SelTok; LoopSize Ok; LoopTick Ok] = Some s /\
  parked s /\ dl s = 7.
Proof. exact ex_resume_paused_head. Qed.
Print Assumptions C05_ex_resume_paused_head.

Theorem C05_ex_due_head : exists s,
  run (code_cfg false 100) (init [5; 9] false) [LoopSize Ok; LoopTick Ok; Adv 5] = Some s /\
  nofault [LoopSize Ok; LoopTick Ok; Adv 5] /\ parked s /\ q s <> [] /\ minp (q s) <= now s.
Proof. exact ex_due_head. Qed.
Print Assumptions C05_ex_due_head.

(* ---- restart: the loop of the stopped run may still be alive next to the new run's loop (Restart.v) ----
   Both loops run the same code and share the queue, the clock and the one interrupt channel; the old
   loop's context is cancelled (stale_cfg).  o0 is the old loop's state at the moment of the restart:
   anywhere but already past the select on its way to a fetch. *)
Theorem C05_stale_loop_never_fetches : forall drain ri q0 tok0 o0 tr s, lpc o0 <> PFetch -> new_nofault tr ->
  run2 (code_cfg drain ri) (stale_cfg drain ri) (init2 q0 tok0 o0) tr = Some s ->
  lpc (od s) <> PFetch /\ pops (od s) = pops o0.
Proof. exact stale_loop_never_fetches. Qed.
Print Assumptions C05_stale_loop_never_fetches.

Theorem C05_stale_loop_gives_token_back : forall drain ri cn s l s',
  step2 cn (stale_cfg drain ri) s (Old l) = Some s' -> tok (nw s) = tok (od s) -> tok (nw s) = true -> tok (nw s') = true.
Proof. exact stale_loop_gives_token_back. Qed.
Print Assumptions C05_stale_loop_gives_token_back.

Theorem C05_restart_no_lost_wakeup : forall drain ri q0 tok0 o0 tr s, lpc o0 <> PFetch -> new_nofault tr ->
  run2 (code_cfg drain ri) (stale_cfg drain ri) (init2 q0 tok0 o0) tr = Some s -> parked (nw s) ->
  armed (nw s) = true /\ (q (nw s) <> [] -> dl (nw s) <= Z.max (armed_at (nw s)) (minp (q (nw s)))).
Proof. exact restart_no_lost_wakeup. Qed.
Print Assumptions C05_restart_no_lost_wakeup.

(* sensitivity: without the ctx.Err() checks in the select arms (the code before c87a9a8) the old loop
   takes the token of the new run: the new loop stays parked on the far timer with a due head, and the
   old loop can even fetch; the same label sequence is not a run of the current code, where the old loop
   returns, the token stays and the new loop fetches the due entry *)
Theorem C05_ex_nocheck_token_stolen : exists s,
  run2 (nocheck_cfg false false 100) (nocheck_cfg true false 100) (init2 [1000] false busy_old) steal_trace = Some s /\
  new_nofault steal_trace /\ parked (nw s) /\ q (nw s) = [5; 1000] /\ minp (q (nw s)) <= now (nw s) /\ dl (nw s) = 1000 /\
  step (nocheck_cfg false false 100) (nw s) TimerFire = None /\ lpc (od s) = PExit.
Proof. exact ex_nocheck_token_stolen. Qed.
Print Assumptions C05_ex_nocheck_token_stolen.

Theorem C05_ex_nocheck_stale_loop_fetches : exists s,
  run2 (nocheck_cfg false false 100) (nocheck_cfg true false 100) (init2 [1000] false busy_old)
       [New (LoopSize Ok); New (LoopTick Ok); New (ApiMutate [5; 1000]); New ApiToken;
        Old LoopDispatched; Old (LoopSize Ok); Old (LoopTick Ok); Old SelTok; Old (LoopSize Ok); Old (LoopTick Ok);
        New (Adv 10); Old TimerFire; Old SelTick; Old (LoopFetch Ok true None Ok)] = Some s /\
  pops (od s) = [5] /\ q (nw s) = [1000].
Proof. exact ex_nocheck_stale_loop_fetches. Qed.
Print Assumptions C05_ex_nocheck_stale_loop_fetches.

Theorem C05_ex_fixed_restart : exists s,
  run2 (code_cfg false 100) (stale_cfg false 100) (init2 [1000] false busy_old)
       [New (LoopSize Ok); New (LoopTick Ok); New (ApiMutate [5; 1000]); New ApiToken;
        Old LoopDispatched; Old (LoopSize Ok); Old (LoopTick Ok); Old SelTok;
        New SelTok; New (LoopSize Ok); New (LoopTick Ok); New (Adv 10); New TimerFire; New SelTick; New (LoopFetch Ok true (Some 2000) Ok)] = Some s /\
  lpc (od s) = PExit /\ pops (od s) = [] /\ lpc (nw s) = PDispatch /\ cur (nw s) = 5.
Proof. exact ex_fixed_restart. Qed.
Print Assumptions C05_ex_fixed_restart.

Theorem C05_ex_steal_trace_not_a_run_of_fixed :
  run2 (code_cfg false 100) (stale_cfg false 100) (init2 [1000] false busy_old) steal_trace = None.
Proof. exact ex_steal_trace_not_a_run_of_fixed. Qed.
Print Assumptions C05_ex_steal_trace_not_a_run_of_fixed.
