(* C05 -- a due job is dispatched promptly after any queue change (no lost wake-up).
   Only the property theorems; each is closed by `exact` of a lemma of LoopProofs.v.
   Model: LoopModel.v (labelled transition system of the execution loop, the timer, the capacity-1
   interrupt channel and API calls split into queue mutation + token).  `drain` selects the timer
   channel semantics (false: Go < 1.23, a stale tick may stay in timer.C; true: Go >= 1.23), `ri` is
   RetryInterval, `q0`/`tok0` are the stored jobs and a possibly left-over token at Start.
   `nofault tr`: every queue call of the loop in tr succeeds without delay (faults: see C15.v). *)
From Coq Require Import ZArith List Bool.
Require Import QzLoop.Gen.Params QzLoop.LoopModel QzLoop.LoopProofs.
Import ListNotations.
Open Scope Z_scope.
Open Scope list_scope.

(* parked s := lpc s = PSelect /\ tok s = false /\ chan s = false /\ pend s = 0 *)
Theorem C05_no_lost_wakeup_inv : forall drain ri q0 tok0 tr s, nofault tr ->
  run (code_cfg drain ri) (init q0 tok0) tr = Some s -> parked s ->
  armed s = true /\ armed_at s <= now s /\ (q s <> [] -> dl s <= Z.max (armed_at s) (minp (q s))).
Proof. exact no_lost_wakeup_inv. Qed.
Print Assumptions C05_no_lost_wakeup_inv.

(* parked with a due minimum: the timer can fire, and the only loop labels enabled from there are
   SelTick and then LoopFetch, which (when Pop succeeds) removes a minimum-priority entry and, when the
   entry is classified valid, holds exactly that fire time for dispatch: 2 loop labels. *)
Theorem C05_due_head_enables_loop : forall drain ri q0 tok0 tr s, nofault tr ->
  run (code_cfg drain ri) (init q0 tok0) tr = Some s -> parked s -> q s <> [] -> minp (q s) <= now s ->
  let c := code_cfg drain ri in
  exists s1, step c s TimerFire = Some s1 /\
    (forall l s2, loop_label l = true -> step c s1 l = Some s2 -> l = SelTick) /\
    exists s2, step c s1 SelTick = Some s2 /\ lpc s2 = PFetch /\ q s2 = q s /\
      (forall l s3, loop_label l = true -> step c s2 l = Some s3 ->
         exists po valid resched pusho, l = LoopFetch po valid resched pusho /\
           (failed po = false -> q s3 = after_fetch (q s) resched pusho /\
                                 (valid = true -> lpc s3 = PDispatch /\ cur s3 = minp (q s)))) /\
      (forall po valid resched pusho, exists s3, step c s2 (LoopFetch po valid resched pusho) = Some s3).
Proof. exact due_head_enables_loop. Qed.
Print Assumptions C05_due_head_enables_loop.

(* a pending token always lets the loop leave the select and start over at Size() *)
Theorem C05_token_enables_recompute : forall drain ri s, lpc s = PSelect -> tok s = true ->
  exists s1, step (code_cfg drain ri) s SelTok = Some s1 /\ lpc s1 = PSize /\ q s1 = q s.
Proof. exact token_enables_recompute. Qed.
Print Assumptions C05_token_enables_recompute.

(* non-vacuity: reachable parked states (far head, empty queue, paused head), API calls placed in the
   window and while parked, resume of a paused head, a due head, a stale tick *)
Theorem C05_ex_parked_far_head : exists s,
  run (code_cfg false 100) (init [1000] false) [LoopSize Ok; LoopTick Ok] = Some s /\
  nofault [LoopSize Ok; LoopTick Ok] /\ parked s /\ q s = [1000] /\ dl s = 1000.
Proof. exact ex_parked_far_head. Qed.
Print Assumptions C05_ex_parked_far_head.

Theorem C05_ex_parked_empty_and_paused :
  (exists s, run (code_cfg true 100) (init [] false) [LoopSize Ok] = Some s /\ parked s /\ q s = [] /\ armed s = true) /\
  (exists s, run (code_cfg true 100) (init [far] false) [LoopSize Ok; LoopTick Ok] = Some s /\ parked s /\ dl s = far).
Proof. exact ex_parked_empty_and_paused. Qed.
Print Assumptions C05_ex_parked_empty_and_paused.

Theorem C05_ex_schedule_in_window : exists s,
  run (code_cfg false 100) (init [1000] false)
      [LoopSize Ok; ApiMutate [5; 1000]; LoopTick Ok; ApiToken; Adv 5; TimerFire; SelTick;
       LoopFetch Ok true (Some 2000) Ok] = Some s /\ lpc s = PDispatch /\ cur s = 5 /\ q s = [2000; 1000].
Proof. exact ex_schedule_in_window. Qed.
Print Assumptions C05_ex_schedule_in_window.

Theorem C05_ex_schedule_while_parked : exists s,
  run (code_cfg false 100) (init [1000] false)
      [LoopSize Ok; LoopTick Ok; Adv 10; ApiMutate [5; 1000]; ApiToken; SelTok; LoopSize Ok; LoopTick Ok;
       TimerFire; SelTick; LoopFetch Ok true (Some 2000) Ok] = Some s /\ lpc s = PDispatch /\ cur s = 5 /\ now s = 10.
Proof. exact ex_schedule_while_parked. Qed.
Print Assumptions C05_ex_schedule_while_parked.

Theorem C05_ex_resume_paused_head : exists s,
  run (code_cfg true 100) (init [far] false)
      [LoopSize Ok; LoopTick Ok; Adv 3; ApiMutate [7]; ApiToken; SelTok; LoopSize Ok; LoopTick Ok] = Some s /\
  parked s /\ dl s = 7.
Proof. exact ex_resume_paused_head. Qed.
Print Assumptions C05_ex_resume_paused_head.

Theorem C05_ex_due_head : exists s,
  run (code_cfg false 100) (init [5; 9] false) [LoopSize Ok; LoopTick Ok; Adv 5] = Some s /\
  nofault [LoopSize Ok; LoopTick Ok; Adv 5] /\ parked s /\ q s <> [] /\ minp (q s) <= now s.
Proof. exact ex_due_head. Qed.
Print Assumptions C05_ex_due_head.
