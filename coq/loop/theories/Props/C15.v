(* C15 -- the scheduler tolerates a failing or slow custom job queue.
   Only the property theorems; each is closed by `exact` of a lemma of LoopProofs.v.
   Model: LoopModel.v; every queue call of the loop carries an oracle outcome Ok | Fail | Delay dt and
   the theorems below quantify over ALL label sequences, i.e. all assignments of outcomes. *)
From Coq Require Import ZArith List Bool String.
Require Import QzLoop.Gen.Params QzLoop.LoopModel QzLoop.LoopProofs.
Import ListNotations.
Open Scope Z_scope.
Open Scope list_scope.

(* no panic, no deadlock: whatever the oracle answers, the loop has a successor at every program
   point; blocked in select, either the token or the tick is there, or the timer is armed and fires
   after a finite clock advance *)
Theorem C15_steps_total : forall drain ri q0 tok0 tr s, let c := code_cfg drain ri in
  run c (init q0 tok0) tr = Some s ->
  (forall q', can_step c s (ApiMutate q')) /\ (forall dt, 0 <= dt -> can_step c s (Adv dt)) /\
  match lpc s with
  | PSize => forall o, can_step c s (LoopSize o)
  | PTick => forall o, can_step c s (LoopTick o)
  | PFetch => forall po v r pu, can_step c s (LoopFetch po v r pu)
  | PDispatch => can_step c s LoopDispatched
  | PExit => True   (* only a loop whose context is cancelled returns; see C05_stale_loop_* *)
  | PSelect => (tok s = true /\ can_step c s SelTok) \/ (chan s = true /\ can_step c s SelTick) \/
               (armed s = true /\ exists s1 s2 s3, step c s (Adv (Z.max 0 (dl s - now s))) = Some s1 /\
                                   step c s1 TimerFire = Some s2 /\ step c s2 SelTick = Some s3)
  end.
Proof. exact steps_total. Qed.
Print Assumptions C15_steps_total.

(* an API method whose i-th queue call is the first to fail returns that call's error, has made
   exactly the calls up to it, and does not send the interrupt token *)
Theorem C15_api_propagates_queue_error : forall m is_started outs calls i,
  In m api_methods -> assoc m api_queue_calls = Some calls ->
  (i < List.length calls)%nat -> failed (nth i outs Ok) = true ->
  (forall j, (j < i)%nat -> failed (nth j outs Ok) = false) ->
  exists r, api_run m is_started outs = Some r /\ error r = Some i /\ performed r = firstn (S i) calls /\ token r = false.
Proof. exact api_propagates_queue_error. Qed.
Print Assumptions C15_api_propagates_queue_error.

Theorem C15_api_success_sends_token_iff_started : forall m is_started outs calls,
  assoc m api_queue_calls = Some calls -> assoc m api_reset_guarded = Some true ->
  (forall j, (j < List.length calls)%nat -> failed (nth j outs Ok) = false) ->
  exists r, api_run m is_started outs = Some r /\ error r = None /\ performed r = calls /\ token r = is_started.
Proof. exact api_success_sends_token_iff_started. Qed.
Print Assumptions C15_api_success_sends_token_iff_started.

(* lf_size / lf_head / lf_pop s = Some t: the last failing Size / Head / Pop call happened at t and neither
   an interrupt token nor a stale tick has been consumed since.  Whenever the loop is about to make
   the same call again, RetryInterval has elapsed. *)
Theorem C15_retry_no_faster_than_interval : forall drain ri q0 tok0 tr s t,
  run (code_cfg drain ri) (init q0 tok0) tr = Some s ->
  (lpc s = PSize -> lf_size s = Some t -> t + ri <= now s) /\
  (lpc s = PTick -> lf_head s = Some t -> t + ri <= now s) /\
  (lpc s = PFetch -> lf_pop s = Some t -> t + ri <= now s).
Proof. exact retry_no_faster_than_interval. Qed.
Print Assumptions C15_retry_no_faster_than_interval.

Theorem C15_wait_after_queue_error : forall drain ri q0 tok0 tr s t s',
  run (code_cfg drain ri) (init q0 tok0) tr = Some s ->
  lf_size s = Some t \/ lf_head s = Some t \/ lf_pop s = Some t ->
  lpc s = PSelect -> stale s = false -> step (code_cfg drain ri) s SelTick = Some s' -> t + ri <= now s.
Proof. exact wait_after_queue_error. Qed.
Print Assumptions C15_wait_after_queue_error.

(* sensitivity: the loop as it was before the fix (no fetchFailed arm) violates the statement for a
   failing Pop, and the same label sequence is not a run of the current loop; non-vacuity: the current
   loop reaches the second Pop after the interval *)
Theorem C15_ex_prefix_loop_spins : exists s,
  run (prefix_cfg true 100) (init [5] false) spin_trace = Some s /\
  lpc s = PFetch /\ lf_pop s = Some 5 /\ now s = 5 /\ ~ (5 + 100 <= now s).
Proof. exact ex_prefix_loop_spins. Qed.
Print Assumptions C15_ex_prefix_loop_spins.

Theorem C15_ex_fixed_loop_cannot_spin : run (code_cfg true 100) (init [5] false) spin_trace = None.
Proof. exact ex_fixed_loop_cannot_spin. Qed.
Print Assumptions C15_ex_fixed_loop_cannot_spin.

Theorem C15_ex_fixed_loop_waits : exists s,
  run (code_cfg true 100) (init [5] false)
      [LoopSize Ok; LoopTick Ok; Adv 5; TimerFire; SelTick; LoopFetch Fail false None Ok;
       LoopSize Ok; Adv 100; TimerFire; SelTick] = Some s /\
  lpc s = PFetch /\ lf_pop s = Some 5 /\ now s = 105.
Proof. exact ex_fixed_loop_waits. Qed.
Print Assumptions C15_ex_fixed_loop_waits.

(* under any faults the completed dispatches are exactly the fire times popped as valid, in order,
   each once (at most one more is being dispatched); a failing Pop changes neither the queue nor the
   logs, a successful one removes a minimum entry *)
Theorem C15_no_double_exec_under_faults : forall drain ri q0 tok0 tr s,
  run (code_cfg drain ri) (init q0 tok0) tr = Some s ->
  pops s = (match lpc s with PDispatch => [cur s] | _ => [] end) ++ disps s.
Proof. exact no_double_exec_under_faults. Qed.
Print Assumptions C15_no_double_exec_under_faults.

Theorem C15_fetch_effect : forall drain ri s po v r pu s',
  step (code_cfg drain ri) s (LoopFetch po v r pu) = Some s' ->
  (failed po = true -> lpc s' = PSize /\ q s' = q s /\ pops s' = pops s /\ disps s' = disps s /\ ff s' = true) /\
  (failed po = false -> q s <> [] ->
     q s' = after_fetch (q s) r pu /\ disps s' = disps s /\ ff s' = false /\
     (v = true -> lpc s' = PDispatch /\ cur s' = minp (q s) /\ pops s' = minp (q s) :: pops s) /\
     (v = false -> lpc s' = PSize /\ pops s' = pops s)).
Proof. exact fetch_effect. Qed.
Print Assumptions C15_fetch_effect.

(* recovery: from any state reached under any faults, once no call faults any more and the loop has
   re-armed its timer twice (at most one iteration may still be the retry wait), the no-lost-wake-up
   invariant of C05 holds again, so C05_due_head_enables_loop's conclusion applies to every stored job *)
Theorem C15_recovery_inv : forall drain ri q0 tok0 tr1 s1 tr2 s2, let c := code_cfg drain ri in
  run c (init q0 tok0) tr1 = Some s1 -> nofault tr2 -> run c s1 tr2 = Some s2 ->
  (narm s1 + 2 <= narm s2)%nat -> parked s2 ->
  armed s2 = true /\ armed_at s2 <= now s2 /\ (q s2 <> [] -> dl s2 <= Z.max (armed_at s2) (minp (q s2))).
Proof. exact recovery_inv. Qed.
Print Assumptions C15_recovery_inv.

Theorem C15_ex_recovery : exists s1 s2,
  let tr2 := [Adv 100; TimerFire; SelTick; LoopFetch Ok true (Some 500) Ok; LoopDispatched; LoopSize Ok; LoopTick Ok;
              SelTok; LoopSize Ok; LoopTick Ok] in
  run (code_cfg false 100) (init [50] false) [LoopSize Fail] = Some s1 /\
  run (code_cfg false 100) s1 tr2 = Some s2 /\ nofault tr2 /\ (narm s1 + 2 <= narm s2)%nat /\ parked s2 /\ q s2 = [500] /\
  disps s2 = [50].
Proof. exact ex_recovery. Qed.
Print Assumptions C15_ex_recovery.

Theorem C15_ex_api_pause_remove_fails :
  (api_run "PauseJob" true [Ok; Fail] = Some (mkres ["Get"; "Remove"] (Some 1%nat) false) /\
   api_run "PauseJob" true [Ok; Ok; Ok] = Some (mkres ["Get"; "Remove"; "Push"] None true) /\
   api_run "DeleteJob" false [Ok] = Some (mkres ["Remove"] None false))%string.
Proof. exact ex_api_pause_remove_fails. Qed.
Print Assumptions C15_ex_api_pause_remove_fails.
