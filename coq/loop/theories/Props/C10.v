(* C10 -- lifecycle: start / stop / cancel / wait / restart.
   Only the property theorems; proofs in LifecycleProofs.v.  Model: Lifecycle.v (labels LStart, LStop,
   CtxCancel r, WatcherWake r, LoopExit r, WorkerExit r i, ExecStart/ExecEnd, WaitReturn; one record per
   successful Start holding that run's context, watcher, loop, workers and job goroutines);
   d = (BlockingExecution, WorkerLimit), any value. *)
From Coq Require Import ZArith List Bool.
Require Import QzLoop.Gen.Params QzLoop.LoopModel QzLoop.LoopProofs QzLoop.Restart QzLoop.RestartProofs QzLoop.Retry QzLoop.Dispatch QzLoop.Lifecycle QzLoop.LifecycleProofs.
Import ListNotations.
Open Scope nat_scope.
Open Scope list_scope.

Theorem C10_start_stop_idempotent : forall d s s1,
  (lstep (code_lcfg d) s LStart = Some s1 -> lstep (code_lcfg d) s1 LStart = Some s1) /\
  (lstep (code_lcfg d) s LStop = Some s1 -> lstep (code_lcfg d) s1 LStop = Some s1).
Proof. exact start_stop_idempotent. Qed.
Print Assumptions C10_start_stop_idempotent.

(* l_want is a ghost: true iff the last of {Start that started, Stop, cancellation of the current run's
   context} was the Start (C10_want_semantics).  IsStarted equals it whenever the current run's watcher
   has no wake-up pending; while one is pending the ghost already says "stopped". *)
Theorem C10_want_semantics : forall d s l s', lstep (code_lcfg d) s l = Some s' ->
  l_want s' = match l with
              | LStart => if l_started s then l_want s else true
              | LStop => false
              | CtxCancel r => if r =? l_run s then false else l_want s
              | _ => l_want s end.
Proof. exact want_semantics. Qed.
Print Assumptions C10_want_semantics.

Theorem C10_is_started_tracks : forall d tr s, lrun (code_lcfg d) linit tr = Some s -> ~ wake_pending s -> l_started s = l_want s.
Proof. exact is_started_tracks. Qed.
Print Assumptions C10_is_started_tracks.

Theorem C10_pending_wake_means_cancelled : forall d tr s, lrun (code_lcfg d) linit tr = Some s -> wake_pending s -> l_want s = false.
Proof. exact pending_wake_means_cancelled. Qed.
Print Assumptions C10_pending_wake_means_cancelled.

(* restart: a Start that starts yields a started run with a live context, and from any reachable state
   with a started run and a live context only Stop or the cancellation of THAT run's context clears
   `started` or cancels that context (no watcher of an earlier run does) *)
Theorem C10_start_gives_live_run : forall d s s', l_started s = false -> lstep (code_lcfg d) s LStart = Some s' ->
  l_started s' = true /\ l_run s' = S (l_run s) /\ cur_done s' = Some false.
Proof. exact start_gives_live_run. Qed.
Print Assumptions C10_start_gives_live_run.

Theorem C10_restart_stays_started : forall d tr s l s', lrun (code_lcfg d) linit tr = Some s ->
  l_started s = true -> cur_done s = Some false -> lstep (code_lcfg d) s l = Some s' ->
  l_started s' = false \/ option_map r_done (find_rec (l_run s) (l_runs s')) <> Some false ->
  l = LStop \/ l = CtxCancel (l_run s).
Proof. exact restart_stays_started. Qed.
Print Assumptions C10_restart_stays_started.

(* sensitivity: the scheduler before the fix of S2 (watcher calls Stop()) is refuted by
   Start, Stop, Start, WatcherWake 1; the current one keeps run 2 started *)
Theorem C10_ex_prefix_stale_watcher_kills_restart : exists s,
  lrun (prefix_lcfg (mkd false 0)) linit [LStart; LStop; LStart; WatcherWake 1] = Some s /\
  l_run s = 2 /\ l_started s = false /\ l_want s = true /\ cur_done s = Some true.
Proof. exact ex_prefix_stale_watcher_kills_restart. Qed.
Print Assumptions C10_ex_prefix_stale_watcher_kills_restart.

Theorem C10_ex_fixed_restart_survives : exists s,
  lrun (code_lcfg (mkd false 0)) linit [LStart; LStop; LStart; WatcherWake 1] = Some s /\
  l_run s = 2 /\ l_started s = true /\ l_want s = true /\ cur_done s = Some false /\ ~ wake_pending s.
Proof. exact ex_fixed_restart_survives. Qed.
Print Assumptions C10_ex_fixed_restart_survives.

(* cancelling the context of the current run, then its watcher, gives the same state as Stop, then the watcher *)
Theorem C10_cancel_equiv_stop : forall d s, l_started s = true -> l_cancel_of s = l_run s ->
  lrun (code_lcfg d) s [CtxCancel (l_run s); WatcherWake (l_run s)] = lrun (code_lcfg d) s [LStop; WatcherWake (l_run s)].
Proof. exact cancel_equiv_stop. Qed.
Print Assumptions C10_cancel_equiv_stop.

Theorem C10_ex_cancel_equiv_stop : exists s s',
  lrun (code_lcfg (mkd false 2)) linit [LStart; ExecStart 1 (Some 0)] = Some s /\ l_started s = true /\ l_cancel_of s = l_run s /\
  lrun (code_lcfg (mkd false 2)) s [LStop; WatcherWake (l_run s)] = Some s' /\ l_started s' = false /\ cur_done s' = Some true.
Proof. exact ex_cancel_equiv_stop. Qed.
Print Assumptions C10_ex_cancel_equiv_stop.

(* an execution of run x holds x's context: it is done for every run but the current one, and for all once stopped *)
Theorem C10_jobs_see_cancel : forall d tr s x, lrun (code_lcfg d) linit tr = Some s -> In x (l_runs s) ->
  r_id x < l_run s \/ l_started s = false -> r_done x = true.
Proof. exact jobs_see_cancel. Qed.
Print Assumptions C10_jobs_see_cancel.

Theorem C10_stop_cancels_all : forall d tr s s' x, lrun (code_lcfg d) linit tr = Some s -> lstep (code_lcfg d) s LStop = Some s' ->
  In x (l_runs s') -> r_done x = true.
Proof. exact stop_cancels_all. Qed.
Print Assumptions C10_stop_cancels_all.

(* quiescent s: every run's loop has returned, all its workers have returned, no job goroutine is left *)
Theorem C10_wait_means_quiescent : forall d tr s, lrun (code_lcfg d) linit tr = Some s ->
  (exists s', lstep (code_lcfg d) s WaitReturn = Some s') ->
  l_wg s = 0 /\ quiescent s /\
  forall tr2 s2, Forall (fun l => is_start l = false) tr2 -> lrun (code_lcfg d) s tr2 = Some s2 ->
    quiescent s2 /\ Forall (fun l => is_exec_start l = false) tr2.
Proof. exact wait_means_quiescent. Qed.
Print Assumptions C10_wait_means_quiescent.

Theorem C10_ex_wait_after_stop : exists s,
  lrun (code_lcfg (mkd false 2)) linit
       [LStart; ExecStart 1 (Some 0); LStop; LoopExit 1; WorkerExit 1 1; WatcherWake 1; ExecEnd 1 (Some 0); WorkerExit 1 0; WaitReturn] = Some s /\
  l_wg s = 0 /\ l_started s = false.
Proof. exact ex_wait_after_stop. Qed.
Print Assumptions C10_ex_wait_after_stop.

Theorem C10_ex_wait_blocked_while_job_runs :
  lrun (code_lcfg (mkd false 0)) linit [LStart; ExecStart 1 None; LStop; LoopExit 1; WaitReturn] = None /\
  exists s, lrun (code_lcfg (mkd false 0)) linit [LStart; ExecStart 1 None; LStop; LoopExit 1; ExecEnd 1 None; WaitReturn] = Some s.
Proof. exact ex_wait_blocked_while_job_runs. Qed.
Print Assumptions C10_ex_wait_blocked_while_job_runs.

Theorem C10_ex_is_started_tracks_cancel : exists s,
  lrun (code_lcfg (mkd true 0)) linit [LStart; CtxCancel 1; WatcherWake 1] = Some s /\ l_started s = false /\ l_want s = false /\ ~ wake_pending s.
Proof. exact ex_is_started_tracks_cancel. Qed.
Print Assumptions C10_ex_is_started_tracks_cancel.

(* restart_fires: after Stop(); Start(), with the loop of the stopped run possibly still alive, the new
   run's loop keeps the no-lost-wake-up invariant (so C05_due_head_enables_loop's argument applies to it)
   and the stopped run's loop never dequeues a job (Restart.v; the code before c87a9a8 is refuted in C05.v) *)
Theorem C10_restart_fires : forall drain ri q0 tok0 o0 tr s, lpc o0 <> PFetch -> new_nofault tr ->
  run2 (code_cfg drain ri) (stale_cfg drain ri) (init2 q0 tok0 o0) tr = Some s ->
  (parked (nw s) -> armed (nw s) = true /\ (q (nw s) <> [] -> (dl (nw s) <= Z.max (armed_at (nw s)) (minp (q (nw s))))%Z)) /\
  lpc (od s) <> PFetch /\ pops (od s) = pops o0.
Proof. exact restart_fires. Qed.
Print Assumptions C10_restart_fires.

(* each run hands its jobs over on its own channel (fix 4ef8ad4): the label "worker i of run rw takes the job
   that the loop of another run r hands over" is never enabled; a hand-over of run r is taken by a worker of
   run r (which holds run r's context).  The code with one channel for all runs is refuted: the stopped run's
   worker takes run 2's job and runs it with run 1's cancelled context. *)
Theorem C10_job_runs_in_its_own_run : forall d s r rw i, lstep (code_lcfg d) s (StaleTake r rw i) = None.
Proof. exact job_runs_in_its_own_run. Qed.
Print Assumptions C10_job_runs_in_its_own_run.

Theorem C10_handover_taken_by_own_worker : forall d s r i s', lstep (code_lcfg d) s (ExecStart r (Some i)) = Some s' ->
  exists x, find_rec r (l_runs s) = Some x /\ r_lp x = LpIdle /\ nth i (r_wk x) WkExited = WkIdle /\
            l_runs s' = upd_rec r (set_wk (updw i WkExec (r_wk x))) (l_runs s).
Proof. exact handover_taken_by_own_worker. Qed.
Print Assumptions C10_handover_taken_by_own_worker.

Theorem C10_ex_shared_channel_stale_worker : exists s s' x,
  lrun (shared_lcfg (mkd false 1)) linit [LStart; ExecStart 1 (Some 0); LStop; LStart; ExecEnd 1 (Some 0)] = Some s /\
  l_started s = true /\ l_run s = 2 /\
  lstep (shared_lcfg (mkd false 1)) s (StaleTake 2 1 0) = Some s' /\
  find_rec 1 (l_runs s') = Some x /\ r_done x = true /\ r_wk x = [WkExec].
Proof. exact ex_shared_channel_stale_worker. Qed.
Print Assumptions C10_ex_shared_channel_stale_worker.

Theorem C10_ex_per_run_channel_same_trace : exists s s',
  lrun (code_lcfg (mkd false 1)) linit [LStart; ExecStart 1 (Some 0); LStop; LStart; ExecEnd 1 (Some 0)] = Some s /\
  lstep (code_lcfg (mkd false 1)) s (StaleTake 2 1 0) = None /\
  lstep (code_lcfg (mkd false 1)) s (ExecStart 2 (Some 0)) = Some s' /\ cur_done s' = Some false.
Proof. exact ex_per_run_channel_same_trace. Qed.
Print Assumptions C10_ex_per_run_channel_same_trace.

(* structural facts of Wait read from the source on every run (Gen/Params.v): it waits for the counter, it
   gives up when the caller's context ends, and it starts no goroutine: a Wait that timed out leaves nothing
   behind that a later Start could race with (the shape before f3bea02 is rejected here) *)
Theorem C10_wait_leaves_nothing_behind : wait_waits_wg = true /\ wait_selects_ctx = true /\ wait_leaves_no_goroutine = true.
Proof. exact wait_shape. Qed.
Print Assumptions C10_wait_leaves_nothing_behind.
