(* C12 -- execution modes bound concurrency as configured and keep jobs independent.
   Only the property theorems; proofs in DispatchProofs.v.  Model: Dispatch.v (the three-way switch of
   executeAndReschedule, the pool of startWorkers, job goroutines); c = (BlockingExecution, WorkerLimit);
   d_inflight counts ExecStart minus ExecEnd. *)
From Coq Require Import ZArith List Bool.
Require Import QzLoop.Gen.Params QzLoop.LoopModel QzLoop.Retry QzLoop.Dispatch QzLoop.DispatchProofs.
Import ListNotations.
Open Scope Z_scope.
Open Scope list_scope.

Theorem C12_inflight_bounded : forall c tr s, drun c (dinit c) tr = Some s ->
  (d_blocking c = true -> (d_inflight s <= 1)%nat) /\
  (d_blocking c = false -> 0 < d_limit c -> Z.of_nat (d_inflight s) <= d_limit c).
Proof. exact inflight_bounded. Qed.
Print Assumptions C12_inflight_bounded.

(* for every n > 0 the pool of WorkerLimit = n reaches n executions in flight (n independent takers) *)
Theorem C12_n_parallel_reachable : forall n, (0 < n)%nat ->
  let c := mkd false (Z.of_nat n) in
  exists s, drun c (dinit c) (fill_pool n) = Some s /\ d_inflight s = n /\ d_due s = O /\ busy (d_workers s) = n.
Proof. exact n_parallel_reachable. Qed.
Print Assumptions C12_n_parallel_reachable.

(* ... and still does after any number of executions that ended in a panic, in whichever workers (each is
   recovered inside the worker's loop): the pool does not shrink, the loop is not left blocked in a hand-over *)
Theorem C12_n_parallel_after_panics : forall n ws, (0 < n)%nat -> Forall (fun i => (i < n)%nat) ws ->
  let c := mkd false (Z.of_nat n) in
  exists s, drun c (dinit c) (panic_rounds ws ++ fill_pool n) = Some s /\ d_inflight s = n /\ d_due s = O /\
            busy (d_workers s) = n /\ d_lpc s = LIdle /\ d_crashed s = false.
Proof. exact n_parallel_after_panics. Qed.
Print Assumptions C12_n_parallel_after_panics.

(* unbounded mode: unbounded c := d_blocking c = false /\ (0 <? d_limit c) = false.
   (a) whether a loop label is enabled depends on the loop's pc, the number of due entries and nothing else;
   (b) the loop is never in a blocking pc;  (c) a due entry reaches ExecStart within 3 labels
   (2 if the loop already holds it), with the loop free again after the second, whatever is running. *)
Theorem C12_loop_guards_ignore_inflight : forall c s s' l, loop_dlabel l = true ->
  d_lpc s = d_lpc s' -> d_due s = d_due s' -> d_crashed s = d_crashed s' ->
  (dstep c s l = None <-> dstep c s' l = None).
Proof. exact loop_guards_ignore_inflight. Qed.
Print Assumptions C12_loop_guards_ignore_inflight.

Theorem C12_unbounded_loop_never_blocked : forall c tr s, unbounded c -> drun c (dinit c) tr = Some s ->
  d_lpc s = LIdle \/ d_lpc s = LHolding.
Proof. exact unbounded_loop_never_blocked. Qed.
Print Assumptions C12_unbounded_loop_never_blocked.

Theorem C12_unbounded_never_blocks_loop : forall c tr s, unbounded c -> drun c (dinit c) tr = Some s ->
  (d_lpc s = LIdle -> (0 < d_due s)%nat ->
     exists s1 s2 s3, dstep c s DFetch = Some s1 /\ dstep c s1 DDispatch = Some s2 /\ dstep c s2 GoStart = Some s3 /\
       d_lpc s2 = LIdle /\ d_inflight s3 = S (d_inflight s) /\ d_wg s3 = S (d_wg s)) /\
  (d_lpc s = LHolding ->
     exists s2 s3, dstep c s DDispatch = Some s2 /\ dstep c s2 GoStart = Some s3 /\
       d_lpc s2 = LIdle /\ d_inflight s3 = S (d_inflight s) /\ d_wg s3 = S (d_wg s)).
Proof. exact unbounded_due_reaches_exec. Qed.
Print Assumptions C12_unbounded_never_blocks_loop.

(* non-vacuity *)
Theorem C12_ex_pool_of_three : exists s,
  drun (mkd false 3) (dinit (mkd false 3)) (fill_pool 3) = Some s /\ d_inflight s = 3%nat /\ d_lpc s = LIdle.
Proof. exact ex_pool_of_three. Qed.
Print Assumptions C12_ex_pool_of_three.

Theorem C12_ex_pool_full_blocks_loop : exists s,
  drun (mkd false 2) (dinit (mkd false 2)) (MakeDue 3 :: fill_from 0 2 ++ [DFetch; DDispatch]) = Some s /\
  d_lpc s = LSending /\ d_inflight s = 2%nat /\ dstep (mkd false 2) s (WorkerTake 0) = None /\ dstep (mkd false 2) s (WorkerTake 1) = None.
Proof. exact ex_pool_full_blocks_loop. Qed.
Print Assumptions C12_ex_pool_full_blocks_loop.

Theorem C12_ex_unbounded_long_job_does_not_block : exists s,
  drun (mkd false 0) (dinit (mkd false 0)) [MakeDue 1; DFetch; DDispatch; GoStart; MakeDue 2; DFetch; DDispatch; GoStart; DFetch; DDispatch; GoStart] = Some s /\
  d_inflight s = 3%nat /\ d_lpc s = LIdle /\ d_wg s = 4%nat.
Proof. exact ex_unbounded_long_job_does_not_block. Qed.
Print Assumptions C12_ex_unbounded_long_job_does_not_block.

Theorem C12_ex_blocking_one_at_a_time : exists s,
  drun (mkd true 5) (dinit (mkd true 5)) [MakeDue 2; DFetch; DDispatch] = Some s /\ d_lpc s = LExec /\ d_inflight s = 1%nat /\
  dstep (mkd true 5) s DFetch = None /\ d_workers s = [].
Proof. exact ex_blocking_one_at_a_time. Qed.
Print Assumptions C12_ex_blocking_one_at_a_time.
