(* Two execution loops on one scheduler: after Stop(); Start() the loop of the stopped run may still be
   alive (it was inside a blocking job or a slow queue call) next to the loop of the new run.  They share
   the queue, the clock and the ONE interrupt channel; each has its own timer and program counter.
   Both run the same code (LoopModel.step); the old loop's context is cancelled (c_ctxdone).
   Definitions only. *)
From Coq Require Import ZArith List Bool Lia.
Require Import QzLoop.Gen.Params QzLoop.LoopModel.
Import ListNotations.
Open Scope Z_scope.
Open Scope list_scope.

Record st2 := mk2 { nw : st; od : st }.   (* the new run's loop, the stopped run's loop *)

(* copy the shared part (queue, token, clock, API calls half-way) *)
Definition share (from to : st) : st :=
  set_q (q from) (set_tok (tok from) (set_now (now from) (set_pend (pend from) to))).

Inductive label2 := New (l : label) | Old (l : label).

(* the stopped run's loop only makes its own moves; API calls and the clock are the New labels *)
Definition old_label_ok (l : label) : bool := loop_label l || match l with TimerFire => true | _ => false end.

Definition step2 (cn co : cfg) (s : st2) (l : label2) : option st2 :=
  match l with
  | New l => match step cn (nw s) l with Some n' => Some (mk2 n' (share n' (od s))) | None => None end
  | Old l => if old_label_ok l
             then match step co (od s) l with Some o' => Some (mk2 (share o' (nw s)) o') | None => None end
             else None
  end.

Fixpoint run2 (cn co : cfg) (s : st2) (tr : list label2) : option st2 :=
  match tr with [] => Some s | l :: tr' => match step2 cn co s l with Some s' => run2 cn co s' tr' | None => None end end.

(* just after Stop(); Start(): the new loop is about to call Size(); the old loop is anywhere (o0) *)
Definition init2 (q0 : list Z) (tok0 : bool) (o0 : st) : st2 := mk2 (init q0 tok0) (share (init q0 tok0) o0).

Definition new_nofault (tr : list label2) : Prop :=
  Forall (fun l => match l with New l' => label_faults l' = false | Old _ => True end) tr.
