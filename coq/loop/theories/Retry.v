(* Model of StdScheduler.executeWithRetries (quartz/scheduler.go).  Definitions only.

   The job is a scripted stream of attempt outcomes; each retry wait is a select between the
   RetryInterval timer and ctx.Done, whose winner is supplied by a second stream (the environment
   decides when the context is cancelled and how late a tick is noticed).  The loop header
   `for i := retry_loop_init; i <retry_loop_cmp> MaxRetries; i++` comes from Gen/Params.v. *)
From Coq Require Import ZArith List Bool Lia.
Require Import QzLoop.Gen.Params QzLoop.LoopModel.
Import ListNotations.
Open Scope Z_scope.
Open Scope list_scope.

Inductive outc := AOk | AFail | APanic.                 (* what job.Execute does on one attempt *)
Inductive wsel := WTimer (lag : Z) | WDone (after : Z).  (* the select: tick noticed `lag` late / ctx.Done after `after` *)

Inductive ev :=
| EvAttempt (k : nat) (start stop : Z) (o : outc)       (* k-th call of Execute (0 = the first) *)
| EvWait (k : nat) (from to : Z) (timer_won : bool).    (* k-th wait of the retry loop *)

Record rstate := mkr {
  r_now : Z;
  r_att : nat;          (* calls of Execute so far *)
  r_waits : nat;        (* waits so far *)
  r_log : list ev;      (* newest first *)
}.

Inductive rfinal :=
| RReturned (err : bool)     (* normal return; err: the last attempt failed *)
| RRecovered                 (* a panic was caught by the deferred recover: the function returns normally *)
| RCrashed                   (* a panic left the function: the goroutine dies *)
| RFuelOut.                  (* model error: recursion fuel exhausted (proved unreachable) *)

Section Retry.
Variable outs : nat -> outc.      (* outcome of the k-th attempt *)
Variable durs : nat -> Z.         (* how long the k-th attempt runs *)
Variable ws : nat -> wsel.        (* outcome of the k-th wait *)
Variable maxr : Z.                (* JobDetailOptions.MaxRetries *)
Variable ri : Z.                  (* JobDetailOptions.RetryInterval *)

Definition attempt (s : rstate) : rstate * outc :=
  let k := r_att s in
  let stop := r_now s + Z.max 0 (durs k) in
  (mkr stop (S k) (r_waits s) (EvAttempt k (r_now s) stop (outs k) :: r_log s), outs k).

(* a panic unwinds to the deferred recover if there is one *)
Definition on_panic : rfinal := if retry_recover_deferred_first then RRecovered else RCrashed.

Fixpoint retry_loop (fuel : nat) (i : Z) (s : rstate) : rstate * rfinal :=
  match fuel with
  | O => (s, RFuelOut)
  | S f =>
      if cmp retry_loop_cmp i maxr then
        let w := r_waits s in
        match (if retry_wait_selects_done then ws w else match ws w with WDone a => WTimer a | x => x end) with
        | WDone a =>
            let t := r_now s + Z.max 0 a in
            let s1 := mkr t (r_att s) (S w) (EvWait w (r_now s) t false :: r_log s) in
            if retry_done_breaks_loop then (s1, RReturned true) else
            (* the loop would go on to the next attempt *)
            let '(s2, o) := attempt s1 in
            match o with APanic => (s2, on_panic) | AOk => if retry_breaks_on_success then (s2, RReturned false) else retry_loop f (i + 1) s2
                       | AFail => retry_loop f (i + 1) s2 end
        | WTimer lag =>
            let t := r_now s + (if retry_waits_interval_timer then Z.max 0 ri else 0) + Z.max 0 lag in
            let s1 := mkr t (r_att s) (S w) (EvWait w (r_now s) t true :: r_log s) in
            let '(s2, o) := attempt s1 in
            match o with
            | APanic => (s2, on_panic)
            | AOk => if retry_breaks_on_success then (s2, RReturned false) else retry_loop f (i + 1) s2
            | AFail => retry_loop f (i + 1) s2
            end
        end
      else (s, RReturned true)
  end.

Definition retry_fuel : nat := S (S (Z.to_nat (Z.max 0 maxr))).

Definition execute_with_retries (t0 : Z) : rstate * rfinal :=
  let '(s1, o) := attempt (mkr t0 O O []) in
  match o with
  | APanic => (s1, on_panic)
  | AOk => if retry_first_attempt_returns_on_success then (s1, RReturned false) else retry_loop retry_fuel retry_loop_init s1
  | AFail => retry_loop retry_fuel retry_loop_init s1
  end.

(* the same function with the recursion fuel chosen by the caller: RetryProofs.ewr_fuel_eq shows that whenever
   it does not run out of fuel it IS execute_with_retries.  Used to evaluate the model for MaxRetries at the
   ends of the int range (retry_fuel is a unary number of the size of MaxRetries). *)
Definition execute_with_retries_fuel (fuel : nat) (t0 : Z) : rstate * rfinal :=
  let '(s1, o) := attempt (mkr t0 O O []) in
  match o with
  | APanic => (s1, on_panic)
  | AOk => if retry_first_attempt_returns_on_success then (s1, RReturned false) else retry_loop fuel retry_loop_init s1
  | AFail => retry_loop fuel retry_loop_init s1
  end.

End Retry.

(* specification side *)
(* number of leading AFail outcomes from position k, capped at n *)
Fixpoint lead_fails (outs : nat -> outc) (k n : nat) : nat :=
  match n with O => O | S n' => match outs k with AFail => S (lead_fails outs (S k) n') | _ => O end end.
(* number of leading timer wins from wait k, capped at n *)
Fixpoint lead_timers (ws : nat -> wsel) (k n : nat) : nat :=
  match n with O => O | S n' => match ws k with WTimer _ => S (lead_timers ws (S k) n') | _ => O end end.

Definition budget (maxr : Z) : nat := Z.to_nat (Z.max 0 maxr).
