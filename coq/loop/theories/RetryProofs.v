(* Proofs about Retry.v (C13). *)
From Coq Require Import ZArith List Bool Lia.
Require Import QzLoop.Gen.Params QzLoop.LoopModel QzLoop.Retry.
Import ListNotations.
Open Scope Z_scope.
Open Scope list_scope.

Section P.
Variable outs : nat -> outc.
Variable durs : nat -> Z.
Variable ws : nat -> wsel.
Variable maxr : Z.
Variable ri : Z.

Notation attempt := (attempt outs durs).
Notation retry_loop := (retry_loop outs durs ws maxr ri).

(* the loop as the source has it now: this is where Gen/Params.v enters the proofs *)
Lemma retry_loop_eq : forall f i s,
  retry_loop (S f) i s =
  if i <=? maxr then
    match ws (r_waits s) with
    | WDone a => (mkr (r_now s + Z.max 0 a) (r_att s) (S (r_waits s))
                      (EvWait (r_waits s) (r_now s) (r_now s + Z.max 0 a) false :: r_log s), RReturned true)
    | WTimer lag =>
        let t := r_now s + Z.max 0 ri + Z.max 0 lag in
        let s1 := mkr t (r_att s) (S (r_waits s)) (EvWait (r_waits s) (r_now s) t true :: r_log s) in
        match snd (attempt s1) with
        | APanic => (fst (attempt s1), RRecovered)
        | AOk => (fst (attempt s1), RReturned false)
        | AFail => retry_loop f (i + 1) (fst (attempt s1))
        end
    end
  else (s, RReturned true).
Proof.
  intros f i s. cbn [Retry.retry_loop]. unfold retry_loop_cmp, retry_wait_selects_done, retry_done_breaks_loop,
    retry_waits_interval_timer, retry_breaks_on_success, on_panic, retry_recover_deferred_first. cbn [cmp].
  destruct (i <=? maxr); [|reflexivity]. destruct (ws (r_waits s)); [|reflexivity].
  cbv zeta. destruct (Retry.attempt outs durs _) as [s2 o] eqn:E. cbn [fst snd]. destruct o; reflexivity.
Qed.

Lemma ewr_eq : forall t0,
  execute_with_retries outs durs ws maxr ri t0 =
  match snd (attempt (mkr t0 O O [])) with
  | APanic => (fst (attempt (mkr t0 O O [])), RRecovered)
  | AOk => (fst (attempt (mkr t0 O O [])), RReturned false)
  | AFail => retry_loop (retry_fuel maxr) 1 (fst (attempt (mkr t0 O O [])))
  end.
Proof.
  intros t0. unfold execute_with_retries, on_panic, retry_recover_deferred_first, retry_first_attempt_returns_on_success, retry_loop_init.
  destruct (Retry.attempt outs durs _) as [s1 o]. cbn [fst snd]. destruct o; reflexivity.
Qed.

Lemma attempt_fst : forall s, fst (attempt s) =
  mkr (r_now s + Z.max 0 (durs (r_att s))) (S (r_att s)) (r_waits s)
      (EvAttempt (r_att s) (r_now s) (r_now s + Z.max 0 (durs (r_att s))) (outs (r_att s)) :: r_log s).
Proof. reflexivity. Qed.
Lemma attempt_snd : forall s, snd (attempt s) = outs (r_att s).
Proof. reflexivity. Qed.

Definition rem (i : Z) : nat := Z.to_nat (maxr + 1 - i).   (* iterations left when the counter is i *)

Lemma rem_step : forall i, i <= maxr -> rem i = S (rem (i + 1)).
Proof. intros i H. unfold rem. rewrite <- Z2Nat.inj_succ by lia. f_equal. lia. Qed.
Lemma rem_zero : forall i, maxr < i -> rem i = O.
Proof. intros i H. unfold rem. destruct (maxr + 1 - i) eqn:E; try reflexivity. lia. Qed.

(* ---- the function returns: no fuel exhaustion, no escaping panic ---- *)
Lemma loop_final : forall f i s s' fin, (rem i < f)%nat -> retry_loop f i s = (s', fin) ->
  fin <> RFuelOut /\ fin <> RCrashed.
Proof.
  induction f as [|f IH]; intros i s s' fin Hf Hr; [lia|]. rewrite retry_loop_eq in Hr.
  destruct (i <=? maxr) eqn:E; [|injection Hr as <- <-; split; discriminate]. apply Z.leb_le in E.
  destruct (ws (r_waits s)); [|injection Hr as <- <-; split; discriminate]. cbv zeta in Hr.
  destruct (snd (attempt _)); try (injection Hr as <- <-; split; discriminate).
  eapply IH; [|exact Hr]. rewrite (rem_step i E) in Hf. lia.
Qed.

(* ---- the result does not depend on the fuel once there is enough of it ---- *)
Lemma retry_loop_mono : forall f i s s' fin, retry_loop f i s = (s', fin) -> fin <> RFuelOut ->
  forall g, (f <= g)%nat -> retry_loop g i s = (s', fin).
Proof.
  induction f as [|f IH]; intros i s s' fin Hr Hn g Hg.
  - cbn in Hr. injection Hr as <- <-. congruence.
  - destruct g as [|g]; [lia|]. rewrite retry_loop_eq in *.
    destruct (i <=? maxr); [|exact Hr]. destruct (ws (r_waits s)); [|exact Hr]. cbv zeta in *.
    destruct (snd (attempt _)); try exact Hr. apply (IH _ _ _ _ Hr Hn). lia.
Qed.

(* ---- attempt count ---- *)
Lemma loop_count_exact : forall f i s s' fin p,
  (rem i < f)%nat -> retry_loop f i s = (s', fin) ->
  (forall k, outs k <> APanic) -> (forall k, exists lag, ws k = WTimer lag) ->
  r_att s = S p -> outs p = AFail ->
  r_att s' = (S p + lead_fails outs p (rem i))%nat.
Proof.
  induction f as [|f IH]; intros i s s' fin p Hf Hr Hnp Hnt Hatt Hp; [lia|]. rewrite retry_loop_eq in Hr.
  destruct (i <=? maxr) eqn:E.
  - apply Z.leb_le in E. rewrite (rem_step i E) in *. destruct (Hnt (r_waits s)) as [lag Hw]. rewrite Hw in Hr. cbv zeta in Hr.
    rewrite attempt_snd, attempt_fst in Hr. cbn [r_att r_now r_waits r_log] in Hr. rewrite Hatt in Hr. cbn [lead_fails]. rewrite Hp.
    destruct (outs (S p)) eqn:Eo.
    + injection Hr as <- <-. cbn [r_att]. destruct (rem (i + 1)); cbn [lead_fails]; rewrite ?Eo; lia.
    + rewrite (IH (i + 1) _ _ _ (S p) ltac:(lia) Hr Hnp Hnt eq_refl Eo). lia.
    + exfalso. exact (Hnp _ Eo).
  - apply Z.leb_gt in E. rewrite (rem_zero i E). injection Hr as <- <-. cbn [lead_fails]. lia.
Qed.

Lemma loop_count_le : forall f i s s' fin p,
  (rem i < f)%nat -> retry_loop f i s = (s', fin) -> r_att s = S p -> outs p = AFail ->
  (r_att s' <= S p + lead_fails outs p (rem i))%nat /\
  (r_att s' <= S p + lead_timers ws (r_waits s) (rem i))%nat /\ (S p <= r_att s')%nat.
Proof.
  induction f as [|f IH]; intros i s s' fin p Hf Hr Hatt Hp; [lia|]. rewrite retry_loop_eq in Hr.
  destruct (i <=? maxr) eqn:E.
  - apply Z.leb_le in E. rewrite (rem_step i E) in *. cbn [lead_fails lead_timers]. rewrite Hp.
    destruct (ws (r_waits s)) eqn:Hw; [|injection Hr as <- <-; cbn [r_att]; lia]. cbv zeta in Hr.
    rewrite attempt_snd, attempt_fst in Hr. cbn [r_att r_now r_waits r_log] in Hr. rewrite Hatt in Hr.
    destruct (outs (S p)) eqn:Eo; try (injection Hr as <- <-; cbn [r_att]; lia).
    destruct (IH (i + 1) _ _ _ (S p) ltac:(lia) Hr eq_refl Eo) as (H1 & H2 & H3). cbn [r_waits] in H2. lia.
  - injection Hr as <- <-. lia.
Qed.

(* ---- the event log ---- *)
Definition att_bound (s : rstate) : Prop :=
  forall k st sp o, In (EvAttempt k st sp o) (r_log s) -> (k < r_att s)%nat /\ sp <= r_now s.
Definition spaced (l : list ev) : Prop :=
  forall k s1 e1 o1 s2 e2 o2, In (EvAttempt k s1 e1 o1) l -> In (EvAttempt (S k) s2 e2 o2) l -> e1 + ri <= s2.
Definition no_done (l : list ev) : Prop := forall w a b, ~ In (EvWait w a b false) l.
Definition all_failed (l : list ev) : Prop := forall k a b o, In (EvAttempt k a b o) l -> o = AFail.
Definition timer_waits_ok (l : list ev) : Prop := forall w a b, In (EvWait w a b true) l -> a + ri <= b.

Definition loop_pre (s : rstate) : Prop :=
  att_bound s /\ spaced (r_log s) /\ no_done (r_log s) /\ all_failed (r_log s) /\ timer_waits_ok (r_log s).

Definition final_ok (s' : rstate) (fin : rfinal) : Prop :=
  att_bound s' /\ spaced (r_log s') /\ timer_waits_ok (r_log s') /\
  match fin with
  | RReturned true => all_failed (r_log s') /\
      (no_done (r_log s') \/ exists w a b rest, r_log s' = EvWait w a b false :: rest /\ no_done rest)
  | RReturned false => exists k a b rest, r_log s' = EvAttempt k a b AOk :: rest /\ all_failed rest /\ no_done rest
  | RRecovered => exists k a b rest, r_log s' = EvAttempt k a b APanic :: rest /\ all_failed rest /\ no_done rest
  | _ => False
  end.

Lemma after_wait_attempt : forall s lag,
  loop_pre s ->
  let t := r_now s + Z.max 0 ri + Z.max 0 lag in
  let s1 := mkr t (r_att s) (S (r_waits s)) (EvWait (r_waits s) (r_now s) t true :: r_log s) in
  let s2 := fst (attempt s1) in
  att_bound s2 /\ spaced (r_log s2) /\ timer_waits_ok (r_log s2) /\
  (exists a b, r_log s2 = EvAttempt (r_att s) a b (outs (r_att s)) :: EvWait (r_waits s) (r_now s) t true :: r_log s) /\
  all_failed (EvWait (r_waits s) (r_now s) t true :: r_log s) /\ no_done (EvWait (r_waits s) (r_now s) t true :: r_log s).
Proof.
  intros s lag (Hb & Hs & Hd & Hf & Hw) t s1 s2. subst s2. rewrite attempt_fst. subst s1. cbn [r_now r_att r_waits r_log].
  split; [|split; [|split; [|split; [|split]]]].
  - intros k st sp o [E|[E|H]]; cbn [r_att r_now]; try discriminate.
    + injection E as <- <- <- <-. lia.
    + destruct (Hb _ _ _ _ H). lia.
  - intros k s1 e1 o1 s2 e2 o2 [E1|[E1|H1]] [E2|[E2|H2]]; try discriminate.
    + injection E1 as <- <- <- <-. injection E2 as E _ _ _. lia.
    + injection E1 as <- <- <- <-. destruct (Hb _ _ _ _ H2). lia.
    + injection E2 as E <- <- <-. destruct (Hb _ _ _ _ H1). subst t. lia.
    + exact (Hs _ _ _ _ _ _ _ H1 H2).
  - intros w a b [E|[E|H]]; try discriminate.
    + injection E as _ <- <-. subst t. lia.
    + exact (Hw _ _ _ H).
  - eexists. eexists. reflexivity.
  - intros k a b o [E|H]; [discriminate|exact (Hf _ _ _ _ H)].
  - intros w a b [E|H]; [discriminate|exact (Hd _ _ _ H)].
Qed.

Lemma loop_log : forall f i s s' fin, (rem i < f)%nat -> retry_loop f i s = (s', fin) -> loop_pre s -> final_ok s' fin.
Proof.
  induction f as [|f IH]; intros i s s' fin Hf Hr Hpre; [lia|]. rewrite retry_loop_eq in Hr.
  destruct (i <=? maxr) eqn:E.
  2:{ injection Hr as <- <-. destruct Hpre as (Hb & Hs & Hd & Hfl & Hw). unfold final_ok. split; [exact Hb|]. split; [exact Hs|]. split; [exact Hw|]. split; [exact Hfl|left; exact Hd]. }
  apply Z.leb_le in E. rewrite (rem_step i E) in Hf.
  destruct (ws (r_waits s)) as [lag|a] eqn:Hws.
  - cbv zeta in Hr. destruct (after_wait_attempt s lag Hpre) as (Hb2 & Hs2 & Hw2 & (a & b & Hlog) & Hf1 & Hd1).
    cbv zeta in Hb2, Hs2, Hw2, Hlog. rewrite attempt_snd in Hr. cbn [r_att] in Hr.
    destruct (outs (r_att s)) eqn:Eo.
    + injection Hr as <- <-. unfold final_ok. split; [exact Hb2|]. split; [exact Hs2|]. split; [exact Hw2|]. do 4 eexists. split; [exact Hlog|]. split; assumption.
    + eapply IH; [|exact Hr|]; [lia|]. unfold loop_pre. split; [exact Hb2|]. split; [exact Hs2|]. split; [|split; [|exact Hw2]].
      * rewrite Hlog. intros w x y [H|H]; [discriminate|exact (Hd1 _ _ _ H)].
      * rewrite Hlog. intros k x y o [H|H]; [injection H as _ _ _ <-; reflexivity|exact (Hf1 _ _ _ _ H)].
    + injection Hr as <- <-. unfold final_ok. split; [exact Hb2|]. split; [exact Hs2|]. split; [exact Hw2|]. do 4 eexists. split; [exact Hlog|]. split; assumption.
  - injection Hr as <- <-. destruct Hpre as (Hb & Hs & Hd & Hfl & Hw). unfold final_ok. cbn [r_log r_att r_now].
    split; [|split; [|split; [|split]]].
    + intros k st sp o [H|H]; [discriminate|]. destruct (Hb _ _ _ _ H). cbn [r_att r_now]. lia.
    + intros k s1 e1 o1 s2 e2 o2 [H1|H1] [H2|H2]; try discriminate. exact (Hs _ _ _ _ _ _ _ H1 H2).
    + intros w x y [H|H]; [discriminate|exact (Hw _ _ _ H)].
    + intros k x y o [H|H]; [discriminate|exact (Hfl _ _ _ _ H)].
    + right. do 4 eexists. split; [reflexivity|exact Hd].
Qed.

Lemma fuel_enough : (rem 1 < retry_fuel maxr)%nat.
Proof. unfold rem, retry_fuel. destruct (Z.max_spec 0 maxr) as [[H ->]|[H ->]]; lia. Qed.

Lemma rem_one : rem 1 = budget maxr.
Proof. unfold rem, budget. replace (maxr + 1 - 1) with maxr by lia. destruct (Z.max_spec 0 maxr) as [[H ->]|[H ->]]; [reflexivity|]. destruct maxr; try lia; reflexivity. Qed.

(* ================= the C13 statements ================= *)
Definition attempts (r : rstate * rfinal) : nat := r_att (fst r).

Lemma first_state_pre : forall t0, outs O = AFail -> loop_pre (fst (attempt (mkr t0 O O []))).
Proof.
  intros t0 H0. rewrite attempt_fst. cbn [r_now r_att r_waits r_log]. unfold loop_pre. split; [|split; [|split; [|split]]].
  - intros k st sp o [E|[]]. injection E as <- <- <- <-. cbn [r_att r_now]. lia.
  - intros k s1 e1 o1 s2 e2 o2 [E1|[]] [E2|[]]. injection E1 as <- _ _ _. injection E2 as E _ _ _. lia.
  - intros w a b [E|[]]. discriminate.
  - intros k a b o [E|[]]. injection E as _ _ _ <-. exact H0.
  - intros w a b [E|[]]. discriminate.
Qed.

Lemma ewr_returns : forall t0, let r := execute_with_retries outs durs ws maxr ri t0 in
  snd r <> RFuelOut /\ snd r <> RCrashed.
Proof.
  intros t0 r. subst r. rewrite ewr_eq, attempt_snd. cbn [r_att]. destruct (outs O); cbn [snd]; try (split; discriminate).
  destruct (retry_loop _ _ _) as [s' fin] eqn:E. cbn [snd]. exact (loop_final _ _ _ _ _ fuel_enough E).
Qed.

Lemma ewr_fuel_eq : forall fuel t0,
  snd (execute_with_retries_fuel outs durs ws maxr ri fuel t0) <> RFuelOut ->
  execute_with_retries_fuel outs durs ws maxr ri fuel t0 = execute_with_retries outs durs ws maxr ri t0.
Proof.
  intros fuel t0. rewrite ewr_eq. unfold execute_with_retries_fuel, on_panic, retry_recover_deferred_first,
    retry_first_attempt_returns_on_success, retry_loop_init.
  destruct (Retry.attempt outs durs _) as [s1 o]. cbn [fst snd]. destruct o; try reflexivity.
  destruct (retry_loop fuel 1 s1) as [s' fin] eqn:E. cbn [snd]. intros Hn.
  destruct (Nat.le_gt_cases fuel (retry_fuel maxr)) as [Hle|Hgt].
  - symmetry. exact (retry_loop_mono _ _ _ _ _ E Hn _ Hle).
  - destruct (retry_loop (retry_fuel maxr) 1 s1) as [s2 fin2] eqn:E2.
    destruct (loop_final _ _ _ _ _ fuel_enough E2) as [Hf _].
    rewrite (retry_loop_mono _ _ _ _ _ E2 Hf fuel ltac:(lia)) in E. symmetry. exact E.
Qed.

Lemma attempt_count : forall t0,
  (forall k, outs k <> APanic) -> (forall k, exists lag, ws k = WTimer lag) ->
  attempts (execute_with_retries outs durs ws maxr ri t0) = (1 + lead_fails outs O (budget maxr))%nat.
Proof.
  intros t0 Hnp Hnt. unfold attempts. rewrite ewr_eq, attempt_snd. cbn [r_att].
  destruct (outs O) eqn:E0.
  - cbn [fst]. rewrite attempt_fst. cbn [r_att]. destruct (budget maxr); cbn [lead_fails]; rewrite ?E0; reflexivity.
  - destruct (retry_loop _ _ _) as [s' fin] eqn:E. cbn [fst].
    rewrite (loop_count_exact _ _ _ _ _ O fuel_enough E Hnp Hnt eq_refl E0), rem_one. reflexivity.
  - exfalso. exact (Hnp _ E0).
Qed.

(* with cancellation and panics: never more attempts than that, never more than the waits the timer won *)
Lemma attempt_count_le : forall t0,
  (attempts (execute_with_retries outs durs ws maxr ri t0) <= 1 + lead_fails outs O (budget maxr))%nat /\
  (attempts (execute_with_retries outs durs ws maxr ri t0) <= 1 + lead_timers ws O (budget maxr))%nat /\
  (1 <= attempts (execute_with_retries outs durs ws maxr ri t0))%nat.
Proof.
  intros t0. unfold attempts. rewrite ewr_eq, attempt_snd. cbn [r_att].
  destruct (outs O) eqn:E0; try (cbn [fst]; rewrite attempt_fst; cbn [r_att]; lia).
  destruct (retry_loop _ _ _) as [s' fin] eqn:E. cbn [fst].
  destruct (loop_count_le _ _ _ _ _ O fuel_enough E eq_refl E0) as (H1 & H2 & H3). rewrite rem_one in *.
  rewrite attempt_fst in H2. cbn [r_waits] in H2. lia.
Qed.

(* the log of the whole call *)
Lemma ewr_log : forall t0, let r := execute_with_retries outs durs ws maxr ri t0 in final_ok (fst r) (snd r).
Proof.
  intros t0 r. subst r. rewrite ewr_eq, attempt_snd. cbn [r_att].
  destruct (outs O) eqn:E0.
  - cbn [fst snd]. rewrite attempt_fst. cbn [r_att r_now r_waits r_log]. rewrite E0. unfold final_ok. cbn [r_log r_att r_now].
    split; [|split; [|split]].
    + intros k st sp o [E|[]]. injection E as <- <- <- <-. cbn [r_att r_now]. lia.
    + intros k s1 e1 o1 s2 e2 o2 [E1|[]] [E2|[]]. injection E1 as <- _ _ _. injection E2 as E _ _ _. lia.
    + intros w a b [E|[]]. discriminate.
    + do 4 eexists. split; [reflexivity|]. split; [intros ? ? ? ? []|intros ? ? ? []].
  - destruct (retry_loop _ _ _) as [s' fin] eqn:E. cbn [fst snd].
    exact (loop_log _ _ _ _ _ fuel_enough E (first_state_pre t0 E0)).
  - cbn [fst snd]. rewrite attempt_fst. cbn [r_att r_now r_waits r_log]. rewrite E0. unfold final_ok. cbn [r_log r_att r_now].
    split; [|split; [|split]].
    + intros k st sp o [E|[]]. injection E as <- <- <- <-. cbn [r_att r_now]. lia.
    + intros k s1 e1 o1 s2 e2 o2 [E1|[]] [E2|[]]. injection E1 as <- _ _ _. injection E2 as E _ _ _. lia.
    + intros w a b [E|[]]. discriminate.
    + do 4 eexists. split; [reflexivity|]. split; [intros ? ? ? ? []|intros ? ? ? []].
Qed.

Lemma retry_spacing : forall t0 k s1 e1 o1 s2 e2 o2,
  let l := r_log (fst (execute_with_retries outs durs ws maxr ri t0)) in
  In (EvAttempt k s1 e1 o1) l -> In (EvAttempt (S k) s2 e2 o2) l -> e1 + ri <= s2.
Proof. intros t0 k s1 e1 o1 s2 e2 o2 l. destruct (ewr_log t0) as (_ & Hs & _). exact (Hs k s1 e1 o1 s2 e2 o2). Qed.

Lemma timer_wait_lasts_interval : forall t0 w a b,
  In (EvWait w a b true) (r_log (fst (execute_with_retries outs durs ws maxr ri t0))) -> a + ri <= b.
Proof. intros t0 w a b. destruct (ewr_log t0) as (_ & _ & Hw & _). exact (Hw w a b). Qed.

(* once a wait has been ended by ctx.Done nothing else happens: it is the newest event and the call returns *)
Lemma no_attempt_after_cancel : forall t0 w a b,
  let r := execute_with_retries outs durs ws maxr ri t0 in
  In (EvWait w a b false) (r_log (fst r)) ->
  (exists rest, r_log (fst r) = EvWait w a b false :: rest) /\ snd r = RReturned true.
Proof.
  intros t0 w a b r Hin. destruct (ewr_log t0) as (_ & _ & _ & Hm). fold r in Hm.
  destruct (snd r) as [[|]| | |] eqn:Ef; try contradiction.
  - destruct Hm as (_ & [Hn|(w' & a' & b' & rest & Hl & Hn)]); [exfalso; exact (Hn _ _ _ Hin)|].
    rewrite Hl in Hin. destruct Hin as [E|Hin]; [|exfalso; exact (Hn _ _ _ Hin)]. injection E as <- <- <-. split; [eauto|reflexivity].
  - destruct Hm as (k & a' & b' & rest & Hl & _ & Hn). rewrite Hl in Hin. destruct Hin as [E|Hin]; [discriminate|exfalso; exact (Hn _ _ _ Hin)].
  - destruct Hm as (k & a' & b' & rest & Hl & _ & Hn). rewrite Hl in Hin. destruct Hin as [E|Hin]; [discriminate|exfalso; exact (Hn _ _ _ Hin)].
Qed.

(* a panic on any attempt: the call returns (recovered), that attempt is the newest event, all earlier attempts failed *)
Lemma panic_contained_fn : forall t0 k a b,
  let r := execute_with_retries outs durs ws maxr ri t0 in
  snd r <> RCrashed /\ snd r <> RFuelOut /\
  (In (EvAttempt k a b APanic) (r_log (fst r)) ->
     (exists rest, r_log (fst r) = EvAttempt k a b APanic :: rest /\ all_failed rest) /\ snd r = RRecovered).
Proof.
  intros t0 k a b r. destruct (ewr_returns t0) as [R1 R2]. fold r in R1, R2. split; [exact R2|]. split; [exact R1|].
  intros Hin. destruct (ewr_log t0) as (_ & _ & _ & Hm). fold r in Hm.
  destruct (snd r) as [[|]| | |] eqn:Ef; try contradiction.
  - destruct Hm as (Hf & _). specialize (Hf _ _ _ _ Hin). discriminate.
  - destruct Hm as (k' & a' & b' & rest & Hl & Hf & _). rewrite Hl in Hin. destruct Hin as [E|Hin]; [discriminate|].
    specialize (Hf _ _ _ _ Hin). discriminate.
  - destruct Hm as (k' & a' & b' & rest & Hl & Hf & _). rewrite Hl in Hin. destruct Hin as [E|Hin].
    + injection E as <- <- <-. split; [eauto|reflexivity].
    + specialize (Hf _ _ _ _ Hin). discriminate.
Qed.
End P.

(* 1 + min(max 0 MaxRetries, failures before the first success) *)
Lemma lead_fails_min : forall outs f n, (forall j, (j < f)%nat -> outs j = AFail) -> outs f <> AFail ->
  lead_fails outs O n = Nat.min n f.
Proof.
  intros outs f n. assert (G : forall k m, (forall j, (k <= j < k + m)%nat -> outs j = AFail) -> outs (k + m)%nat <> AFail ->
    forall n, lead_fails outs k n = Nat.min n m).
  { intros k m. revert k. induction m as [|m IH]; intros k Hf Hs n0.
    - rewrite Nat.add_0_r in Hs. destruct n0; cbn [lead_fails]; [reflexivity|]. destruct (outs k); try reflexivity. congruence.
    - destruct n0; cbn [lead_fails]; [reflexivity|]. rewrite (Hf k) by lia. rewrite (IH (S k)); [reflexivity| |].
      + intros j Hj. apply Hf. lia. + replace (S k + m)%nat with (k + S m)%nat by lia. exact Hs. }
  intros Hf Hs. apply (G O f); [intros j Hj; apply Hf; lia|exact Hs].
Qed.

Lemma lead_fails_all : forall outs n, (forall j, outs j = AFail) -> lead_fails outs O n = n.
Proof. intros outs n H. generalize O. induction n as [|n IH]; intros k; cbn [lead_fails]; [reflexivity|]. rewrite H, IH. reflexivity. Qed.

Lemma attempt_count_formula : forall outs durs ws maxr ri t0 f,
  (forall k, outs k <> APanic) -> (forall k, exists lag, ws k = WTimer lag) ->
  (forall j, (j < f)%nat -> outs j = AFail) -> outs f = AOk ->
  Z.of_nat (attempts (execute_with_retries outs durs ws maxr ri t0)) = 1 + Z.min (Z.max 0 maxr) (Z.of_nat f).
Proof.
  intros outs durs ws maxr ri t0 f Hnp Hnt Hf Hs. rewrite (attempt_count outs durs ws maxr ri t0 Hnp Hnt).
  rewrite (lead_fails_min outs f (budget maxr) Hf) by congruence. unfold budget. lia.
Qed.

Lemma attempt_count_always_failing : forall outs durs ws maxr ri t0,
  (forall k, outs k = AFail) -> (forall k, exists lag, ws k = WTimer lag) ->
  Z.of_nat (attempts (execute_with_retries outs durs ws maxr ri t0)) = 1 + Z.max 0 maxr.
Proof.
  intros outs durs ws maxr ri t0 Hf Hnt. rewrite (attempt_count outs durs ws maxr ri t0); [|intros k; rewrite Hf; discriminate|exact Hnt].
  rewrite (lead_fails_all outs _ Hf). unfold budget. lia.
Qed.

(* examples *)
Definition script (l : list outc) (k : nat) : outc := nth k l AFail.
Definition all_timer (k : nat) : wsel := WTimer 0.

(* MaxRetries at the ends of Go's int: "retry until it succeeds" and the most negative value *)
Definition max_int : Z := 9223372036854775807.
Definition min_int : Z := -9223372036854775808.
Lemma attempt_count_int_extremes : forall durs ri t0,
  attempts (execute_with_retries (script [AFail; AFail; AOk]) durs all_timer max_int ri t0) = 3%nat /\
  attempts (execute_with_retries (script [AFail; AFail; AOk]) durs all_timer (max_int - 1) ri t0) = 3%nat /\
  attempts (execute_with_retries (script [AFail; AFail; AOk]) durs all_timer min_int ri t0) = 1%nat.
Proof.
  intros durs ri t0.
  assert (Hnp : forall k, script [AFail; AFail; AOk] k <> APanic).
  { intros k. do 4 (destruct k as [|k]; [cbn; discriminate|]). unfold script. cbn. destruct k; discriminate. }
  assert (Hnt : forall k, exists lag, all_timer k = WTimer lag) by (intros k; exists 0; reflexivity).
  assert (Hf : forall j, (j < 2)%nat -> script [AFail; AFail; AOk] j = AFail).
  { intros j Hj. destruct j as [|[|j]]; [reflexivity|reflexivity|lia]. }
  assert (G : forall m, Z.of_nat (attempts (execute_with_retries (script [AFail; AFail; AOk]) durs all_timer m ri t0)) = 1 + Z.min (Z.max 0 m) 2).
  { intros m. exact (attempt_count_formula _ durs all_timer m ri t0 2%nat Hnp Hnt Hf eq_refl). }
  repeat split; apply Nat2Z.inj; rewrite G; unfold max_int, min_int; lia.
Qed.
Definition cancel_at (n : nat) (k : nat) : wsel := if Nat.eqb k n then WDone 3 else WTimer 1.

Example ex_retry_three_fails_then_ok :
  let r := execute_with_retries (script [AFail; AFail; AFail; AOk]) (fun _ => 2) all_timer 7 10 100 in
  attempts r = 4%nat /\ snd r = RReturned false /\
  r_log (fst r) = [EvAttempt 3 136 138 AOk; EvWait 2 126 136 true; EvAttempt 2 124 126 AFail; EvWait 1 114 124 true;
                   EvAttempt 1 112 114 AFail; EvWait 0 102 112 true; EvAttempt 0 100 102 AFail].
Proof. vm_compute. repeat split. Qed.

Example ex_retry_budget_and_negative :
  attempts (execute_with_retries (script []) (fun _ => 0) all_timer 2 10 0) = 3%nat /\
  attempts (execute_with_retries (script []) (fun _ => 0) all_timer 0 10 0) = 1%nat /\
  attempts (execute_with_retries (script []) (fun _ => 0) all_timer (-1) 10 0) = 1%nat.
Proof. vm_compute. repeat split. Qed.

Example ex_retry_cancel_and_panic :
  (let r := execute_with_retries (script []) (fun _ => 1) (cancel_at 1) 5 10 0 in
   attempts r = 2%nat /\ snd r = RReturned true /\ hd_error (r_log (fst r)) = Some (EvWait 1 13 16 false)) /\
  (let r := execute_with_retries (script [AFail; APanic; AOk]) (fun _ => 1) all_timer 5 10 0 in
   attempts r = 2%nat /\ snd r = RRecovered /\ hd_error (r_log (fst r)) = Some (EvAttempt 1 11 12 APanic)).
Proof. vm_compute. repeat split. Qed.
