(* Proofs about LoopModel.v: the no-lost-wake-up invariant (C05) and the fault properties (C15). *)
From Coq Require Import ZArith List Bool Lia String.
Require Import QzLoop.Gen.Params QzLoop.LoopModel.
Import ListNotations.
Open Scope Z_scope.
Open Scope list_scope.

Ltac red_st := cbn [q tok armed dl armed_at chan now lpc pend ff cur stale clean narm lf_size lf_head lf_pop pops disps
  set_q set_tok set_armed set_dl set_armed_at set_chan set_now set_lpc set_pend set_ff set_cur set_stale set_clean
  set_narm set_lf_size set_lf_head set_lf_pop set_pops set_disps].
Ltac red_st_in H := cbn [q tok armed dl armed_at chan now lpc pend ff cur stale clean narm lf_size lf_head lf_pop pops disps
  set_q set_tok set_armed set_dl set_armed_at set_chan set_now set_lpc set_pend set_ff set_cur set_stale set_clean
  set_narm set_lf_size set_lf_head set_lf_pop set_pops set_disps] in H.

(* ---- lists ---- *)
Lemma minp_le : forall l x, In x l -> minp l <= x.
Proof.
  unfold minp. intros l x H. generalize (hd 0 l). induction l as [|y t IH]; intros d; [destruct H|].
  cbn [fold_right]. destruct H as [<-|H]; [lia|]. specialize (IH H d). lia.
Qed.
Lemma minp_in : forall l, l <> [] -> In (minp l) l.
Proof.
  unfold minp. intros l H. destruct l as [|a t]; [congruence|]. cbn [hd]. clear H.
  assert (G : forall t d, fold_right Z.min d t = d \/ In (fold_right Z.min d t) t).
  { induction t0 as [|y t0 IH]; intros d; cbn [fold_right]; [auto|].
    destruct (IH d) as [E|E]; destruct (Z.min_spec y (fold_right Z.min d t0)) as [[_ M]|[_ M]]; rewrite M.
    - right; left; reflexivity. - rewrite E; auto. - right; left; reflexivity. - right; right; exact E. }
  cbn [fold_right]. destruct (G t a) as [E|E]; destruct (Z.min_spec a (fold_right Z.min a t)) as [[_ M]|[_ M]]; rewrite M.
  - left; reflexivity. - rewrite E; left; reflexivity. - left; reflexivity. - right; exact E.
Qed.
Lemma subset_in : forall a b x, subset a b = true -> In x a -> In x b.
Proof.
  unfold subset. intros a b x H Hx. rewrite forallb_forall in H. specialize (H x Hx).
  apply existsb_exists in H. destruct H as (y & Hy & E). apply Z.eqb_eq in E. subst. exact Hy.
Qed.
Lemma subset_minp : forall a b, subset a b = true -> a <> [] -> minp b <= minp a.
Proof. intros a b H Ha. apply minp_le. eapply subset_in; [exact H|]. apply minp_in; exact Ha. Qed.
Lemma subset_nil : forall a, subset a [] = true -> a = [].
Proof. intros [|x a] H; [reflexivity|]. cbn in H. discriminate. Qed.

Definition expected_arm (e f z : bool) : arm_timer :=
  if e then TRetryInterval else if f then TRetryInterval else if z then TMaxDuration else TNextTick.

Lemma run_app : forall c tr1 tr2 s, run c s (tr1 ++ tr2) = match run c s tr1 with Some s1 => run c s1 tr2 | None => None end.
Proof. induction tr1 as [|l tr1 IH]; intros tr2 s; cbn [run app]; [reflexivity|]. destruct (step c s l); [apply IH|reflexivity]. Qed.

Lemma run_inv : forall c (P : st -> Prop), (forall s l s', P s -> step c s l = Some s' -> P s') ->
  forall tr s s', P s -> run c s tr = Some s' -> P s'.
Proof.
  intros c P Hstep. induction tr as [|l tr IH]; cbn [run]; intros s s' H0 Hr.
  - injection Hr as <-. exact H0.
  - destruct (step c s l) eqn:E; [|discriminate]. eapply IH; [eapply Hstep; eauto|exact Hr].
Qed.

Section Good.
Variable c : cfg.
Hypothesis Hsw : forall e f z, select_arm (c_sw c) e f z = Some (expected_arm e f z).
Hypothesis Hcap : (1 <=? c_cap c) = true.
Hypothesis Hte : c_tick_empty c = TZero.
Hypothesis Hterr : c_tick_err c = TRetryInterval.
Hypothesis Hcmp : c_tick_cmp c = OpGt.
Hypothesis Hclr : c_clears_ff c = true.
Hypothesis Hsets : c_sets_ff c = true.
Hypothesis Hfetch : c_tick_fetches c = true.
Hypothesis Hrec : c_tok_recomputes c = true.
Hypothesis Hctx : c_ctxdone c = false.
Hypothesis Hnb : c_reset_nb c = true.

Definition InvA (s : st) : Prop :=
  armed_at s <= now s /\
  (parked s -> clean s = true -> armed s = true /\ (q s <> [] -> dl s <= Z.max (armed_at s) (minp (q s)))) /\
  (lpc s = PSelect -> armed s = true \/ chan s = true) /\
  (stale s = true -> chan s = true).

Lemma delay_nonneg : forall o, 0 <= delay_of o.
Proof. destruct o; cbn; lia. Qed.

Ltac unpark := let H := fresh in intros H; unfold parked in H; red_st_in H; destruct H as (? & ? & ? & ?); try discriminate; try congruence.
Ltac unparkH := match goal with H : parked _ |- _ => unfold parked in H; red_st_in H; destruct H as (? & ? & ? & ?) end.
Ltac fin := repeat split; red_st; auto; try lia; try discriminate; try (unpark; fail);
            try (unparkH; try discriminate; try congruence; fail).

Lemma send_tok_eq : forall s, send_tok c s = set_tok true s.
Proof. intros s. unfold send_tok. rewrite Hnb, Hcap. reflexivity. Qed.

Lemma invA_step : forall s l s', InvA s -> step c s l = Some s' -> InvA s'.
Proof.
  intros s l s' (I1 & I2 & I3 & I4) Hs. destruct l; cbn [step] in Hs.
  - (* Adv *) destruct (0 <=? dt) eqn:E; [|discriminate]. injection Hs as <-. apply Z.leb_le in E.
    unfold InvA, adv, parked in *. red_st. repeat split; try tauto; try lia; apply I2; tauto.
  - (* TimerFire *) destruct (armed s && (dl s <=? now s)); [|discriminate]. injection Hs as <-.
    unfold InvA. fin.
  - (* LoopSize *) destruct (lpc s) eqn:Epc; try discriminate. rewrite Hsw in Hs.
    pose proof (delay_nonneg o) as Hd.
    unfold expected_arm in Hs. destruct (failed o) eqn:Ef; [|destruct (ff s) eqn:Eff; [|destruct (is_nil (q s)) eqn:En]];
      injection Hs as <-; unfold InvA, arm, adv, dur; rewrite ?Hclr; destruct (c_drain c); fin.
    + destruct (q s); [congruence|discriminate].
    + destruct (q s); [congruence|discriminate].
  - (* LoopTick *) destruct (lpc s) eqn:Epc; try discriminate. pose proof (delay_nonneg o) as Hd.
    destruct (failed o) eqn:Ef.
    + injection Hs as <-. unfold InvA, arm, adv, dur. rewrite ?Hclr. destruct (c_drain c); fin.
    + destruct (q s) eqn:Eq; injection Hs as <-; unfold InvA, arm, adv, dur; rewrite ?Hclr, ?Hte, ?Hcmp; destruct (c_drain c); fin;
      try congruence;
      (intros _; rewrite Eq; cbn [cmp]; (destruct (now s + delay_of o <? minp (z :: l)) eqn:E;
           [apply Z.ltb_lt in E|apply Z.ltb_ge in E]); lia).
  - (* SelTick *) destruct (lpc s) eqn:Epc; try discriminate. destruct (chan s) eqn:Ec; [|discriminate]. rewrite Hctx in Hs. cbn [andb] in Hs. injection Hs as <-.
    rewrite Hfetch. unfold InvA, clear_lf. destruct (stale s); fin.
  - (* SelTok *) destruct (lpc s) eqn:Epc; try discriminate. destruct (tok s) eqn:Et; [|discriminate]. rewrite Hctx in Hs. cbn [andb] in Hs. injection Hs as <-.
    unfold InvA, take_token, clear_lf. rewrite Hrec. destruct (c_drain c); fin.
  - (* SelDone *) destruct (lpc s) eqn:Epc; try discriminate. rewrite Hctx in Hs. discriminate.
  - (* LoopFetch *) destruct (lpc s) eqn:Epc; try discriminate. pose proof (delay_nonneg po) as Hd. pose proof (delay_nonneg pusho) as Hd2.
    destruct (failed po).
    { injection Hs as <-. unfold InvA, adv. fin. }
    destruct (q s) eqn:Eq.
    { injection Hs as <-. unfold InvA, adv. fin. }
    injection Hs as <-. destruct resched as [p'|]; [destruct (failed pusho)|]; destruct valid; destruct (c_fetch_resets c);
      rewrite ?send_tok_eq; unfold InvA, adv; fin.
  - (* LoopDispatched *) destruct (lpc s) eqn:Epc; try discriminate. injection Hs as <-. unfold InvA. fin.
  - (* ApiMutate *) injection Hs as <-. unfold InvA. fin.
  - (* ApiToken *) destruct (pend s) eqn:Ep; [discriminate|]. injection Hs as <-. rewrite send_tok_eq. unfold InvA. fin.
  - (* ApiLose *) destruct (subset q' (q s)) eqn:Esub; [|discriminate]. injection Hs as <-.
    unfold InvA. red_st. repeat split; auto.
    + unfold parked in *. red_st_in H. tauto.
    + intros Hq'. unfold parked in *. red_st_in H. destruct (I2 H H0) as [_ Hdl].
      assert (q s <> []) as Hq by (intros E; rewrite E in Esub; apply subset_nil in Esub; contradiction).
      specialize (Hdl Hq). pose proof (subset_minp _ _ Esub Hq'). lia.
Qed.

(* ---- C15: the loop does not retry a failing queue faster than RetryInterval ---- *)
Definition wait_ok (t : Z) (s : st) : Prop :=
  stale s = true \/ (chan s = false /\ armed s = true /\ t + c_ri c <= dl s).
Definition lfok (o : option Z) (extra : Prop) (s : st) : Prop :=
  forall t, o = Some t -> t <= now s /\ (t + c_ri c <= now s \/ extra \/ (lpc s = PSelect /\ wait_ok t s)).
Definition InvB (s : st) : Prop :=
  (stale s = true -> chan s = true) /\
  lfok (lf_size s) False s /\ lfok (lf_head s) False s /\ lfok (lf_pop s) (lpc s = PSize /\ ff s = true) s.

Ltac lfintro := let t := fresh "t" in let H := fresh "Hlf" in intros t H; red_st_in H; red_st.

Lemma lfok_mono : forall o extra extra' s s',
  lfok o extra s -> now s <= now s' ->
  (forall t, o = Some t -> t + c_ri c <= now s \/ extra \/ (lpc s = PSelect /\ wait_ok t s) ->
             t + c_ri c <= now s' \/ extra' \/ (lpc s' = PSelect /\ wait_ok t s')) ->
  lfok o extra' s'.
Proof. intros o e e' s s' H Hn Hx t Ht. destruct (H t Ht) as [H1 H2]. split; [lia|]. apply Hx; auto. Qed.

Ltac split3 := split; [|split].
Lemma invB_step : forall s l s', InvB s -> step c s l = Some s' -> InvB s'.
Proof.
  intros s l s' (I4 & BS & BH & BP) Hs. destruct l; cbn [step] in Hs.
  - (* Adv *) destruct (0 <=? dt) eqn:E; [|discriminate]. injection Hs as <-. apply Z.leb_le in E.
    unfold InvB, adv. red_st. split; [exact I4|].
    split3; (eapply lfok_mono; [eassumption|red_st; lia|]); intros t _ H; red_st; unfold wait_ok in *; red_st;
      (destruct H as [H|[H|H]]; [left; lia|auto|auto]).
  - (* TimerFire *) destruct (armed s && (dl s <=? now s)) eqn:E; [|discriminate]. injection Hs as <-.
    apply andb_true_iff in E. destruct E as [Ea Ed]. apply Z.leb_le in Ed.
    unfold InvB. red_st. split; [auto|].
    split3; (eapply lfok_mono; [eassumption|red_st; lia|]); intros t _ H; red_st; unfold wait_ok in *; red_st;
      (destruct H as [H|[H|(H1 & [H2|(H2 & H3 & H4)])]]; [left; lia|auto|auto|left; lia]).
  - (* LoopSize *) destruct (lpc s) eqn:Epc; try discriminate. rewrite Hsw in Hs.
    pose proof (delay_nonneg o) as Hd.
    assert (NS : forall o' e, lfok o' e s -> forall t, o' = Some t -> t <= now s /\ (t + c_ri c <= now s \/ e)).
    { intros o' e H t Ht. destruct (H t Ht) as [H1 [H2|[H2|[H2 _]]]]; auto; congruence. }
    unfold expected_arm in Hs. destruct (failed o) eqn:Ef; [|destruct (ff s) eqn:Eff; [|destruct (is_nil (q s)) eqn:En]];
      injection Hs as <-; unfold InvB, arm, adv, dur; rewrite ?Hclr; red_st.
    + split; [auto|]. split3; lfintro; unfold wait_ok; red_st.
      * injection Hlf as <-. split; [lia|]. right; right. split; auto. destruct (c_drain c); [right; split3; auto; lia|].
        destruct (chan s); [left; auto|right; split3; auto; lia].
      * destruct (NS _ _ BH _ Hlf) as [H1 [H2|[]]]. split; [lia|left; lia].
      * destruct (NS _ _ BP _ Hlf) as [H1 H2]. split; [lia|]. right; right. split; auto.
        destruct (c_drain c); [right; split3; auto; lia|]. destruct (chan s); [left; auto|right; split3; auto; lia].
    + split; [auto|]. split3; lfintro; unfold wait_ok; red_st.
      * destruct (NS _ _ BS _ Hlf) as [H1 [H2|[]]]. split; [lia|left; lia].
      * destruct (NS _ _ BH _ Hlf) as [H1 [H2|[]]]. split; [lia|left; lia].
      * destruct (NS _ _ BP _ Hlf) as [H1 H2]. split; [lia|]. right; right. split; auto.
        destruct (c_drain c); [right; split3; auto; lia|]. destruct (chan s); [left; auto|right; split3; auto; lia].
    + split; [auto|]. split3; lfintro; unfold wait_ok; red_st.
      * destruct (NS _ _ BS _ Hlf) as [H1 [H2|[]]]. split; [lia|left; lia].
      * destruct (NS _ _ BH _ Hlf) as [H1 [H2|[]]]. split; [lia|left; lia].
      * destruct (NS _ _ BP _ Hlf) as [H1 [H2|[_ H2]]]; [|congruence]. split; [lia|left; lia].
    + split; [auto|]. split3; lfintro; unfold wait_ok; red_st.
      * destruct (NS _ _ BS _ Hlf) as [H1 [H2|[]]]. split; [lia|left; lia].
      * destruct (NS _ _ BH _ Hlf) as [H1 [H2|[]]]. split; [lia|left; lia].
      * destruct (NS _ _ BP _ Hlf) as [H1 [H2|[_ H2]]]; [|congruence]. split; [lia|left; lia].
  - (* LoopTick *) destruct (lpc s) eqn:Epc; try discriminate. pose proof (delay_nonneg o) as Hd.
    assert (NS : forall o' (e : Prop), lfok o' e s -> ~ e -> forall t, o' = Some t -> t <= now s /\ t + c_ri c <= now s).
    { intros o' e H Hne t Ht. destruct (H t Ht) as [H1 [H2|[H2|[H2 _]]]]; auto; [tauto|congruence]. }
    destruct (failed o) eqn:Ef.
    + injection Hs as <-. unfold InvB, arm, adv, dur. rewrite ?Hclr, ?Hterr. red_st. split; [auto|].
      split3; lfintro; unfold wait_ok; red_st.
      * destruct (NS _ _ BS (fun x => x) _ Hlf). split; [lia|left; lia].
      * injection Hlf as <-. split; [lia|]. right; right. split; auto. destruct (c_drain c); [right; split3; auto; lia|].
        destruct (chan s); [left; auto|right; split3; auto; lia].
      * destruct (NS _ _ BP ltac:(intros [? _]; discriminate) _ Hlf). split; [lia|left; lia].
    + destruct (q s) eqn:Eq; injection Hs as <-; unfold InvB, arm, adv, dur; rewrite ?Hclr; red_st; (split; [auto|]);
        split3; lfintro; unfold wait_ok; red_st;
        try (destruct (NS _ _ BS (fun x => x) _ Hlf); split; [lia|left; lia]);
        try (destruct (NS _ _ BH (fun x => x) _ Hlf); split; [lia|left; lia]);
        try (destruct (NS _ _ BP ltac:(intros [? _]; discriminate) _ Hlf); split; [lia|left; lia]).
  - (* SelTick *) destruct (lpc s) eqn:Epc; try discriminate. destruct (chan s) eqn:Ec; [|discriminate]. rewrite Hctx in Hs. cbn [andb] in Hs. injection Hs as <-.
    rewrite Hfetch. unfold InvB, clear_lf. destruct (stale s) eqn:Est; red_st.
    + split; [discriminate|]. split3; lfintro; discriminate.
    + split; [discriminate|].
      split3; lfintro; [destruct (BS _ Hlf) as [H1 H2]|destruct (BH _ Hlf) as [H1 H2]|destruct (BP _ Hlf) as [H1 H2]];
        (split; [lia|]); unfold wait_ok in H2;
        (destruct H2 as [H2|[H2|(_ & [H2|(H2 & _)])]]; [left; lia|try tauto; try (destruct H2; congruence)|congruence|congruence]).
  - (* SelTok *) destruct (lpc s) eqn:Epc; try discriminate. destruct (tok s) eqn:Et; [|discriminate]. rewrite Hctx in Hs. cbn [andb] in Hs. injection Hs as <-.
    unfold InvB, take_token, clear_lf. rewrite Hrec. red_st. split; [destruct (c_drain c); [discriminate|auto]|].
    split3; lfintro; discriminate.
  - (* SelDone *) destruct (lpc s) eqn:Epc; try discriminate. rewrite Hctx in Hs. discriminate.
  - (* LoopFetch *) destruct (lpc s) eqn:Epc; try discriminate. pose proof (delay_nonneg po) as Hd. pose proof (delay_nonneg pusho) as Hd2.
    assert (NS : forall o' (e : Prop), lfok o' e s -> ~ e -> forall t, o' = Some t -> t <= now s /\ t + c_ri c <= now s).
    { intros o' e H Hne t Ht. destruct (H t Ht) as [H1 [H2|[H2|[H2 _]]]]; auto; [tauto|congruence]. }
    destruct (failed po).
    { injection Hs as <-. unfold InvB, adv. rewrite Hsets. red_st. split; [auto|]. split3; lfintro.
      - destruct (NS _ _ BS (fun x => x) _ Hlf); split; [lia|left; lia].
      - destruct (NS _ _ BH (fun x => x) _ Hlf); split; [lia|left; lia].
      - injection Hlf as <-. split; [lia|]. right; left; auto. }
    destruct (q s) eqn:Eq.
    { injection Hs as <-. unfold InvB, adv. red_st. split; [auto|]. split3; lfintro.
      - destruct (NS _ _ BS (fun x => x) _ Hlf); split; [lia|left; lia].
      - destruct (NS _ _ BH (fun x => x) _ Hlf); split; [lia|left; lia].
      - destruct (NS _ _ BP ltac:(intros [? _]; discriminate) _ Hlf); split; [lia|left; lia]. }
    injection Hs as <-. destruct resched as [p'|]; [destruct (failed pusho)|]; destruct valid; destruct (c_fetch_resets c);
      rewrite ?send_tok_eq; unfold InvB, adv; red_st; (split; [auto|]); split3; lfintro;
      try (destruct (NS _ _ BS (fun x => x) _ Hlf); split; [lia|left; lia]);
      try (destruct (NS _ _ BH (fun x => x) _ Hlf); split; [lia|left; lia]);
      try (destruct (NS _ _ BP ltac:(intros [? _]; discriminate) _ Hlf); split; [lia|left; lia]).
  - (* LoopDispatched *) destruct (lpc s) eqn:Epc; try discriminate. injection Hs as <-. unfold InvB. red_st. split; [auto|].
    split3; lfintro; [destruct (BS _ Hlf) as [H1 H2]|destruct (BH _ Hlf) as [H1 H2]|destruct (BP _ Hlf) as [H1 H2]];
      (split; [lia|]); (destruct H2 as [H2|[H2|(H2 & _)]]; [left; lia|try tauto; destruct H2; congruence|congruence]).
  - (* ApiMutate *) injection Hs as <-. exact (conj I4 (conj BS (conj BH BP))).
  - (* ApiToken *) destruct (pend s) eqn:Ep; [discriminate|]. injection Hs as <-. rewrite send_tok_eq.
    exact (conj I4 (conj BS (conj BH BP))).
  - (* ApiLose *) destruct (subset q' (q s)); [|discriminate]. injection Hs as <-. exact (conj I4 (conj BS (conj BH BP))).
Qed.

(* ---- dispatches are exactly the valid pops, in order, each once ---- *)
Definition InvC (s : st) : Prop :=
  pops s = (match lpc s with PDispatch => [cur s] | _ => [] end) ++ disps s.

Lemma invC_step : forall s l s', InvC s -> step c s l = Some s' -> InvC s'.
Proof.
  unfold InvC. intros s l s' I Hs. destruct l; cbn [step] in Hs.
  - destruct (0 <=? dt); [|discriminate]. injection Hs as <-. exact I.
  - destruct (armed s && (dl s <=? now s)); [|discriminate]. injection Hs as <-. exact I.
  - destruct (lpc s) eqn:Epc; try discriminate. rewrite Hsw in Hs.
    destruct (expected_arm (failed o) (ff s) (is_nil (q s))); destruct (failed o); injection Hs as <-; unfold arm, adv; red_st; exact I.
  - destruct (lpc s) eqn:Epc; try discriminate. destruct (failed o); [|destruct (q s)]; injection Hs as <-; unfold arm, adv; red_st; exact I.
  - destruct (lpc s) eqn:Epc; try discriminate. destruct (chan s); [|discriminate]. rewrite Hctx in Hs. cbn [andb] in Hs. injection Hs as <-. rewrite Hfetch.
    unfold clear_lf. destruct (stale s); red_st; exact I.
  - destruct (lpc s) eqn:Epc; try discriminate. destruct (tok s); [|discriminate]. rewrite Hctx in Hs. cbn [andb] in Hs. injection Hs as <-.
    unfold take_token, clear_lf. rewrite Hrec. red_st. exact I.
  - destruct (lpc s) eqn:Epc; try discriminate. rewrite Hctx in Hs. discriminate.
  - destruct (lpc s) eqn:Epc; try discriminate. destruct (failed po); [injection Hs as <-; unfold adv; red_st; exact I|].
    destruct (q s); [injection Hs as <-; unfold adv; red_st; exact I|].
    injection Hs as <-. destruct resched as [p'|]; [destruct (failed pusho)|]; destruct valid; destruct (c_fetch_resets c);
      rewrite ?send_tok_eq; unfold adv; red_st; cbn [app]; cbn [app] in I; congruence.
  - destruct (lpc s) eqn:Epc; try discriminate. injection Hs as <-. red_st. cbn [app] in *. congruence.
  - injection Hs as <-. exact I.
  - destruct (pend s); [discriminate|]. injection Hs as <-. rewrite send_tok_eq. exact I.
  - destruct (subset q' (q s)); [|discriminate]. injection Hs as <-. exact I.
Qed.

(* ---- fault-free runs: fetchFailed stays false and every arming is clean ---- *)
Definition InvF (s : st) : Prop := ff s = false /\ (lpc s = PSelect -> clean s = true).

Lemma invF_step : forall s l s', label_faults l = false -> InvF s -> step c s l = Some s' -> InvF s'.
Proof.
  unfold InvF. intros s l s' Hl [F1 F2] Hs. destruct l; cbn [step] in Hs; cbn [label_faults] in Hl.
  - destruct (0 <=? dt); [|discriminate]. injection Hs as <-. auto.
  - destruct (armed s && (dl s <=? now s)); [|discriminate]. injection Hs as <-. auto.
  - destruct (lpc s) eqn:Epc; try discriminate. rewrite Hsw in Hs. destruct o; try discriminate. cbn [failed] in Hs.
    rewrite F1 in Hs. unfold expected_arm in Hs. destruct (is_nil (q s)) eqn:En; injection Hs as <-; unfold arm, adv; rewrite ?Hclr; red_st.
    + auto.
    + split; [auto|discriminate].
  - destruct (lpc s) eqn:Epc; try discriminate. destruct o; try discriminate. cbn [failed] in Hs.
    destruct (q s); injection Hs as <-; unfold arm, adv; rewrite ?Hclr; red_st; auto.
  - destruct (lpc s) eqn:Epc; try discriminate. destruct (chan s); [|discriminate]. rewrite Hctx in Hs. cbn [andb] in Hs. injection Hs as <-. rewrite Hfetch.
    unfold clear_lf. destruct (stale s); red_st; split; auto; discriminate.
  - destruct (lpc s) eqn:Epc; try discriminate. destruct (tok s); [|discriminate]. rewrite Hctx in Hs. cbn [andb] in Hs. injection Hs as <-.
    unfold take_token, clear_lf. rewrite Hrec. red_st. split; auto; discriminate.
  - destruct (lpc s) eqn:Epc; try discriminate. rewrite Hctx in Hs. discriminate.
  - destruct (lpc s) eqn:Epc; try discriminate. destruct po; try discriminate. cbn [failed] in Hs.
    destruct (q s); [injection Hs as <-; unfold adv; red_st; split; auto; discriminate|].
    destruct pusho; try discriminate. cbn [failed] in Hs.
    injection Hs as <-. destruct resched as [p'|]; destruct valid; destruct (c_fetch_resets c);
      rewrite ?send_tok_eq; unfold adv; red_st; split; auto; discriminate.
  - destruct (lpc s) eqn:Epc; try discriminate. injection Hs as <-. red_st. split; auto; discriminate.
  - injection Hs as <-. auto.
  - destruct (pend s); [discriminate|]. injection Hs as <-. rewrite send_tok_eq. auto.
  - destruct (subset q' (q s)); [|discriminate]. injection Hs as <-. auto.
Qed.

Lemma run_invF : forall tr s s', nofault tr -> InvF s -> run c s tr = Some s' -> InvF s'.
Proof.
  induction tr as [|l tr IH]; cbn [run]; intros s s' Hn H0 Hr.
  - injection Hr as <-. exact H0.
  - inversion Hn; subst. destruct (step c s l) eqn:E; [|discriminate]. eapply IH; [assumption|eapply invF_step; eauto|exact Hr].
Qed.

(* ---- recovery: after the second arming of a fault-free continuation every arming is clean ---- *)
Definition InvR (n0 : nat) (s : st) : Prop :=
  ((n0 + 1 <= narm s)%nat -> ff s = false) /\
  ((n0 + 2 <= narm s)%nat -> lpc s = PSelect -> clean s = true).

Lemma invR_step : forall n0 s l s', label_faults l = false -> InvR n0 s -> step c s l = Some s' -> InvR n0 s'.
Proof.
  unfold InvR. intros n0 s l s' Hl [R1 R2] Hs. destruct l; cbn [step] in Hs; cbn [label_faults] in Hl.
  - destruct (0 <=? dt); [|discriminate]. injection Hs as <-. auto.
  - destruct (armed s && (dl s <=? now s)); [|discriminate]. injection Hs as <-. auto.
  - destruct (lpc s) eqn:Epc; try discriminate. rewrite Hsw in Hs. destruct o; try discriminate. cbn [failed] in Hs.
    unfold expected_arm in Hs. destruct (ff s) eqn:Eff; [|destruct (is_nil (q s)) eqn:En]; injection Hs as <-; unfold arm, adv, dur; rewrite ?Hclr; red_st.
    + split; [auto|]. intros Hn _. assert (n0 + 1 <= narm s)%nat by lia. specialize (R1 H). discriminate.
    + split; auto.
    + split; [auto|discriminate].
  - destruct (lpc s) eqn:Epc; try discriminate. destruct o; try discriminate. cbn [failed] in Hs.
    destruct (q s); injection Hs as <-; unfold arm, adv; rewrite ?Hclr; red_st; auto.
  - destruct (lpc s) eqn:Epc; try discriminate. destruct (chan s); [|discriminate]. rewrite Hctx in Hs. cbn [andb] in Hs. injection Hs as <-. rewrite Hfetch.
    unfold clear_lf. destruct (stale s); red_st; split; auto; discriminate.
  - destruct (lpc s) eqn:Epc; try discriminate. destruct (tok s); [|discriminate]. rewrite Hctx in Hs. cbn [andb] in Hs. injection Hs as <-.
    unfold take_token, clear_lf. rewrite Hrec. red_st. split; auto; discriminate.
  - destruct (lpc s) eqn:Epc; try discriminate. rewrite Hctx in Hs. discriminate.
  - destruct (lpc s) eqn:Epc; try discriminate. destruct po; try discriminate. cbn [failed] in Hs.
    destruct (q s); [injection Hs as <-; unfold adv; red_st; split; auto; discriminate|].
    destruct pusho; try discriminate. cbn [failed] in Hs.
    injection Hs as <-. destruct resched as [p'|]; destruct valid; destruct (c_fetch_resets c);
      rewrite ?send_tok_eq; unfold adv; red_st; split; auto; discriminate.
  - destruct (lpc s) eqn:Epc; try discriminate. injection Hs as <-. red_st. split; auto; discriminate.
  - injection Hs as <-. auto.
  - destruct (pend s); [discriminate|]. injection Hs as <-. rewrite send_tok_eq. auto.
  - destruct (subset q' (q s)); [|discriminate]. injection Hs as <-. auto.
Qed.

Lemma run_invR : forall n0 tr s s', nofault tr -> InvR n0 s -> run c s tr = Some s' -> InvR n0 s'.
Proof.
  intros n0. induction tr as [|l tr IH]; cbn [run]; intros s s' Hn H0 Hr.
  - injection Hr as <-. exact H0.
  - inversion Hn; subst. destruct (step c s l) eqn:E; [|discriminate]. eapply IH; [assumption|eapply invR_step; eauto|exact Hr].
Qed.

Lemma invR_start : forall s, InvR (narm s) s.
Proof. intros s. split; intros; lia. Qed.
End Good.

(* ---- the configuration read from the source satisfies the hypotheses ---- *)
Definition good (c : cfg) : Prop :=
  (forall e f z, select_arm (c_sw c) e f z = Some (expected_arm e f z)) /\
  (1 <=? c_cap c) = true /\ c_tick_empty c = TZero /\ c_tick_err c = TRetryInterval /\ c_tick_cmp c = OpGt /\
  c_clears_ff c = true /\ c_sets_ff c = true /\ c_tick_fetches c = true /\ c_tok_recomputes c = true /\ c_ctxdone c = false /\ c_reset_nb c = true.

Lemma code_good : forall drain ri, good (code_cfg drain ri).
Proof.
  intros drain ri. unfold good, code_cfg. cbn [c_sw c_cap c_tick_empty c_tick_err c_tick_cmp c_clears_ff c_sets_ff c_tick_fetches c_tok_recomputes c_ctxdone c_reset_nb].
  split; [intros [] [] []; reflexivity|]. repeat split; reflexivity.
Qed.

Definition Inv (c : cfg) (s : st) : Prop := InvA s /\ InvB c s /\ InvC s.

Lemma inv_init : forall c q0 tok0, Inv c (init q0 tok0).
Proof.
  intros c q0 tok0. unfold Inv, InvA, InvB, InvC, init, parked. red_st. repeat split; try lia; try discriminate; try tauto.
  all: intros; try discriminate; try tauto.
  all: destruct H as (? & _); discriminate.
Qed.

Lemma inv_run : forall c, good c -> forall q0 tok0 tr s, run c (init q0 tok0) tr = Some s -> Inv c s.
Proof.
  intros c (G1 & G2 & G3 & G4 & G5 & G6 & G7 & G8 & G9 & G10 & G11) q0 tok0 tr s Hr.
  refine (run_inv c (Inv c) _ tr _ _ (inv_init c q0 tok0) Hr).
  intros s0 l s1 (A & B & C) Hs. split; [|split].
  - eapply invA_step; eauto.
  - eapply invB_step; eauto.
  - eapply invC_step; eauto.
Qed.

Lemma invF_init : forall q0 tok0, InvF (init q0 tok0).
Proof. intros. unfold InvF, init. red_st. split; [reflexivity|discriminate]. Qed.

(* ================= C05 ================= *)
Lemma no_lost_wakeup_general : forall c, good c -> forall q0 tok0 tr s,
  run c (init q0 tok0) tr = Some s -> parked s -> clean s = true ->
  armed s = true /\ armed_at s <= now s /\ (q s <> [] -> dl s <= Z.max (armed_at s) (minp (q s))).
Proof.
  intros c G q0 tok0 tr s Hr Hp Hc. destruct (inv_run c G _ _ _ _ Hr) as ((I1 & I2 & _) & _).
  destruct (I2 Hp Hc). auto.
Qed.

Lemma nofault_clean : forall c, good c -> forall q0 tok0 tr s, nofault tr ->
  run c (init q0 tok0) tr = Some s -> ff s = false /\ (lpc s = PSelect -> clean s = true).
Proof.
  intros c (G1 & G2 & G3 & G4 & G5 & G6 & G7 & G8 & G9 & G10 & G11) q0 tok0 tr s Hn Hr.
  exact (run_invF c G1 G2 G6 G8 G9 G10 G11 tr _ _ Hn (invF_init q0 tok0) Hr).
Qed.

Lemma no_lost_wakeup_inv : forall drain ri q0 tok0 tr s, nofault tr ->
  run (code_cfg drain ri) (init q0 tok0) tr = Some s -> parked s ->
  armed s = true /\ armed_at s <= now s /\ (q s <> [] -> dl s <= Z.max (armed_at s) (minp (q s))).
Proof.
  intros drain ri q0 tok0 tr s Hn Hr Hp. pose proof (code_good drain ri) as G.
  destruct (nofault_clean _ G _ _ _ _ Hn Hr) as [_ Hc].
  apply (no_lost_wakeup_general _ G _ _ _ _ Hr Hp). apply Hc. apply Hp.
Qed.

(* what fetchAndReschedule leaves in the queue when Pop succeeds on a non-empty queue *)
Definition after_fetch (q0 : list Z) (resched : option Z) (pusho : outcome) : list Z :=
  match resched with Some p' => if failed pusho then remove_one (minp q0) q0 else p' :: remove_one (minp q0) q0
                   | None => remove_one (minp q0) q0 end.

Lemma due_head_general : forall c, good c -> forall q0 tok0 tr s,
  run c (init q0 tok0) tr = Some s -> parked s -> clean s = true -> q s <> [] -> minp (q s) <= now s ->
  exists s1, step c s TimerFire = Some s1 /\
    (forall l s2, loop_label l = true -> step c s1 l = Some s2 -> l = SelTick) /\
    exists s2, step c s1 SelTick = Some s2 /\ lpc s2 = PFetch /\ q s2 = q s /\
      (forall l s3, loop_label l = true -> step c s2 l = Some s3 ->
         exists po valid resched pusho, l = LoopFetch po valid resched pusho /\
           (failed po = false -> q s3 = after_fetch (q s) resched pusho /\
                                 (valid = true -> lpc s3 = PDispatch /\ cur s3 = minp (q s)))) /\
      (forall po valid resched pusho, exists s3, step c s2 (LoopFetch po valid resched pusho) = Some s3).
Proof.
  intros c G q0 tok0 tr s Hr Hp Hc Hq Hdue.
  destruct (no_lost_wakeup_general c G _ _ _ _ Hr Hp Hc) as (Ha & Hat & Hd). specialize (Hd Hq).
  destruct G as (G1 & G2 & G3 & G4 & G5 & G6 & G7 & G8 & G9 & G10 & G11).
  destruct Hp as (P1 & P2 & P3 & P4).
  assert (E1 : step c s TimerFire = Some (set_armed false (set_chan true s))).
  { cbn [step]. rewrite Ha. assert (dl s <=? now s = true) as -> by (apply Z.leb_le; lia). reflexivity. }
  exists (set_armed false (set_chan true s)). split; [exact E1|]. split.
  - intros l s2 Hl Hs. destruct l; cbn [loop_label] in Hl; try discriminate; cbn [step] in Hs; red_st_in Hs; rewrite ?P1, ?P2, ?G10 in Hs; try discriminate. reflexivity.
  - remember (if stale s then clear_lf (set_armed false (set_chan true s)) else set_armed false (set_chan true s)) as sa.
    assert (Ea : lpc sa = PSelect /\ q sa = q s /\ pops sa = pops s) by (subst sa; destruct (stale s); unfold clear_lf; red_st; auto).
    destruct Ea as (Ea1 & Ea2 & Ea3).
    exists (set_lpc PFetch (set_chan false (set_stale false sa))). split.
    { cbn [step]. red_st. rewrite P1, G8, G10. subst sa. reflexivity. }
    split; [reflexivity|]. split; [red_st; exact Ea2|]. split.
    + intros l s3 Hl Hs. destruct l; cbn [loop_label] in Hl; try discriminate; cbn [step] in Hs; red_st_in Hs; try discriminate.
      exists po, valid, resched, pusho. split; [reflexivity|]. intros Hf. rewrite Hf, Ea2 in Hs.
      destruct (q s) as [|z l] eqn:Eq; [congruence|]. injection Hs as <-. unfold after_fetch.
      destruct resched as [p'|]; [destruct (failed pusho)|]; destruct valid; destruct (c_fetch_resets c); rewrite ?(send_tok_eq c G2 G11);
        unfold adv; red_st; (split; [reflexivity|]); intros; try discriminate; split; reflexivity.
    + intros po valid resched pusho. cbn [step]. red_st. destruct (failed po); [eexists; reflexivity|]. destruct (q sa); eexists; reflexivity.
Qed.

Lemma due_head_enables_loop : forall drain ri q0 tok0 tr s, nofault tr ->
  run (code_cfg drain ri) (init q0 tok0) tr = Some s -> parked s -> q s <> [] -> minp (q s) <= now s ->
  let c := code_cfg drain ri in
  exists s1, step c s TimerFire = Some s1 /\
    (forall l s2, loop_label l = true -> step c s1 l = Some s2 -> l = SelTick) /\
    exists s2, step c s1 SelTick = Some s2 /\ lpc s2 = PFetch /\ q s2 = q s /\
      (forall l s3, loop_label l = true -> step c s2 l = Some s3 ->
         exists po valid resched pusho, l = LoopFetch po valid resched pusho /\
           (failed po = false -> q s3 = after_fetch (q s) resched pusho /\
                                 (valid = true -> lpc s3 = PDispatch /\ cur s3 = minp (q s)))) /\
      (forall po valid resched pusho, exists s3, step c s2 (LoopFetch po valid resched pusho) = Some s3).
Proof.
  intros drain ri q0 tok0 tr s Hn Hr Hp Hq Hdue c. pose proof (code_good drain ri) as G.
  destruct (nofault_clean _ G _ _ _ _ Hn Hr) as [_ Hc].
  apply (due_head_general _ G _ _ _ _ Hr Hp); auto. apply Hc, Hp.
Qed.

(* a token or a pending API call always lets the loop leave the select and recompute *)
Lemma token_enables_recompute : forall drain ri s, lpc s = PSelect -> tok s = true ->
  exists s1, step (code_cfg drain ri) s SelTok = Some s1 /\ lpc s1 = PSize /\ q s1 = q s.
Proof. intros drain ri s H1 H2. cbn [step]. rewrite H1, H2. eexists. split; [reflexivity|]. unfold take_token, clear_lf. red_st. split; reflexivity. Qed.

(* ================= C15 ================= *)
Definition can_step (c : cfg) (s : st) (l : label) : Prop := exists s', step c s l = Some s'.

Lemma steps_total : forall drain ri q0 tok0 tr s, let c := code_cfg drain ri in
  run c (init q0 tok0) tr = Some s ->
  (forall q', can_step c s (ApiMutate q')) /\ (forall dt, 0 <= dt -> can_step c s (Adv dt)) /\
  match lpc s with
  | PSize => forall o, can_step c s (LoopSize o)
  | PTick => forall o, can_step c s (LoopTick o)
  | PFetch => forall po v r pu, can_step c s (LoopFetch po v r pu)
  | PDispatch => can_step c s LoopDispatched
  | PExit => True
  | PSelect => (tok s = true /\ can_step c s SelTok) \/ (chan s = true /\ can_step c s SelTick) \/
               (armed s = true /\ exists s1 s2 s3, step c s (Adv (Z.max 0 (dl s - now s))) = Some s1 /\
                                   step c s1 TimerFire = Some s2 /\ step c s2 SelTick = Some s3)
  end.
Proof.
  intros drain ri q0 tok0 tr s c Hr. subst c. pose proof (code_good drain ri) as G.
  destruct (inv_run _ G _ _ _ _ Hr) as ((_ & _ & I3 & _) & _).
  destruct G as (G1 & G2 & G3 & G4 & G5 & G6 & G7 & G8 & G9 & G10 & G11).
  split; [intros q'; eexists; reflexivity|]. split.
  { intros dt Hdt. unfold can_step. cbn [step]. apply Z.leb_le in Hdt. rewrite Hdt. eexists; reflexivity. }
  destruct (lpc s) eqn:Epc.
  - intros o. unfold can_step. cbn [step]. rewrite Epc. rewrite (G1 (failed o) (ff s) (is_nil (q s))).
    destruct (expected_arm (failed o) (ff s) (is_nil (q s))); eexists; reflexivity.
  - intros o. unfold can_step. cbn [step]. rewrite Epc. destruct (failed o); [|destruct (q s)]; eexists; reflexivity.
  - destruct (tok s) eqn:Et; [left; split; auto; unfold can_step; cbn [step]; rewrite Epc, Et; eexists; reflexivity|].
    right. destruct (chan s) eqn:Ec; [left; split; auto; unfold can_step; cbn [step]; rewrite Epc, Ec; eexists; reflexivity|].
    right. destruct (I3 eq_refl) as [Ha|Hc]; [|congruence]. split; [exact Ha|].
    assert (E0 : 0 <=? Z.max 0 (dl s - now s) = true) by (apply Z.leb_le; lia).
    eexists. eexists. eexists. cbn [step]. rewrite E0. split; [reflexivity|]. unfold adv. red_st. rewrite Ha.
    assert (dl s <=? now s + Z.max 0 (dl s - now s) = true) as -> by (apply Z.leb_le; lia). cbn [andb].
    split; [reflexivity|]. cbn [step]. red_st. rewrite Epc. reflexivity.
  - intros po v r pu. unfold can_step. cbn [step]. rewrite Epc. destruct (failed po); [|destruct (q s)]; eexists; reflexivity.
  - unfold can_step. cbn [step]. rewrite Epc. eexists; reflexivity.
  - exact I.
Qed.

Lemma retry_no_faster_than_interval : forall drain ri q0 tok0 tr s t,
  run (code_cfg drain ri) (init q0 tok0) tr = Some s ->
  (lpc s = PSize -> lf_size s = Some t -> t + ri <= now s) /\
  (lpc s = PTick -> lf_head s = Some t -> t + ri <= now s) /\
  (lpc s = PFetch -> lf_pop s = Some t -> t + ri <= now s).
Proof.
  intros drain ri q0 tok0 tr s t Hr. destruct (inv_run _ (code_good drain ri) _ _ _ _ Hr) as (_ & (_ & BS & BH & BP) & _).
  change ri with (c_ri (code_cfg drain ri)). split; [|split]; intros Hpc Hlf.
  - destruct (BS _ Hlf) as [_ [H|[[]|[H _]]]]; [exact H|congruence].
  - destruct (BH _ Hlf) as [_ [H|[[]|[H _]]]]; [exact H|congruence].
  - destruct (BP _ Hlf) as [_ [H|[[H _]|[H _]]]]; [exact H|congruence|congruence].
Qed.

(* the select that follows a failing queue call is left through the timer only after RetryInterval *)
Lemma wait_after_queue_error : forall drain ri q0 tok0 tr s t s',
  run (code_cfg drain ri) (init q0 tok0) tr = Some s ->
  lf_size s = Some t \/ lf_head s = Some t \/ lf_pop s = Some t ->
  lpc s = PSelect -> stale s = false -> step (code_cfg drain ri) s SelTick = Some s' -> t + ri <= now s.
Proof.
  intros drain ri q0 tok0 tr s t s' Hr Hlf Hpc Hst Hs.
  destruct (inv_run _ (code_good drain ri) _ _ _ _ Hr) as (_ & (_ & BS & BH & BP) & _).
  cbn [step] in Hs. rewrite Hpc in Hs. destruct (chan s) eqn:Ec; [|discriminate].
  change ri with (c_ri (code_cfg drain ri)).
  assert (W : wait_ok (code_cfg drain ri) t s -> False).
  { intros [W|(W & _)]; congruence. }
  destruct Hlf as [H|[H|H]].
  - destruct (BS _ H) as [_ [H1|[[]|[_ H1]]]]; [exact H1|tauto].
  - destruct (BH _ H) as [_ [H1|[[]|[_ H1]]]]; [exact H1|tauto].
  - destruct (BP _ H) as [_ [H1|[[H1 _]|[_ H1]]]]; [exact H1|congruence|tauto].
Qed.

Lemma no_double_exec_under_faults : forall drain ri q0 tok0 tr s,
  run (code_cfg drain ri) (init q0 tok0) tr = Some s ->
  pops s = (match lpc s with PDispatch => [cur s] | _ => [] end) ++ disps s.
Proof. intros drain ri q0 tok0 tr s Hr. destruct (inv_run _ (code_good drain ri) _ _ _ _ Hr) as (_ & _ & C). exact C. Qed.

Lemma fetch_effect : forall drain ri s po v r pu s',
  step (code_cfg drain ri) s (LoopFetch po v r pu) = Some s' ->
  (failed po = true -> lpc s' = PSize /\ q s' = q s /\ pops s' = pops s /\ disps s' = disps s /\ ff s' = true) /\
  (failed po = false -> q s <> [] ->
     q s' = after_fetch (q s) r pu /\ disps s' = disps s /\ ff s' = false /\
     (v = true -> lpc s' = PDispatch /\ cur s' = minp (q s) /\ pops s' = minp (q s) :: pops s) /\
     (v = false -> lpc s' = PSize /\ pops s' = pops s)).
Proof.
  intros drain ri s po v r pu s' Hs. cbn [step] in Hs. destruct (lpc s); try discriminate.
  destruct (failed po).
  - injection Hs as <-. split; [|discriminate]. intros _. unfold adv. red_st. repeat split; reflexivity.
  - split; [discriminate|]. intros _ Hq. destruct (q s) eqn:Eq; [congruence|]. injection Hs as <-. unfold after_fetch.
    destruct r as [p'|]; [destruct (failed pu)|]; destruct v; unfold send_tok, adv; cbn [c_fetch_resets code_cfg c_cap];
      red_st; repeat split; try reflexivity; try discriminate.
Qed.

Lemma recovery_inv : forall drain ri q0 tok0 tr1 s1 tr2 s2, let c := code_cfg drain ri in
  run c (init q0 tok0) tr1 = Some s1 -> nofault tr2 -> run c s1 tr2 = Some s2 ->
  (narm s1 + 2 <= narm s2)%nat -> parked s2 ->
  armed s2 = true /\ armed_at s2 <= now s2 /\ (q s2 <> [] -> dl s2 <= Z.max (armed_at s2) (minp (q s2))).
Proof.
  intros drain ri q0 tok0 tr1 s1 tr2 s2 c Hr1 Hn Hr2 Hnarm Hp. pose proof (code_good drain ri) as G.
  assert (Hr : run c (init q0 tok0) (tr1 ++ tr2) = Some s2) by (rewrite run_app, Hr1; exact Hr2).
  apply (no_lost_wakeup_general _ G _ _ _ _ Hr Hp).
  destruct G as (G1 & G2 & G3 & G4 & G5 & G6 & G7 & G8 & G9 & G10 & G11).
  destruct (run_invR c G1 G2 G6 G8 G9 G10 G11 (narm s1) tr2 _ _ Hn (invR_start s1) Hr2) as [_ R2].
  apply R2; [exact Hnarm|apply Hp].
Qed.

(* ---- API calls under queue faults ---- *)
Lemma api_exec_first_fail : forall calls outs i,
  (i < List.length calls)%nat -> failed (nth i outs Ok) = true ->
  (forall j, (j < i)%nat -> failed (nth j outs Ok) = false) ->
  api_exec calls outs = (firstn (S i) calls, Some i).
Proof.
  induction calls as [|cl rest IH]; intros outs i Hi Hf Hbefore; [cbn in Hi; lia|].
  cbn [api_exec]. destruct i as [|i].
  - assert (hd Ok outs = nth 0 outs Ok) as -> by (destruct outs; reflexivity). rewrite Hf. reflexivity.
  - assert (hd Ok outs = nth 0 outs Ok) as -> by (destruct outs; reflexivity). rewrite (Hbefore O) by lia.
    assert (E : forall k, nth k (tl outs) Ok = nth (S k) outs Ok) by (intros k; destruct outs; [destruct k; reflexivity|reflexivity]).
    rewrite (IH (tl outs) i); [reflexivity|cbn in Hi; lia|rewrite E; exact Hf|].
    intros j Hj. rewrite E. apply Hbefore. lia.
Qed.

Lemma api_exec_no_fail : forall calls outs,
  (forall j, (j < List.length calls)%nat -> failed (nth j outs Ok) = false) -> api_exec calls outs = (calls, None).
Proof.
  induction calls as [|cl rest IH]; intros outs H; [reflexivity|]. cbn [api_exec].
  assert (hd Ok outs = nth 0 outs Ok) as -> by (destruct outs; reflexivity). rewrite (H O) by (cbn; lia).
  assert (E : forall k, nth k (tl outs) Ok = nth (S k) outs Ok) by (intros k; destruct outs; [destruct k; reflexivity|reflexivity]).
  rewrite IH; [reflexivity|]. intros j Hj. rewrite E. apply H. cbn. lia.
Qed.

Definition api_methods : list string := map fst api_queue_calls.

Lemma api_tables_complete :
  forallb (fun m => match assoc m api_returns_queue_error with Some true => true | _ => false end) api_methods = true.
Proof. vm_compute. reflexivity. Qed.

Lemma assoc_in : forall A m (l : list (string * A)), In m (map fst l) -> exists v, assoc m l = Some v.
Proof.
  intros A m l. induction l as [|[k v] r IH]; intros H; [destruct H|]. cbn [assoc].
  destruct (String.eqb m k) eqn:E; [eauto|]. destruct H as [H|H]; [cbn in H; subst; rewrite String.eqb_refl in E; discriminate|auto].
Qed.

Lemma api_propagates_queue_error : forall m is_started outs calls i,
  In m api_methods -> assoc m api_queue_calls = Some calls ->
  (i < List.length calls)%nat -> failed (nth i outs Ok) = true ->
  (forall j, (j < i)%nat -> failed (nth j outs Ok) = false) ->
  exists r, api_run m is_started outs = Some r /\ error r = Some i /\ performed r = firstn (S i) calls /\ token r = false.
Proof.
  intros m st0 outs calls i Hm Hc Hi Hf Hb. unfold api_run. rewrite Hc, (api_exec_first_fail _ _ _ Hi Hf Hb).
  pose proof api_tables_complete as T. rewrite forallb_forall in T. specialize (T m Hm).
  destruct (assoc m api_returns_queue_error) as [[|]|]; try discriminate.
  eexists. split; [reflexivity|]. cbn [error performed token]. auto.
Qed.

Lemma api_success_sends_token_iff_started : forall m is_started outs calls,
  assoc m api_queue_calls = Some calls -> assoc m api_reset_guarded = Some true ->
  (forall j, (j < List.length calls)%nat -> failed (nth j outs Ok) = false) ->
  exists r, api_run m is_started outs = Some r /\ error r = None /\ performed r = calls /\ token r = is_started.
Proof.
  intros m st0 outs calls Hc Hg Hok. unfold api_run. rewrite Hc, Hg, (api_exec_no_fail _ _ Hok).
  eexists. split; [reflexivity|]. cbn [error performed token]. destruct (assoc m api_returns_queue_error) as [[|]|]; rewrite ?andb_true_r; auto.
Qed.

(* ================= non-vacuity and sensitivity examples ================= *)
Definition far : Z := max_timer_duration.

(* parked on a far-future head; the hypotheses of no_lost_wakeup_inv are satisfiable *)
Example ex_parked_far_head : exists s,
  run (code_cfg false 100) (init [1000] false) [LoopSize Ok; LoopTick Ok] = Some s /\
  nofault [LoopSize Ok; LoopTick Ok] /\ parked s /\ q s = [1000] /\ dl s = 1000.
Proof. eexists. split; [vm_compute; reflexivity|]. split; [repeat constructor|]. repeat split. Qed.

(* parked on an empty queue and on a paused head (math.MaxInt64) *)
Example ex_parked_empty_and_paused :
  (exists s, run (code_cfg true 100) (init [] false) [LoopSize Ok] = Some s /\ parked s /\ q s = [] /\ armed s = true) /\
  (exists s, run (code_cfg true 100) (init [far] false) [LoopSize Ok; LoopTick Ok] = Some s /\ parked s /\ dl s = far).
Proof. split; eexists; (split; [vm_compute; reflexivity|]); repeat split. Qed.

(* a due job scheduled while the loop is between Size() and Head(), and one scheduled while it is
   parked on the far head: both end in LoopFetch of the new minimum *)
Example ex_schedule_in_window : exists s,
  run (code_cfg false 100) (init [1000] false)
      [LoopSize Ok; ApiMutate [5; 1000]; LoopTick Ok; ApiToken; Adv 5; TimerFire; SelTick;
       LoopFetch Ok true (Some 2000) Ok] = Some s /\ lpc s = PDispatch /\ cur s = 5 /\ q s = [2000; 1000].
Proof. eexists. split; [vm_compute; reflexivity|]. repeat split. Qed.

Example ex_schedule_while_parked : exists s,
  run (code_cfg false 100) (init [1000] false)
      [LoopSize Ok; LoopTick Ok; Adv 10; ApiMutate [5; 1000]; ApiToken; SelTok; LoopSize Ok; LoopTick Ok;
       TimerFire; SelTick; LoopFetch Ok true (Some 2000) Ok] = Some s /\ lpc s = PDispatch /\ cur s = 5 /\ now s = 10.
Proof. eexists. split; [vm_compute; reflexivity|]. repeat split. Qed.

(* resume of a paused head: the loop leaves the far timer and re-arms for the resumed fire time *)
Example ex_resume_paused_head : exists s,
  run (code_cfg true 100) (init [far] false)
      [LoopSize Ok; LoopTick Ok; Adv 3; ApiMutate [7]; ApiToken; SelTok; LoopSize Ok; LoopTick Ok] = Some s /\
  parked s /\ dl s = 7.
Proof. eexists. split; [vm_compute; reflexivity|]. repeat split. Qed.

(* the hypotheses of due_head_enables_loop are satisfiable *)
Example ex_due_head : exists s,
  run (code_cfg false 100) (init [5; 9] false) [LoopSize Ok; LoopTick Ok; Adv 5] = Some s /\
  nofault [LoopSize Ok; LoopTick Ok; Adv 5] /\ parked s /\ q s <> [] /\ minp (q s) <= now s.
Proof. eexists. split; [vm_compute; reflexivity|]. split; [repeat constructor|]. repeat split; try discriminate; vm_compute; discriminate. Qed.

(* a stale tick (pre-1.23 timer channels) only causes a harmless extra fetch of a not-yet-due head *)
Example ex_stale_tick : exists s,
  run (code_cfg false 100) (init [50] false)
      [LoopSize Ok; LoopTick Ok; Adv 50; TimerFire; ApiMutate [50; 900]; ApiToken; SelTok;
       LoopSize Ok; LoopTick Ok] = Some s /\ lpc s = PSelect /\ chan s = true /\ stale s = true.
Proof. eexists. split; [vm_compute; reflexivity|]. repeat split. Qed.

(* C15: the loop before the fix of S12 retries a failing Pop without waiting; the fixed loop waits *)
Definition spin_trace : list label :=
  [LoopSize Ok; LoopTick Ok; Adv 5; TimerFire; SelTick; LoopFetch Fail false None Ok;
   LoopSize Ok; LoopTick Ok; TimerFire; SelTick].

Example ex_prefix_loop_spins : exists s,
  run (prefix_cfg true 100) (init [5] false) spin_trace = Some s /\
  lpc s = PFetch /\ lf_pop s = Some 5 /\ now s = 5 /\ ~ (5 + 100 <= now s).
Proof. eexists. split; [vm_compute; reflexivity|]. repeat split. vm_compute. intros H; apply H; reflexivity. Qed.

Example ex_fixed_loop_cannot_spin : run (code_cfg true 100) (init [5] false) spin_trace = None.
Proof. vm_compute. reflexivity. Qed.

Example ex_fixed_loop_waits : exists s,
  run (code_cfg true 100) (init [5] false)
      [LoopSize Ok; LoopTick Ok; Adv 5; TimerFire; SelTick; LoopFetch Fail false None Ok;
       LoopSize Ok; Adv 100; TimerFire; SelTick] = Some s /\
  lpc s = PFetch /\ lf_pop s = Some 5 /\ now s = 105.
Proof. eexists. split; [vm_compute; reflexivity|]. repeat split. Qed.

(* recovery: a failing Size, then no more faults; after the second re-arming the loop is parked cleanly *)
Example ex_recovery : exists s1 s2,
  let tr2 := [Adv 100; TimerFire; SelTick; LoopFetch Ok true (Some 500) Ok; LoopDispatched; LoopSize Ok; LoopTick Ok;
              SelTok; LoopSize Ok; LoopTick Ok] in
  run (code_cfg false 100) (init [50] false) [LoopSize Fail] = Some s1 /\
  run (code_cfg false 100) s1 tr2 = Some s2 /\ nofault tr2 /\ (narm s1 + 2 <= narm s2)%nat /\ parked s2 /\ q s2 = [500] /\
  disps s2 = [50].
Proof. eexists. eexists. cbv zeta. split; [vm_compute; reflexivity|]. split; [vm_compute; reflexivity|]. split; [repeat constructor|].
  split; [vm_compute; lia|]. repeat split. Qed.

Example ex_api_pause_remove_fails :
  (api_run "PauseJob" true [Ok; Fail] = Some (mkres ["Get"; "Remove"] (Some 1%nat) false) /\
   api_run "PauseJob" true [Ok; Ok; Ok] = Some (mkres ["Get"; "Remove"; "Push"] None true) /\
   api_run "DeleteJob" false [Ok] = Some (mkres ["Remove"] None false))%string.
Proof. vm_compute. repeat split. Qed.

(* every API method that changes the queue ends a successful call with Reset() when the scheduler is started:
   this is what justifies the label pair ApiMutate ; ApiToken of the loop system *)
Definition mutating_api : list string := ["ScheduleJob"; "DeleteJob"; "PauseJob"; "ResumeJob"; "Clear"]%string.

Lemma mutating_api_guarded : forallb (fun m => match assoc m api_reset_guarded with Some true => true | _ => false end) mutating_api = true.
Proof. vm_compute. reflexivity. Qed.

Lemma mutating_api_calls_send_token : forall m is_started outs calls,
  In m mutating_api -> assoc m api_queue_calls = Some calls ->
  (forall j, (j < List.length calls)%nat -> failed (nth j outs Ok) = false) ->
  exists r, api_run m is_started outs = Some r /\ error r = None /\ performed r = calls /\ token r = is_started.
Proof.
  intros m st0 outs calls Hm Hc Hok. pose proof mutating_api_guarded as T. rewrite forallb_forall in T. specialize (T m Hm).
  destruct (assoc m api_reset_guarded) as [[|]|] eqn:E; try discriminate.
  exact (api_success_sends_token_iff_started m st0 outs calls Hc E Hok).
Qed.
