(* Model of the lifecycle of StdScheduler: Start, Stop, stopRun, stop, Wait, IsStarted, the watcher
   goroutine of each Start, and the exit of the loop / worker / job goroutines on ctx.Done.
   Definitions only.  One label per critical section under sched.mtx and per goroutine exit. *)
From Coq Require Import ZArith List Bool Lia.
Require Import QzLoop.Gen.Params QzLoop.LoopModel QzLoop.Retry QzLoop.Dispatch.
Import ListNotations.
Open Scope nat_scope.
Open Scope list_scope.

Inductive wpc := WWaiting | WExited.            (* watcher: blocked in <-ctx.Done() / returned *)
Inductive lps := LpIdle | LpExec | LpExited.    (* loop goroutine: in its for/select / running a job inline / returned *)
Inductive wks := WkIdle | WkExec | WkExited.    (* worker goroutine *)

(* everything that belongs to one successful Start *)
Record rrec := mkrec {
  r_id : nat;            (* the value of sched.run captured by that Start *)
  r_done : bool;         (* its context is cancelled *)
  r_wat : wpc;
  r_lp : lps;
  r_wk : list wks;
  r_gor : nat            (* job goroutines of this run inside executeWithRetries (unbounded mode) *)
}.

Record lst := mklst {
  l_started : bool;
  l_run : nat;           (* sched.run *)
  l_cancel_of : nat;     (* the run whose cancel function is stored in sched.cancel *)
  l_runs : list rrec;    (* newest first *)
  l_wg : nat;
  l_late : nat;          (* wg.Add calls that a goroutine still has to make itself (only if Add came after `go`) *)
  l_want : bool          (* ghost: the last effective Start / Stop / cancellation of the current run was a Start *)
}.

Record lcfg := mklcfg {
  lc_d : dcfg;                    (* BlockingExecution, WorkerLimit *)
  lc_watch : option cmp_op;       (* watcher calls stopRun(run), which tests `sched.run <op> run`; None: calls Stop() *)
  lc_add_first : bool;            (* every wg.Add precedes its `go` statement *)
  lc_per_run : bool               (* Start makes the hand-over channel for its run (false: one channel shared by all runs) *)
}.

Definition code_lcfg (d : dcfg) : lcfg :=
  mklcfg d (if start_watcher_calls_stop_run then Some stop_run_cmp else None)
         (start_loop_wg_add_before_go && workers_wg_add_before_go && goroutine_wg_add_before_go) dispatch_per_run.

(* the scheduler as it was before the fix of S2: the watcher calls Stop() *)
Definition prefix_lcfg (d : dcfg) : lcfg := mklcfg d None true true.

(* the scheduler as it was before the fix 4ef8ad4: one dispatch channel for all runs *)
Definition shared_lcfg (d : dcfg) : lcfg := mklcfg d (Some OpEq) true false.

Inductive llabel :=
| LStart | LStop
| CtxCancel (r : nat)          (* the context passed to the r-th successful Start is cancelled by its owner *)
| WatcherWake (r : nat)        (* the watcher of run r returns from <-ctx.Done() and calls stopRun(r) *)
| LoopExit (r : nat)
| WorkerExit (r i : nat)
| ExecStart (r : nat) (w : option nat)   (* an execution begins in run r (w: the worker, in pool mode) *)
| ExecEnd (r : nat) (w : option nat)
| StaleTake (r rw i : nat)     (* worker i of run rw receives the job that the loop of ANOTHER run r is handing over;
                                  the job then runs with run rw's context *)
| LateAdd
| WaitReturn.                  (* wg.Wait() returns *)

Definition upd_rec (r : nat) (f : rrec -> rrec) (l : list rrec) : list rrec :=
  map (fun x => if r_id x =? r then f x else x) l.
Definition find_rec (r : nat) (l : list rrec) : option rrec := find (fun x => r_id x =? r) l.

Definition set_done (x : rrec) : rrec := mkrec (r_id x) true (r_wat x) (r_lp x) (r_wk x) (r_gor x).
Definition set_wat (v : wpc) (x : rrec) : rrec := mkrec (r_id x) (r_done x) v (r_lp x) (r_wk x) (r_gor x).
Definition set_lp (v : lps) (x : rrec) : rrec := mkrec (r_id x) (r_done x) (r_wat x) v (r_wk x) (r_gor x).
Definition set_wk (v : list wks) (x : rrec) : rrec := mkrec (r_id x) (r_done x) (r_wat x) (r_lp x) v (r_gor x).
Definition set_gor (v : nat) (x : rrec) : rrec := mkrec (r_id x) (r_done x) (r_wat x) (r_lp x) (r_wk x) v.

Fixpoint updw (i : nat) (v : wks) (ws : list wks) : list wks :=
  match ws, i with [], _ => [] | _ :: t, O => v :: t | w :: t, S j => w :: updw j v t end.

Definition wk_alive (w : wks) : bool := match w with WkExited => false | _ => true end.
Definition alive (x : rrec) : nat :=
  (match r_lp x with LpExited => 0 | _ => 1 end) + length (filter wk_alive (r_wk x)) + r_gor x.
Definition total_alive (l : list rrec) : nat := fold_right (fun x a => alive x + a) 0 l.

Section L.
Variable c : lcfg.

(* stop(): `if !started return; cancel(); started = false` *)
Definition do_stop (s : lst) : lst :=
  if stop_returns_if_not_started && negb (l_started s) then s
  else mklst (if stop_clears_started then false else l_started s) (l_run s) (l_cancel_of s)
             (if stop_cancels then upd_rec (l_cancel_of s) set_done (l_runs s) else l_runs s)
             (l_wg s) (l_late s) (l_want s).

Definition set_want (b : bool) (s : lst) : lst :=
  mklst (l_started s) (l_run s) (l_cancel_of s) (l_runs s) (l_wg s) (l_late s) b.
Definition set_runs (v : list rrec) (s : lst) : lst :=
  mklst (l_started s) (l_run s) (l_cancel_of s) v (l_wg s) (l_late s) (l_want s).
Definition add_wg (k : nat) (s : lst) : lst :=
  if lc_add_first c then mklst (l_started s) (l_run s) (l_cancel_of s) (l_runs s) (l_wg s + k) (l_late s) (l_want s)
  else mklst (l_started s) (l_run s) (l_cancel_of s) (l_runs s) (l_wg s) (l_late s + k) (l_want s).
Definition done_wg (s : lst) : lst :=
  mklst (l_started s) (l_run s) (l_cancel_of s) (l_runs s) (pred (l_wg s)) (l_late s) (l_want s).

Definition lstep (s : lst) (l : llabel) : option lst :=
  match l with
  | LStart =>
      if start_returns_if_started && l_started s then Some s
      else
        let r := if start_increments_run then S (l_run s) else l_run s in
        let n := pool_size (lc_d c) in
        let rec := mkrec r false WWaiting LpIdle (repeat WkIdle n) 0 in
        Some (add_wg (S n) (mklst (if start_sets_started then true else l_started s) r r (rec :: l_runs s) (l_wg s) (l_late s) true))
  | LStop => Some (set_want false (do_stop s))
  | CtxCancel r =>
      match find_rec r (l_runs s) with
      | Some _ => Some (set_want (if r =? l_run s then false else l_want s) (set_runs (upd_rec r set_done (l_runs s)) s))
      | None => None end
  | WatcherWake r =>
      match find_rec r (l_runs s) with
      | Some x =>
          if r_done x && (match r_wat x with WWaiting => true | _ => false end) then
            let s1 := match lc_watch c with
                      | None => do_stop s
                      | Some op => if cmp op (Z.of_nat (l_run s)) (Z.of_nat r) then do_stop s else s
                      end in
            Some (set_runs (upd_rec r (set_wat WExited) (l_runs s1)) s1)
          else None
      | None => None end
  | LoopExit r =>
      match find_rec r (l_runs s) with
      | Some x => match r_lp x with
                  | LpIdle => if r_done x then Some (done_wg (set_runs (upd_rec r (set_lp LpExited) (l_runs s)) s)) else None
                  | _ => None end
      | None => None end
  | WorkerExit r i =>
      match find_rec r (l_runs s) with
      | Some x => match nth i (r_wk x) WkExited with
                  | WkIdle => if r_done x then Some (done_wg (set_runs (upd_rec r (set_wk (updw i WkExited (r_wk x))) (l_runs s)) s)) else None
                  | _ => None end
      | None => None end
  | ExecStart r w =>
      match find_rec r (l_runs s) with
      | Some x =>
          match r_lp x, pick_mode exec_modes (lc_d c), w with
          | LpIdle, Some DInline, None => Some (set_runs (upd_rec r (set_lp LpExec) (l_runs s)) s)
          | LpIdle, Some DSendDispatch, Some i =>
              match nth i (r_wk x) WkExited with
              | WkIdle => Some (set_runs (upd_rec r (set_wk (updw i WkExec (r_wk x))) (l_runs s)) s)
              | _ => None end
          | LpIdle, Some DGoroutine, None => Some (add_wg 1 (set_runs (upd_rec r (set_gor (S (r_gor x))) (l_runs s)) s))
          | _, _, _ => None end
      | None => None end
  | ExecEnd r w =>
      match find_rec r (l_runs s) with
      | Some x =>
          match pick_mode exec_modes (lc_d c), w with
          | Some DInline, None => match r_lp x with LpExec => Some (set_runs (upd_rec r (set_lp LpIdle) (l_runs s)) s) | _ => None end
          | Some DSendDispatch, Some i =>
              match nth i (r_wk x) WkExited with
              | WkExec => Some (set_runs (upd_rec r (set_wk (updw i WkIdle (r_wk x))) (l_runs s)) s)
              | _ => None end
          | Some DGoroutine, None => match r_gor x with S n => Some (done_wg (set_runs (upd_rec r (set_gor n) (l_runs s)) s)) | O => None end
          | _, _ => None end
      | None => None end
  | StaleTake r rw i =>
      if lc_per_run c || (r =? rw) then None      (* each run has its own channel *)
      else match find_rec r (l_runs s), find_rec rw (l_runs s), pick_mode exec_modes (lc_d c) with
           | Some x, Some y, Some DSendDispatch =>
               match r_lp x, nth i (r_wk y) WkExited with
               | LpIdle, WkIdle => Some (set_runs (upd_rec rw (set_wk (updw i WkExec (r_wk y))) (l_runs s)) s)
               | _, _ => None end
           | _, _, _ => None end
  | LateAdd => match l_late s with
               | S n => Some (mklst (l_started s) (l_run s) (l_cancel_of s) (l_runs s) (S (l_wg s)) n (l_want s))
               | O => None end
  | WaitReturn => if l_wg s =? 0 then Some s else None
  end.

Fixpoint lrun (s : lst) (tr : list llabel) : option lst :=
  match tr with [] => Some s | l :: tr' => match lstep s l with Some s' => lrun s' tr' | None => None end end.

End L.

Definition linit : lst := mklst false 0 0 [] 0 0 false.

Definition quiescent (s : lst) : Prop :=
  forall x, In x (l_runs s) -> r_lp x = LpExited /\ (forall w, In w (r_wk x) -> w = WkExited) /\ r_gor x = 0.

Definition is_start (l : llabel) : bool := match l with LStart => true | _ => false end.
Definition is_exec_start (l : llabel) : bool := match l with ExecStart _ _ => true | _ => false end.

(* the watcher of the current run has a wake-up pending *)
Definition wake_pending (s : lst) : Prop :=
  exists x, hd_error (l_runs s) = Some x /\ r_done x = true /\ r_wat x = WWaiting.
