#!/usr/bin/env python3
"""Prints Gallina record setters `set_<f> (v) (s)` for a record (used once to write the model files)."""
import sys
name, ctor = sys.argv[1], sys.argv[2]
fields = [f.split(":") for f in sys.argv[3:]]
for f, t in fields:
    body = "; ".join("%s := %s" % (g, "v" if g == f else "%s s" % g) for g, _ in fields)
    print("Definition set_%s (v : %s) (s : %s) : %s := {| %s |}." % (f, t, name, name, body))
