(* Non-vacuity examples and evaluated samples (tests by vm_compute, not theorems): README
   expressions, a documented expression in an unusual variant, rejected strings, and witnesses that
   the hypotheses of the rejection lemmas are satisfiable. *)
From Coq Require Import ZArith List Bool Ascii String.
Require Import QzBase.Fields QzParser.Gen.Params QzParser.ParserModel QzParser.ParserSpec QzParser.ParserRejectProofs.
Import ListNotations.
Open Scope Z_scope.
Open Scope string_scope.

Definition F sec mi h dom domn mon dow down y : fields :=
  {| fl_sec := sec; fl_min := mi; fl_hour := h; fl_dom := dom; fl_dom_n := domn; fl_mon := mon; fl_dow := dow; fl_dow_n := down; fl_year := y |}.

Example ex_third_friday : parse (B "0 15 10 ? * 6#3") = Ok (F [0] [15] [10] [] 0 [] [5] 3 []).
Proof. vm_compute. reflexivity. Qed.
Example ex_steps_list : parse (B "0 0/5 14,18 * * ?") = Ok (F [0] [0;5;10;15;20;25;30;35;40;45;50;55] [14;18] [] 0 [] [] 0 []).
Proof. vm_compute. reflexivity. Qed.
Example ex_weekly : parse (B "@weekly") = Ok (F [0] [0] [0] [] 0 [] [0] 0 []).
Proof. vm_compute. reflexivity. Qed.
Example ex_last_minus : parse (B "0 15 10 L-2 * ?") = Ok (F [0] [15] [10] [] (-2) [] [] 0 []).
Proof. vm_compute. reflexivity. Qed.
Example ex_names_range : parse (B "0 15 10 ? * MON-FRI") = Ok (F [0] [15] [10] [] 0 [] [1;2;3;4;5] 0 []).
Proof. vm_compute. reflexivity. Qed.
Example ex_last_friday : parse (B "0 15 10 ? * 6L") = Ok (F [0] [15] [10] [] 0 [] [5] (-1) []).
Proof. vm_compute. reflexivity. Qed.
Example ex_lw : parse (B "0 15 10 LW * ?") = Ok (F [0] [15] [10] [0] 3 [] [] 0 []).
Proof. vm_compute. reflexivity. Qed.
Example ex_15w_year : parse (B "0 15 10 15W * ? 2030") = Ok (F [0] [15] [10] [15] 2 [] [] 0 [2030]).
Proof. vm_compute. reflexivity. Qed.
Example ex_full_wildcard : parse_trigger (B "* * * * * *") = Ok (F (zrange 0 59) [] [] [] 0 [] [] 0 []).
Proof. vm_compute. reflexivity. Qed.

(* a documented expression (hypothesis wf_doc of parse_doc_complete) in an unusual variant *)
Definition ex_variant : variant :=
  {| v_lead := [EdgeVTab; EdgeWs WsSpace]; v_trail := [EdgeWs WsTab; EdgeVTab];
     v_gap := fun k => (WsSpace, if Nat.even k then [WsTab; WsNewline] else []);
     v_name := fun fi k r => if Nat.even (k + r) then Some [true; false; true] else None;
     v_omit_year := true; v_macro_name := true |}.
Definition ex_expr : doc_expr :=
  DFields {| d_sec := val 0; d_min := FList (IVal 3) (IStepFrom 10 20) [IRange 5 7; IStepAll 25]; d_hour := FItem (IStepRange 2 20 4);
             d_dom := DomF FAny; d_mon := FList (IVal 3) (IRange 10 12) []; d_dow := DowNth 6 3; d_year := FAll |}.
Example ex_wf : wf_doc ex_expr = true.
Proof. reflexivity. Qed.
Example ex_render : string_of_list_ascii (render {| v_lead := []; v_trail := []; v_gap := fun _ => (WsSpace, []); v_name := v_name ex_variant;
                                                     v_omit_year := false; v_macro_name := false |} ex_expr)
                    = "0 3,10/20,5-7,*/25 2-20/4 ? mAr,10-dEc fRi#3 *".
Proof. vm_compute. reflexivity. Qed.
Example ex_complete : parse (render ex_variant ex_expr) = Ok (denote ex_expr) /\
                      denote ex_expr = F [0] [0;3;5;6;7;10;25;30;50;50] [2;6;10;14;18] [] 0 [3;10;11;12] [5] 3 [].
Proof. split; vm_compute; reflexivity. Qed.
Example ex_macro_variant : string_of_list_ascii (render ex_variant (DMacro Weekly)) = String (ascii_of_nat 11) " @weekly" ++ String (ascii_of_nat 9) (String (ascii_of_nat 11) "")
                           /\ parse (render ex_variant (DMacro Weekly)) = Ok (denote (DMacro Weekly)).
Proof. split; vm_compute; reflexivity. Qed.

(* rejected strings *)
Definition rejected (s : string) : bool := match parse (B s) with Ok _ => false | ParseError => true end.
Example ex_rejections : forallb rejected
  ["0 0 0 1,99 * ?"; "1,75 * * * * ?"; "0 0 25,1 * * ?"; "0 0 0 ? 1,13 2"; "0 0 0 ? * 1,9"; "0 0 0 0,1 * ?"; "0 0 0 * * ? 2024,5000";
   "0 0 0 * *"; "0 0 0 * * * * *"; ""; "0 0 0 1 * 2"; "0 0 0 */0 * ?"; "0 0 0 1/0 * ?"; "0 0 0 1/x * ?"; "60 0 0 * * ?"; "0 60 0 * * ?";
   "0 0 24 * * ?"; "0 0 0 32 * ?"; "0 0 0 0 * ?"; "0 0 0 * 13 ?"; "0 0 0 * 0 ?"; "0 0 0 ? * 8"; "0 0 0 ? * 0"; "0 0 0 * * ? 1969";
   "0 0 0 * * ? 3941"; "0 0 0 * JANUARY ?"; "0 0 0 ? * MO"; "0 0 0 5-1 * ?"; "0 0 0 1-32 * ?"; "0 0 0 L-32 * ?"; "0 0 0 L-0 * ?";
   "0 0 0 0W * ?"; "0 0 0 32W * ?"; "0 0 0 ? * 8L"; "0 0 0 ? * 1#6"; "0 0 0 ? * 1#0"; "0 0 0 ? * 8#1"; "0 0 0 L,1 * ?"; "0 0 0 1W,2W * ?";
   "0 0 0 ? * 1L,2"; "0 0 0 ? * 1#2,3"; "0 0 0 LW-1 * ?"; "@Weekly"; "@weekly *"; "0 0 0 ? * sun#"; "0 0 0 1_0 * ?"] = true.
Proof. vm_compute. reflexivity. Qed.

(* accepted although the README does not document them *)
Example ex_undocumented : forallb (fun s => negb (rejected s))
  ["? ? ? ? ? ? ?"; "+5 0 0 * * ?"; "05 0 0 * * ?"; "0 0 0 1,1 * ?"; "0 0 0 ? * friL"; "0 0 0 ? * FRI#2"; "0 0 0 L-31 * ?"; "0 0 0 ? * 007L"] = true.
Proof. vm_compute. reflexivity. Qed.

(* the hypotheses of the rejection lemmas are satisfiable *)
Example ex_token_count_hyp : is_macro (B "0 0 0 * *") = false /\ token_count (B "0 0 0 * *") = 5%nat.
Proof. split; vm_compute; reflexivity. Qed.
Example ex_both_days_hyp : is_any (nth 3 (final_tokens (B "0 0 0 1 * 2")) []) = false /\ is_any (nth 5 (final_tokens (B "0 0 0 1 * 2")) []) = false.
Proof. split; vm_compute; reflexivity. Qed.
Example ex_field_hyp : field_result 2 (nth 2 (final_tokens (B "0 0 24 * * ?")) []) = ParseError.
Proof. vm_compute. reflexivity. Qed.
Example ex_member_hyp : member_rejected (B "99") 1 31 [] /\ member_rejected (B "1-32") 1 31 [] /\ member_rejected (B "1/0") 1 31 [].
Proof.
  split; [|split]; unfold member_rejected.
  - replace (contains_rune go_stepRune (B "99")) with false by reflexivity. replace (contains_rune go_rangeRune (B "99")) with false by reflexivity.
    intros n H. vm_compute in H. injection H as <-. reflexivity.
  - vm_compute. reflexivity.
  - vm_compute. reflexivity.
Qed.

(* the regular expressions the recognisers of ParserModel.v were written for *)
Example ex_regex_sources :
  re_src_whitespacePattern = "\s+" /\ re_src_cronLastMonthDayRegex = "^L(-[0-9]+)?$" /\ re_src_cronWeekdayRegex = "^[0-9]+W$" /\
  re_src_cronLastWeekdayRegex = "^[a-zA-Z0-9]*L$" /\ re_src_cronHashRegex = "^[a-zA-Z0-9]+#[0-9]+$".
Proof. repeat split. Qed.
