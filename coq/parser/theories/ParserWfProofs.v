(* parse_ok_wf: every string the model accepts parses to well-formed fields (QzBase.Fields.wf_fields):
   all values of single values, lists, ranges and steps inside the field's range and sorted, L/W/#
   markers of the documented shapes and never combined with lists, at most one day field restricted.
   For ALL byte strings. *)
From Coq Require Import ZArith List Bool Ascii String Lia Sorted Permutation.
Require Import QzBase.Fields QzParser.Gen.Params QzParser.ZSort QzParser.ParserModel QzParser.ParserLemmas.
Import ListNotations.
Open Scope Z_scope.

Ltac inv_bind_as H x Hx := apply bind_ok in H; destruct H as [x [Hx H]].

Definition field_wf (lo hi : Z) (f : cron_field) : Prop :=
  snd f = 0 /\ in_range lo hi (fst f) = true /\ sortedb (fst f) = true.

Lemma parse_range_field_wf : forall t lo hi names f,
  parse_range_field t (lo, hi) names = Ok f -> field_wf lo hi f /\ fst f <> [].
Proof.
  unfold parse_range_field. intros t lo hi names f H.
  destruct (split_on go_rangeRune t) as [|t0 [|t1 [|]]]; try discriminate.
  inv_bind_as H from Hfrom. inv_bind_as H to Hto. cbn [fst snd] in H.
  destruct (negb (in_scope from lo hi) || negb (in_scope to lo hi)) eqn:E; try discriminate.
  apply orb_false_iff in E as [E1 E2]. apply negb_false_iff in E1, E2. apply in_scope_true in E1, E2.
  inv_bind_as H vs Hvs. injection H as <-. unfold fill_range_values in Hvs.
  destruct (to <? from) eqn:E3; try discriminate. injection Hvs as <-. apply Z.ltb_ge in E3.
  unfold field_wf, new_cron_field; cbn [fst snd]. split; [split; [reflexivity|apply zrange_wf; lia]|].
  unfold zrange. replace (Z.to_nat (to - from + 1)) with (S (Z.to_nat (to - from))) by lia. discriminate.
Qed.

Lemma parse_step_field_wf : forall t lo hi names f,
  parse_step_field t (lo, hi) names = Ok f -> field_wf lo hi f /\ fst f <> [].
Proof.
  unfold parse_step_field. intros t lo hi names f H.
  destruct (split_on go_stepRune t) as [|t0 [|t1 [|]]]; try discriminate.
  inv_bind_as H ft Hft. clear Hft. destruct (atoi t1) as [step|]; try discriminate.
  cbn [fst snd] in H.
  destruct (negb (in_scope (fst ft) lo hi) || negb (in_scope step go_step_lo hi) || negb (in_scope (snd ft) lo hi)) eqn:E;
    try discriminate.
  apply orb_false_iff in E as [E E3]. apply orb_false_iff in E as [E1 E2].
  apply negb_false_iff in E1, E2, E3. apply in_scope_true in E1, E2, E3. unfold go_step_lo in E2.
  inv_bind_as H vs Hvs. injection H as <-. unfold fill_step_values in Hvs.
  destruct ((snd ft <? fst ft) || (step =? 0)) eqn:E4; try discriminate. injection Hvs as <-.
  apply orb_false_iff in E4 as [E4 _]. apply Z.ltb_ge in E4.
  unfold field_wf, new_cron_field; cbn [fst snd]. split; [split; [reflexivity|apply step_values_wf; lia]|].
  assert (0 <= (snd ft - fst ft) / step) by (apply Z.div_pos; lia).
  replace (Z.to_nat ((snd ft - fst ft) / step + 1)) with (S (Z.to_nat ((snd ft - fst ft) / step))) by lia. discriminate.
Qed.

Lemma parse_each_wf : forall (p : bytes -> result cron_field) lo hi,
  (forall v f, p v = Ok f -> in_range lo hi (fst f) = true) ->
  forall l vs, parse_each p l = Ok vs -> in_range lo hi vs = true.
Proof.
  intros p lo hi Hp. induction l as [|v l IH]; intros vs H; cbn [parse_each] in H.
  - injection H as <-. reflexivity.
  - inv_bind_as H f Hf. inv_bind_as H more Hmore. injection H as <-.
    rewrite in_range_app. rewrite (Hp _ _ Hf), (IH _ Hmore). reflexivity.
Qed.

Lemma forallb_in_scope : forall lo hi l,
  forallb (fun v => in_scope v lo hi) l = in_range lo hi l.
Proof.
  intros. unfold in_range. induction l as [|x l IH]; [reflexivity|]. cbn [forallb]. rewrite IH, in_scope_spec. reflexivity.
Qed.

Lemma split_on_nonempty : forall sep s, split_on sep s <> [].
Proof.
  intros sep s. destruct s as [|c r]; cbn [split_on]; [discriminate|].
  destruct (Ascii.eqb c sep); [discriminate|]. destruct (split_on sep r); discriminate.
Qed.

Lemma parse_list_field_wf : forall t lo hi names f,
  parse_list_field t (lo, hi) names = Ok f -> field_wf lo hi f.
Proof.
  unfold parse_list_field, extract_step_values, extract_range_values, extract_values. intros t lo hi names f H.
  cbv beta iota zeta in H.
  inv_bind_as H lv Hlv. cbn [fst snd] in H.
  destruct (negb (forallb (fun v => in_scope v lo hi) lv)) eqn:E; try discriminate.
  apply negb_false_iff in E. rewrite forallb_in_scope in E.
  inv_bind_as H sv Hsv. inv_bind_as H rv Hrv. injection H as <-.
  apply parse_each_wf with (lo := lo) (hi := hi) in Hsv; [|intros v f Hf; apply parse_step_field_wf in Hf; apply Hf].
  apply parse_each_wf with (lo := lo) (hi := hi) in Hrv; [|intros v f Hf; apply parse_range_field_wf in Hf; apply Hf].
  unfold field_wf, new_cron_field; cbn [fst snd]. split; [reflexivity|]. split.
  - apply sort_ints_in_range. rewrite !in_range_app, E, Hsv, Hrv. reflexivity.
  - apply sort_ints_sorted.
Qed.

Lemma parse_field_wf : forall t lo hi names f,
  parse_field t (lo, hi) names = Ok f -> field_wf lo hi f.
Proof.
  unfold parse_field. intros t lo hi names f H.
  destruct (bytes_eqb t star || bytes_eqb t qmark).
  { injection H as <-. repeat split. }
  destruct (contains_rune go_listRune t). { eapply parse_list_field_wf; eassumption. }
  destruct (contains_rune go_stepRune t). { eapply parse_step_field_wf; eassumption. }
  destruct (contains_rune go_rangeRune t). { eapply parse_range_field_wf; eassumption. }
  inv_bind_as H n Hn. cbn [fst snd] in H. destruct (in_scope n lo hi) eqn:E; try discriminate. injection H as <-.
  apply in_scope_true in E. unfold field_wf, new_cron_field; cbn [fst snd]. split; [reflexivity|]. split; [|reflexivity].
  unfold in_range; cbn [forallb]. rewrite andb_true_r. apply andb_true_iff. rewrite !Z.leb_le. exact E.
Qed.

(* a field that is not "*" or "?" has at least one value *)
Lemma translate_literals_length : forall names l vs, translate_literals names l = Ok vs -> List.length vs = List.length l.
Proof.
  induction l as [|x l IH]; intros vs H; cbn [translate_literals] in H.
  - injection H as <-. reflexivity.
  - inv_bind_as H i Hi. inv_bind_as H is_ His. injection H as <-. cbn. rewrite (IH _ His). reflexivity.
Qed.

Lemma parse_each_nonempty : forall (p : bytes -> result cron_field),
  (forall v f, p v = Ok f -> fst f <> []) ->
  forall l vs, l <> [] -> parse_each p l = Ok vs -> vs <> [].
Proof.
  intros p Hp l vs Hl H. destruct l as [|v l]; [contradiction|]. cbn [parse_each] in H.
  inv_bind_as H f Hf. inv_bind_as H more Hmore. injection H as <-.
  apply Hp in Hf. destruct (fst f); [contradiction|discriminate].
Qed.

Lemma filter_split_nonempty : forall (p : bytes -> bool) (l : list bytes),
  l <> [] -> filter (fun v => negb (p v)) l <> [] \/ filter p l <> [].
Proof.
  intros p l Hl. destruct l as [|x l]; [contradiction|]. cbn [filter]. destruct (p x); cbn [negb]; [right|left]; discriminate.
Qed.

Lemma perm_nonempty : forall (a b : list Z), Permutation a b -> a <> [] -> b <> [].
Proof. intros a b P Ha Hb. subst b. apply Permutation_sym, Permutation_nil in P. contradiction. Qed.

Lemma parse_list_field_nonempty : forall t b names f, parse_list_field t b names = Ok f -> fst f <> [].
Proof.
  unfold parse_list_field, extract_step_values, extract_range_values, extract_values. intros t [lo hi] names f H.
  cbv beta iota zeta in H.
  inv_bind_as H lv Hlv. cbn [fst snd] in H.
  destruct (negb (forallb (fun v => in_scope v lo hi) lv)); try discriminate.
  inv_bind_as H sv Hsv. inv_bind_as H rv Hrv. injection H as <-. cbn [new_cron_field fst].
  eapply perm_nonempty; [apply sort_ints_perm|].
  pose proof (split_on_nonempty go_listRune t) as Ht.
  destruct (filter_split_nonempty (contains_rune go_stepRune) _ Ht) as [Hv|Hs].
  - destruct (filter_split_nonempty (contains_rune go_rangeRune) _ Hv) as [Hp|Hr].
    + apply translate_literals_length in Hlv. destruct lv; [|discriminate].
      destruct (filter (fun v => negb (contains_rune go_rangeRune v)) (filter (fun v => negb (contains_rune go_stepRune v)) (split_on go_listRune t)));
        [contradiction|discriminate].
    + eapply parse_each_nonempty in Hrv; [| |exact Hr].
      * destruct lv; [|discriminate]. destruct sv; [|discriminate]. exact Hrv.
      * intros v f Hf. destruct (parse_range_field_wf _ _ _ _ _ Hf) as [_ Hne]. exact Hne.
  - eapply parse_each_nonempty in Hsv; [| |exact Hs].
    + destruct lv; [|discriminate]. destruct sv; [contradiction|discriminate].
    + intros v f Hf. destruct (parse_step_field_wf _ _ _ _ _ Hf) as [_ Hne]. exact Hne.
Qed.

Lemma parse_field_empty : forall t b names f,
  parse_field t b names = Ok f -> fst f = [] -> bytes_eqb t star || bytes_eqb t qmark = true.
Proof.
  unfold parse_field. intros t [lo hi] names f H Hf.
  destruct (bytes_eqb t star || bytes_eqb t qmark); [reflexivity|exfalso].
  destruct (contains_rune go_listRune t). { apply parse_list_field_nonempty in H. contradiction. }
  destruct (contains_rune go_stepRune t). { apply parse_step_field_wf in H. destruct H. contradiction. }
  destruct (contains_rune go_rangeRune t). { apply parse_range_field_wf in H. destruct H. contradiction. }
  inv_bind_as H n Hn. cbn [fst snd] in H. destruct (in_scope n lo hi); try discriminate. injection H as <-. discriminate.
Qed.

(* ---- the two day fields ---- *)
Lemma sorted_in_of_wf : forall lo hi f, field_wf lo hi f -> sorted_in lo hi (fst f) = true.
Proof. intros lo hi f [_ [H1 H2]]. unfold sorted_in. rewrite H1, H2. reflexivity. Qed.

Lemma parse_dom_wf : forall t f,
  parse_day_of_month_field t go_bound_dom [] = Ok f -> dom_shape (fst f) (snd f) = true.
Proof.
  unfold parse_day_of_month_field. intros t f H.
  destruct (contains_rune go_lastRune t && re_last_month_day t).
  { destruct (bytes_eqb t [go_lastRune]). { injection H as <-. reflexivity. }
    destruct (split_on go_rangeRune t) as [|v0 [|v1 [|]]]; try discriminate.
    destruct (atoi v1) as [n|]; try discriminate.
    destruct (in_scope n (fst go_bound_dom) (snd go_bound_dom)) eqn:E; try discriminate. injection H as <-.
    apply in_scope_true in E. cbn in E. cbn [new_cron_field_n fst snd]. unfold dom_shape.
    replace (-31 <=? - n) with true by (symmetry; apply Z.leb_le; lia).
    replace (- n <=? -1) with true by (symmetry; apply Z.leb_le; lia).
    cbn. rewrite !orb_true_r. reflexivity. }
  destruct (contains_rune go_weekdayRune t && bytes_eqb t [go_lastRune; go_weekdayRune]).
  { injection H as <-. reflexivity. }
  destruct (contains_rune go_weekdayRune t && re_weekday t).
  { destruct (bytes_eqb (trim_suffix_char go_weekdayRune t) []); try discriminate.
    destruct (atoi (trim_suffix_char go_weekdayRune t)) as [d|]; try discriminate.
    destruct (in_scope d (fst go_bound_dom) (snd go_bound_dom)) eqn:E; try discriminate. injection H as <-.
    apply in_scope_true in E. cbn in E. cbn [new_cron_field_n fst snd]. unfold dom_shape, single_in.
    replace (1 <=? d) with true by (symmetry; apply Z.leb_le; lia).
    replace (d <=? 31) with true by (symmetry; apply Z.leb_le; lia).
    unfold go_cronWeekdayN. cbn. rewrite ?orb_true_r. reflexivity. }
  apply parse_field_wf in H. destruct H as [Hn H]. unfold dom_shape. rewrite Hn.
  cbn [Z.eqb andb]. unfold sorted_in. destruct H as [H1 H2]. rewrite H1, H2. reflexivity.
Qed.

(* before the add(-1) shift: values 1..7 *)
Definition dow_pre_shape (vals : list Z) (n : Z) : Prop :=
  (n = 0 /\ in_range 1 7 vals = true /\ sortedb vals = true) \/
  ((n = -1 \/ 1 <= n <= 5) /\ exists d, vals = [d] /\ 1 <= d <= 7).

Lemma parse_dow_pre : forall t f,
  parse_day_of_week_field t go_bound_dow days = Ok f -> dow_pre_shape (fst f) (snd f).
Proof.
  unfold parse_day_of_week_field. intros t f H.
  destruct (contains_rune go_lastRune t && re_last_weekday t).
  { destruct (bytes_eqb (trim_suffix_char go_lastRune t) []).
    { injection H as <-. right. split; [left; reflexivity|]. exists 7. split; [reflexivity|lia]. }
    destruct (normalize (trim_suffix_char go_lastRune t) days) as [d|]; try discriminate.
    destruct (in_scope d (fst go_bound_dow) (snd go_bound_dow)) eqn:E; try discriminate. injection H as <-.
    apply in_scope_true in E. cbn in E. right. split; [left; reflexivity|]. exists d. split; [reflexivity|lia]. }
  destruct (contains_rune go_hashRune t && re_hash t).
  { destruct (split_on go_hashRune t) as [|v0 [|v1 [|]]]; try discriminate.
    destruct (normalize v0 days) as [d|]; try discriminate.
    destruct (in_scope d (fst go_bound_dow) (snd go_bound_dow)) eqn:E; try discriminate.
    destruct (atoi v1) as [n|]; try discriminate.
    destruct (in_scope n go_hash_lo go_hash_hi) eqn:E2; try discriminate. injection H as <-.
    apply in_scope_true in E, E2. cbn in E. unfold go_hash_lo, go_hash_hi in E2.
    right. split; [right; exact E2|]. exists d. split; [reflexivity|lia]. }
  apply parse_field_wf in H. left. exact H.
Qed.

Lemma sortedb_map_add : forall d l, sortedb l = true -> sortedb (map (fun v => v + d) l) = true.
Proof.
  intros d. induction l as [|x l IH]; intro H; [reflexivity|].
  destruct l as [|y l]; [reflexivity|].
  change (sortedb (x :: y :: l)) with ((x <=? y) && sortedb (y :: l)) in H. apply andb_true_iff in H as [H1 H2].
  change (sortedb (map (fun v => v + d) (x :: y :: l))) with ((x + d <=? y + d) && sortedb (map (fun v => v + d) (y :: l))).
  rewrite (IH H2). apply Z.leb_le in H1. replace (x + d <=? y + d) with true; [reflexivity|]. symmetry. apply Z.leb_le. lia.
Qed.

Lemma in_range_map_add : forall lo hi d l, in_range lo hi l = true -> in_range (lo + d) (hi + d) (map (fun v => v + d) l) = true.
Proof.
  intros lo hi d l H. rewrite in_range_forall in *. intros x Hx. apply in_map_iff in Hx as [y [<- Hy]]. specialize (H y Hy). lia.
Qed.

Lemma dow_shift_shape : forall vals n, dow_pre_shape vals n -> vals <> [] ->
  dow_shape (map (fun v => v + go_dow_shift) vals) n = true.
Proof.
  intros vals n [[-> [H1 H2]]|[Hn [d [-> Hd]]]] Hne; unfold dow_shape.
  - cbn [Z.eqb andb]. unfold sorted_in. rewrite (sortedb_map_add _ _ H2).
    apply (in_range_map_add 1 7 go_dow_shift) in H1. cbn in H1. rewrite H1. reflexivity.
  - cbn [map]. unfold single_in, go_dow_shift.
    replace (0 <=? d + -1) with true by (symmetry; apply Z.leb_le; lia).
    replace (d + -1 <=? 6) with true by (symmetry; apply Z.leb_le; lia).
    destruct Hn as [->|Hn]; [reflexivity|].
    replace (1 <=? n) with true by (symmetry; apply Z.leb_le; lia).
    replace (n <=? 5) with true by (symmetry; apply Z.leb_le; lia).
    cbn. rewrite ?orb_true_r. reflexivity.
Qed.

Lemma is_any_parse_field : forall t b names, is_any t = true -> parse_field t b names = Ok ([], 0).
Proof.
  intros t b names H. unfold parse_field. unfold is_any in H. rewrite orb_comm in H. rewrite H. reflexivity.
Qed.

Lemma bytes_eqb_eq : forall a b, bytes_eqb a b = true <-> a = b.
Proof.
  induction a as [|x a IH]; destruct b as [|y b]; cbn [bytes_eqb]; split; intro H; try reflexivity; try discriminate.
  - apply andb_true_iff in H as [H1 H2]. apply Ascii.eqb_eq in H1. apply IH in H2. subst. reflexivity.
  - injection H as -> ->. rewrite Ascii.eqb_refl. cbn. apply IH. reflexivity.
Qed.

Lemma is_any_cases : forall t, is_any t = true -> t = qmark \/ t = star.
Proof.
  intros t H. unfold is_any in H. apply orb_true_iff in H as [H|H]; apply bytes_eqb_eq in H; auto.
Qed.

Lemma is_any_dom : forall t, is_any t = true -> parse_day_of_month_field t go_bound_dom [] = Ok ([], 0).
Proof. intros t H. destruct (is_any_cases t H) as [->| ->]; reflexivity. Qed.

Lemma is_any_dow : forall t, is_any t = true -> parse_day_of_week_field t go_bound_dow days = Ok ([], 0).
Proof. intros t H. destruct (is_any_cases t H) as [->| ->]; reflexivity. Qed.

(* a day-of-week token other than "*" and "?" yields at least one value *)
Lemma parse_dow_nonempty : forall t f,
  parse_day_of_week_field t go_bound_dow days = Ok f -> is_any t = false -> fst f <> [].
Proof.
  unfold parse_day_of_week_field. intros t f H Hany.
  destruct (contains_rune go_lastRune t && re_last_weekday t).
  { destruct (bytes_eqb (trim_suffix_char go_lastRune t) []). { injection H as <-. discriminate. }
    destruct (normalize (trim_suffix_char go_lastRune t) days) as [d|]; try discriminate.
    destruct (in_scope d (fst go_bound_dow) (snd go_bound_dow)); try discriminate. injection H as <-. discriminate. }
  destruct (contains_rune go_hashRune t && re_hash t).
  { destruct (split_on go_hashRune t) as [|v0 [|v1 [|]]]; try discriminate.
    destruct (normalize v0 days) as [d|]; try discriminate.
    destruct (in_scope d (fst go_bound_dow) (snd go_bound_dow)); try discriminate.
    destruct (atoi v1) as [n|]; try discriminate.
    destruct (in_scope n go_hash_lo go_hash_hi); try discriminate. injection H as <-. discriminate. }
  intro Hf. apply (parse_field_empty _ _ _ _ H) in Hf. unfold is_any in Hany. rewrite orb_comm in Hany. congruence.
Qed.

Lemma build_cron_field_wf : forall tokens f,
  is_any (nth 3 tokens []) = true \/ is_any (nth 5 tokens []) = true ->
  build_cron_field tokens = Ok f -> wf_fields f = true.
Proof.
  unfold build_cron_field. intros tokens f Hday H. cbv beta zeta in H.
  inv_bind_as H f0 H0. inv_bind_as H f1 H1. inv_bind_as H f2 H2. inv_bind_as H f3 H3.
  inv_bind_as H f4 H4. inv_bind_as H f5 H5. inv_bind_as H f6 H6. injection H as <-.
  apply parse_field_wf in H0, H1, H2, H4, H6.
  apply sorted_in_of_wf in H0, H1, H2, H4, H6.
  unfold wf_fields. cbn [fl_sec fl_min fl_hour fl_mon fl_year].
  rewrite H0, H1, H2, H4, H6. cbn [andb].
  unfold wf_day. cbn [fl_dow fl_dow_n fl_dom fl_dom_n field_add fst snd].
  destruct (is_any (nth 5 tokens [])) eqn:E5.
  - pose proof (eq_trans (eq_sym H5) (is_any_dow _ E5)) as X. injection X as ->. cbn [fst snd map]. cbn [Z.eqb andb].
    exact (parse_dom_wf _ _ H3).
  - destruct Hday as [E3|]; [|discriminate].
    pose proof (eq_trans (eq_sym H3) (is_any_dom _ E3)) as X. injection X as ->. cbn [fst snd].
    pose proof (parse_dow_nonempty _ _ H5 E5) as Hne.
    pose proof (dow_shift_shape _ _ (parse_dow_pre _ _ H5) Hne) as Hs.
    destruct (fst f5) as [|x l]; [contradiction|]. cbn [map] in *. rewrite Hs. reflexivity.
Qed.

Lemma parse_cron_expression_wf : forall e f, parse_cron_expression e = Ok f -> wf_fields f = true.
Proof.
  unfold parse_cron_expression. intros e f H.
  destruct ((Z.of_nat (List.length (tokens_of e)) <? go_tokens_min) || (Z.of_nat (List.length (tokens_of e)) >? go_tokens_max));
    try discriminate.
  match type of H with (if ?c then _ else _) = _ => destruct c eqn:E end; try discriminate.
  eapply build_cron_field_wf; [|exact H].
  apply andb_false_iff in E as [E|E]; apply negb_false_iff in E; auto.
Qed.

Lemma parse_ok_wf_proof : forall s f, parse s = Ok f -> wf_fields f = true.
Proof. intros s f H. eapply parse_cron_expression_wf. exact H. Qed.

(* the fields a trigger acts on *)
Lemma wildcard_fixup_wf : forall f, wf_fields f = true -> wf_fields (wildcard_fixup f) = true.
Proof.
  intros f H. unfold wildcard_fixup. destruct (all_values_empty f) eqn:E; [|exact H].
  unfold wf_fields in *. cbn [fl_sec fl_min fl_hour fl_mon fl_year].
  assert (S : sorted_in 0 59 (match fill_range_values (fst go_wildcard_fill) (snd go_wildcard_fill) with
                              | Ok vs => vs | ParseError => [] end) = true) by (vm_compute; reflexivity).
  rewrite S. destruct (sorted_in 0 59 (fl_sec f)); [exact H | discriminate H].
Qed.

Lemma parse_trigger_ok_wf_proof : forall s f, parse_trigger s = Ok f -> wf_fields f = true.
Proof.
  intros s f H. unfold parse_trigger in H. inv_bind_as H g Hg. injection H as <-.
  apply wildcard_fixup_wf. eapply parse_ok_wf_proof. exact Hg.
Qed.

(* parse_ok_shape: an accepted string is a macro or has 6 or 7 tokens *)
Lemma parse_ok_shape_proof : forall s f, parse s = Ok f ->
  (exists v, lookup_special (trim_cron_expression s) special = Some v) \/
  (List.length (split_on space (trim_cron_expression s)) = 6%nat \/ List.length (split_on space (trim_cron_expression s)) = 7%nat).
Proof.
  intros s f H. unfold parse, parse_cron_expression in H.
  destruct ((Z.of_nat (List.length (tokens_of (trim_cron_expression s))) <? go_tokens_min)
            || (Z.of_nat (List.length (tokens_of (trim_cron_expression s))) >? go_tokens_max)) eqn:E; try discriminate.
  clear H. apply orb_false_iff in E as [E1 E2]. apply Z.ltb_ge in E1. rewrite Z.gtb_ltb in E2. apply Z.ltb_ge in E2.
  unfold go_tokens_min in E1. unfold go_tokens_max in E2. unfold tokens_of in *.
  destruct (lookup_special (trim_cron_expression s) special) as [v|]; [left; exists v; reflexivity|right]. lia.
Qed.

Lemma parse_total_proof : forall s, parse s = ParseError \/ exists f, parse s = Ok f.
Proof. intro s. destruct (parse s) as [f|]; [right; exists f; reflexivity | left; reflexivity]. Qed.

Lemma parse_trigger_total_proof : forall s,
  (parse s = ParseError /\ parse_trigger s = ParseError) \/ exists f, parse s = Ok f /\ parse_trigger s = Ok (wildcard_fixup f).
Proof. intro s. unfold parse_trigger. destruct (parse s) as [f|]; [right; exists f; auto | left; auto]. Qed.
