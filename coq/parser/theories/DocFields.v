(* parse_doc_complete, field level: the field parsers of the model accept the rendering of every
   well-formed documented field expression, in every variant, with the documented values. *)
From Coq Require Import ZArith NArith List Bool Ascii String Lia Sorted Permutation.
Require Import QzBase.Fields QzParser.Gen.Params QzParser.ZSort QzParser.ParserModel QzParser.ParserLemmas
  QzParser.ParserWfProofs QzParser.ParserSpec QzParser.DocChars QzParser.DocValues.
Import ListNotations.
Open Scope Z_scope.
Open Scope list_scope.

Lemma btw_true : forall lo x hi, btw lo x hi = true <-> lo <= x <= hi.
Proof. intros. unfold btw. rewrite andb_true_iff, !Z.leb_le. tauto. Qed.

Lemma bytes_eqb_refl : forall a, bytes_eqb a a = true.
Proof. intro a. apply bytes_eqb_eq. reflexivity. Qed.

Lemma bytes_eqb_neq : forall a b, a <> b -> bytes_eqb a b = false.
Proof. intros a b H. destruct (bytes_eqb a b) eqn:E; [|reflexivity]. apply bytes_eqb_eq in E. contradiction. Qed.

Definition is_step (it : item) : bool :=
  match it with IStepFrom _ _ | IStepAll _ | IStepRange _ _ _ => true | _ => false end.
Definition is_punct (c : ascii) : bool :=
  Ascii.eqb c (ch "*") || Ascii.eqb c (ch "?") || Ascii.eqb c (ch ",") || Ascii.eqb c (ch "-") || Ascii.eqb c (ch "/").
Definition has_dash (it : item) : bool :=
  match it with IRange _ _ | IStepRange _ _ _ => true | _ => false end.

Section Field.
  Variable v : variant.
  Variable fi : nat.
  Variables lo hi : Z.
  Hypothesis Hfi : (fi < 7)%nat.
  Hypothesis Hlo : 0 <= lo.
  Hypothesis Hlh : lo <= hi.
  Hypothesis Hhi : hi < 4000.

  Let G := gloss fi.
  Local Notation pv k role n := (render_value fi (v_name v fi k role) n).

  Lemma pv_alnum : forall k role n, lo <= n <= hi -> all_alnum (pv k role n) = true /\ pv k role n <> [].
  Proof. intros. apply render_value_alnum. lia. Qed.

  Lemma pv_no : forall k role n c, lo <= n <= hi -> not_special c = false -> contains_rune c (pv k role n) = false.
  Proof. intros k role n c Hn Hc. apply alnum_no; [apply pv_alnum; exact Hn|exact Hc]. Qed.

  Lemma pn_no : forall s c, 0 <= s < 4000 -> not_special c = false -> contains_rune c (print_Z s) = false.
  Proof. intros s c Hs Hc. apply alnum_no; [apply all_digits_alnum, print_digits_only; exact Hs|exact Hc]. Qed.

  Lemma pv_norm : forall k role n, lo <= n <= hi -> normalize (pv k role n) G = Ok n.
  Proof. intros. apply render_value_normalize; [exact Hfi|lia]. Qed.

  Lemma pv_not_star : forall k role n r, lo <= n <= hi -> bytes_eqb (pv k role n ++ r) star = false /\ bytes_eqb (pv k role n ++ r) qmark = false.
  Proof.
    intros k role n r Hn. destruct (pv_alnum k role n Hn) as [A Hne].
    destruct (pv k role n) as [|c s]; [contradiction|]. cbn [all_alnum forallb] in A. apply andb_true_iff in A as [Ac _].
    pose proof (impb_elim _ _ (alnum_not_special c) Ac) as NS. unfold not_special in NS.
    repeat (apply andb_true_iff in NS; destruct NS as [NS ?]).
    cbn [app bytes_eqb star qmark]. change (ascii_of_nat 42) with (ch "*"). change (ascii_of_nat 63) with (ch "?").
    apply negb_true_iff in H3, H2. rewrite H3, H2. split; reflexivity.
  Qed.

  Ltac scope_true := rewrite (proj2 (in_scope_true _ _ _)) by lia.

  Lemma sp_range : not_special go_rangeRune = false. Proof. reflexivity. Qed.
  Lemma sp_step : not_special go_stepRune = false. Proof. reflexivity. Qed.
  Lemma sp_list : not_special go_listRune = false. Proof. reflexivity. Qed.

  (* ---- single members ---- *)
  Lemma range_parse : forall k a b, wf_item lo hi (IRange a b) = true ->
    parse_range_field (render_item v fi k (IRange a b)) (lo, hi) G = Ok (item_values lo hi (IRange a b), 0).
  Proof.
    intros k a b W. cbn [wf_item] in W. apply andb_true_iff in W as [W Hab]. apply andb_true_iff in W as [Ha Hb].
    apply btw_true in Ha, Hb. apply Z.leb_le in Hab.
    unfold parse_range_field. cbn [render_item]. change (ch "-") with go_rangeRune.
    rewrite split_on_app by (apply pv_no; [exact Ha|exact sp_range]).
    rewrite split_on_none by (apply pv_no; [exact Hb|exact sp_range]).
    rewrite (pv_norm k 0%nat a Ha), (pv_norm k 1%nat b Hb). cbn [bind fst snd].
    repeat scope_true. cbn [negb orb]. unfold fill_range_values.
    replace (b <? a) with false by (symmetry; apply Z.ltb_ge; lia). cbn [bind new_cron_field].
    rewrite (range_values lo hi a b) by lia. reflexivity.
  Qed.

  Lemma fill_step_ok : forall from s to, from <= to -> 1 <= s ->
    fill_step_values from s to = Ok (count_up (Z.to_nat ((to - from) / s + 1)) from s).
  Proof.
    intros from s to H1 H2. unfold fill_step_values.
    replace (to <? from) with false by (symmetry; apply Z.ltb_ge; lia).
    replace (s =? 0) with false by (symmetry; apply Z.eqb_neq; lia). reflexivity.
  Qed.

  Lemma step_parse : forall k it, is_step it = true -> wf_item lo hi it = true ->
    parse_step_field (render_item v fi k it) (lo, hi) G = Ok (item_values lo hi it, 0).
  Proof.
    intros k it S W. destruct it as [n|a b|a s|s|a b s]; try discriminate S; cbn [wf_item] in W.
    - (* a/s *)
      apply andb_true_iff in W as [Ha Hs]. apply btw_true in Ha, Hs.
      unfold parse_step_field. cbn [render_item]. change (ch "/") with go_stepRune.
      rewrite split_on_app by (apply pv_no; [exact Ha|exact sp_step]).
      rewrite split_on_none by (apply pn_no; [lia|exact sp_step]).
      destruct (pv_not_star k 0%nat a [] Ha) as [NS _]. rewrite app_nil_r in NS. rewrite NS.
      rewrite (pv_no k 0%nat a go_rangeRune Ha sp_range).
      rewrite (pv_norm k 0%nat a Ha). cbn [bind fst snd]. rewrite print_atoi by lia.
      unfold go_step_lo. repeat scope_true. cbn [negb orb].
      rewrite fill_step_ok by lia. cbn [bind new_cron_field]. rewrite (step_from_values lo hi a s) by lia. reflexivity.
    - (* star/s *)
      apply btw_true in W.
      unfold parse_step_field. cbn [render_item]. change (ch "/") with go_stepRune.
      change (ch "*" :: go_stepRune :: print_Z s) with (star ++ go_stepRune :: print_Z s).
      rewrite split_on_app by reflexivity.
      rewrite split_on_none by (apply pn_no; [lia|exact sp_step]).
      rewrite bytes_eqb_refl. cbn [bind fst snd]. rewrite print_atoi by lia.
      unfold go_step_lo. repeat scope_true. cbn [negb orb].
      rewrite fill_step_ok by lia. cbn [bind new_cron_field]. rewrite (step_all_values lo hi s) by lia. reflexivity.
    - (* a-b/s *)
      apply andb_true_iff in W as [W Hs]. apply andb_true_iff in W as [W Hab]. apply andb_true_iff in W as [Ha Hb].
      apply btw_true in Ha, Hb, Hs. apply Z.leb_le in Hab.
      unfold parse_step_field. cbn [render_item].
      change (ch "/") with go_stepRune. change (ch "-") with go_rangeRune.
      replace (pv k 0%nat a ++ go_rangeRune :: pv k 1%nat b ++ go_stepRune :: print_Z s)
        with ((pv k 0%nat a ++ go_rangeRune :: pv k 1%nat b) ++ go_stepRune :: print_Z s)
        by (rewrite <- app_assoc; reflexivity).
      rewrite split_on_app.
      2:{ rewrite contains_app, contains_cons, (pv_no k 0%nat a go_stepRune Ha sp_step), (pv_no k 1%nat b go_stepRune Hb sp_step). reflexivity. }
      rewrite split_on_none by (apply pn_no; [lia|exact sp_step]).
      destruct (pv_not_star k 0%nat a (go_rangeRune :: pv k 1%nat b) Ha) as [NS _]. rewrite NS.
      rewrite contains_app, contains_cons, Ascii.eqb_refl, orb_true_r. cbn [orb].
      rewrite split_on_app by (apply pv_no; [exact Ha|exact sp_range]).
      rewrite split_on_none by (apply pv_no; [exact Hb|exact sp_range]).
      rewrite (pv_norm k 0%nat a Ha), (pv_norm k 1%nat b Hb). cbn [bind fst snd]. rewrite print_atoi by lia.
      unfold go_step_lo. repeat scope_true. cbn [negb orb].
      rewrite fill_step_ok by lia. cbn [bind new_cron_field]. rewrite (step_range_values lo hi a b s) by lia. reflexivity.
  Qed.

  (* ---- which characters a rendered member contains ---- *)
  Lemma item_contains : forall k it, wf_item lo hi it = true ->
    contains_rune go_listRune (render_item v fi k it) = false /\
    contains_rune go_stepRune (render_item v fi k it) = is_step it /\
    contains_rune go_rangeRune (render_item v fi k it) = has_dash it /\
    bytes_eqb (render_item v fi k it) star = false /\ bytes_eqb (render_item v fi k it) qmark = false.
  Proof.
    intros k it W. destruct it as [n|a b|a s|s|a b s]; cbn [wf_item] in W; cbn [render_item is_step has_dash].
    - apply btw_true in W. rewrite !pv_no by (try exact W; reflexivity).
      destruct (pv_not_star k 0%nat n [] W) as [N1 N2]. rewrite app_nil_r in N1, N2. auto.
    - apply andb_true_iff in W as [W Hab]. apply andb_true_iff in W as [Ha Hb]. apply btw_true in Ha, Hb.
      rewrite !contains_app, !contains_cons, !pv_no by (try assumption; reflexivity).
      destruct (pv_not_star k 0%nat a (ch "-" :: pv k 1%nat b) Ha) as [N1 N2]. auto.
    - apply andb_true_iff in W as [Ha Hs]. apply btw_true in Ha, Hs.
      rewrite !contains_app, !contains_cons, !pv_no, !pn_no by (try assumption; try lia; reflexivity).
      destruct (pv_not_star k 0%nat a (ch "/" :: print_Z s) Ha) as [N1 N2]. auto.
    - apply btw_true in W. rewrite !contains_cons, !pn_no by (try lia; reflexivity). auto.
    - apply andb_true_iff in W as [W Hs]. apply andb_true_iff in W as [W Hab]. apply andb_true_iff in W as [Ha Hb].
      apply btw_true in Ha, Hb, Hs.
      rewrite !contains_app, !contains_cons, !contains_app, !contains_cons, !pv_no, !pn_no by (try assumption; try lia; reflexivity).
      destruct (pv_not_star k 0%nat a (ch "-" :: pv k 1%nat b ++ ch "/" :: print_Z s) Ha) as [N1 N2]. auto.
  Qed.

  (* ---- a single member as the whole field ---- *)
  Lemma item_parse : forall k it, wf_item lo hi it = true ->
    parse_field (render_item v fi k it) (lo, hi) G = Ok (item_values lo hi it, 0).
  Proof.
    intros k it W. destruct (item_contains k it W) as [C1 [C2 [C3 [C4 C5]]]].
    unfold parse_field. rewrite C4, C5, C1, C2, C3. cbn [orb].
    destruct it as [n|a b|a s|s|a b s]; cbn [is_step has_dash].
    - cbn [wf_item] in W. apply btw_true in W. cbn [render_item].
      rewrite (pv_norm k 0%nat n W). cbn [bind fst snd]. scope_true. rewrite val_values by lia. reflexivity.
    - apply range_parse. exact W.
    - apply step_parse; [reflexivity|exact W].
    - apply step_parse; [reflexivity|exact W].
    - apply step_parse; [reflexivity|exact W].
  Qed.

  (* ---- lists ---- *)
  Definition rendered (it : item) (s : bytes) : Prop := exists k, s = render_item v fi k it.

  Lemma render_items_rendered : forall l k, Forall2 rendered l (render_items v fi k l).
  Proof. induction l as [|it l IH]; intro k; cbn [render_items]; constructor; [exists k; reflexivity|apply IH]. Qed.

  Lemma forall2_filter : forall (p : item -> bool) (q : bytes -> bool) l strs,
    Forall2 rendered l strs -> Forall (fun it => wf_item lo hi it = true) l ->
    (forall it s, wf_item lo hi it = true -> rendered it s -> q s = p it) ->
    Forall2 rendered (filter p l) (filter q strs) /\ Forall (fun it => wf_item lo hi it = true) (filter p l).
  Proof.
    intros p q l strs F W Hpq. induction F as [|it s l strs R F IH]; [split; constructor|].
    inversion W as [|? ? Wit Wl]; subst. destruct (IH Wl) as [I1 I2].
    cbn [filter]. rewrite (Hpq it s Wit R). destruct (p it); [split; constructor; assumption|split; assumption].
  Qed.

  Definition val_of (it : item) : Z := match it with IVal n => n | _ => 0 end.

  Lemma plain_parse : forall l strs, Forall2 rendered l strs ->
    Forall (fun it => wf_item lo hi it = true /\ is_step it = false /\ has_dash it = false) l ->
    translate_literals G strs = Ok (List.concat (map (item_values lo hi) l)) /\
    forallb (fun x => in_scope x lo hi) (List.concat (map (item_values lo hi) l)) = true.
  Proof.
    intros l strs F. induction F as [|it s l strs [k ->] F IH]; intro W; [split; reflexivity|].
    inversion W as [|? ? [Wit [S D]] Wl]; subst. destruct (IH Wl) as [I1 I2].
    destruct it as [n|a b|a s|s|a b s]; try discriminate.
    cbn [wf_item] in Wit. apply btw_true in Wit.
    cbn [translate_literals render_item map List.concat].
    rewrite (pv_norm k 0%nat n Wit), I1. cbn [bind]. rewrite val_values by lia. cbn [app forallb].
    rewrite I2. scope_true. split; reflexivity.
  Qed.

  Lemma each_parse : forall (p : bytes -> result cron_field) (c : item -> bool) l strs,
    (forall k it, c it = true -> wf_item lo hi it = true -> p (render_item v fi k it) = Ok (item_values lo hi it, 0)) ->
    Forall2 rendered l strs -> Forall (fun it => wf_item lo hi it = true /\ c it = true) l ->
    parse_each p strs = Ok (List.concat (map (item_values lo hi) l)).
  Proof.
    intros p c l strs Hp F. induction F as [|it s l strs [k ->] F IH]; intro W; [reflexivity|].
    inversion W as [|? ? [Wit Cit] Wl]; subst.
    cbn [parse_each map List.concat]. rewrite (Hp k it Cit Wit), (IH Wl). reflexivity.
  Qed.

  Lemma concat_partition_perm : forall (p : item -> bool) (f : item -> list Z) l,
    Permutation (List.concat (map f l))
                (List.concat (map f (filter (fun x => negb (p x)) l)) ++ List.concat (map f (filter p l))).
  Proof.
    intros p f. induction l as [|x l IH]; [constructor|].
    cbn [map List.concat filter]. destruct (p x); cbn [negb map List.concat].
    - eapply Permutation_trans; [apply Permutation_app_head; exact IH|].
      rewrite app_assoc. eapply Permutation_trans; [apply Permutation_app_tail, Permutation_app_comm|].
      rewrite <- app_assoc. apply Permutation_app_head. apply Permutation_refl.
    - rewrite <- app_assoc. apply Permutation_app_head. exact IH.
  Qed.

  Lemma forall_filter : forall (P : item -> Prop) (p : item -> bool) l, Forall P l -> Forall (fun x => P x /\ p x = true) (filter p l).
  Proof.
    intros P p l H. induction H as [|x l Hx H IH]; [constructor|]. cbn [filter]. destruct (p x) eqn:E; [constructor; auto|exact IH].
  Qed.

  Lemma join_two_contains : forall sep t r, r <> [] -> contains_rune sep (join_with sep (t :: r)) = true.
  Proof.
    intros sep t r Hr. destruct r as [|t' r']; [contradiction|].
    change (join_with sep (t :: t' :: r')) with (t ++ sep :: join_with sep (t' :: r')).
    rewrite contains_app, contains_cons, Ascii.eqb_refl, orb_true_r. reflexivity.
  Qed.

  Lemma list_parse : forall i1 i2 rest, forallb (wf_item lo hi) (i1 :: i2 :: rest) = true ->
    parse_field (render_fexpr v fi (FList i1 i2 rest)) (lo, hi) G = Ok (fexpr_values lo hi (FList i1 i2 rest), 0).
  Proof.
    intros i1 i2 rest W. set (l := i1 :: i2 :: rest) in *.
    assert (WF : Forall (fun it => wf_item lo hi it = true) l) by (apply Forall_forall; apply forallb_forall; exact W).
    cbn [render_fexpr fexpr_values]. fold l. set (strs := render_items v fi 0 l).
    assert (F : Forall2 rendered l strs) by apply render_items_rendered.
    change (ch ",") with go_listRune.
    assert (Hno : forall t, In t strs -> contains_rune go_listRune t = false).
    { intros t Ht. clear W. induction F as [|it s l' strs' [k ->] F IH]; [destruct Ht|].
      inversion WF as [|? ? Wit Wl]; subst. destruct Ht as [<-|Ht]; [apply item_contains; exact Wit|apply IH; assumption]. }
    assert (Hc : contains_rune go_listRune (join_with go_listRune strs) = true).
    { subst strs l. cbn [render_items]. apply join_two_contains. discriminate. }
    unfold parse_field.
    replace (bytes_eqb (join_with go_listRune strs) star) with false.
    2:{ symmetry. apply bytes_eqb_neq. intro E. rewrite E in Hc. discriminate Hc. }
    replace (bytes_eqb (join_with go_listRune strs) qmark) with false.
    2:{ symmetry. apply bytes_eqb_neq. intro E. rewrite E in Hc. discriminate Hc. }
    cbn [orb]. rewrite Hc.
    unfold parse_list_field, extract_step_values, extract_range_values, extract_values.
    rewrite split_on_join; [|subst strs l; discriminate|exact Hno].
    cbv beta iota zeta.
    (* the three groups of members *)
    destruct (forall2_filter (fun it => negb (is_step it)) (fun s => negb (contains_rune go_stepRune s)) l strs F WF) as [Fv Wv].
    { intros it s Wit [k ->]. destruct (item_contains k it Wit) as [_ [C _]]. rewrite C. reflexivity. }
    destruct (forall2_filter is_step (contains_rune go_stepRune) l strs F WF) as [Fs Ws].
    { intros it s Wit [k ->]. apply item_contains. exact Wit. }
    destruct (forall2_filter (fun it => negb (has_dash it)) (fun s => negb (contains_rune go_rangeRune s)) _ _ Fv Wv) as [Fp Wp].
    { intros it s Wit [k ->]. destruct (item_contains k it Wit) as [_ [_ [C _]]]. rewrite C. reflexivity. }
    destruct (forall2_filter has_dash (contains_rune go_rangeRune) _ _ Fv Wv) as [Fr Wr].
    { intros it s Wit [k ->]. apply item_contains. exact Wit. }
    set (V := filter (fun it => negb (is_step it)) l) in *.
    set (S := filter is_step l) in *.
    set (P := filter (fun it => negb (has_dash it)) V) in *.
    set (R := filter has_dash V) in *.
    destruct (plain_parse P _ Fp) as [T1 T2].
    { subst P. apply Forall_forall. intros it Hit. apply filter_In in Hit as [Hit D]. subst V. apply filter_In in Hit as [Hit St].
      rewrite Forall_forall in WF. apply negb_true_iff in D, St. auto. }
    rewrite T1. cbn [bind fst snd]. rewrite T2. cbn [negb].
    rewrite (each_parse _ is_step S _ (fun k it => step_parse k it) Fs).
    2:{ subst S. apply forall_filter. exact WF. }
    cbn [bind].
    rewrite (each_parse _ (fun it => has_dash it && negb (is_step it)) R _).
    2:{ intros k it C Wit. destruct it as [n|a b|a s|s|a b s]; try discriminate C. apply range_parse. exact Wit. }
    2:{ exact Fr. }
    2:{ subst R. apply Forall_forall. intros it Hit. apply filter_In in Hit as [Hit D]. subst V. apply filter_In in Hit as [Hit St].
        rewrite Forall_forall in WF. rewrite D, St. auto. }
    cbn [bind]. unfold new_cron_field, sort_ints. do 2 f_equal. apply sort_perm_eq.
    set (f := item_values lo hi).
    eapply Permutation_trans; [|apply Permutation_sym, (concat_partition_perm is_step f l)]. fold V S.
    eapply Permutation_trans; [|apply Permutation_app_tail, Permutation_sym, (concat_partition_perm has_dash f V)]. fold P R.
    rewrite <- app_assoc. apply Permutation_app_head. apply Permutation_app_comm.
  Qed.

  (* ---- the whole field ---- *)
  Lemma fexpr_parse : forall any_ok f, wf_fexpr any_ok lo hi f = true ->
    parse_field (render_fexpr v fi f) (lo, hi) G = Ok (fexpr_values lo hi f, 0).
  Proof.
    intros any_ok f W. destruct f as [| |it|i1 i2 rest].
    - reflexivity.
    - reflexivity.
    - apply item_parse. exact W.
    - apply list_parse. exact W.
  Qed.

  (* characters of a rendered field: the characters vc of its values and * ? , - / *)
  Variable vc : ascii -> bool.
  Hypothesis Hvc : forall k role n, lo <= n <= hi -> forallb vc (pv k role n) = true.
  Hypothesis Hvd : forall c, is_digit c = true -> vc c = true.

  Definition field_char (c : ascii) : bool := is_punct c || vc c.

  Lemma vc_field_chars : forall s, forallb vc s = true -> forallb field_char s = true.
  Proof.
    intros s H. rewrite forallb_forall in *. intros c Hc. unfold field_char. rewrite (H c Hc). apply orb_true_r.
  Qed.

  Lemma item_chars : forall k it, wf_item lo hi it = true ->
    forallb field_char (render_item v fi k it) = true /\ render_item v fi k it <> [].
  Proof.
    intros k it W.
    assert (PV : forall role n, lo <= n <= hi -> forallb field_char (pv k role n) = true).
    { intros. apply vc_field_chars. apply Hvc. assumption. }
    assert (PN : forall s, 0 <= s < 4000 -> forallb field_char (print_Z s) = true).
    { intros s0 Hs0. apply vc_field_chars. pose proof (print_digits_only s0 Hs0) as D. unfold all_digits in D.
      rewrite forallb_forall in *. intros c Hc. apply Hvd. apply D. exact Hc. }
    destruct it as [n|a b|a s|s|a b s]; cbn [wf_item] in W; cbn [render_item].
    - apply btw_true in W. split; [apply PV; exact W|apply pv_alnum; exact W].
    - apply andb_true_iff in W as [W Hab]. apply andb_true_iff in W as [Ha Hb]. apply btw_true in Ha, Hb.
      rewrite forallb_app. cbn [forallb]. rewrite !PV by assumption. split; [reflexivity|]. destruct (pv k 0%nat a); discriminate.
    - apply andb_true_iff in W as [Ha Hs]. apply btw_true in Ha, Hs.
      rewrite forallb_app. cbn [forallb]. rewrite PV, PN by (try assumption; lia). split; [reflexivity|]. destruct (pv k 0%nat a); discriminate.
    - apply btw_true in W. cbn [forallb]. rewrite PN by lia. split; [reflexivity|discriminate].
    - apply andb_true_iff in W as [W Hs]. apply andb_true_iff in W as [W Hab]. apply andb_true_iff in W as [Ha Hb].
      apply btw_true in Ha, Hb, Hs.
      rewrite forallb_app. cbn [forallb]. rewrite forallb_app. cbn [forallb]. rewrite !PV, PN by (try assumption; lia).
      split; [reflexivity|]. destruct (pv k 0%nat a); discriminate.
  Qed.

  Lemma join_chars : forall (p : ascii -> bool) sep l, p sep = true -> (forall t, In t l -> forallb p t = true) ->
    forallb p (join_with sep l) = true.
  Proof.
    intros p sep. induction l as [|t r IH]; intros Hs H; [reflexivity|].
    destruct r as [|t' r']; [apply H; left; reflexivity|].
    change (join_with sep (t :: t' :: r')) with (t ++ sep :: join_with sep (t' :: r')).
    rewrite forallb_app. cbn [forallb]. rewrite Hs, (H t (or_introl eq_refl)). cbn [andb].
    apply IH; [exact Hs|]. intros x Hx. apply H. right. exact Hx.
  Qed.

  Lemma fexpr_chars : forall any_ok f, wf_fexpr any_ok lo hi f = true ->
    forallb field_char (render_fexpr v fi f) = true /\ render_fexpr v fi f <> [].
  Proof.
    intros any_ok f W. destruct f as [| |it|i1 i2 rest].
    - split; [reflexivity|discriminate].
    - split; [reflexivity|discriminate].
    - apply item_chars. exact W.
    - cbn [render_fexpr]. cbn [wf_fexpr] in W. split.
      + apply join_chars; [reflexivity|]. intros t Ht.
        assert (Forall2 rendered (i1 :: i2 :: rest) (render_items v fi 0 (i1 :: i2 :: rest))) as F by apply render_items_rendered.
        rewrite forallb_forall in W. revert Ht W. generalize (render_items v fi 0 (i1 :: i2 :: rest)), (i1 :: i2 :: rest) , F.
        intros strs l F'. induction F' as [|it s l' strs' [k ->] F' IH]; intros Ht W; [destruct Ht|].
        destruct Ht as [<-|Ht]; [apply item_chars; apply W; left; reflexivity|]. apply IH; [exact Ht|]. intros x Hx. apply W. right. exact Hx.
      + cbn [render_items]. destruct (item_chars 0%nat i1) as [_ Hne].
        { rewrite forallb_forall in W. apply W. left. reflexivity. }
        change (join_with (ch ",") (render_item v fi 0 i1 :: render_item v fi 1 i2 :: render_items v fi 2 rest))
          with (render_item v fi 0 i1 ++ ch "," :: join_with (ch ",") (render_item v fi 1 i2 :: render_items v fi 2 rest)).
        destruct (render_item v fi 0 i1); [contradiction|discriminate].
  Qed.
End Field.
