(* M1p -- executable model of the cron expression parser of reugn/go-quartz
   (quartz/cron.go, quartz/util.go).  Definitions only; proofs are in Parser*Proofs.v.

   Strings are byte strings (list ascii).  One Gallina function per Go function, same case split,
   same order of tests.  Constants and tables come from Gen/Params.v (regenerated from the source).

   Library functions modelled from their documentation / source:
     strconv.Atoi        atoi              optional sign, >= 1 decimal digits, value in the int64 range
     strings.Split       split_on          single ASCII separator; always >= 1 piece
     strings.ContainsRune contains_rune    ASCII rune = byte membership
     strings.TrimSpace   trim_space        ASCII white space \t \n \v \f \r ' '   (Go also trims the
                                           Unicode spaces U+0085, U+00A0, U+1680, U+2000.., encoded in
                                           several bytes >= 0x80: documented divergence)
     strings.TrimSuffix  trim_suffix_char
     regexp `\s+`        is_re_space       [\t\n\f\r ]   (not \v)
     sort.Ints           sort_ints (merge sort)
     strings.Map upper   to_upper          ASCII a-z only (bytes >= 0x80 unchanged; Go rewrites invalid
                                           UTF-8 to U+FFFD, which never equals an ASCII glossary entry)
   The four field regular expressions are written out as the recognisers they denote; genparams fails
   closed if their sources change. *)
From Coq Require Import ZArith List Bool Ascii String.
Require Import QzBase.Fields QzParser.Gen.Params QzParser.ZSort.
Import ListNotations.
Open Scope Z_scope.

Definition bytes := list ascii.
Definition B (s : string) : bytes := list_ascii_of_string s.

Inductive result (A : Type) := Ok (a : A) | ParseError.
Arguments Ok {A} a.
Arguments ParseError {A}.

Definition bind {A C : Type} (r : result A) (f : A -> result C) : result C :=
  match r with Ok a => f a | ParseError => ParseError end.
Notation "'do' x <- r ; k" := (bind r (fun x => k)) (at level 200, x pattern, r at level 100, k at level 200).

Fixpoint bytes_eqb (a b : bytes) : bool :=
  match a, b with
  | [], [] => true
  | x :: a', y :: b' => Ascii.eqb x y && bytes_eqb a' b'
  | _, _ => false
  end.

Definition code (c : ascii) : Z := Z.of_N (N_of_ascii c).

(* ---- comparison operators copied from the source ---- *)
Definition cmp (op : cmp_op) (a b : Z) : bool :=
  match op with
  | OpGe => a >=? b | OpGt => a >? b | OpLe => a <=? b | OpLt => a <? b
  | OpEq => a =? b | OpNe => negb (a =? b)
  end.

(* util.go inScope *)
Definition in_scope (value lower upper : Z) : bool :=
  cmp go_in_scope_lower_op value lower && cmp go_in_scope_upper_op value upper.

(* ---- character classes ---- *)
Definition is_digit (c : ascii) : bool := (48 <=? code c) && (code c <=? 57).
Definition is_upper (c : ascii) : bool := (65 <=? code c) && (code c <=? 90).
Definition is_lower (c : ascii) : bool := (97 <=? code c) && (code c <=? 122).
Definition is_alnum (c : ascii) : bool := is_digit c || is_upper c || is_lower c.
(* regexp \s : [\t\n\f\r ] *)
Definition is_re_space (c : ascii) : bool :=
  let n := code c in (n =? 9) || (n =? 10) || (n =? 12) || (n =? 13) || (n =? 32).
(* unicode.IsSpace restricted to ASCII: \t \n \v \f \r ' ' *)
Definition is_trim_space (c : ascii) : bool :=
  let n := code c in ((9 <=? n) && (n <=? 13)) || (n =? 32).

Definition space : ascii := ascii_of_nat 32.
Definition star : bytes := [ascii_of_nat 42].
Definition qmark : bytes := [ascii_of_nat 63].

(* ---- strings ---- *)
Definition contains_rune (r : ascii) (s : bytes) : bool := existsb (Ascii.eqb r) s.

Fixpoint split_on (sep : ascii) (s : bytes) : list bytes :=
  match s with
  | [] => [[]]
  | c :: r =>
      if Ascii.eqb c sep then [] :: split_on sep r
      else match split_on sep r with
           | [] => [[c]]
           | h :: t => (c :: h) :: t
           end
  end.

(* Some prefix if s = prefix ++ [c] *)
Definition strip_suffix_char (c : ascii) (s : bytes) : option bytes :=
  match rev s with
  | x :: r => if Ascii.eqb x c then Some (rev r) else None
  | [] => None
  end.
Definition trim_suffix_char (c : ascii) (s : bytes) : bytes :=
  match strip_suffix_char c s with Some p => p | None => s end.

Fixpoint drop_while (p : ascii -> bool) (s : bytes) : bytes :=
  match s with
  | [] => []
  | c :: r => if p c then drop_while p r else s
  end.
Definition trim_space (s : bytes) : bytes :=
  rev (drop_while is_trim_space (rev (drop_while is_trim_space s))).

(* whitespacePattern.ReplaceAllString(s, " "): every maximal run of \s becomes one space *)
Fixpoint collapse_ws (in_run : bool) (s : bytes) : bytes :=
  match s with
  | [] => []
  | c :: r =>
      if is_re_space c then (if in_run then collapse_ws true r else space :: collapse_ws true r)
      else c :: collapse_ws false r
  end.

(* cron.go trimCronExpression *)
Definition trim_cron_expression (s : bytes) : bytes := trim_space (collapse_ws false s).

(* ---- strconv.Atoi ---- *)
Definition int_max : Z := 9223372036854775807.
Definition int_min : Z := -9223372036854775808.

Fixpoint digits_acc (acc : Z) (s : bytes) : option Z :=
  match s with
  | [] => Some acc
  | c :: r => if is_digit c then digits_acc (acc * 10 + (code c - 48)) r else None
  end.

Definition digits_val (s : bytes) : option Z :=
  match s with [] => None | _ => digits_acc 0 s end.

Definition atoi (s : bytes) : option Z :=
  match s with
  | [] => None
  | c :: r =>
      if Ascii.eqb c (ascii_of_nat 43) then            (* '+' *)
        match digits_val r with
        | Some v => if v <=? int_max then Some v else None
        | None => None
        end
      else if Ascii.eqb c (ascii_of_nat 45) then       (* '-' *)
        match digits_val r with
        | Some v => if - v >=? int_min then Some (- v) else None
        | None => None
        end
      else
        match digits_val s with
        | Some v => if v <=? int_max then Some v else None
        | None => None
        end
  end.

(* ---- util.go ---- *)
Definition to_upper (c : ascii) : ascii :=
  if is_lower c then ascii_of_N (N_of_ascii c - 32)%N else c.

Fixpoint index_of (x : bytes) (l : list bytes) (i : Z) : option Z :=
  match l with
  | [] => None
  | y :: l' => if bytes_eqb y x then Some i else index_of x l' (i + 1)
  end.

(* translateLiteral: index of the upper-cased literal in the glossary (nil glossary: error) *)
Definition translate_literal (glossary : list bytes) (literal : bytes) : result Z :=
  match index_of (map to_upper literal) glossary 0 with
  | Some i => Ok i
  | None => ParseError
  end.

(* normalize *)
Definition normalize (field : bytes) (glossary : list bytes) : result Z :=
  match atoi field with
  | Some n => Ok n
  | None => translate_literal glossary field
  end.

(* translateLiterals *)
Fixpoint translate_literals (glossary : list bytes) (literals : list bytes) : result (list Z) :=
  match literals with
  | [] => Ok []
  | l :: rest =>
      do i <- normalize l glossary;
      do is_ <- translate_literals glossary rest;
      Ok (i :: is_)
  end.

(* extractStepValues / extractRangeValues: (values, stepValues) / (values, rangeValues) *)
Definition extract_values (r : ascii) (parsed : list bytes) : list bytes * list bytes :=
  (filter (fun v => negb (contains_rune r v)) parsed, filter (contains_rune r) parsed).
Definition extract_step_values := extract_values go_stepRune.
Definition extract_range_values := extract_values go_rangeRune.

(* the loops `for i := from; i <= to; i += step` of fillRangeValues / fillStepValues, n iterations *)
Fixpoint count_up (n : nat) (from step : Z) : list Z :=
  match n with
  | O => []
  | S k => from :: count_up k (from + step) step
  end.

Definition zrange (from to : Z) : list Z := count_up (Z.to_nat (to - from + 1)) from 1.

(* fillRangeValues *)
Definition fill_range_values (from to : Z) : result (list Z) :=
  if to <? from then ParseError else Ok (zrange from to).

(* fillStepValues.  Only called with step >= go_step_lo = 1 (a negative step would make the Go loop
   run away; the callers' inScope test excludes it). *)
Definition fill_step_values (from step upper : Z) : result (list Z) :=
  if (upper <? from) || (step =? 0) then ParseError
  else Ok (count_up (Z.to_nat ((upper - from) / step + 1)) from step).

(* sort.Ints: the result of sorting integers does not depend on the algorithm; the model uses the
   standard library's merge sort (ZSort.v) *)
Definition sort_ints (l : list Z) : list Z := ZSort.sort l.

(* ---- cron.go: field parsers.  A parsed field is (values, n). ---- *)
Definition cron_field : Type := list Z * Z.
Definition new_cron_field (values : list Z) : cron_field := (values, 0).
Definition new_cron_field_n (values : list Z) (n : Z) : cron_field := (values, n).

Definition boundary : Type := Z * Z.

(* parseRangeField *)
Definition parse_range_field (field : bytes) (bound : boundary) (names : list bytes) : result cron_field :=
  match split_on go_rangeRune field with
  | [t0; t1] =>
      do from <- normalize t0 names;
      do to <- normalize t1 names;
      if negb (in_scope from (fst bound) (snd bound)) || negb (in_scope to (fst bound) (snd bound))
      then ParseError
      else do vs <- fill_range_values from to; Ok (new_cron_field vs)
  | _ => ParseError
  end.

(* parseStepField *)
Definition parse_step_field (field : bytes) (bound : boundary) (names : list bytes) : result cron_field :=
  match split_on go_stepRune field with
  | [t0; t1] =>
      do ft <-
        (if bytes_eqb t0 star then Ok (fst bound, snd bound)
         else if contains_rune go_rangeRune t0 then
           match split_on go_rangeRune t0 with
           | [r0; r1] =>
               do from <- normalize r0 names;
               do to <- normalize r1 names;
               Ok (from, to)
           | _ => ParseError
           end
         else do from <- normalize t0 names; Ok (from, snd bound));
      match atoi t1 with
      | None => ParseError
      | Some step =>
          if negb (in_scope (fst ft) (fst bound) (snd bound)) || negb (in_scope step go_step_lo (snd bound))
             || negb (in_scope (snd ft) (fst bound) (snd bound))
          then ParseError
          else do vs <- fill_step_values (fst ft) step (snd ft); Ok (new_cron_field vs)
      end
  | _ => ParseError
  end.

(* the two loops of parseListField over stepValues / rangeValues *)
Fixpoint parse_each (p : bytes -> result cron_field) (l : list bytes) : result (list Z) :=
  match l with
  | [] => Ok []
  | v :: rest =>
      do f <- p v;
      do more <- parse_each p rest;
      Ok (fst f ++ more)%list
  end.

(* parseListField *)
Definition parse_list_field (field : bytes) (bound : boundary) (names : list bytes) : result cron_field :=
  let t := split_on go_listRune field in
  let '(values, step_values) := extract_step_values t in
  let '(values, range_values) := extract_range_values values in
  do list_values <- translate_literals names values;
  if negb (forallb (fun v => in_scope v (fst bound) (snd bound)) list_values) then ParseError
  else
    do sv <- parse_each (fun v => parse_step_field v bound names) step_values;
    do rv <- parse_each (fun v => parse_range_field v bound names) range_values;
    Ok (new_cron_field (sort_ints (list_values ++ sv ++ rv)%list)).

(* parseField *)
Definition parse_field (field : bytes) (bound : boundary) (names : list bytes) : result cron_field :=
  if bytes_eqb field star || bytes_eqb field qmark then Ok (new_cron_field [])
  else if contains_rune go_listRune field then parse_list_field field bound names
  else if contains_rune go_stepRune field then parse_step_field field bound names
  else if contains_rune go_rangeRune field then parse_range_field field bound names
  else
    do numeric <- normalize field names;
    if in_scope numeric (fst bound) (snd bound) then Ok (new_cron_field [numeric]) else ParseError.

(* ---- the four regular expressions, as the recognisers they denote ---- *)
Definition chL : ascii := ascii_of_nat 76.
Definition chW : ascii := ascii_of_nat 87.
Definition chHash : ascii := ascii_of_nat 35.
Definition chMinus : ascii := ascii_of_nat 45.
Definition nonempty (s : bytes) : bool := match s with [] => false | _ => true end.
Definition all_digits (s : bytes) : bool := forallb is_digit s.
Definition all_alnum (s : bytes) : bool := forallb is_alnum s.

(* ^L(-[0-9]+)?$ *)
Definition re_last_month_day (s : bytes) : bool :=
  match s with
  | c :: r =>
      Ascii.eqb c chL &&
      match r with
      | [] => true
      | d :: ds => Ascii.eqb d chMinus && nonempty ds && all_digits ds
      end
  | [] => false
  end.
(* ^[0-9]+W$ *)
Definition re_weekday (s : bytes) : bool :=
  match strip_suffix_char chW s with
  | Some p => nonempty p && all_digits p
  | None => false
  end.
(* ^[a-zA-Z0-9]*L$ *)
Definition re_last_weekday (s : bytes) : bool :=
  match strip_suffix_char chL s with
  | Some p => all_alnum p
  | None => false
  end.
(* ^[a-zA-Z0-9]+#[0-9]+$ : the classes exclude '#', so there is exactly one '#' *)
Definition re_hash (s : bytes) : bool :=
  match split_on chHash s with
  | [w; ds] => nonempty w && all_alnum w && nonempty ds && all_digits ds
  | _ => false
  end.

(* parseDayOfMonthField *)
Definition parse_day_of_month_field (field : bytes) (bound : boundary) (names : list bytes) : result cron_field :=
  if contains_rune go_lastRune field && re_last_month_day field then
    if bytes_eqb field [go_lastRune] then Ok (new_cron_field_n [] go_cronLastDayOfMonthN)
    else
      match split_on go_rangeRune field with
      | [_; v1] =>
          match atoi v1 with
          | Some n => if in_scope n (fst bound) (snd bound) then Ok (new_cron_field_n [] (- n)) else ParseError
          | None => ParseError
          end
      | _ => ParseError
      end
  else if contains_rune go_weekdayRune field && bytes_eqb field [go_lastRune; go_weekdayRune] then
    Ok (new_cron_field_n [go_dom_lw_value] (Z.lor go_cronLastDayOfMonthN go_cronWeekdayN))
  else if contains_rune go_weekdayRune field && re_weekday field then
    let day := trim_suffix_char go_weekdayRune field in
    if bytes_eqb day [] then ParseError
    else
      match atoi day with
      | Some d => if in_scope d (fst bound) (snd bound) then Ok (new_cron_field_n [d] go_cronWeekdayN) else ParseError
      | None => ParseError
      end
  else parse_field field bound names.

(* parseDayOfWeekField *)
Definition parse_day_of_week_field (field : bytes) (bound : boundary) (names : list bytes) : result cron_field :=
  if contains_rune go_lastRune field && re_last_weekday field then
    let day := trim_suffix_char go_lastRune field in
    if bytes_eqb day [] then Ok (new_cron_field_n [go_dow_last_value] go_dow_last_n)
    else
      match normalize day names with
      | Ok d => if in_scope d (fst bound) (snd bound) then Ok (new_cron_field_n [d] go_dow_last_n) else ParseError
      | ParseError => ParseError
      end
  else if contains_rune go_hashRune field && re_hash field then
    match split_on go_hashRune field with
    | [v0; v1] =>
        match normalize v0 names with
        | Ok d =>
            if in_scope d (fst bound) (snd bound) then
              match atoi v1 with
              | Some n => if in_scope n go_hash_lo go_hash_hi then Ok (new_cron_field_n [d] n) else ParseError
              | None => ParseError
              end
            else ParseError
        | ParseError => ParseError
        end
    | _ => ParseError
    end
  else parse_field field bound names.

Definition months : list bytes := map B go_months.
Definition days : list bytes := map B go_days.
Definition special : list (bytes * bytes) := map (fun p => (B (fst p), B (snd p))) go_special.

(* cronField.add *)
Definition field_add (delta : Z) (f : cron_field) : cron_field := (map (fun v => v + delta) (fst f), snd f).

(* buildCronField (tokens has length 7) *)
Definition build_cron_field (tokens : list bytes) : result fields :=
  let tok i := nth i tokens [] in
  do f0 <- parse_field (tok 0%nat) go_bound_second [];
  do f1 <- parse_field (tok 1%nat) go_bound_minute [];
  do f2 <- parse_field (tok 2%nat) go_bound_hour [];
  do f3 <- parse_day_of_month_field (tok 3%nat) go_bound_dom [];
  do f4 <- parse_field (tok 4%nat) go_bound_month months;
  do f5 <- parse_day_of_week_field (tok 5%nat) go_bound_dow days;
  let f5 := field_add go_dow_shift f5 in
  do f6 <- parse_field (tok 6%nat) go_bound_year [];
  Ok {| fl_sec := fst f0; fl_min := fst f1; fl_hour := fst f2;
        fl_dom := fst f3; fl_dom_n := snd f3;
        fl_mon := fst f4;
        fl_dow := fst f5; fl_dow_n := snd f5;
        fl_year := fst f6 |}.

Fixpoint lookup_special (key : bytes) (table : list (bytes * bytes)) : option bytes :=
  match table with
  | [] => None
  | (k, v) :: rest => if bytes_eqb k key then Some v else lookup_special key rest
  end.

Definition is_any (t : bytes) : bool := bytes_eqb t qmark || bytes_eqb t star.

(* parseCronExpression *)
Definition tokens_of (expression : bytes) : list bytes :=
  match lookup_special expression special with
  | Some value => split_on space value
  | None => split_on space expression
  end.

Definition parse_cron_expression (expression : bytes) : result fields :=
  let tokens := tokens_of expression in
  let length := Z.of_nat (List.length tokens) in
  if (length <? go_tokens_min) || (length >? go_tokens_max) then ParseError
  else
    let tokens := if length =? go_tokens_min then (tokens ++ [star])%list else tokens in
    if (negb (is_any (nth 3 tokens [])) && negb (is_any (nth 5 tokens []))) then ParseError
    else build_cron_field tokens.

(* ValidateCronExpression / VerifParseFields: parseCronExpression(trimCronExpression(expression)) *)
Definition parse (s : bytes) : result fields := parse_cron_expression (trim_cron_expression s).

(* NewCronTriggerWithLoc: the fields the trigger acts on (full-wildcard expression: seconds = 0..59) *)
Definition all_values_empty (f : fields) : bool :=
  match fl_sec f, fl_min f, fl_hour f, fl_dom f, fl_mon f, fl_dow f, fl_year f with
  | [], [], [], [], [], [], [] => true
  | _, _, _, _, _, _, _ => false
  end.

Definition wildcard_fixup (f : fields) : fields :=
  if all_values_empty f then
    {| fl_sec := match fill_range_values (fst go_wildcard_fill) (snd go_wildcard_fill) with Ok vs => vs | ParseError => [] end;
       fl_min := fl_min f; fl_hour := fl_hour f; fl_dom := fl_dom f; fl_dom_n := fl_dom_n f;
       fl_mon := fl_mon f; fl_dow := fl_dow f; fl_dow_n := fl_dow_n f; fl_year := fl_year f |}
  else f.

Definition parse_trigger (s : bytes) : result fields :=
  do f <- parse s; Ok (wildcard_fixup f).
