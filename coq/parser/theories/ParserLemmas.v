(* Generic lemmas about the building blocks of the parser model: results, inScope, the counting
   loops, sorting. *)
From Coq Require Import ZArith List Bool Ascii String Lia Sorted Permutation.
Require Import QzBase.Fields QzParser.Gen.Params QzParser.ZSort QzParser.ParserModel.
Import ListNotations.
Open Scope Z_scope.

(* ---- results ---- *)
Lemma bind_ok : forall (A C : Type) (r : result A) (f : A -> result C) c,
  bind r f = Ok c -> exists a, r = Ok a /\ f a = Ok c.
Proof. intros A C r f c H. destruct r as [a|]; cbn in H; [exists a; auto | discriminate]. Qed.

Lemma bind_err : forall (A C : Type) (r : result A) (f : A -> result C),
  r = ParseError -> bind r f = ParseError.
Proof. intros; subst; reflexivity. Qed.

Ltac inv_bind H :=
  let a := fresh "a" in let Ha := fresh "Ha" in
  apply bind_ok in H; destruct H as [a [Ha H]].

(* ---- inScope ---- *)
Lemma in_scope_spec : forall v lo hi, in_scope v lo hi = (lo <=? v) && (v <=? hi).
Proof. intros. unfold in_scope. cbn. rewrite Z.geb_leb. reflexivity. Qed.

Lemma in_scope_true : forall v lo hi, in_scope v lo hi = true <-> lo <= v <= hi.
Proof. intros. rewrite in_scope_spec. rewrite andb_true_iff, !Z.leb_le. tauto. Qed.

Lemma in_scope_false : forall v lo hi, in_scope v lo hi = false <-> (v < lo \/ hi < v).
Proof.
  intros. rewrite in_scope_spec. rewrite andb_false_iff, !Z.leb_gt. tauto.
Qed.

(* ---- in_range / sortedb (QzBase.Fields) ---- *)
Lemma in_range_forall : forall lo hi l, in_range lo hi l = true <-> (forall x, In x l -> lo <= x <= hi).
Proof.
  intros. unfold in_range. rewrite forallb_forall. split; intros H x Hx; specialize (H x Hx).
  - apply andb_true_iff in H. rewrite !Z.leb_le in H. exact H.
  - apply andb_true_iff. rewrite !Z.leb_le. exact H.
Qed.

Lemma in_range_app : forall lo hi a b, in_range lo hi (a ++ b) = in_range lo hi a && in_range lo hi b.
Proof. intros. unfold in_range. apply forallb_app. Qed.

Lemma in_range_perm : forall lo hi a b, Permutation a b -> in_range lo hi a = true -> in_range lo hi b = true.
Proof.
  intros lo hi a b P H. rewrite in_range_forall in *. intros x Hx. apply H.
  eapply Permutation_in; [apply Permutation_sym; exact P | exact Hx].
Qed.

Lemma sortedb_locally : forall l, LocallySorted (fun x y => is_true (x <=? y)) l -> sortedb l = true.
Proof.
  induction 1 as [|a|a b l H IH Hab]; try reflexivity.
  change (sortedb (a :: b :: l)) with ((a <=? b) && sortedb (b :: l)). rewrite IH. unfold is_true in Hab. rewrite Hab. reflexivity.
Qed.

Lemma sort_ints_sorted : forall l, sortedb (sort_ints l) = true.
Proof. intro l. apply sortedb_locally. apply ZSort.LocallySorted_sort. Qed.

Lemma sort_ints_perm : forall l, Permutation l (sort_ints l).
Proof. intro l. apply ZSort.Permuted_sort. Qed.

Lemma sort_ints_in_range : forall lo hi l, in_range lo hi l = true -> in_range lo hi (sort_ints l) = true.
Proof. intros. eapply in_range_perm; [apply sort_ints_perm | assumption]. Qed.

(* ---- count_up ---- *)
Lemma count_up_bounds : forall n from step x, 0 <= step -> In x (count_up n from step) ->
  from <= x <= from + (Z.of_nat n - 1) * step.
Proof.
  induction n as [|k IH]; intros from step x Hs Hin; [destruct Hin|].
  cbn [count_up] in Hin. destruct Hin as [<-|Hin].
  - rewrite Nat2Z.inj_succ. nia.
  - apply IH in Hin; [|assumption]. rewrite Nat2Z.inj_succ. nia.
Qed.

Lemma count_up_sorted : forall n from step, 0 <= step -> sortedb (count_up n from step) = true.
Proof.
  induction n as [|k IH]; intros from step Hs; [reflexivity|].
  cbn [count_up]. destruct k as [|k']; [reflexivity|].
  specialize (IH (from + step) step Hs). cbn [count_up] in *.
  change (sortedb (from :: from + step :: count_up k' (from + step + step) step))
    with ((from <=? from + step) && sortedb (from + step :: count_up k' (from + step + step) step)).
  rewrite IH. replace (from <=? from + step) with true; [reflexivity|]. symmetry. apply Z.leb_le. lia.
Qed.

Lemma count_up_length : forall n from step, List.length (count_up n from step) = n.
Proof. induction n; intros; cbn; [reflexivity | rewrite IHn; reflexivity]. Qed.

Lemma zrange_wf : forall lo hi from to, lo <= from -> to <= hi ->
  in_range lo hi (zrange from to) = true /\ sortedb (zrange from to) = true.
Proof.
  intros lo hi from to H1 H2. unfold zrange. split.
  - apply in_range_forall. intros x Hx. apply count_up_bounds in Hx; [|lia].
    destruct (Z.le_gt_cases from to).
    + rewrite Z2Nat.id in Hx by lia. lia.
    + replace (Z.to_nat (to - from + 1)) with 0%nat in Hx by lia. cbn in Hx. lia.
  - apply count_up_sorted. lia.
Qed.

Lemma step_values_wf : forall lo hi from step to, lo <= from -> to <= hi -> 1 <= step -> from <= to ->
  let l := count_up (Z.to_nat ((to - from) / step + 1)) from step in
  in_range lo hi l = true /\ sortedb l = true.
Proof.
  intros lo hi from step to H1 H2 H3 H4 l. subst l. split.
  - apply in_range_forall. intros x Hx. apply count_up_bounds in Hx; [|lia].
    assert (0 <= (to - from) / step) by (apply Z.div_pos; lia).
    rewrite Z2Nat.id in Hx by lia.
    assert (step * ((to - from) / step) <= to - from) by (apply Z.mul_div_le; lia).
    nia.
  - apply count_up_sorted. lia.
Qed.
