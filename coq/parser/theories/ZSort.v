(* Instance of the standard library's merge sort for Z (model of sort.Ints). *)
From Coq Require Import ZArith Orders Sorting.Mergesort.
Open Scope Z_scope.

Module ZOrder <: TotalLeBool.
  Definition t := Z.
  Definition leb (x y : Z) : bool := x <=? y.
  Theorem leb_total : forall a1 a2, leb a1 a2 = true \/ leb a2 a1 = true.
  Proof. intros a1 a2. unfold leb. destruct (Z.leb_spec a1 a2); [left; reflexivity | right; apply Z.leb_le; apply Z.lt_le_incl; assumption]. Qed.
End ZOrder.

Module ZSort := Sort ZOrder.
