(* Character- and string-level lemmas for parse_doc_complete: facts about all 256 bytes by
   reflection, the decimal printer (finite sweep below 4000), names in any letter case, Split/join. *)
From Coq Require Import ZArith NArith List Bool Ascii String Lia.
Require Import QzBase.Fields QzParser.Gen.Params QzParser.ZSort QzParser.ParserModel QzParser.ParserLemmas
  QzParser.ParserWfProofs QzParser.ParserSpec.
Import ListNotations.
Open Scope Z_scope.
Open Scope list_scope.

(* ---- every byte ---- *)
Definition all_ascii : list ascii := map ascii_of_nat (seq 0 256).

Lemma in_all_ascii : forall c, In c all_ascii.
Proof.
  intro c. unfold all_ascii. rewrite <- (ascii_nat_embedding c). apply in_map. apply in_seq.
  pose proof (nat_ascii_bounded c). lia.
Qed.

Lemma ascii_sweep : forall P : ascii -> bool, forallb P all_ascii = true -> forall c, P c = true.
Proof. intros P H c. rewrite forallb_forall in H. apply H. apply in_all_ascii. Qed.

Ltac char_sweep := apply ascii_sweep; vm_compute; reflexivity.

Definition impb (a b : bool) : bool := negb a || b.
Lemma impb_elim : forall a b, impb a b = true -> a = true -> b = true.
Proof. intros [] [] H1 H2; try reflexivity; discriminate. Qed.

Definition not_special (c : ascii) : bool :=
  negb (is_trim_space c) && negb (Ascii.eqb c (ch ",")) && negb (Ascii.eqb c (ch "-")) && negb (Ascii.eqb c (ch "/"))
  && negb (Ascii.eqb c (ch "*")) && negb (Ascii.eqb c (ch "?")) && negb (Ascii.eqb c (ch "#")) && negb (Ascii.eqb c (ch "+"))
  && negb (Ascii.eqb c (ch "@")).

Lemma alnum_not_special : forall c, impb (is_alnum c) (not_special c) = true.
Proof. char_sweep. Qed.
Lemma digit_alnum : forall c, impb (is_digit c) (is_alnum c) = true.
Proof. char_sweep. Qed.
Lemma digit_not_LW : forall c, impb (is_digit c) (negb (Ascii.eqb c chL) && negb (Ascii.eqb c chW)) = true.
Proof. char_sweep. Qed.
Lemma re_space_trim_space : forall c, impb (is_re_space c) (is_trim_space c) = true.
Proof. char_sweep. Qed.
Lemma upper_facts : forall c, impb (is_upper_letter c)
  (Ascii.eqb (to_upper (to_lower c)) c && Ascii.eqb (to_upper c) c && is_alnum c && is_alnum (to_lower c)
   && negb (is_digit c) && negb (is_digit (to_lower c))) = true.
Proof. char_sweep. Qed.

Lemma eqb_sym_false : forall a b, Ascii.eqb a b = false -> Ascii.eqb b a = false.
Proof. intros a b H. rewrite Ascii.eqb_sym. exact H. Qed.

(* ---- contains_rune ---- *)
Lemma contains_app : forall c a b, contains_rune c (a ++ b) = contains_rune c a || contains_rune c b.
Proof. intros. unfold contains_rune. apply existsb_app. Qed.

Lemma contains_cons : forall c x r, contains_rune c (x :: r) = Ascii.eqb c x || contains_rune c r.
Proof. reflexivity. Qed.

Lemma contains_false_forall : forall (p : ascii -> bool) c s,
  forallb p s = true -> p c = false -> contains_rune c s = false.
Proof.
  intros p c s H Hc. induction s as [|x s IH]; [reflexivity|].
  cbn [forallb] in H. apply andb_true_iff in H as [Hx Hs]. rewrite contains_cons, (IH Hs), orb_false_r.
  destruct (Ascii.eqb c x) eqn:E; [|reflexivity]. apply Ascii.eqb_eq in E. subst. congruence.
Qed.

(* ---- Split ---- *)
Lemma split_on_none : forall sep t, contains_rune sep t = false -> split_on sep t = [t].
Proof.
  intros sep. induction t as [|c r IH]; intro H; [reflexivity|].
  rewrite contains_cons in H. apply orb_false_iff in H as [H1 H2]. cbn [split_on].
  rewrite Ascii.eqb_sym, H1, (IH H2). reflexivity.
Qed.

Lemma split_on_app : forall sep t r, contains_rune sep t = false ->
  split_on sep (t ++ sep :: r) = t :: split_on sep r.
Proof.
  intros sep. induction t as [|c t IH]; intros r H.
  - cbn [app split_on]. rewrite Ascii.eqb_refl. reflexivity.
  - rewrite contains_cons in H. apply orb_false_iff in H as [H1 H2]. cbn [app split_on].
    rewrite Ascii.eqb_sym, H1, (IH r H2). reflexivity.
Qed.

Lemma split_on_join : forall sep toks, toks <> [] ->
  (forall t, In t toks -> contains_rune sep t = false) ->
  split_on sep (join_with sep toks) = toks.
Proof.
  intros sep. induction toks as [|t r IH]; intros Hne H; [contradiction|].
  destruct r as [|t' r'].
  - cbn [join_with]. apply split_on_none. apply H. left; reflexivity.
  - change (join_with sep (t :: t' :: r')) with (t ++ sep :: join_with sep (t' :: r')).
    rewrite split_on_app by (apply H; left; reflexivity). f_equal. apply IH; [discriminate|].
    intros x Hx. apply H. right; exact Hx.
Qed.

Lemma contains_join : forall c sep toks, Ascii.eqb c sep = false ->
  (forall t, In t toks -> contains_rune c t = false) -> contains_rune c (join_with sep toks) = false.
Proof.
  intros c sep. induction toks as [|t r IH]; intros Hc H; [reflexivity|].
  destruct r as [|t' r']; [apply H; left; reflexivity|].
  change (join_with sep (t :: t' :: r')) with (t ++ sep :: join_with sep (t' :: r')).
  rewrite contains_app, contains_cons, Hc, (H t (or_introl eq_refl)). cbn [orb].
  apply IH; [exact Hc|]. intros x Hx. apply H. right; exact Hx.
Qed.

(* ---- decimal printer: finite sweep below 4000 ---- *)
Lemma count_up_in : forall n from x, from <= x < from + Z.of_nat n -> In x (count_up n from 1).
Proof.
  induction n as [|k IH]; intros from x H; [lia|].
  cbn [count_up]. destruct (Z.eq_dec x from) as [->|Hne]; [left; reflexivity|right].
  apply IH. rewrite Nat2Z.inj_succ in H. lia.
Qed.

Lemma z_sweep : forall (P : Z -> bool) (n : nat) (from : Z),
  forallb P (count_up n from 1) = true -> forall x, from <= x < from + Z.of_nat n -> P x = true.
Proof. intros P n from H x Hx. rewrite forallb_forall in H. apply H. apply count_up_in. exact Hx. Qed.

Definition print_ok (n : Z) : bool :=
  match atoi (print_Z n) with Some m => m =? n | None => false end
  && all_digits (print_Z n) && nonempty (print_Z n).

Lemma print_ok_all : forall n, 0 <= n < 4000 -> print_ok n = true.
Proof. intros n H. apply (z_sweep print_ok 4000 0); [vm_compute; reflexivity | lia]. Qed.

Lemma print_atoi : forall n, 0 <= n < 4000 -> atoi (print_Z n) = Some n.
Proof.
  intros n H. pose proof (print_ok_all n H) as P. unfold print_ok in P.
  apply andb_true_iff in P as [P _]. apply andb_true_iff in P as [P _].
  destruct (atoi (print_Z n)) as [m|]; [|discriminate]. apply Z.eqb_eq in P. subst. reflexivity.
Qed.

Lemma print_digits_only : forall n, 0 <= n < 4000 -> all_digits (print_Z n) = true.
Proof.
  intros n H. pose proof (print_ok_all n H) as P. unfold print_ok in P.
  apply andb_true_iff in P as [P _]. apply andb_true_iff in P as [_ P]. exact P.
Qed.

Lemma print_nonempty : forall n, 0 <= n < 4000 -> print_Z n <> [].
Proof.
  intros n H. pose proof (print_ok_all n H) as P. unfold print_ok in P.
  apply andb_true_iff in P as [_ P]. destruct (print_Z n); [discriminate|discriminate].
Qed.

Lemma all_digits_alnum : forall s, all_digits s = true -> all_alnum s = true.
Proof.
  induction s as [|c s IH]; intro H; [reflexivity|]. cbn [all_digits all_alnum forallb] in *.
  apply andb_true_iff in H as [H1 H2]. rewrite (impb_elim _ _ (digit_alnum c) H1). apply IH. exact H2.
Qed.

(* a string of letters and digits contains none of the special characters *)
Lemma alnum_no : forall c s, all_alnum s = true -> not_special c = false -> contains_rune c s = false.
Proof.
  intros c s H Hc. apply (contains_false_forall not_special); [|exact Hc].
  unfold all_alnum in H. rewrite forallb_forall in *. intros x Hx. exact (impb_elim _ _ (alnum_not_special x) (H x Hx)).
Qed.

(* ---- names ---- *)
Definition upper3 (s : dbytes) : bool :=
  match s with [a; b; c] => is_upper_letter a && is_upper_letter b && is_upper_letter c | _ => false end.

Lemma apply_case_facts : forall nm mask, forallb is_upper_letter nm = true ->
  map to_upper (apply_case mask nm) = nm /\ all_alnum (apply_case mask nm) = true /\
  forallb (fun c => negb (is_digit c)) (apply_case mask nm) = true /\ List.length (apply_case mask nm) = List.length nm.
Proof.
  induction nm as [|c r IH]; intros mask H; [repeat split|].
  cbn [forallb] in H. apply andb_true_iff in H as [Hc Hr].
  pose proof (impb_elim _ _ (upper_facts c) Hc) as F.
  repeat (apply andb_true_iff in F; destruct F as [F ?]).
  apply Ascii.eqb_eq in F. apply Ascii.eqb_eq in H3.
  destruct mask as [|b m]; cbn [apply_case].
  - destruct (IH [] Hr) as [I1 [I2 [I3 I4]]]. cbn [map all_alnum forallb List.length].
    rewrite H3, I1, H2, H0. unfold all_alnum in I2. rewrite I2, I3, I4. repeat split.
  - destruct (IH m Hr) as [I1 [I2 [I3 I4]]]. cbn [map all_alnum forallb List.length].
    unfold all_alnum in I2. rewrite I1, I2, I3, I4.
    destruct b; [rewrite F, H1, H|rewrite H3, H2, H0]; repeat split.
Qed.

Lemma atoi_non_number : forall c r, is_digit c = false -> Ascii.eqb c (ch "+") = false -> Ascii.eqb c (ch "-") = false ->
  atoi (c :: r) = None.
Proof.
  intros c r H1 H2 H3. unfold atoi. change (ascii_of_nat 43) with (ch "+"). change (ascii_of_nat 45) with (ch "-").
  rewrite H2, H3. unfold digits_val. cbn [digits_acc]. rewrite H1. reflexivity.
Qed.

Lemma names_upper : forallb (fun nm => forallb is_upper_letter nm && nonempty nm) (doc_months ++ doc_days) = true.
Proof. vm_compute. reflexivity. Qed.

Lemma name_of_in : forall fi n nm, name_of fi n = Some nm -> In nm (doc_months ++ doc_days).
Proof.
  intros fi n nm H. unfold name_of in H. destruct (1 <=? n); [|discriminate]. apply nth_error_In in H.
  unfold field_names in H. apply in_or_app.
  destruct fi as [|[|[|[|[|[|fi]]]]]]; try (destruct H; fail); auto.
Qed.

Lemma name_upper : forall fi n nm, name_of fi n = Some nm -> forallb is_upper_letter nm = true /\ nm <> [].
Proof.
  intros fi n nm H. apply name_of_in in H. pose proof names_upper as U. rewrite forallb_forall in U.
  specialize (U nm H). apply andb_true_iff in U as [U1 U2]. split; [exact U1|]. destruct nm; [discriminate|discriminate].
Qed.

(* the model's glossaries agree with the documented names *)
Definition gloss (fi : nat) : list bytes := match fi with 4%nat => months | 5%nat => days | _ => [] end.

Definition name_index_ok (fi : nat) (n : Z) : bool :=
  match name_of fi n with
  | Some nm => match index_of nm (gloss fi) 0 with Some i => i =? n | None => false end
  | None => true
  end.

Lemma name_index : forall fi n nm, (fi < 7)%nat -> 0 <= n < 4000 -> name_of fi n = Some nm -> index_of nm (gloss fi) 0 = Some n.
Proof.
  intros fi n nm Hfi Hn H.
  assert (S : name_index_ok fi n = true).
  { destruct fi as [|[|[|[|[|[|[|fi]]]]]]]; try lia;
      (apply (z_sweep (name_index_ok _) 4000 0); [vm_compute; reflexivity|lia]). }
  unfold name_index_ok in S. rewrite H in S. destruct (index_of nm (gloss fi) 0) as [i|]; [|discriminate].
  apply Z.eqb_eq in S. subst. reflexivity.
Qed.

(* ---- rendered values ---- *)
Lemma render_value_alnum : forall fi choice n, 0 <= n < 4000 ->
  all_alnum (render_value fi choice n) = true /\ render_value fi choice n <> [].
Proof.
  intros fi choice n Hn. unfold render_value.
  assert (P : all_alnum (print_Z n) = true /\ print_Z n <> []).
  { split; [apply all_digits_alnum, print_digits_only; exact Hn | apply print_nonempty; exact Hn]. }
  destruct choice as [mask|]; [|exact P]. destruct (name_of fi n) as [nm|] eqn:E; [|exact P].
  destruct (name_upper _ _ _ E) as [U Hne]. destruct (apply_case_facts nm mask U) as [_ [A [_ L]]].
  split; [exact A|]. destruct (apply_case mask nm); [destruct nm; [contradiction|discriminate]|discriminate].
Qed.

Lemma render_value_normalize : forall fi choice n, (fi < 7)%nat -> 0 <= n < 4000 ->
  normalize (render_value fi choice n) (gloss fi) = Ok n.
Proof.
  intros fi choice n Hfi Hn. unfold render_value, normalize.
  assert (P : match atoi (print_Z n) with Some m => Ok m | None => translate_literal (gloss fi) (print_Z n) end = Ok n).
  { rewrite (print_atoi n Hn). reflexivity. }
  destruct choice as [mask|]; [|exact P]. destruct (name_of fi n) as [nm|] eqn:E; [|exact P].
  destruct (name_upper _ _ _ E) as [U Hne]. destruct (apply_case_facts nm mask U) as [M [A [D L]]].
  destruct (apply_case mask nm) as [|c r] eqn:Eac; [destruct nm; [contradiction|discriminate]|].
  cbn [forallb] in D. apply andb_true_iff in D as [Dc _]. apply negb_true_iff in Dc.
  cbn [all_alnum forallb] in A. apply andb_true_iff in A as [Ac _].
  pose proof (impb_elim _ _ (alnum_not_special c) Ac) as NS. unfold not_special in NS.
  repeat (apply andb_true_iff in NS; destruct NS as [NS ?]).
  rewrite atoi_non_number; [|exact Dc|apply negb_true_iff; assumption|apply negb_true_iff; assumption].
  unfold translate_literal. rewrite M. rewrite (name_index fi n nm Hfi Hn E). reflexivity.
Qed.
