From Coq Require Import ZArith List Bool Ascii String.
Require Import QzBase.Fields QzParser.Gen.Params QzParser.ParserModel.
Theorem parse_total : forall s, parse s = ParseError \/ exists f, parse s = Ok f.
Proof. intro s. destruct (parse s); [right; eexists; reflexivity | left; reflexivity]. Qed.
Print Assumptions parse_total.
