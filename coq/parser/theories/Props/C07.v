(* C07 -- The cron parser accepts exactly the documented format, with its documented meaning.

   `parse` models ValidateCronExpression (= the parse hook), `parse_trigger` the fields NewCronTrigger
   acts on (ParserModel.v, one Gallina function per Go function, tables from Gen/Params.v).
   `doc_expr`, `wf_doc`, `denote`, `variant`, `render` are the documented grammar, its side conditions,
   its meaning and its syntactic freedom (ParserSpec.v).  `wf_fields` is QzBase.Fields.wf_fields.

   This file contains only the property theorems; each is closed by `exact` of a lemma proved in
   Parser*Proofs.v and followed by Print Assumptions. *)
From Coq Require Import ZArith List Bool Ascii String.
Require Import QzBase.Fields QzParser.Gen.Params QzParser.ParserModel QzParser.ParserSpec
  QzParser.ParserWfProofs QzParser.ParserDocProofs QzParser.ParserRejectProofs.
Import ListNotations.
Open Scope Z_scope.
Open Scope list_scope.

(* ---- 1. accepted => none of the enumerated breakages (ALL byte strings) ---- *)
Theorem parse_ok_wf : forall s f, parse s = Ok f -> wf_fields f = true.
Proof. exact parse_ok_wf_proof. Qed.
Print Assumptions parse_ok_wf.

Theorem parse_trigger_ok_wf : forall s f, parse_trigger s = Ok f -> wf_fields f = true.
Proof. exact parse_trigger_ok_wf_proof. Qed.
Print Assumptions parse_trigger_ok_wf.

Theorem parse_ok_shape : forall s f, parse s = Ok f ->
  (exists v, lookup_special (trim_cron_expression s) special = Some v) \/
  (List.length (split_on space (trim_cron_expression s)) = 6%nat \/ List.length (split_on space (trim_cron_expression s)) = 7%nat).
Proof. exact parse_ok_shape_proof. Qed.
Print Assumptions parse_ok_shape.

(* ---- 2. documented => accepted with the documented meaning, in every syntactic variant ---- *)
Theorem parse_doc_complete : forall e v, wf_doc e = true -> parse (render v e) = Ok (denote e).
Proof. exact parse_doc_complete_proof. Qed.
Print Assumptions parse_doc_complete.

Theorem parse_trigger_doc_complete : forall e v, wf_doc e = true -> parse_trigger (render v e) = Ok (denote_trigger e).
Proof. exact parse_trigger_doc_complete_proof. Qed.
Print Assumptions parse_trigger_doc_complete.

(* names = numbers, letter case, white space, missing year = "*" (all are components of the variant) *)
Corollary parse_variants_equal : forall e v1 v2, wf_doc e = true -> parse (render v1 e) = parse (render v2 e).
Proof. exact parse_variants_equal_proof. Qed.
Print Assumptions parse_variants_equal.

(* a macro equals its documented expansion, whatever the variants *)
Corollary macro_equals_expansion : forall m v1 v2, parse (render v1 (DMacro m)) = parse (render v2 (DFields (macro_fields m))).
Proof. exact macro_equals_expansion_proof. Qed.
Print Assumptions macro_equals_expansion.

(* ---- 3. the enumerated breakages are rejected ---- *)
(* wrong field count *)
Theorem reject_token_count : forall s, is_macro s = false -> token_count s <> 6%nat -> token_count s <> 7%nat -> parse s = ParseError.
Proof. exact reject_token_count_proof. Qed.
Print Assumptions reject_token_count.

(* both day fields set *)
Theorem reject_both_day_fields : forall s,
  is_any (nth 3 (final_tokens s) []) = false -> is_any (nth 5 (final_tokens s) []) = false -> parse s = ParseError.
Proof. exact reject_both_day_fields_proof. Qed.
Print Assumptions reject_both_day_fields.

(* a field its parser rejects makes the whole expression rejected *)
Theorem reject_field : forall s i, (i < 7)%nat -> field_result i (nth i (final_tokens s) []) = ParseError -> parse s = ParseError.
Proof. exact reject_field_proof. Qed.
Print Assumptions reject_field.

(* single value: out of range, or an unknown name (normalize fails: the premise is vacuous) *)
Theorem reject_single_value : forall t lo hi names,
  is_any t = false -> contains_rune go_listRune t = false -> contains_rune go_stepRune t = false -> contains_rune go_rangeRune t = false ->
  (forall n, normalize t names = Ok n -> in_scope n lo hi = false) ->
  parse_field t (lo, hi) names = ParseError.
Proof. exact single_reject. Qed.
Print Assumptions reject_single_value.

(* range: an end out of range or unknown, or start > end *)
Theorem reject_range : forall t0 t1 lo hi names,
  contains_rune go_rangeRune t0 = false -> contains_rune go_rangeRune t1 = false ->
  (forall a b, normalize t0 names = Ok a -> normalize t1 names = Ok b -> in_scope a lo hi && in_scope b lo hi && (a <=? b) = false) ->
  parse_range_field (t0 ++ go_rangeRune :: t1) (lo, hi) names = ParseError.
Proof. exact range_reject. Qed.
Print Assumptions reject_range.

(* step: zero, negative, above the upper bound or not a number *)
Theorem reject_step_size : forall t0 t1 lo hi names,
  contains_rune go_stepRune t0 = false -> contains_rune go_stepRune t1 = false ->
  (forall s, atoi t1 = Some s -> s < 1 \/ hi < s) ->
  parse_step_field (t0 ++ go_stepRune :: t1) (lo, hi) names = ParseError.
Proof. exact step_size_reject. Qed.
Print Assumptions reject_step_size.

(* step: start out of range or unknown *)
Theorem reject_step_start : forall t0 t1 lo hi names,
  contains_rune go_stepRune t0 = false -> contains_rune go_stepRune t1 = false ->
  bytes_eqb t0 star = false -> contains_rune go_rangeRune t0 = false ->
  (forall a, normalize t0 names = Ok a -> in_scope a lo hi = false) ->
  parse_step_field (t0 ++ go_stepRune :: t1) (lo, hi) names = ParseError.
Proof. exact step_start_reject. Qed.
Print Assumptions reject_step_start.

(* list: one rejected member (plain value out of range / unknown, bad range, bad step) *)
Theorem reject_list_member : forall members m lo hi names,
  (forall x, In x members -> contains_rune go_listRune x = false) -> In m members -> (2 <= List.length members)%nat ->
  member_rejected m lo hi names ->
  parse_field (join_with go_listRune members) (lo, hi) names = ParseError.
Proof. exact list_reject_field. Qed.
Print Assumptions reject_list_member.

(* L-n with n out of range; d#k with k out of range *)
Theorem reject_last_minus : forall ds b names, all_digits ds = true -> ds <> [] ->
  (forall n, atoi ds = Some n -> in_scope n (fst b) (snd b) = false) ->
  parse_day_of_month_field (go_lastRune :: go_rangeRune :: ds) b names = ParseError.
Proof. exact last_minus_reject. Qed.
Print Assumptions reject_last_minus.

Theorem reject_hash : forall w ds b names, all_alnum w = true -> w <> [] -> all_digits ds = true -> ds <> [] ->
  contains_rune go_lastRune w = false ->
  (forall k, atoi ds = Some k -> in_scope k go_hash_lo go_hash_hi = false) ->
  parse_day_of_week_field (w ++ go_hashRune :: ds) b names = ParseError.
Proof. exact hash_reject. Qed.
Print Assumptions reject_hash.

(* ---- 4. totality: the model answers Ok or ParseError on every string ---- *)
Theorem parse_total : forall s, parse s = ParseError \/ exists f, parse s = Ok f.
Proof. exact parse_total_proof. Qed.
Print Assumptions parse_total.

Theorem parse_trigger_total : forall s,
  (parse s = ParseError /\ parse_trigger s = ParseError) \/ exists f, parse s = Ok f /\ parse_trigger s = Ok (wildcard_fixup f).
Proof. exact parse_trigger_total_proof. Qed.
Print Assumptions parse_trigger_total.
