(* The value lists computed by the model's loops (count_up) equal the declarative value sets of the
   specification (filter of a membership predicate over the field's universe); sorting is invariant
   under permutation. *)
From Coq Require Import ZArith List Bool Lia Sorted Permutation RelationClasses.
Require Import QzBase.Fields QzParser.Gen.Params QzParser.ZSort QzParser.ParserModel QzParser.ParserLemmas QzParser.ParserSpec.
Import ListNotations.
Open Scope Z_scope.
Open Scope list_scope.

Lemma map_seq_count_up : forall n k lo, map (fun i => lo + Z.of_nat i) (seq k n) = count_up n (lo + Z.of_nat k) 1.
Proof.
  induction n as [|n IH]; intros k lo; [reflexivity|].
  cbn [seq map count_up]. f_equal. rewrite IH. f_equal. lia.
Qed.

Lemma universe_count_up : forall lo hi, universe lo hi = count_up (Z.to_nat (hi - lo + 1)) lo 1.
Proof. intros. unfold universe. rewrite map_seq_count_up. f_equal. lia. Qed.

Lemma count_up_in_iff : forall n from s x,
  In x (count_up n from s) <-> exists k, 0 <= k < Z.of_nat n /\ x = from + k * s.
Proof.
  induction n as [|n IH]; intros from s x.
  - cbn. split; [tauto|]. intros [k [H _]]. lia.
  - cbn [count_up In]. rewrite IH. split.
    + intros [<-|[k [Hk ->]]]; [exists 0; lia | exists (k + 1); lia].
    + intros [k [Hk ->]]. destruct (Z.eq_dec k 0) as [->|Hne]; [left; lia|right]. exists (k - 1). lia.
Qed.

Lemma universe_in : forall lo hi x, In x (universe lo hi) <-> lo <= x <= hi.
Proof.
  intros. rewrite universe_count_up, count_up_in_iff. split.
  - intros [k [Hk ->]]. lia.
  - intro H. exists (x - lo). lia.
Qed.

Lemma count_up_ssorted : forall n from s, 1 <= s -> StronglySorted Z.lt (count_up n from s).
Proof.
  induction n as [|n IH]; intros from s Hs; [constructor|].
  cbn [count_up]. constructor; [apply IH; exact Hs|].
  apply Forall_forall. intros x Hx. apply count_up_bounds in Hx; lia.
Qed.

Lemma ssorted_filter : forall (p : Z -> bool) l, StronglySorted Z.lt l -> StronglySorted Z.lt (filter p l).
Proof.
  intros p l H. induction H as [|a l H IH Ha]; [constructor|].
  cbn [filter]. destruct (p a); [|exact IH]. constructor; [exact IH|].
  apply Forall_forall. intros x Hx. apply filter_In in Hx as [Hx _]. rewrite Forall_forall in Ha. apply Ha. exact Hx.
Qed.

Lemma ssorted_ext : forall l1 l2, StronglySorted Z.lt l1 -> StronglySorted Z.lt l2 ->
  (forall x, In x l1 <-> In x l2) -> l1 = l2.
Proof.
  induction l1 as [|a l1 IH]; intros l2 H1 H2 Hext.
  - destruct l2 as [|b l2]; [reflexivity|]. exfalso. apply (Hext b). left; reflexivity.
  - destruct l2 as [|b l2]; [exfalso; apply (Hext a); left; reflexivity|].
    inversion H1 as [|? ? S1 F1]; subst. inversion H2 as [|? ? S2 F2]; subst.
    rewrite Forall_forall in F1, F2.
    assert (a = b).
    { destruct (proj1 (Hext a) (or_introl eq_refl)) as [E|Ha]; [congruence|].
      destruct (proj2 (Hext b) (or_introl eq_refl)) as [E|Hb]; [congruence|].
      specialize (F1 b Hb). specialize (F2 a Ha). lia. }
    subst b. f_equal. apply IH; [exact S1|exact S2|].
    intro x. split; intro Hx.
    + destruct (proj1 (Hext x) (or_intror Hx)) as [E|Hx2]; [|exact Hx2]. subst x. specialize (F1 a Hx). lia.
    + destruct (proj2 (Hext x) (or_intror Hx)) as [E|Hx1]; [|exact Hx1]. subst x. specialize (F2 a Hx). lia.
Qed.

(* the loop `for i := from; i <= to; i += s` enumerates the members of [from, to] congruent to from *)
Lemma count_up_is_filter : forall lo hi from to s, lo <= from -> from <= to -> to <= hi -> 1 <= s ->
  count_up (Z.to_nat ((to - from) / s + 1)) from s =
  filter (fun v => (from <=? v) && (v <=? to) && ((v - from) mod s =? 0)) (universe lo hi).
Proof.
  intros lo hi from to s H1 H2 H3 Hs.
  apply ssorted_ext.
  - apply count_up_ssorted. exact Hs.
  - apply ssorted_filter. rewrite universe_count_up. apply count_up_ssorted. lia.
  - intro x. rewrite filter_In, universe_in, count_up_in_iff.
    assert (Q : 0 <= (to - from) / s) by (apply Z.div_pos; lia).
    rewrite Z2Nat.id by lia.
    rewrite !andb_true_iff, !Z.leb_le, Z.eqb_eq. split.
    + intros [k [Hk ->]].
      assert (s * ((to - from) / s) <= to - from) by (apply Z.mul_div_le; lia).
      replace (from + k * s - from) with (k * s) by lia. rewrite Z.mod_mul by lia. nia.
    + intros [_ [[Ha Hb] Hm]]. exists ((x - from) / s).
      assert (x - from = s * ((x - from) / s)) by (apply Z.div_exact; lia).
      assert ((x - from) / s <= (to - from) / s) by (apply Z.div_le_mono; lia).
      assert (0 <= (x - from) / s) by (apply Z.div_pos; lia).
      lia.
Qed.

Lemma filter_ext_universe : forall lo hi (p q : Z -> bool),
  (forall v, lo <= v <= hi -> p v = q v) -> filter p (universe lo hi) = filter q (universe lo hi).
Proof. intros lo hi p q H. apply filter_ext_in. intros v Hv. apply H. apply universe_in. exact Hv. Qed.

(* ---- the five kinds of items ---- *)
Lemma val_values : forall lo hi n, lo <= n <= hi -> item_values lo hi (IVal n) = [n].
Proof.
  intros lo hi n H. unfold item_values, item_mem.
  rewrite (filter_ext_universe lo hi _ (fun v => (n <=? v) && (v <=? n) && ((v - n) mod 1 =? 0))).
  - rewrite <- (count_up_is_filter lo hi n n 1) by lia. replace ((n - n) / 1 + 1) with 1 by (rewrite Z.sub_diag; reflexivity).
    reflexivity.
  - intros v Hv. rewrite Z.mod_1_r. cbn. rewrite andb_true_r.
    destruct (Z.eqb_spec v n); [subst; rewrite Z.leb_refl; reflexivity|].
    symmetry. apply andb_false_iff. rewrite !Z.leb_gt. lia.
Qed.

Lemma range_values : forall lo hi a b, lo <= a -> a <= b -> b <= hi -> zrange a b = item_values lo hi (IRange a b).
Proof.
  intros lo hi a b H1 H2 H3. unfold item_values, item_mem, zrange.
  rewrite (filter_ext_universe lo hi _ (fun v => (a <=? v) && (v <=? b) && ((v - a) mod 1 =? 0))).
  - rewrite <- (count_up_is_filter lo hi a b 1) by lia. rewrite Z.div_1_r. reflexivity.
  - intros v Hv. rewrite Z.mod_1_r. cbn. rewrite andb_true_r. reflexivity.
Qed.

Lemma step_from_values : forall lo hi a s, lo <= a -> a <= hi -> 1 <= s ->
  count_up (Z.to_nat ((hi - a) / s + 1)) a s = item_values lo hi (IStepFrom a s).
Proof.
  intros lo hi a s H1 H2 H3. unfold item_values, item_mem.
  rewrite (count_up_is_filter lo hi a hi s) by lia. apply filter_ext_universe.
  intros v Hv. replace (v <=? hi) with true by (symmetry; apply Z.leb_le; lia). rewrite andb_true_r. reflexivity.
Qed.

Lemma step_all_values : forall lo hi s, lo <= hi -> 1 <= s ->
  count_up (Z.to_nat ((hi - lo) / s + 1)) lo s = item_values lo hi (IStepAll s).
Proof.
  intros lo hi s H1 H3. unfold item_values, item_mem.
  rewrite (count_up_is_filter lo hi lo hi s) by lia. apply filter_ext_universe.
  intros v Hv. replace (v <=? hi) with true by (symmetry; apply Z.leb_le; lia).
  replace (lo <=? v) with true by (symmetry; apply Z.leb_le; lia). reflexivity.
Qed.

Lemma step_range_values : forall lo hi a b s, lo <= a -> a <= b -> b <= hi -> 1 <= s ->
  count_up (Z.to_nat ((b - a) / s + 1)) a s = item_values lo hi (IStepRange a b s).
Proof.
  intros lo hi a b s H1 H2 H3 H4. unfold item_values, item_mem.
  rewrite (count_up_is_filter lo hi a b s) by lia. reflexivity.
Qed.

(* ---- sorting ---- *)
Lemma le_sorted_perm_eq : forall l1 l2, StronglySorted Z.le l1 -> StronglySorted Z.le l2 -> Permutation l1 l2 -> l1 = l2.
Proof.
  induction l1 as [|a l1 IH]; intros l2 H1 H2 P.
  - apply Permutation_nil in P. subst. reflexivity.
  - destruct l2 as [|b l2]; [apply Permutation_sym, Permutation_nil in P; discriminate|].
    inversion H1 as [|? ? S1 F1]; subst. inversion H2 as [|? ? S2 F2]; subst.
    rewrite Forall_forall in F1, F2.
    assert (a = b).
    { assert (Ha : In a (b :: l2)) by (eapply Permutation_in; [exact P|left; reflexivity]).
      assert (Hb : In b (a :: l1)) by (eapply Permutation_in; [apply Permutation_sym; exact P|left; reflexivity]).
      destruct Ha as [E|Ha]; [congruence|]. destruct Hb as [E|Hb]; [congruence|].
      specialize (F1 b Hb). specialize (F2 a Ha). lia. }
    subst b. f_equal. apply IH; [exact S1|exact S2|]. eapply Permutation_cons_inv. exact P.
Qed.

Lemma sort_ssorted : forall l, StronglySorted Z.le (ZSort.sort l).
Proof.
  intro l. assert (T : Transitive (fun x y : Z => is_true (x <=? y))).
  { intros x y z Hxy Hyz. unfold is_true in *. rewrite Z.leb_le in *. lia. }
  pose proof (ZSort.StronglySorted_sort l T) as S.
  induction S as [|a l' S IH F]; constructor; [exact IH|].
  rewrite Forall_forall in *. intros x Hx. specialize (F x Hx). unfold is_true in F. apply Z.leb_le. exact F.
Qed.

Lemma sort_perm_eq : forall l1 l2, Permutation l1 l2 -> ZSort.sort l1 = ZSort.sort l2.
Proof.
  intros l1 l2 P. apply le_sorted_perm_eq; try apply sort_ssorted.
  eapply Permutation_trans; [apply Permutation_sym, ZSort.Permuted_sort|].
  eapply Permutation_trans; [exact P|apply ZSort.Permuted_sort].
Qed.
