(* Specification of the documented cron expression format (README.md, "Cron expression format" and
   "Special characters"), written independently of the parser model and of Gen/Params.v:

     doc_expr      abstract syntax of the documented grammar
     wf_doc        the documented side conditions (ranges of values, one day field free, ...)
     denote        the documented meaning, as the parsed form QzBase.Fields.fields
     variant       the syntactic freedom the documentation grants: names or numbers for months and
                   week days, the case of every letter, the white space between the fields and at both
                   ends, a missing year for "*", a macro name or its expansion
     render        the concrete string of an expression in a variant

   Definitions only.  The theorem parse_doc_complete (ParserDocProofs.v, Props/C07.v) says
   parse (render v e) = Ok (denote e) for every well-formed e and every v.

   Limits the README leaves open and that are taken from the code (see notes/parser.md): a step is at
   most the field's upper bound, a range has start <= end, the year is at most 3940, L-n has
   1 <= n <= 31, duplicate list members stay duplicates in the parsed value list. *)
From Coq Require Import ZArith List Bool Ascii String.
Require Import QzBase.Fields QzParser.ZSort.
Import ListNotations.
Open Scope Z_scope.

Definition dbytes := list ascii.
Definition DB (s : string) : dbytes := list_ascii_of_string s.

(* ---- abstract syntax ---- *)
Inductive item :=
| IVal (n : Z)                 (* n        a value (or the name of a month / week day) *)
| IRange (a b : Z)             (* a-b      range *)
| IStepFrom (a s : Z)          (* a/s      increments from a to the end of the field's range *)
| IStepAll (s : Z)             (* * / s    increments from the start of the field's range *)
| IStepRange (a b s : Z).      (* a-b/s    increments inside a range *)

Inductive fexpr :=
| FAll                         (* *  all values *)
| FAny                         (* ?  no specific value (day fields) *)
| FItem (i : item)
| FList (i1 i2 : item) (rest : list item).     (* i1,i2,...  at least two members *)

Inductive dom_expr :=
| DomF (f : fexpr)
| DomLast                      (* L    last day of the month *)
| DomLastMinus (n : Z)         (* L-n  n-th to last day of the month *)
| DomWeekday (d : Z)           (* dW   nearest weekday to day d *)
| DomLastWeekday.              (* LW   last weekday of the month *)

Inductive dow_expr :=
| DowF (f : fexpr)
| DowLast                      (* L    Saturday *)
| DowLastOf (d : Z)            (* dL   last d-day of the month *)
| DowNth (d k : Z).            (* d#k  k-th d-day of the month *)

Record doc_fields := {
  d_sec : fexpr; d_min : fexpr; d_hour : fexpr; d_dom : dom_expr; d_mon : fexpr; d_dow : dow_expr;
  d_year : fexpr               (* FAll may be left out in the concrete syntax *)
}.

Inductive macro := Yearly | Monthly | Weekly | Daily | Hourly.

Inductive doc_expr := DFields (fs : doc_fields) | DMacro (m : macro).

(* ---- the README table: allowed values ---- *)
Definition doc_bound (fi : nat) : Z * Z :=
  match fi with
  | 0%nat => (0, 59) | 1%nat => (0, 59) | 2%nat => (0, 23) | 3%nat => (1, 31) | 4%nat => (1, 12) | 5%nat => (1, 7)
  | _ => (1970, 3940)
  end.
Definition doc_months : list dbytes := map DB ["JAN"; "FEB"; "MAR"; "APR"; "MAY"; "JUN"; "JUL"; "AUG"; "SEP"; "OCT"; "NOV"; "DEC"]%string.
Definition doc_days : list dbytes := map DB ["SUN"; "MON"; "TUE"; "WED"; "THU"; "FRI"; "SAT"]%string.
Definition field_names (fi : nat) : list dbytes :=
  match fi with 4%nat => doc_months | 5%nat => doc_days | _ => [] end.

(* ---- well-formedness ---- *)
Definition btw (lo x hi : Z) : bool := (lo <=? x) && (x <=? hi).

Definition wf_item (lo hi : Z) (it : item) : bool :=
  match it with
  | IVal n => btw lo n hi
  | IRange a b => btw lo a hi && btw lo b hi && (a <=? b)
  | IStepFrom a s => btw lo a hi && btw 1 s hi
  | IStepAll s => btw 1 s hi
  | IStepRange a b s => btw lo a hi && btw lo b hi && (a <=? b) && btw 1 s hi
  end.

Definition wf_fexpr (any_ok : bool) (lo hi : Z) (f : fexpr) : bool :=
  match f with
  | FAll => true
  | FAny => any_ok
  | FItem i => wf_item lo hi i
  | FList i1 i2 rest => forallb (wf_item lo hi) (i1 :: i2 :: rest)
  end.

Definition wf_field (any_ok : bool) (fi : nat) (f : fexpr) : bool :=
  wf_fexpr any_ok (fst (doc_bound fi)) (snd (doc_bound fi)) f.

Definition fexpr_free (f : fexpr) : bool := match f with FAll | FAny => true | _ => false end.
Definition dom_free (d : dom_expr) : bool := match d with DomF f => fexpr_free f | _ => false end.
Definition dow_free (d : dow_expr) : bool := match d with DowF f => fexpr_free f | _ => false end.

Definition wf_dom (d : dom_expr) : bool :=
  match d with
  | DomF f => wf_field true 3 f
  | DomLast | DomLastWeekday => true
  | DomLastMinus n => btw 1 n 31
  | DomWeekday d => btw 1 d 31
  end.

Definition wf_dow (d : dow_expr) : bool :=
  match d with
  | DowF f => wf_field true 5 f
  | DowLast => true
  | DowLastOf d => btw 1 d 7
  | DowNth d k => btw 1 d 7 && btw 1 k 5
  end.

Definition wf_doc_fields (fs : doc_fields) : bool :=
  wf_field false 0 (d_sec fs) && wf_field false 1 (d_min fs) && wf_field false 2 (d_hour fs) &&
  wf_dom (d_dom fs) && wf_field false 4 (d_mon fs) && wf_dow (d_dow fs) && wf_field false 6 (d_year fs) &&
  (dom_free (d_dom fs) || dow_free (d_dow fs)).      (* one of the two day fields is * or ? *)

Definition wf_doc (e : doc_expr) : bool :=
  match e with DFields fs => wf_doc_fields fs | DMacro _ => true end.

(* ---- meaning ---- *)
(* all values of a field, ascending *)
Definition universe (lo hi : Z) : list Z := map (fun i => lo + Z.of_nat i) (seq 0 (Z.to_nat (hi - lo + 1))).

(* is v selected by the item (v ranges over the field's universe) *)
Definition item_mem (lo : Z) (it : item) (v : Z) : bool :=
  match it with
  | IVal n => v =? n
  | IRange a b => (a <=? v) && (v <=? b)
  | IStepFrom a s => (a <=? v) && ((v - a) mod s =? 0)
  | IStepAll s => (v - lo) mod s =? 0
  | IStepRange a b s => (a <=? v) && (v <=? b) && ((v - a) mod s =? 0)
  end.

Definition item_values (lo hi : Z) (it : item) : list Z := filter (item_mem lo it) (universe lo hi).

(* the values of a field as an ascending list; [] = every value; a list keeps a value once per
   member that selects it *)
Definition fexpr_values (lo hi : Z) (f : fexpr) : list Z :=
  match f with
  | FAll | FAny => []
  | FItem i => item_values lo hi i
  | FList i1 i2 rest => ZSort.sort (List.concat (map (item_values lo hi) (i1 :: i2 :: rest)))
  end.

Definition field_values (fi : nat) (f : fexpr) : list Z :=
  fexpr_values (fst (doc_bound fi)) (snd (doc_bound fi)) f.

(* markers of QzBase.Fields: day-of-month 1 = L, -n = L-n, 2 = dW, 3 = LW; day-of-week -1 = dL / L, k = d#k.
   Week days are documented as 1..7 = SUN..SAT and stored as 0..6. *)
Definition denote_dom (d : dom_expr) : list Z * Z :=
  match d with
  | DomF f => (field_values 3 f, 0)
  | DomLast => ([], 1)
  | DomLastMinus n => ([], - n)
  | DomWeekday d => ([d], 2)
  | DomLastWeekday => ([0], 3)
  end.

Definition denote_dow (d : dow_expr) : list Z * Z :=
  match d with
  | DowF f => (map (fun v => v - 1) (field_values 5 f), 0)
  | DowLast => ([6], -1)
  | DowLastOf d => ([d - 1], -1)
  | DowNth d k => ([d - 1], k)
  end.

Definition denote_fields (fs : doc_fields) : fields :=
  {| fl_sec := field_values 0 (d_sec fs); fl_min := field_values 1 (d_min fs); fl_hour := field_values 2 (d_hour fs);
     fl_dom := fst (denote_dom (d_dom fs)); fl_dom_n := snd (denote_dom (d_dom fs));
     fl_mon := field_values 4 (d_mon fs);
     fl_dow := fst (denote_dow (d_dow fs)); fl_dow_n := snd (denote_dow (d_dow fs));
     fl_year := field_values 6 (d_year fs) |}.

Definition val (n : Z) : fexpr := FItem (IVal n).

(* the documented expansions: at midnight on 1 January / on the 1st of the month / on Sunday / every
   day; at minute 0 of every hour *)
Definition macro_fields (m : macro) : doc_fields :=
  match m with
  | Yearly  => {| d_sec := val 0; d_min := val 0; d_hour := val 0; d_dom := DomF (val 1); d_mon := val 1; d_dow := DowF FAll; d_year := FAll |}
  | Monthly => {| d_sec := val 0; d_min := val 0; d_hour := val 0; d_dom := DomF (val 1); d_mon := FAll; d_dow := DowF FAll; d_year := FAll |}
  | Weekly  => {| d_sec := val 0; d_min := val 0; d_hour := val 0; d_dom := DomF FAll; d_mon := FAll; d_dow := DowF (val 1); d_year := FAll |}
  | Daily   => {| d_sec := val 0; d_min := val 0; d_hour := val 0; d_dom := DomF FAll; d_mon := FAll; d_dow := DowF FAll; d_year := FAll |}
  | Hourly  => {| d_sec := val 0; d_min := val 0; d_hour := FAll; d_dom := DomF FAll; d_mon := FAll; d_dow := DowF FAll; d_year := FAll |}
  end.

Definition macro_name (m : macro) : dbytes :=
  DB match m with Yearly => "@yearly" | Monthly => "@monthly" | Weekly => "@weekly" | Daily => "@daily" | Hourly => "@hourly" end%string.

Definition expr_fields (e : doc_expr) : doc_fields :=
  match e with DFields fs => fs | DMacro m => macro_fields m end.

Definition denote (e : doc_expr) : fields := denote_fields (expr_fields e).

(* the fields a trigger acts on: a full-wildcard expression fires every second *)
Definition denote_trigger (e : doc_expr) : fields :=
  let f := denote e in
  match fl_sec f, fl_min f, fl_hour f, fl_dom f, fl_mon f, fl_dow f, fl_year f with
  | [], [], [], [], [], [], [] =>
      {| fl_sec := universe 0 59; fl_min := []; fl_hour := []; fl_dom := []; fl_dom_n := fl_dom_n f;
         fl_mon := []; fl_dow := []; fl_dow_n := fl_dow_n f; fl_year := [] |}
  | _, _, _, _, _, _, _ => f
  end.

(* ---- concrete syntax ---- *)
(* white space between fields: the characters of the regular expression \s *)
Inductive ws := WsSpace | WsTab | WsNewline | WsFormFeed | WsReturn.
(* white space at both ends: additionally the vertical tab, which strings.TrimSpace removes *)
Inductive edge_ws := EdgeWs (w : ws) | EdgeVTab.

Definition ws_char (w : ws) : ascii :=
  ascii_of_N match w with WsSpace => 32 | WsTab => 9 | WsNewline => 10 | WsFormFeed => 12 | WsReturn => 13 end.
Definition edge_char (w : edge_ws) : ascii :=
  match w with EdgeWs w => ws_char w | EdgeVTab => ascii_of_N 11 end.

Record variant := {
  v_lead : list edge_ws;                 (* white space before the first field *)
  v_trail : list edge_ws;                (* white space after the last field *)
  v_gap : nat -> ws * list ws;           (* white space after field i: at least one character *)
  (* field, position of the member in its list, 0 = first / 1 = second value of the member:
     None = print the number; Some mask = print the name (months, week days), letter j in lower
     case iff the j-th entry of mask is true *)
  v_name : nat -> nat -> nat -> option (list bool);
  v_omit_year : bool;                    (* leave the year out when it is "*" *)
  v_macro_name : bool                    (* print a macro by its name rather than by its expansion *)
}.

(* decimal numeral of 0 <= n (fields hold numbers below 10^4; 20 digits are printed at most) *)
Fixpoint print_digits (fuel : nat) (n : Z) (acc : dbytes) : dbytes :=
  match fuel with
  | O => acc
  | S k =>
      let d := ascii_of_N (Z.to_N (48 + n mod 10)) in
      if n <? 10 then d :: acc else print_digits k (n / 10) (d :: acc)
  end.
Definition print_Z (n : Z) : dbytes := print_digits 20 n [].

Definition is_upper_letter (c : ascii) : bool := (65 <=? N_of_ascii c)%N && (N_of_ascii c <=? 90)%N.
Definition to_lower (c : ascii) : ascii := if is_upper_letter c then ascii_of_N (N_of_ascii c + 32) else c.

Fixpoint apply_case (mask : list bool) (s : dbytes) : dbytes :=
  match s with
  | [] => []
  | c :: r =>
      match mask with
      | b :: m => (if b then to_lower c else c) :: apply_case m r
      | [] => c :: apply_case [] r
      end
  end.

Definition name_of (fi : nat) (n : Z) : option dbytes :=
  if 1 <=? n then nth_error (field_names fi) (Z.to_nat (n - 1)) else None.

Definition render_value (fi : nat) (choice : option (list bool)) (n : Z) : dbytes :=
  match choice with
  | Some mask => match name_of fi n with Some nm => apply_case mask nm | None => print_Z n end
  | None => print_Z n
  end.

Definition ch (s : string) : ascii := match s with String c _ => c | EmptyString => Ascii.zero end.

Definition render_item (v : variant) (fi k : nat) (it : item) : dbytes :=
  let pv role n := render_value fi (v_name v fi k role) n in
  match it with
  | IVal n => pv 0%nat n
  | IRange a b => pv 0%nat a ++ ch "-" :: pv 1%nat b
  | IStepFrom a s => pv 0%nat a ++ ch "/" :: print_Z s
  | IStepAll s => ch "*" :: ch "/" :: print_Z s
  | IStepRange a b s => pv 0%nat a ++ ch "-" :: pv 1%nat b ++ ch "/" :: print_Z s
  end.

Fixpoint render_items (v : variant) (fi k : nat) (l : list item) : list dbytes :=
  match l with
  | [] => []
  | it :: r => render_item v fi k it :: render_items v fi (S k) r
  end.

Fixpoint join_with (sep : ascii) (l : list dbytes) : dbytes :=
  match l with
  | [] => []
  | [t] => t
  | t :: r => t ++ sep :: join_with sep r
  end.

Definition render_fexpr (v : variant) (fi : nat) (f : fexpr) : dbytes :=
  match f with
  | FAll => [ch "*"]
  | FAny => [ch "?"]
  | FItem i => render_item v fi 0 i
  | FList i1 i2 rest => join_with (ch ",") (render_items v fi 0 (i1 :: i2 :: rest))
  end.

Definition render_dom (v : variant) (d : dom_expr) : dbytes :=
  match d with
  | DomF f => render_fexpr v 3 f
  | DomLast => [ch "L"]
  | DomLastMinus n => ch "L" :: ch "-" :: print_Z n
  | DomWeekday d => print_Z d ++ [ch "W"]
  | DomLastWeekday => [ch "L"; ch "W"]
  end.

Definition render_dow (v : variant) (d : dow_expr) : dbytes :=
  match d with
  | DowF f => render_fexpr v 5 f
  | DowLast => [ch "L"]
  | DowLastOf d => render_value 5 (v_name v 5%nat 0%nat 0%nat) d ++ [ch "L"]
  | DowNth d k => render_value 5 (v_name v 5%nat 0%nat 0%nat) d ++ ch "#" :: print_Z k
  end.

Definition render_tokens (v : variant) (fs : doc_fields) : list dbytes :=
  [render_fexpr v 0 (d_sec fs); render_fexpr v 1 (d_min fs); render_fexpr v 2 (d_hour fs); render_dom v (d_dom fs);
   render_fexpr v 4 (d_mon fs); render_dow v (d_dow fs)] ++
  match d_year fs with
  | FAll => if v_omit_year v then [] else [render_fexpr v 6 FAll]
  | y => [render_fexpr v 6 y]
  end.

Definition gap_chars (v : variant) (k : nat) : dbytes := map ws_char (fst (v_gap v k) :: snd (v_gap v k)).

Fixpoint join_gaps (v : variant) (k : nat) (toks : list dbytes) : dbytes :=
  match toks with
  | [] => []
  | [t] => t
  | t :: r => t ++ gap_chars v k ++ join_gaps v (S k) r
  end.

Definition expr_tokens (v : variant) (e : doc_expr) : list dbytes :=
  match e with
  | DFields fs => render_tokens v fs
  | DMacro m => if v_macro_name v then [macro_name m] else render_tokens v (macro_fields m)
  end.

Definition render (v : variant) (e : doc_expr) : dbytes :=
  map edge_char (v_lead v) ++ join_gaps v 0 (expr_tokens v e) ++ map edge_char (v_trail v).
