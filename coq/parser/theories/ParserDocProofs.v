(* parse_doc_complete: every well-formed documented expression, rendered in any variant, is accepted
   by the model with its documented meaning. *)
From Coq Require Import ZArith NArith List Bool Ascii String Lia Sorted Permutation.
Require Import QzBase.Fields QzParser.Gen.Params QzParser.ZSort QzParser.ParserModel QzParser.ParserLemmas
  QzParser.ParserWfProofs QzParser.ParserSpec QzParser.DocChars QzParser.DocValues QzParser.DocFields.
Import ListNotations.
Open Scope Z_scope.
Open Scope list_scope.

(* ---- value character classes per field ---- *)
Definition day_char (c : ascii) : bool :=
  is_digit c || existsb (fun nm => existsb (fun x => Ascii.eqb c x || Ascii.eqb c (to_lower x)) nm) doc_days.

Lemma apply_case_chars : forall nm mask c, In c (apply_case mask nm) -> exists x, In x nm /\ (c = x \/ c = to_lower x).
Proof.
  induction nm as [|y nm IH]; intros mask c H; [destruct H|].
  destruct mask as [|b m]; cbn [apply_case] in H; destruct H as [<-|H].
  - exists y. split; [left; reflexivity|left; reflexivity].
  - destruct (IH _ _ H) as [x [Hx Hc]]. exists x. split; [right; exact Hx|exact Hc].
  - exists y. split; [left; reflexivity|destruct b; auto].
  - destruct (IH _ _ H) as [x [Hx Hc]]. exists x. split; [right; exact Hx|exact Hc].
Qed.

Lemma digits_vc : forall (vc : ascii -> bool) n, (forall c, is_digit c = true -> vc c = true) -> 0 <= n < 4000 ->
  forallb vc (print_Z n) = true.
Proof.
  intros vc n Hvd Hn. pose proof (print_digits_only n Hn) as D. unfold all_digits in D.
  rewrite forallb_forall in *. intros c Hc. apply Hvd, D, Hc.
Qed.

Lemma value_chars_plain : forall fi choice n, field_names fi = [] -> 0 <= n < 4000 ->
  forallb is_digit (render_value fi choice n) = true.
Proof.
  intros fi choice n Hnames Hn. unfold render_value, name_of. rewrite Hnames.
  assert (E : forall k, nth_error (@nil dbytes) k = None) by (intro k; destruct k; reflexivity).
  destruct choice as [mask|]; [destruct (1 <=? n); rewrite ?E|]; apply (digits_vc is_digit); auto.
Qed.

Lemma value_chars_alnum : forall fi choice n, 0 <= n < 4000 -> forallb is_alnum (render_value fi choice n) = true.
Proof. intros. apply render_value_alnum. assumption. Qed.

Lemma value_chars_day : forall choice n, 0 <= n < 4000 -> forallb day_char (render_value 5 choice n) = true.
Proof.
  intros choice n Hn. unfold render_value.
  assert (P : forallb day_char (print_Z n) = true).
  { apply digits_vc; [|exact Hn]. intros c Hc. unfold day_char. rewrite Hc. reflexivity. }
  destruct choice as [mask|]; [|exact P]. destruct (name_of 5 n) as [nm|] eqn:E; [|exact P].
  unfold name_of in E. destruct (1 <=? n); [|discriminate]. apply nth_error_In in E. cbn [field_names] in E.
  apply forallb_forall. intros c Hc. destruct (apply_case_chars _ _ _ Hc) as [x [Hx Hcx]].
  unfold day_char. apply orb_true_iff. right. apply existsb_exists. exists nm. split; [exact E|].
  apply existsb_exists. exists x. split; [exact Hx|]. destruct Hcx as [->| ->]; rewrite Ascii.eqb_refl; [reflexivity|apply orb_true_r].
Qed.

(* what the characters of a field exclude *)
Definition clean_char (c : ascii) : bool := negb (is_trim_space c) && negb (Ascii.eqb c (ch "@")).
Definition tok_char (c : ascii) : bool := is_alnum c || is_punct c || Ascii.eqb c (ch "#").

Lemma tok_char_clean : forall c, impb (tok_char c) (clean_char c) = true.
Proof. char_sweep. Qed.
Lemma plain_field_char : forall c, impb (field_char is_digit c)
  (tok_char c && negb (Ascii.eqb go_lastRune c) && negb (Ascii.eqb go_weekdayRune c) && negb (Ascii.eqb go_hashRune c)) = true.
Proof. char_sweep. Qed.
Lemma alnum_field_char : forall c, impb (field_char is_alnum c) (tok_char c) = true.
Proof. char_sweep. Qed.
Lemma day_field_char : forall c, impb (field_char day_char c)
  (tok_char c && negb (Ascii.eqb go_lastRune c) && negb (Ascii.eqb go_hashRune c)) = true.
Proof. char_sweep. Qed.
Lemma day_char_no : forall c, impb (day_char c) (is_alnum c && negb (Ascii.eqb go_lastRune c) && negb (Ascii.eqb go_hashRune c)) = true.
Proof. char_sweep. Qed.

Lemma digit_tok : forall c, impb (is_digit c) (tok_char c) = true.
Proof. char_sweep. Qed.
Lemma alnum_tok : forall c, impb (is_alnum c) (tok_char c) = true.
Proof. char_sweep. Qed.

Lemma forallb_impb : forall (p q : ascii -> bool) s, (forall c, impb (p c) (q c) = true) -> forallb p s = true -> forallb q s = true.
Proof.
  intros p q s H Hp. rewrite forallb_forall in *. intros c Hc. exact (impb_elim _ _ (H c) (Hp c Hc)).
Qed.

Lemma contains_none : forall (p : ascii -> bool) c s, forallb p s = true -> (forall x, p x = true -> Ascii.eqb c x = false) ->
  contains_rune c s = false.
Proof.
  intros p c s H Hp. unfold contains_rune. induction s as [|x s IH]; [reflexivity|].
  cbn [forallb existsb] in *. apply andb_true_iff in H as [Hx Hs]. rewrite (Hp x Hx), (IH Hs). reflexivity.
Qed.

(* ---- the seven fields ---- *)
Section Tokens.
  Variable v : variant.

  Lemma plain_parse_field : forall fi lo hi any_ok f, (fi < 7)%nat -> field_names fi = [] -> gloss fi = [] ->
    0 <= lo -> lo <= hi -> hi < 4000 -> wf_fexpr any_ok lo hi f = true ->
    parse_field (render_fexpr v fi f) (lo, hi) [] = Ok (fexpr_values lo hi f, 0) /\
    forallb (field_char is_digit) (render_fexpr v fi f) = true /\ render_fexpr v fi f <> [].
  Proof.
    intros fi lo hi any_ok f Hfi Hn Hg Hlo Hlh Hhi W. split.
    - rewrite <- Hg. exact (fexpr_parse v fi lo hi Hfi Hlo Hlh Hhi any_ok f W).
    - apply (fexpr_chars v fi lo hi Hfi Hlo Hhi is_digit) with (any_ok := any_ok); [|auto|exact W].
      intros k role n Hin. apply value_chars_plain; [exact Hn|lia].
  Qed.

  Lemma sec_parse : forall f, wf_field false 0 f = true ->
    parse_field (render_fexpr v 0 f) go_bound_second [] = Ok (field_values 0 f, 0) /\
    forallb (field_char is_digit) (render_fexpr v 0 f) = true /\ render_fexpr v 0 f <> [].
  Proof. intros f W. apply (plain_parse_field 0 0 59 false f); try reflexivity; try lia; exact W. Qed.
  Lemma min_parse : forall f, wf_field false 1 f = true ->
    parse_field (render_fexpr v 1 f) go_bound_minute [] = Ok (field_values 1 f, 0) /\
    forallb (field_char is_digit) (render_fexpr v 1 f) = true /\ render_fexpr v 1 f <> [].
  Proof. intros f W. apply (plain_parse_field 1 0 59 false f); try reflexivity; try lia; exact W. Qed.
  Lemma hour_parse : forall f, wf_field false 2 f = true ->
    parse_field (render_fexpr v 2 f) go_bound_hour [] = Ok (field_values 2 f, 0) /\
    forallb (field_char is_digit) (render_fexpr v 2 f) = true /\ render_fexpr v 2 f <> [].
  Proof. intros f W. apply (plain_parse_field 2 0 23 false f); try reflexivity; try lia; exact W. Qed.
  Lemma year_parse : forall f, wf_field false 6 f = true ->
    parse_field (render_fexpr v 6 f) go_bound_year [] = Ok (field_values 6 f, 0) /\
    forallb (field_char is_digit) (render_fexpr v 6 f) = true /\ render_fexpr v 6 f <> [].
  Proof. intros f W. apply (plain_parse_field 6 1970 3940 false f); try reflexivity; try lia; exact W. Qed.
  Lemma domf_parse : forall f, wf_field true 3 f = true ->
    parse_field (render_fexpr v 3 f) go_bound_dom [] = Ok (field_values 3 f, 0) /\
    forallb (field_char is_digit) (render_fexpr v 3 f) = true /\ render_fexpr v 3 f <> [].
  Proof. intros f W. apply (plain_parse_field 3 1 31 true f); try reflexivity; try lia; exact W. Qed.

  Lemma mon_parse : forall f, wf_field false 4 f = true ->
    parse_field (render_fexpr v 4 f) go_bound_month months = Ok (field_values 4 f, 0) /\
    forallb (field_char is_alnum) (render_fexpr v 4 f) = true /\ render_fexpr v 4 f <> [].
  Proof.
    intros f W. split.
    - refine (fexpr_parse v 4 1 12 _ _ _ _ false f W); lia.
    - apply (fexpr_chars v 4 1 12) with (any_ok := false); try lia; [|intros c Hc; exact (impb_elim _ _ (digit_alnum c) Hc)|exact W].
      intros k role n Hn. apply value_chars_alnum. lia.
  Qed.

  Lemma dowf_parse : forall f, wf_field true 5 f = true ->
    parse_field (render_fexpr v 5 f) go_bound_dow days = Ok (field_values 5 f, 0) /\
    forallb (field_char day_char) (render_fexpr v 5 f) = true /\ render_fexpr v 5 f <> [].
  Proof.
    intros f W. split.
    - refine (fexpr_parse v 5 1 7 _ _ _ _ true f W); lia.
    - apply (fexpr_chars v 5 1 7) with (any_ok := true); try lia; [| |exact W].
      + intros k role n Hn. apply value_chars_day. lia.
      + intros c Hc. unfold day_char. rewrite Hc. reflexivity.
  Qed.

  (* ---- day of month ---- *)
  Lemma strip_suffix_snoc : forall c p, strip_suffix_char c (p ++ [c]) = Some p.
  Proof. intros c p. unfold strip_suffix_char. rewrite rev_app_distr. cbn [rev app]. rewrite Ascii.eqb_refl, rev_involutive. reflexivity. Qed.

  Lemma dom_parse : forall d, wf_dom d = true ->
    parse_day_of_month_field (render_dom v d) go_bound_dom [] = Ok (denote_dom d) /\
    forallb tok_char (render_dom v d) = true /\ render_dom v d <> [].
  Proof.
    intros d W. destruct d as [f| |n|d|]; cbn [wf_dom] in W; cbn [render_dom denote_dom].
    - destruct (domf_parse f W) as [P [C Hne]]. split; [|split; [|exact Hne]].
      + unfold parse_day_of_month_field.
        assert (NL : contains_rune go_lastRune (render_fexpr v 3 f) = false).
        { apply (contains_none _ _ _ C). intros x Hx. pose proof (impb_elim _ _ (plain_field_char x) Hx) as Q.
          repeat (apply andb_true_iff in Q; destruct Q as [Q ?]). apply negb_true_iff. assumption. }
        assert (NW : contains_rune go_weekdayRune (render_fexpr v 3 f) = false).
        { apply (contains_none _ _ _ C). intros x Hx. pose proof (impb_elim _ _ (plain_field_char x) Hx) as Q.
          repeat (apply andb_true_iff in Q; destruct Q as [Q ?]). apply negb_true_iff. assumption. }
        rewrite NL, NW. cbn [andb]. exact P.
      + eapply forallb_impb; [|exact C]. intro c. pose proof (plain_field_char c) as Q.
        destruct (field_char is_digit c); [|reflexivity]. cbn in *. repeat (apply andb_true_iff in Q; destruct Q as [Q ?]). exact Q.
    - split; [reflexivity|split; [reflexivity|discriminate]].
    - apply btw_true in W. split; [|split; [|discriminate]].
      + unfold parse_day_of_month_field.
        change (ch "L" :: ch "-" :: print_Z n) with ([go_lastRune] ++ go_rangeRune :: print_Z n).
        assert (D : all_digits (print_Z n) = true) by (apply print_digits_only; lia).
        assert (Hne : print_Z n <> []) by (apply print_nonempty; lia).
        rewrite contains_app. replace (contains_rune go_lastRune [go_lastRune]) with true by reflexivity. cbn [orb andb].
        replace (re_last_month_day ([go_lastRune] ++ go_rangeRune :: print_Z n)) with true.
        2:{ symmetry. cbn [app]. unfold re_last_month_day. change (Ascii.eqb go_lastRune chL) with true.
            change (Ascii.eqb go_rangeRune chMinus) with true. rewrite D. destruct (print_Z n); [contradiction|reflexivity]. }
        replace (bytes_eqb ([go_lastRune] ++ go_rangeRune :: print_Z n) [go_lastRune]) with false by reflexivity.
        rewrite split_on_app by reflexivity.
        rewrite split_on_none by (apply alnum_no; [apply all_digits_alnum; exact D|reflexivity]).
        rewrite print_atoi by lia. cbn [fst snd go_bound_dom]. rewrite (proj2 (in_scope_true _ _ _)) by (cbn; lia). reflexivity.
      + cbn [forallb]. rewrite (forallb_impb is_digit tok_char).
        * reflexivity.
        * exact digit_tok.
        * apply print_digits_only. lia.
    - apply btw_true in W.
      assert (D : all_digits (print_Z d) = true) by (apply print_digits_only; lia).
      assert (Hne : print_Z d <> []) by (apply print_nonempty; lia).
      split; [|split].
      + unfold parse_day_of_month_field. change (ch "W") with go_weekdayRune.
        assert (NL : contains_rune go_lastRune (print_Z d ++ [go_weekdayRune]) = false).
        { rewrite contains_app. rewrite (contains_false_forall is_digit go_lastRune _ D) by reflexivity. reflexivity. }
        rewrite NL. cbn [andb].
        rewrite contains_app. replace (contains_rune go_weekdayRune [go_weekdayRune]) with true by reflexivity. rewrite orb_true_r. cbn [andb].
        replace (bytes_eqb (print_Z d ++ [go_weekdayRune]) [go_lastRune; go_weekdayRune]) with false.
        2:{ destruct (print_Z d) as [|c r] eqn:E; [contradiction|]. cbn [all_digits forallb] in D. apply andb_true_iff in D as [Dc _].
            pose proof (impb_elim _ _ (digit_not_LW c) Dc) as Q. apply andb_true_iff in Q as [Q _]. apply negb_true_iff in Q.
            cbn [app bytes_eqb]. change go_lastRune with chL. rewrite Q. reflexivity. }
        unfold re_weekday, trim_suffix_char. change chW with go_weekdayRune. rewrite strip_suffix_snoc.
        rewrite D. replace (nonempty (print_Z d)) with true by (destruct (print_Z d); [contradiction|reflexivity]).
        cbn [andb]. replace (bytes_eqb (print_Z d) []) with false by (destruct (print_Z d); [contradiction|reflexivity]).
        rewrite print_atoi by lia. cbn [fst snd go_bound_dom]. rewrite (proj2 (in_scope_true _ _ _)) by (cbn; lia). reflexivity.
      + rewrite forallb_app. cbn [forallb]. rewrite (forallb_impb is_digit tok_char); [reflexivity|exact digit_tok|exact D].
      + destruct (print_Z d); discriminate.
    - split; [reflexivity|split; [reflexivity|discriminate]].
  Qed.

  (* ---- day of week ---- *)
  Lemma dow_value : forall d, 1 <= d <= 7 ->
    let s := render_value 5 (v_name v 5%nat 0%nat 0%nat) d in
    normalize s days = Ok d /\ all_alnum s = true /\ s <> [] /\
    contains_rune go_lastRune s = false /\ contains_rune go_hashRune s = false.
  Proof.
    intros d Hd s. subst s. split; [apply (render_value_normalize 5); lia|].
    destruct (render_value_alnum 5 (v_name v 5%nat 0%nat 0%nat) d) as [A Hne]; [lia|]. split; [exact A|]. split; [exact Hne|].
    pose proof (value_chars_day (v_name v 5%nat 0%nat 0%nat) d) as C.
    split; apply (contains_none _ _ _ (C ltac:(lia))); intros x Hx; pose proof (impb_elim _ _ (day_char_no x) Hx) as Q;
      repeat (apply andb_true_iff in Q; destruct Q as [Q ?]); apply negb_true_iff; assumption.
  Qed.

  Lemma dow_parse : forall d, wf_dow d = true ->
    (exists f, parse_day_of_week_field (render_dow v d) go_bound_dow days = Ok f /\ field_add go_dow_shift f = denote_dow d) /\
    forallb tok_char (render_dow v d) = true /\ render_dow v d <> [].
  Proof.
    intros d W. destruct d as [f| |d|d k]; cbn [wf_dow] in W; cbn [render_dow denote_dow].
    - destruct (dowf_parse f W) as [P [C Hne]]. split; [|split; [|exact Hne]].
      + exists (field_values 5 f, 0). split.
        * unfold parse_day_of_week_field.
          assert (NL : contains_rune go_lastRune (render_fexpr v 5 f) = false).
          { apply (contains_none _ _ _ C). intros x Hx. pose proof (impb_elim _ _ (day_field_char x) Hx) as Q.
            repeat (apply andb_true_iff in Q; destruct Q as [Q ?]). apply negb_true_iff. assumption. }
          assert (NH : contains_rune go_hashRune (render_fexpr v 5 f) = false).
          { apply (contains_none _ _ _ C). intros x Hx. pose proof (impb_elim _ _ (day_field_char x) Hx) as Q.
            repeat (apply andb_true_iff in Q; destruct Q as [Q ?]). apply negb_true_iff. assumption. }
          rewrite NL, NH. cbn [andb]. exact P.
        * reflexivity.
      + eapply forallb_impb; [|exact C]. intro c. pose proof (day_field_char c) as Q.
        destruct (field_char day_char c); [|reflexivity]. cbn in *. repeat (apply andb_true_iff in Q; destruct Q as [Q ?]). exact Q.
    - split; [exists ([7], -1); split; reflexivity|split; [reflexivity|discriminate]].
    - apply btw_true in W. destruct (dow_value d W) as [N [A [Hne [NL NH]]]].
      set (s := render_value 5 (v_name v 5%nat 0%nat 0%nat) d) in *.
      split; [|split].
      + exists ([d], -1). split; [|unfold field_add, go_dow_shift; cbn [fst snd map]; do 2 f_equal].
        unfold parse_day_of_week_field. change (ch "L") with go_lastRune.
        rewrite contains_app. replace (contains_rune go_lastRune [go_lastRune]) with true by reflexivity. rewrite orb_true_r. cbn [andb].
        unfold re_last_weekday, trim_suffix_char. change chL with go_lastRune. rewrite strip_suffix_snoc. rewrite A.
        replace (bytes_eqb s []) with false by (destruct s; [contradiction|reflexivity]).
        rewrite N. cbn [fst snd go_bound_dow]. rewrite (proj2 (in_scope_true _ _ _)) by (cbn; lia). reflexivity.
      + rewrite forallb_app. cbn [forallb]. rewrite (forallb_impb is_alnum tok_char); [reflexivity|exact alnum_tok|exact A].
      + destruct s; discriminate.
    - apply andb_true_iff in W as [Wd Wk]. apply btw_true in Wd, Wk. destruct (dow_value d Wd) as [N [A [Hne [NL NH]]]].
      set (s := render_value 5 (v_name v 5%nat 0%nat 0%nat) d) in *.
      assert (D : all_digits (print_Z k) = true) by (apply print_digits_only; lia).
      assert (Hnk : print_Z k <> []) by (apply print_nonempty; lia).
      split; [|split].
      + exists ([d], k). split; [|unfold field_add, go_dow_shift; cbn [fst snd map]; do 2 f_equal].
        unfold parse_day_of_week_field. change (ch "#") with go_hashRune.
        rewrite contains_app, contains_cons, NL.
        replace (Ascii.eqb go_lastRune go_hashRune) with false by reflexivity.
        rewrite (contains_false_forall is_digit go_lastRune _ D) by reflexivity. cbn [orb andb].
        rewrite contains_app, contains_cons, Ascii.eqb_refl, orb_true_r. cbn [andb].
        unfold re_hash. change chHash with go_hashRune.
        rewrite split_on_app by exact NH.
        rewrite split_on_none by (apply alnum_no; [apply all_digits_alnum; exact D|reflexivity]).
        rewrite A, D.
        replace (nonempty s) with true by (destruct s; [contradiction|reflexivity]).
        replace (nonempty (print_Z k)) with true by (destruct (print_Z k); [contradiction|reflexivity]).
        cbn [andb]. rewrite N. cbn [fst snd go_bound_dow]. rewrite (proj2 (in_scope_true _ _ _)) by (cbn; lia).
        rewrite print_atoi by lia. unfold go_hash_lo, go_hash_hi. rewrite (proj2 (in_scope_true _ _ _)) by lia. reflexivity.
      + rewrite forallb_app. cbn [forallb]. rewrite (forallb_impb is_alnum tok_char); [|exact alnum_tok|exact A].
        rewrite (forallb_impb is_digit tok_char); [reflexivity|exact digit_tok|exact D].
      + destruct s; discriminate.
  Qed.
End Tokens.

(* ---- white space ---- *)
Definition nts (c : ascii) : bool := negb (is_trim_space c).
Definition clean (t : bytes) : Prop := t <> [] /\ forallb nts t = true.

Lemma clean_char_facts : forall c, impb (nts c) (negb (is_re_space c) && negb (is_trim_space c) && negb (Ascii.eqb space c)) = true.
Proof. char_sweep. Qed.
Lemma tok_char_nts : forall c, impb (tok_char c) (nts c) = true.
Proof. char_sweep. Qed.

Lemma collapse_clean : forall t b rest, clean t -> collapse_ws b (t ++ rest) = t ++ collapse_ws false rest.
Proof.
  induction t as [|c t IH]; intros b rest [Hne H]; [contradiction|].
  cbn [forallb] in H. apply andb_true_iff in H as [Hc Ht].
  pose proof (impb_elim _ _ (clean_char_facts c) Hc) as Q. repeat (apply andb_true_iff in Q; destruct Q as [Q ?]).
  apply negb_true_iff in Q. cbn [app collapse_ws]. rewrite Q. f_equal.
  destruct t as [|c' t']; [reflexivity|]. apply IH. split; [discriminate|exact Ht].
Qed.

Lemma collapse_gap : forall g b rest, g <> [] -> forallb is_re_space g = true ->
  collapse_ws b (g ++ rest) = (if b then [] else [space]) ++ collapse_ws true rest.
Proof.
  induction g as [|c g IH]; intros b rest Hne H; [contradiction|].
  cbn [forallb] in H. apply andb_true_iff in H as [Hc Hg]. cbn [app collapse_ws]. rewrite Hc.
  destruct g as [|c' g'].
  - destruct b; reflexivity.
  - rewrite (IH true rest) by (try discriminate; exact Hg). destruct b; reflexivity.
Qed.

Lemma gap_chars_ws : forall v k, gap_chars v k <> [] /\ forallb is_re_space (gap_chars v k) = true.
Proof.
  intros v k. unfold gap_chars. split; [discriminate|].
  apply forallb_forall. intros c Hc. apply in_map_iff in Hc as [w [<- _]]. destruct w; reflexivity.
Qed.

Lemma collapse_join : forall v toks k b rest, toks <> [] -> Forall clean toks ->
  collapse_ws b (join_gaps v k toks ++ rest) = join_with space toks ++ collapse_ws false rest.
Proof.
  intros v. induction toks as [|t r IH]; intros k b rest Hne F; [contradiction|].
  inversion F as [|? ? Ct Cr]; subst. destruct r as [|t' r'].
  - cbn [join_gaps join_with]. apply collapse_clean. exact Ct.
  - change (join_gaps v k (t :: t' :: r')) with (t ++ gap_chars v k ++ join_gaps v (S k) (t' :: r')).
    change (join_with space (t :: t' :: r')) with (t ++ space :: join_with space (t' :: r')).
    rewrite <- !app_assoc. rewrite collapse_clean by exact Ct.
    destruct (gap_chars_ws v k) as [G1 G2]. rewrite collapse_gap by assumption.
    rewrite IH by (try discriminate; exact Cr). reflexivity.
Qed.

Lemma collapse_edge : forall l b rest, exists L b', forallb is_trim_space L = true /\
  collapse_ws b (map edge_char l ++ rest) = L ++ collapse_ws b' rest.
Proof.
  induction l as [|w l IH]; intros b rest.
  - exists [], b. split; reflexivity.
  - cbn [map app collapse_ws]. destruct w as [w|].
    + replace (is_re_space (edge_char (EdgeWs w))) with true by (destruct w; reflexivity).
      destruct (IH true rest) as [L [b' [HL E]]]. rewrite E. destruct b.
      * exists L, b'. split; [exact HL|reflexivity].
      * exists (space :: L), b'. split; [cbn [forallb]; rewrite HL; reflexivity|reflexivity].
    + replace (is_re_space (edge_char EdgeVTab)) with false by reflexivity.
      destruct (IH false rest) as [L [b' [HL E]]]. rewrite E.
      exists (edge_char EdgeVTab :: L), b'. split; [cbn [forallb]; rewrite HL; reflexivity|reflexivity].
Qed.

Lemma drop_while_all : forall p L X, forallb p L = true -> drop_while p (L ++ X) = drop_while p X.
Proof.
  intros p. induction L as [|c L IH]; intros X H; [reflexivity|].
  cbn [forallb] in H. apply andb_true_iff in H as [Hc HL]. cbn [app drop_while]. rewrite Hc. apply IH. exact HL.
Qed.

Lemma forallb_rev : forall (p : ascii -> bool) l, forallb p l = true -> forallb p (rev l) = true.
Proof. intros p l H. rewrite forallb_forall in *. intros x Hx. apply H. apply in_rev. exact Hx. Qed.

Lemma trim_space_core : forall L J T c r c' r', forallb is_trim_space L = true -> forallb is_trim_space T = true ->
  J = c :: r -> is_trim_space c = false -> rev J = c' :: r' -> is_trim_space c' = false ->
  trim_space (L ++ J ++ T) = J.
Proof.
  intros L J T c r c' r' HL HT EJ Hc ER Hc'. unfold trim_space.
  rewrite drop_while_all by exact HL. rewrite EJ. cbn [app drop_while]. rewrite Hc.
  change (c :: r ++ T) with ((c :: r) ++ T). rewrite <- EJ. rewrite rev_app_distr.
  rewrite drop_while_all by (apply forallb_rev; exact HT). rewrite ER. cbn [drop_while]. rewrite Hc'.
  rewrite <- ER. apply rev_involutive.
Qed.

Lemma clean_first : forall t, clean t -> exists c r, t = c :: r /\ is_trim_space c = false.
Proof.
  intros t [Hne H]. destruct t as [|c r]; [contradiction|]. exists c, r. split; [reflexivity|].
  cbn [forallb] in H. apply andb_true_iff in H as [Hc _].
  pose proof (impb_elim _ _ (clean_char_facts c) Hc) as Q. repeat (apply andb_true_iff in Q; destruct Q as [Q ?]).
  apply negb_true_iff. assumption.
Qed.

Lemma clean_last : forall t, clean t -> exists c r, rev t = c :: r /\ is_trim_space c = false.
Proof.
  intros t [Hne H]. apply forallb_rev in H. destruct (rev t) as [|c r] eqn:E.
  - exfalso. apply Hne. rewrite <- (rev_involutive t), E. reflexivity.
  - exists c, r. split; [reflexivity|]. cbn [forallb] in H. apply andb_true_iff in H as [Hc _].
    pose proof (impb_elim _ _ (clean_char_facts c) Hc) as Q. repeat (apply andb_true_iff in Q; destruct Q as [Q ?]).
    apply negb_true_iff. assumption.
Qed.

Lemma join_first : forall toks, toks <> [] -> Forall clean toks ->
  exists c r, join_with space toks = c :: r /\ is_trim_space c = false.
Proof.
  intros toks Hne F. destruct toks as [|t r]; [contradiction|]. inversion F as [|? ? Ct Cr]; subst.
  destruct (clean_first t Ct) as [c [r0 [-> Hc]]]. destruct r as [|t' r'].
  - exists c, r0. auto.
  - exists c, (r0 ++ space :: join_with space (t' :: r')). auto.
Qed.

Lemma join_last : forall toks, toks <> [] -> Forall clean toks ->
  exists c r, rev (join_with space toks) = c :: r /\ is_trim_space c = false.
Proof.
  induction toks as [|t r IH]; intros Hne F; [contradiction|]. inversion F as [|? ? Ct Cr]; subst.
  destruct r as [|t' r'].
  - cbn [join_with]. apply clean_last. exact Ct.
  - change (join_with space (t :: t' :: r')) with (t ++ space :: join_with space (t' :: r')).
    destruct (IH ltac:(discriminate) Cr) as [c [r0 [E Hc]]].
    rewrite rev_app_distr. cbn [rev]. rewrite E. exists c, ((r0 ++ [space]) ++ rev t). split; [reflexivity|exact Hc].
Qed.

Lemma trim_render : forall v lead trail toks, toks <> [] -> Forall clean toks ->
  trim_cron_expression (map edge_char lead ++ join_gaps v 0 toks ++ map edge_char trail) = join_with space toks.
Proof.
  intros v lead trail toks Hne F. unfold trim_cron_expression.
  destruct (collapse_edge lead false (join_gaps v 0 toks ++ map edge_char trail)) as [L [b' [HL E]]]. rewrite E.
  rewrite collapse_join by assumption.
  destruct (collapse_edge trail false []) as [T [b'' [HT E2]]]. rewrite app_nil_r in E2. rewrite E2.
  replace (collapse_ws b'' []) with (@nil ascii) by reflexivity. rewrite app_nil_r.
  destruct (join_first toks Hne F) as [c [r [EJ Hc]]]. destruct (join_last toks Hne F) as [c' [r' [ER Hc']]].
  eapply trim_space_core; eassumption.
Qed.

Lemma split_render : forall toks, toks <> [] -> Forall clean toks -> split_on space (join_with space toks) = toks.
Proof.
  intros toks Hne F. apply split_on_join; [exact Hne|]. intros t Ht. rewrite Forall_forall in F. destruct (F t Ht) as [_ C].
  apply (contains_none _ _ _ C). intros x Hx. pose proof (impb_elim _ _ (clean_char_facts x) Hx) as Q.
  repeat (apply andb_true_iff in Q; destruct Q as [Q ?]). apply negb_true_iff. assumption.
Qed.

Lemma special_keys : forallb (fun kv => match fst kv with c :: _ => Ascii.eqb c (ch "@") | [] => false end) special = true.
Proof. vm_compute. reflexivity. Qed.

Lemma lookup_not_macro : forall c r, Ascii.eqb c (ch "@") = false -> lookup_special (c :: r) special = None.
Proof.
  intros c r Hc. pose proof special_keys as K. induction special as [|[k val] rest IH]; [reflexivity|].
  cbn [forallb fst] in K. apply andb_true_iff in K as [K1 K2]. cbn [lookup_special].
  destruct k as [|kc kr]; [discriminate|]. apply Ascii.eqb_eq in K1. subst kc.
  cbn [bytes_eqb]. rewrite Ascii.eqb_sym, Hc. cbn [andb]. apply IH. exact K2.
Qed.

Lemma tok_clean : forall t, t <> [] -> forallb tok_char t = true -> clean t.
Proof. intros t Hne H. split; [exact Hne|]. eapply forallb_impb; [exact tok_char_nts|exact H]. Qed.

Lemma plain_tok : forall t, forallb (field_char is_digit) t = true -> forallb tok_char t = true.
Proof.
  intros t H. eapply forallb_impb; [|exact H]. intro c. pose proof (plain_field_char c) as Q.
  destruct (field_char is_digit c); [|reflexivity]. cbn in *. repeat (apply andb_true_iff in Q; destruct Q as [Q ?]). exact Q.
Qed.

(* ---- the whole expression ---- *)
Lemma free_dom_any : forall v d, dom_free d = true -> is_any (render_dom v d) = true.
Proof. intros v d H. destruct d as [f| | | |]; try discriminate. destruct f; try discriminate; reflexivity. Qed.
Lemma free_dow_any : forall v d, dow_free d = true -> is_any (render_dow v d) = true.
Proof. intros v d H. destruct d as [f| | |]; try discriminate. destruct f; try discriminate; reflexivity. Qed.

Lemma fields_complete : forall v fs lead trail, wf_doc_fields fs = true ->
  parse (map edge_char lead ++ join_gaps v 0 (render_tokens v fs) ++ map edge_char trail) = Ok (denote_fields fs).
Proof.
  intros v fs lead trail W. unfold wf_doc_fields in W.
  apply andb_true_iff in W as [W Wday]. apply andb_true_iff in W as [W W6]. apply andb_true_iff in W as [W W5].
  apply andb_true_iff in W as [W W4]. apply andb_true_iff in W as [W W3]. apply andb_true_iff in W as [W W2].
  apply andb_true_iff in W as [W0 W1].
  destruct (sec_parse v _ W0) as [P0 [C0 N0]]. destruct (min_parse v _ W1) as [P1 [C1 N1]].
  destruct (hour_parse v _ W2) as [P2 [C2 N2]]. destruct (dom_parse v _ W3) as [P3 [C3 N3]].
  destruct (mon_parse v _ W4) as [P4 [C4 N4]]. destruct (dow_parse v _ W5) as [[f5 [P5 E5]] [C5 N5]].
  destruct (year_parse v _ W6) as [P6 [C6 N6]].
  apply plain_tok in C0, C1, C2, C6. apply (forallb_impb _ _ _ alnum_field_char) in C4.
  set (t0 := render_fexpr v 0 (d_sec fs)) in *. set (t1 := render_fexpr v 1 (d_min fs)) in *.
  set (t2 := render_fexpr v 2 (d_hour fs)) in *. set (t3 := render_dom v (d_dom fs)) in *.
  set (t4 := render_fexpr v 4 (d_mon fs)) in *. set (t5 := render_dow v (d_dow fs)) in *.
  set (t6 := render_fexpr v 6 (d_year fs)) in *.
  assert (Hany : negb (is_any t3) && negb (is_any t5) = false).
  { unfold t3, t5. apply orb_true_iff in Wday as [D|D]; [rewrite (free_dom_any v _ D); reflexivity|rewrite (free_dow_any v _ D); apply andb_false_r]. }
  assert (K0 : clean t0) by (apply tok_clean; assumption). assert (K1 : clean t1) by (apply tok_clean; assumption).
  assert (K2 : clean t2) by (apply tok_clean; assumption). assert (K3 : clean t3) by (apply tok_clean; assumption).
  assert (K4 : clean t4) by (apply tok_clean; assumption). assert (K5 : clean t5) by (apply tok_clean; assumption).
  assert (K6 : clean t6) by (apply tok_clean; assumption).
  assert (Hfirst : exists c r, t0 = c :: r /\ Ascii.eqb c (ch "@") = false).
  { destruct t0 as [|c r]; [contradiction|]. exists c, r. split; [reflexivity|].
    cbn [forallb] in C0. apply andb_true_iff in C0 as [HC _]. pose proof (impb_elim _ _ (tok_char_clean c) HC) as Q.
    unfold clean_char in Q. apply andb_true_iff in Q as [_ Q]. apply negb_true_iff. exact Q. }
  assert (Build : build_cron_field [t0; t1; t2; t3; t4; t5; t6] = Ok (denote_fields fs)).
  { unfold build_cron_field. cbv beta zeta. cbn [nth]. rewrite P0, P1, P2, P3, P4, P5, P6. cbn [bind].
    rewrite E5. unfold denote_fields. cbn [fst snd]. reflexivity. }
  assert (Main : forall toks, toks = [t0; t1; t2; t3; t4; t5; t6] \/ (toks = [t0; t1; t2; t3; t4; t5] /\ t6 = star) ->
            parse (map edge_char lead ++ join_gaps v 0 toks ++ map edge_char trail) = Ok (denote_fields fs)).
  { intros toks Ht.
    assert (F : Forall clean toks) by (destruct Ht as [->|[-> _]]; repeat (apply Forall_cons; [assumption|]); apply Forall_nil).
    assert (Hne : toks <> []) by (destruct Ht as [->|[-> _]]; discriminate).
    unfold parse. rewrite trim_render by assumption. unfold parse_cron_expression, tokens_of.
    destruct Hfirst as [c [r [Et0 Hc]]].
    assert (LK : lookup_special (join_with space toks) special = None).
    { destruct Ht as [->|[-> _]]; cbn [join_with]; rewrite Et0; cbn [app]; apply lookup_not_macro; exact Hc. }
    rewrite LK, split_render by assumption.
    destruct Ht as [->|[-> E6]].
    - cbn [List.length]. replace ((Z.of_nat 7 <? go_tokens_min) || (Z.of_nat 7 >? go_tokens_max)) with false by reflexivity.
      replace (Z.of_nat 7 =? go_tokens_min) with false by reflexivity. cbn [nth]. rewrite Hany. exact Build.
    - cbn [List.length]. replace ((Z.of_nat 6 <? go_tokens_min) || (Z.of_nat 6 >? go_tokens_max)) with false by reflexivity.
      replace (Z.of_nat 6 =? go_tokens_min) with true by reflexivity. cbn [app nth]. rewrite Hany. rewrite <- E6. exact Build. }
  apply Main. unfold render_tokens. fold t0 t1 t2 t3 t4 t5.
  destruct (d_year fs) as [| |it|i1 i2 rest] eqn:EY; cbn [app]; try (left; reflexivity).
  destruct (v_omit_year v); [right; split; reflexivity|left; reflexivity].
Qed.

Lemma macro_name_complete : forall m,
  trim_cron_expression (macro_name m) = macro_name m /\ parse_cron_expression (macro_name m) = Ok (denote (DMacro m)).
Proof. intro m. destruct m; split; vm_compute; reflexivity. Qed.

Lemma macro_clean : forall m, clean (macro_name m).
Proof. intro m. destruct m; split; try discriminate; vm_compute; reflexivity. Qed.

Lemma macro_wf : forall m, wf_doc_fields (macro_fields m) = true.
Proof. intro m. destruct m; vm_compute; reflexivity. Qed.

Theorem parse_doc_complete_proof : forall e v, wf_doc e = true -> parse (render v e) = Ok (denote e).
Proof.
  intros e v W. unfold render. destruct e as [fs|m]; cbn [expr_tokens].
  - apply fields_complete. exact W.
  - destruct (v_macro_name v).
    + unfold parse. rewrite trim_render; [|discriminate|apply Forall_cons; [apply macro_clean|apply Forall_nil]].
      cbn [join_with]. apply macro_name_complete.
    + apply (fields_complete v (macro_fields m)). apply macro_wf.
Qed.

Lemma denote_trigger_fixup : forall e, wildcard_fixup (denote e) = denote_trigger e.
Proof.
  intro e. unfold wildcard_fixup, denote_trigger, all_values_empty. generalize (denote e).
  intros [s mi h d dn mo w wn y]. cbn [fl_sec fl_min fl_hour fl_dom fl_dom_n fl_mon fl_dow fl_dow_n fl_year].
  destruct s; [|reflexivity]. destruct mi; [|reflexivity]. destruct h; [|reflexivity]. destruct d; [|reflexivity].
  destruct mo; [|reflexivity]. destruct w; [|reflexivity]. destruct y; [|reflexivity]. reflexivity.
Qed.

Theorem parse_trigger_doc_complete_proof : forall e v, wf_doc e = true -> parse_trigger (render v e) = Ok (denote_trigger e).
Proof.
  intros e v W. unfold parse_trigger. rewrite (parse_doc_complete_proof e v W). cbn [bind]. rewrite denote_trigger_fixup. reflexivity.
Qed.

Corollary parse_variants_equal_proof : forall e v1 v2, wf_doc e = true -> parse (render v1 e) = parse (render v2 e).
Proof. intros e v1 v2 W. rewrite !parse_doc_complete_proof by exact W. reflexivity. Qed.

(* the individual freedoms, as corollaries *)
Corollary macro_equals_expansion_proof : forall m v1 v2, parse (render v1 (DMacro m)) = parse (render v2 (DFields (macro_fields m))).
Proof.
  intros m v1 v2. rewrite (parse_doc_complete_proof (DMacro m) v1 eq_refl).
  rewrite (parse_doc_complete_proof (DFields (macro_fields m)) v2 (macro_wf m)). reflexivity.
Qed.
