(* Rejection lemmas: each enumerated way of breaking the format makes the model return ParseError.
   Stated for arbitrary byte strings / tokens. *)
From Coq Require Import ZArith NArith List Bool Ascii String Lia.
Require Import QzBase.Fields QzParser.Gen.Params QzParser.ZSort QzParser.ParserModel QzParser.ParserLemmas
  QzParser.ParserWfProofs QzParser.ParserSpec QzParser.DocChars QzParser.DocFields.
Import ListNotations.
Open Scope Z_scope.
Open Scope list_scope.

(* the seven tokens handed to buildCronField *)
Definition final_tokens (s : bytes) : list bytes :=
  let t := tokens_of (trim_cron_expression s) in
  if Z.of_nat (List.length t) =? go_tokens_min then t ++ [star] else t.

Definition token_count (s : bytes) : nat := List.length (split_on space (trim_cron_expression s)).
Definition is_macro (s : bytes) : bool :=
  match lookup_special (trim_cron_expression s) special with Some _ => true | None => false end.

(* wrong number of fields *)
Lemma reject_token_count_proof : forall s, is_macro s = false -> token_count s <> 6%nat -> token_count s <> 7%nat ->
  parse s = ParseError.
Proof.
  intros s M H6 H7. unfold parse, parse_cron_expression, tokens_of. unfold is_macro in M. unfold token_count in *.
  destruct (lookup_special (trim_cron_expression s) special); [discriminate|].
  set (n := List.length (split_on space (trim_cron_expression s))) in *.
  replace ((Z.of_nat n <? go_tokens_min) || (Z.of_nat n >? go_tokens_max)) with true; [reflexivity|].
  symmetry. apply orb_true_iff. unfold go_tokens_min, go_tokens_max. rewrite Z.ltb_lt, Z.gtb_lt. lia.
Qed.

(* both day fields set *)
Lemma reject_both_day_fields_proof : forall s,
  is_any (nth 3 (final_tokens s) []) = false -> is_any (nth 5 (final_tokens s) []) = false -> parse s = ParseError.
Proof.
  intros s H3 H5. unfold parse, parse_cron_expression. unfold final_tokens in *.
  set (t := tokens_of (trim_cron_expression s)) in *.
  destruct ((Z.of_nat (List.length t) <? go_tokens_min) || (Z.of_nat (List.length t) >? go_tokens_max)); [reflexivity|].
  rewrite H3, H5. reflexivity.
Qed.

(* a field that its parser rejects *)
Definition field_result (i : nat) (t : bytes) : result cron_field :=
  match i with
  | 0%nat => parse_field t go_bound_second []
  | 1%nat => parse_field t go_bound_minute []
  | 2%nat => parse_field t go_bound_hour []
  | 3%nat => parse_day_of_month_field t go_bound_dom []
  | 4%nat => parse_field t go_bound_month months
  | 5%nat => parse_day_of_week_field t go_bound_dow days
  | _ => parse_field t go_bound_year []
  end.

Lemma reject_field_proof : forall s i, (i < 7)%nat -> field_result i (nth i (final_tokens s) []) = ParseError -> parse s = ParseError.
Proof.
  intros s i Hi H. unfold parse, parse_cron_expression. fold (final_tokens s).
  destruct ((Z.of_nat (List.length (tokens_of (trim_cron_expression s))) <? go_tokens_min)
            || (Z.of_nat (List.length (tokens_of (trim_cron_expression s))) >? go_tokens_max)); [reflexivity|].
  destruct (negb (is_any (nth 3 (final_tokens s) [])) && negb (is_any (nth 5 (final_tokens s) []))); [reflexivity|].
  unfold build_cron_field. cbv beta zeta.
  destruct i as [|[|[|[|[|[|[|i]]]]]]]; try lia; cbn [field_result] in H;
    repeat match goal with |- bind ?r _ = ParseError => destruct r eqn:?; cbn [bind]; try reflexivity; try congruence end.
Qed.

(* ---- field level ---- *)
Lemma single_reject : forall t lo hi names,
  is_any t = false -> contains_rune go_listRune t = false -> contains_rune go_stepRune t = false -> contains_rune go_rangeRune t = false ->
  (forall n, normalize t names = Ok n -> in_scope n lo hi = false) ->
  parse_field t (lo, hi) names = ParseError.
Proof.
  intros t lo hi names A C1 C2 C3 H. unfold parse_field. unfold is_any in A. rewrite orb_comm in A. rewrite A, C1, C2, C3.
  destruct (normalize t names) as [n|] eqn:E; [|reflexivity]. cbn [bind fst snd]. rewrite (H n eq_refl). reflexivity.
Qed.

Lemma range_reject : forall t0 t1 lo hi names,
  contains_rune go_rangeRune t0 = false -> contains_rune go_rangeRune t1 = false ->
  (forall a b, normalize t0 names = Ok a -> normalize t1 names = Ok b -> in_scope a lo hi && in_scope b lo hi && (a <=? b) = false) ->
  parse_range_field (t0 ++ go_rangeRune :: t1) (lo, hi) names = ParseError.
Proof.
  intros t0 t1 lo hi names C0 C1 H. unfold parse_range_field. rewrite split_on_app by exact C0. rewrite split_on_none by exact C1.
  destruct (normalize t0 names) as [a|]; [|reflexivity]. destruct (normalize t1 names) as [b|]; [|reflexivity].
  cbn [bind fst snd]. specialize (H a b eq_refl eq_refl).
  destruct (in_scope a lo hi); [|reflexivity]. destruct (in_scope b lo hi); [|reflexivity]. cbn [negb orb andb] in *.
  unfold fill_range_values. apply Z.leb_gt in H. replace (b <? a) with true by (symmetry; apply Z.ltb_lt; lia). reflexivity.
Qed.

(* zero, negative, too large or non-numeric step *)
Lemma step_size_reject : forall t0 t1 lo hi names,
  contains_rune go_stepRune t0 = false -> contains_rune go_stepRune t1 = false ->
  (forall s, atoi t1 = Some s -> s < 1 \/ hi < s) ->
  parse_step_field (t0 ++ go_stepRune :: t1) (lo, hi) names = ParseError.
Proof.
  intros t0 t1 lo hi names C0 C1 H. unfold parse_step_field. rewrite split_on_app by exact C0. rewrite split_on_none by exact C1.
  match goal with |- bind ?r _ = _ => destruct r as [ft|]; [|reflexivity] end. cbn [bind].
  destruct (atoi t1) as [s|]; [|reflexivity]. specialize (H s eq_refl).
  replace (in_scope s go_step_lo (snd (lo, hi))) with false; [rewrite orb_true_r; reflexivity|].
  symmetry. apply in_scope_false. unfold go_step_lo. cbn [snd]. exact H.
Qed.

Lemma step_start_reject : forall t0 t1 lo hi names,
  contains_rune go_stepRune t0 = false -> contains_rune go_stepRune t1 = false ->
  bytes_eqb t0 star = false -> contains_rune go_rangeRune t0 = false ->
  (forall a, normalize t0 names = Ok a -> in_scope a lo hi = false) ->
  parse_step_field (t0 ++ go_stepRune :: t1) (lo, hi) names = ParseError.
Proof.
  intros t0 t1 lo hi names C0 C1 S R H. unfold parse_step_field. rewrite split_on_app by exact C0. rewrite split_on_none by exact C1.
  rewrite S, R. destruct (normalize t0 names) as [a|]; [|reflexivity]. cbn [bind fst snd].
  destruct (atoi t1); [|reflexivity]. rewrite (H a eq_refl). reflexivity.
Qed.

(* ---- list members ---- *)
Lemma translate_literals_error : forall names l m, In m l -> normalize m names = ParseError -> translate_literals names l = ParseError.
Proof.
  induction l as [|x l IH]; intros m Hin H; [destruct Hin|]. cbn [translate_literals].
  destruct Hin as [->|Hin]; [rewrite H; reflexivity|].
  destruct (normalize x names); [|reflexivity]. cbn [bind]. rewrite (IH m Hin H). reflexivity.
Qed.

Lemma translate_literals_in : forall names l vs m n, translate_literals names l = Ok vs -> In m l -> normalize m names = Ok n -> In n vs.
Proof.
  induction l as [|x l IH]; intros vs m n H Hin Hn; [destruct Hin|]. cbn [translate_literals] in H.
  inv_bind_as H i Hi. inv_bind_as H is_ His. injection H as <-. destruct Hin as [->|Hin].
  - left. congruence.
  - right. eapply IH; eassumption.
Qed.

Lemma parse_each_error : forall p l m, In m l -> p m = ParseError -> parse_each p l = ParseError.
Proof.
  induction l as [|x l IH]; intros m Hin H; [destruct Hin|]. cbn [parse_each].
  destruct Hin as [->|Hin]; [rewrite H; reflexivity|].
  destruct (p x); [|reflexivity]. cbn [bind]. rewrite (IH m Hin H). reflexivity.
Qed.

Definition member_rejected (m : bytes) (lo hi : Z) (names : list bytes) : Prop :=
  if contains_rune go_stepRune m then parse_step_field m (lo, hi) names = ParseError
  else if contains_rune go_rangeRune m then parse_range_field m (lo, hi) names = ParseError
  else forall n, normalize m names = Ok n -> in_scope n lo hi = false.

Lemma list_member_reject : forall members m lo hi names,
  (forall x, In x members -> contains_rune go_listRune x = false) -> In m members ->
  member_rejected m lo hi names ->
  parse_list_field (join_with go_listRune members) (lo, hi) names = ParseError.
Proof.
  intros members m lo hi names Hno Hin Hrej.
  unfold parse_list_field, extract_step_values, extract_range_values, extract_values.
  rewrite split_on_join; [|intro E; subst; destruct Hin|exact Hno]. cbv beta iota zeta.
  set (vals := filter (fun v => negb (contains_rune go_stepRune v)) members).
  set (plain := filter (fun v => negb (contains_rune go_rangeRune v)) vals).
  destruct (translate_literals names plain) as [lv|] eqn:T; [|reflexivity]. cbn [bind fst snd].
  destruct (forallb (fun v => in_scope v lo hi) lv) eqn:S; [|reflexivity]. cbn [negb].
  unfold member_rejected in Hrej. destruct (contains_rune go_stepRune m) eqn:Cs.
  - rewrite (parse_each_error _ _ m); [reflexivity| |exact Hrej]. apply filter_In. auto.
  - destruct (parse_each (fun v => parse_step_field v (lo, hi) names) (filter (contains_rune go_stepRune) members)); [|reflexivity].
    cbn [bind]. assert (Hv : In m vals) by (apply filter_In; rewrite Cs; auto).
    destruct (contains_rune go_rangeRune m) eqn:Cr.
    + rewrite (parse_each_error _ _ m); [reflexivity| |exact Hrej]. apply filter_In. auto.
    + exfalso. assert (Hp : In m plain) by (apply filter_In; rewrite Cr; auto).
      destruct (normalize m names) as [n|] eqn:N.
      * pose proof (translate_literals_in _ _ _ _ _ T Hp N) as Hn. rewrite forallb_forall in S. specialize (S n Hn).
        rewrite (Hrej n eq_refl) in S. discriminate.
      * rewrite (translate_literals_error _ _ _ Hp N) in T. discriminate.
Qed.

Lemma list_reject_field : forall members m lo hi names,
  (forall x, In x members -> contains_rune go_listRune x = false) -> In m members -> (2 <= List.length members)%nat ->
  member_rejected m lo hi names ->
  parse_field (join_with go_listRune members) (lo, hi) names = ParseError.
Proof.
  intros members m lo hi names Hno Hin Hlen Hrej.
  assert (C : contains_rune go_listRune (join_with go_listRune members) = true).
  { destruct members as [|a [|b r]]; cbn [List.length] in Hlen; try lia.
    change (join_with go_listRune (a :: b :: r)) with (a ++ go_listRune :: join_with go_listRune (b :: r)).
    rewrite contains_app, contains_cons, Ascii.eqb_refl, orb_true_r. reflexivity. }
  unfold parse_field.
  replace (bytes_eqb (join_with go_listRune members) star) with false
    by (symmetry; apply bytes_eqb_neq; intro E; rewrite E in C; discriminate C).
  replace (bytes_eqb (join_with go_listRune members) qmark) with false
    by (symmetry; apply bytes_eqb_neq; intro E; rewrite E in C; discriminate C).
  cbn [orb]. rewrite C. eapply list_member_reject; eassumption.
Qed.

(* ---- the markers ---- *)
Lemma last_minus_reject : forall ds b names, all_digits ds = true -> ds <> [] ->
  (forall n, atoi ds = Some n -> in_scope n (fst b) (snd b) = false) ->
  parse_day_of_month_field (go_lastRune :: go_rangeRune :: ds) b names = ParseError.
Proof.
  intros ds b names D Hne H. unfold parse_day_of_month_field.
  replace (contains_rune go_lastRune (go_lastRune :: go_rangeRune :: ds)) with true by reflexivity.
  replace (re_last_month_day (go_lastRune :: go_rangeRune :: ds)) with true.
  2:{ symmetry. unfold re_last_month_day. change (Ascii.eqb go_lastRune chL) with true. change (Ascii.eqb go_rangeRune chMinus) with true.
      rewrite D. destruct ds; [contradiction|reflexivity]. }
  cbn [andb]. replace (bytes_eqb (go_lastRune :: go_rangeRune :: ds) [go_lastRune]) with false by reflexivity.
  change (go_lastRune :: go_rangeRune :: ds) with ([go_lastRune] ++ go_rangeRune :: ds).
  rewrite split_on_app by reflexivity.
  rewrite split_on_none by (apply (contains_false_forall is_digit); [exact D|reflexivity]).
  destruct (atoi ds) as [n|]; [|reflexivity]. rewrite (H n eq_refl). reflexivity.
Qed.

Lemma hash_reject : forall w ds b names, all_alnum w = true -> w <> [] -> all_digits ds = true -> ds <> [] ->
  contains_rune go_lastRune w = false ->
  (forall k, atoi ds = Some k -> in_scope k go_hash_lo go_hash_hi = false) ->
  parse_day_of_week_field (w ++ go_hashRune :: ds) b names = ParseError.
Proof.
  intros w ds b names A Hw D Hd NL H. unfold parse_day_of_week_field.
  rewrite contains_app, contains_cons, NL. replace (Ascii.eqb go_lastRune go_hashRune) with false by reflexivity.
  rewrite (contains_false_forall is_digit go_lastRune _ D) by reflexivity. cbn [orb andb].
  rewrite contains_app, contains_cons, Ascii.eqb_refl, orb_true_r. cbn [andb].
  assert (NH : contains_rune go_hashRune w = false) by (apply alnum_no; [exact A|reflexivity]).
  unfold re_hash. change chHash with go_hashRune. rewrite split_on_app by exact NH.
  rewrite split_on_none by (apply (contains_false_forall is_digit); [exact D|reflexivity]).
  rewrite A, D. replace (nonempty w) with true by (destruct w; [contradiction|reflexivity]).
  replace (nonempty ds) with true by (destruct ds; [contradiction|reflexivity]). cbn [andb].
  destruct (normalize w names) as [d|]; [|reflexivity]. destruct (in_scope d (fst b) (snd b)); [|reflexivity].
  destruct (atoi ds) as [k|]; [|reflexivity]. rewrite (H k eq_refl). reflexivity.
Qed.
