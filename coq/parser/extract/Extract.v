(* Extraction of the parser model (and of the specification's printer/denotation) to OCaml.
   ExtrOcamlBasic only: Z, positive, nat, ascii stay the extracted inductive types.
   Run by /verif/ocaml/parser/build.sh from inside /verif/ocaml/parser/gen. *)
From Coq Require Import Extraction ExtrOcamlBasic.
Require Import QzBase.Fields QzParser.ParserModel.
Extraction "parser.ml" parse parse_trigger wf_fields.
