#!/usr/bin/env python3
"""Regenerate MANIFEST.json from the table below (run from /verif)."""
import importlib
import json
import os
import subprocess
import sys

ROOT = os.path.dirname(os.path.dirname(os.path.abspath(__file__)))

LEVEL_NOTE = ("Trusted: Coq 8.16.1 kernel (full .vo build, vm_compute, no native_compute); no axioms declared, "
              "Print Assumptions parsed on every run; the hand-written Gallina model is tied to /repo by the "
              "correspondence harness (Go, build tag verif) on every run; small tables are regenerated from the Go "
              "source by the go/ast translator genparams, which for internal/csm's node level, quartz/cron.go's firstAfter and "
              "NextFireTime and quartz/trigger.go translates whole function bodies into Gallina that is proved equal to the model "
              "on every run (DESIGN.md 11.8); the Go runtime, fmt, sync and time are modelled, not verified. "
              "See DESIGN.md section 3.")

CHECKS = {}   # filled from the MANIFEST dict of each checks/cXX.py
# checks whose engine has been integrated and verified by the lead on the unchanged tree
ENABLED = {"C%02d" % i for i in range(1, 19)}

NOT_YET = {}


def collect():
    sys.path.insert(0, ROOT)
    sys.path.insert(0, os.path.join(ROOT, "lib"))
    for i in range(1, 19):
        pid = "C%02d" % i
        try:
            mod = importlib.import_module("checks." + pid.lower())
        except ModuleNotFoundError:
            continue
        m = getattr(mod, "MANIFEST", None)
        if m and pid in ENABLED:
            CHECKS[pid] = m


def main():
    collect()
    props = [json.loads(l) for l in open(os.path.join(ROOT, "properties.jsonl"))]
    checks = []
    na = []
    for p in props:
        pid = p["id"]
        c = CHECKS.get(pid)
        if c is None:
            na.append({"property_id": pid, "reason": NOT_YET.get(pid, "check not built yet in this round (planned, see DESIGN.md section 6); not claimed until it runs")})
            continue
        checks.append({
            "property_id": pid,
            "quick_cmd": "./check %s --tier quick" % pid,
            "thorough_cmd": "./check %s --tier thorough" % pid,
            "evidence_file": "/verif/evidence/%s.json" % pid,
            "replay_cmd_template": "./check %s --replay {path}" % pid,
            "engine": c["engine"],
            "level_claimed": {"category": "proof", "text": c["text"], "design_ref": c["design_ref"]},
            "level_note": c.get("level_note", LEVEL_NOTE),
            "technique": c["technique"],
        })
    hooks = subprocess.run(["git", "-C", "/repo", "log", "--format=%H %s"], capture_output=True, text=True).stdout.splitlines()
    hook_commits = [l.split()[0] for l in hooks if l.split(" ", 1)[1].startswith("verif hooks")]
    engines = {}
    for c in checks:
        engines.setdefault(c["engine"], []).append(c["property_id"])
    m = {
        "version": 1,
        "setup_cmd": "./check --setup",
        "hooks": {
            "guard": "verif",
            "enable": "go build -tags verif (harness module /verif/harness with replace github.com/reugn/go-quartz => /repo)",
            "baseline_off_cmd": "cd /repo && GOFLAGS=-mod=mod GOPROXY=off GOSUMDB=off go test -json -vet=off -count=1 -timeout 25m ./...",
            "source_commits": hook_commits,
            "add_only": True,
        },
        "engines": [{"name": e, "path": "coq/%s + harness/cmd + checks" % e, "serves_properties": ps,
                     "kind_free_text": "Coq 8.16 development (model, proofs, Props/*.v) + Go correspondence harness + python driver"}
                    for e, ps in sorted(engines.items())],
        "checks": checks,
        "not_applicable": na,
        "notes": "Every check: (1) regenerate Params.v from /repo and rebuild/re-check the Coq theorems, (2) run the Go harness on /repo's "
                 "working tree and compare with the executable model and a property oracle, (3) verdict per DESIGN.md 2.2. "
                 "Genuine defects found and repaired are listed in known_findings.json (status fixed).",
    }
    with open(os.path.join(ROOT, "MANIFEST.json"), "w") as f:
        json.dump(m, f, indent=1)
        f.write("\n")


if __name__ == "__main__":
    main()
