#!/usr/bin/env python3
"""Confirm a seeded change produced by an independent sub-agent and run our check against it.

usage: tools/seedtest.py <PROP> <seed out dir> [k ...]
For each patch k: in a scratch worktree of /repo (never /repo itself): demo passes on the clean tree;
with the patch: build ok, the existing suite passes, the demo fails; then `VERIF_REPO=<worktree> ./check PROP`
must report a VIOLATION.  Results are stored under /verif/seeded/<PROP>-<k>/.
"""
import json
import os
import re
import shutil
import subprocess
import sys
import time

ROOT = os.path.dirname(os.path.dirname(os.path.abspath(__file__)))
ENV = dict(os.environ, GOFLAGS="-mod=mod", GOPROXY="off", GOSUMDB="off", GOTOOLCHAIN="local")


def sh(cmd, cwd=None, timeout=1800, env=None):
    p = subprocess.run(cmd, cwd=cwd, shell=isinstance(cmd, str), env=env or ENV, stdout=subprocess.PIPE,
                       stderr=subprocess.STDOUT, text=True, timeout=timeout)
    return p.returncode, p.stdout


def main():
    prop, out = sys.argv[1], sys.argv[2]
    ks = sys.argv[3:] or sorted(re.findall(r"patch(\d+)\.diff", " ".join(os.listdir(out))))
    extra_checks = os.environ.get("SEED_ALSO", "").split()
    for k in ks:
        meta = json.load(open(os.path.join(out, "meta%s.json" % k)))
        patch = os.path.join(out, "patch%s.diff" % k)
        demos = [f for f in os.listdir(out) if f.startswith("demo%s" % k)]
        demo = demos[0]
        m = re.search(r"(\./[A-Za-z0-9_/]+)/?\s*$", meta.get("demo", "").strip().rstrip("`'\" ."))
        pkg = m.group(1).rstrip("/") if m else None
        if pkg is None:
            m = re.search(r"\./(quartz|job|logger|matcher|internal/csm)", meta.get("demo", ""))
            pkg = "./" + m.group(1) if m else "./quartz"
        run_name = re.search(r"-run\s+'?\"?([A-Za-z0-9_|.*^$]+)", meta.get("demo", ""))
        run_name = run_name.group(1) if run_name else "TestDemo%s" % k
        W = "/tmp/seedchk/%s-%s" % (prop, k)
        sh("git -C /repo worktree remove --force %s" % W)
        os.makedirs("/tmp/seedchk", exist_ok=True)
        rc, o = sh("git -C /repo worktree add --detach %s HEAD" % W)
        assert rc == 0, o
        res = {"property": prop, "k": k, "summary": meta.get("summary"), "needs": meta.get("needs"), "files": meta.get("files")}
        try:
            dst = os.path.join(W, pkg, demo)
            shutil.copy(os.path.join(out, demo), dst)
            demo_cmd = "go test -count=1 -run '%s' %s/" % (run_name, pkg)
            rc, o = sh(demo_cmd, cwd=W)
            res["demo_clean_passes"] = (rc == 0)
            rc, o = sh("git apply %s" % patch, cwd=W)
            if rc != 0:
                # written against an earlier HEAD of /repo: three-way merge, then keep the rebased patch
                rc, o = sh("git apply -3 %s" % patch, cwd=W)
                if rc == 0:
                    sh("git reset -q", cwd=W)
                    rc2, rebased = sh("git diff -- . ':(exclude)%s'" % os.path.join(pkg.lstrip("./"), demo), cwd=W)
                    patch = os.path.join("/tmp/seedchk", "%s-%s-rebased.diff" % (prop, k))
                    open(patch, "w").write(rebased)
                    res["rebased_onto_current_head"] = True
            res["patch_applies"] = (rc == 0)
            rc, o = sh("go build ./... && go vet ./quartz ./job ./logger ./matcher ./internal/... >/dev/null 2>&1; go build ./...", cwd=W)
            res["builds"] = (rc == 0)
            rc, o = sh(demo_cmd, cwd=W)
            res["demo_fails_with_patch"] = (rc != 0)
            res["demo_output_tail"] = o[-600:]
            os.remove(dst)
            # the suite has timing-based scheduler tests that flake on a loaded machine (also on the clean
            # tree): run until two passes, at most six attempts, and record every attempt
            suite = []
            flaky = []
            for _ in range(6):
                rc, o = sh("go test -count=1 ./...", cwd=W)
                suite.append(rc == 0)
                if rc != 0:
                    flaky += re.findall(r"--- FAIL: (\S+)", o)
                    res["suite_fail_tail"] = o[-800:]
                if sum(suite) >= 2:
                    break
            res["suite_passes_with_patch"] = suite
            res["suite_failed_tests"] = sorted(set(flaky))
            t0 = time.time()
            env = dict(ENV, VERIF_REPO=W)
            rc, o = sh("./check %s" % prop, cwd=ROOT, env=env, timeout=3600)
            res["check_rc"] = rc
            res["check_wall_s"] = round(time.time() - t0, 1)
            res["check_violation_lines"] = [l for l in o.splitlines() if l.startswith(("VIOLATION", "KNOWN-FINDING", "CHECK-ERROR"))][:5]
            res["detected"] = any(l.startswith("VIOLATION") for l in res["check_violation_lines"])
            # first replay file content (what the check reported)
            for l in res["check_violation_lines"]:
                mm = re.search(r"replay=(\S+)", l)
                if mm and os.path.exists(mm.group(1)):
                    res["first_replay"] = json.load(open(mm.group(1)))
                    break
            also = {}
            for p2 in extra_checks:
                rc2, o2 = sh("./check %s" % p2, cwd=ROOT, env=env, timeout=3600)
                also[p2] = {"rc": rc2, "lines": [l for l in o2.splitlines() if l.startswith("VIOLATION")][:2]}
            if also:
                res["also"] = also
        finally:
            sh("git -C /repo worktree remove --force %s" % W)
        confirmed = res.get("demo_clean_passes") and res.get("patch_applies") and res.get("builds") and \
            res.get("demo_fails_with_patch") and sum(res.get("suite_passes_with_patch", [False])) >= 2
        res["confirmed"] = bool(confirmed)
        d = os.path.join(ROOT, "seeded", "%s-%s%s" % (prop, os.environ.get("SEED_TAG", ""), k))
        if confirmed:
            os.makedirs(d, exist_ok=True)
            shutil.copy(patch, os.path.join(d, "patch.diff"))
            shutil.copy(os.path.join(out, demo), os.path.join(d, demo))
            meta_out = {"property": prop, "breaks": meta.get("summary"), "needs": meta.get("needs"), "files": meta.get("files"),
                        "why_tests_pass": meta.get("why_tests_pass"), "demo": demo, "demo_cmd": "copy %s to %s/ and run: %s" % (demo, pkg, demo_cmd),
                        "confirmed_by_lead": {k2: res[k2] for k2 in ("demo_clean_passes", "patch_applies", "builds", "demo_fails_with_patch", "suite_passes_with_patch", "suite_failed_tests")},
                        "ran": "scratch worktree of /repo HEAD; go test -count=1 ./... twice with the patch; VERIF_REPO=<worktree> ./check %s" % prop,
                        "check": {k2: res.get(k2) for k2 in ("check_rc", "check_wall_s", "check_violation_lines", "detected", "first_replay", "also")}}
            json.dump(meta_out, open(os.path.join(d, "meta.json"), "w"), indent=1, default=str)
        print(json.dumps({k2: res.get(k2) for k2 in ("property", "k", "summary", "confirmed", "detected", "check_rc", "check_wall_s",
                                                     "demo_clean_passes", "demo_fails_with_patch", "suite_passes_with_patch", "check_violation_lines")}, indent=1))
    # restore Params.v etc. from /repo
    sh("./check %s > /dev/null 2>&1" % prop, cwd=ROOT)


if __name__ == "__main__":
    main()
