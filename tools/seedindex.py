#!/usr/bin/env python3
"""Write seeded/INDEX.md from the meta.json files of the confirmed seeded changes."""
import glob
import json
import os

ROOT = os.path.dirname(os.path.dirname(os.path.abspath(__file__)))
rows = []
for d in sorted(glob.glob(os.path.join(ROOT, "seeded", "*", "meta.json"))):
    m = json.load(open(d))
    c = m.get("check", {})
    lines = c.get("check_violation_lines") or []
    if not c.get("detected"):
        kind = "MISSED"
    elif lines and all("no-failing-input-found" in l for l in lines):
        kind = "detected (no-failing-input-found)"
    else:
        kind = "detected, failing input in the replay"
    rows.append((os.path.basename(os.path.dirname(d)), m.get("property"), (m.get("breaks") or "").replace("|", "/").replace("\n", " "),
                 (m.get("needs") or "").replace("|", "/").replace("\n", " "), kind, c.get("check_wall_s")))
with open(os.path.join(ROOT, "seeded", "INDEX.md"), "w") as f:
    f.write("# Seeded changes (written by independent sub-agents, confirmed by the lead)\n\n")
    f.write("Each directory holds patch.diff, the demonstration test and meta.json (what it breaks, what it needs to manifest,\n"
            "what was run to confirm it, and what `VERIF_REPO=<scratch worktree> ./check <property>` reported).\n"
            "`r2-`, `r3-`, `r4-` mark later rounds (the agents were told the earlier mechanisms and asked for different ones).\n\n")
    f.write("%d changes, %d detected (%d with a concrete failing input in the replay).\n\n" % (
        len(rows), sum(1 for r in rows if r[4] != "MISSED"), sum(1 for r in rows if r[4].startswith("detected, failing"))))
    f.write("| seed | property | change | needs | our check (final state) | wall s |\n|---|---|---|---|---|---|\n")
    for r in rows:
        f.write("| %s | %s | %s | %s | %s | %s |\n" % (r[0], r[1], r[2][:260], r[3][:260], r[4], r[5]))
print(len(rows))
