"""Common machinery for the go-quartz verification checks (stdlib only).

Every check (checks/cXX.py) does three things (DESIGN.md 2.2):
  1. re-generate Params.v from /repo and re-check the Coq theorems,
  2. run the correspondence harness (real Go code vs. the executable model),
  3. decide: exit 0, or `VIOLATION property=<id> replay=<path>` and exit 1.
"""
import fcntl
import hashlib
import json
import os
import re
import subprocess
import sys
import time

VERIF = os.path.dirname(os.path.dirname(os.path.abspath(__file__)))
REPO = os.environ.get("VERIF_REPO", "/repo")
BUILD = os.path.join(VERIF, "build")
EVID = os.path.join(VERIF, "evidence")
REPLAY = os.path.join(EVID, "replay")

GOENV = {
    "GOFLAGS": "-mod=mod",
    "GOPROXY": "off",
    "GOSUMDB": "off",
    "GOTOOLCHAIN": "local",
    "CGO_ENABLED": "1",
}

FORBIDDEN = re.compile(
    r"\b(Admitted|admit|Axiom|Axioms|Parameter|Parameters|Conjecture|Conjectures|"
    r"Admit Obligations|bypass_check|native_compute)\b|Unset Guard|Unset Positivity|"
    r"Unset Universe|type-in-type|impredicative-set")

# axioms declared by the standard library that a development may rely on
STDLIB_AXIOMS = {
    "functional_extensionality_dep", "proof_irrelevance", "JMeq_eq", "Eq_rect_eq.eq_rect_eq",
    "Eqdep.Eq_rect_eq.eq_rect_eq", "classic", "propositional_extensionality",
    "FunctionalExtensionality.functional_extensionality_dep",
}


def env():
    e = dict(os.environ)
    e.update(GOENV)
    e.setdefault("HOME", "/root")
    e.setdefault("GOCACHE", os.path.join(e["HOME"], ".cache", "go-build"))
    return e


def log(msg):
    print(msg, flush=True)


def run(cmd, cwd=None, timeout=None, input=None, check=False, env_extra=None, shell=False):
    """Run a command, return (rc, stdout+stderr)."""
    e = env()
    if env_extra:
        e.update(env_extra)
    try:
        p = subprocess.run(cmd, cwd=cwd, timeout=timeout, input=input, env=e, shell=shell,
                           stdout=subprocess.PIPE, stderr=subprocess.STDOUT, text=True)
        rc, out = p.returncode, p.stdout
    except subprocess.TimeoutExpired as ex:
        out = ex.stdout or ""
        if isinstance(out, bytes):
            out = out.decode("utf-8", "replace")
        rc, out = 124, out + "\n[timeout after %ss]" % timeout
    if check and rc != 0:
        raise RuntimeError("command failed (%s): %s\n%s" % (rc, cmd, out[-4000:]))
    return rc, out


class Lock:
    """Exclusive lock so that concurrent checks do not race in make / go build."""

    def __init__(self, name):
        os.makedirs(BUILD, exist_ok=True)
        self.path = os.path.join(BUILD, ".lock-" + name)

    def __enter__(self):
        self.f = open(self.path, "w")
        fcntl.flock(self.f, fcntl.LOCK_EX)
        return self

    def __exit__(self, *a):
        fcntl.flock(self.f, fcntl.LOCK_UN)
        self.f.close()


# ---------------------------------------------------------------------------
# Coq
# ---------------------------------------------------------------------------

def coq_dir(proj):
    return os.path.join(VERIF, "coq", proj)


def coq_source_scan(proj):
    """Forbidden commands anywhere in the project's .v sources -> list of hits."""
    hits = []
    d = coq_dir(proj)
    for root, _, files in os.walk(d):
        for fn in files:
            if not fn.endswith(".v"):
                continue
            p = os.path.join(root, fn)
            txt = open(p, encoding="utf-8").read()
            # strip comments (non-nested approximation is enough: we never nest)
            stripped = re.sub(r"\(\*.*?\*\)", " ", txt, flags=re.S)
            for m in FORBIDDEN.finditer(stripped):
                hits.append("%s: %s" % (os.path.relpath(p, VERIF), m.group(0)))
    return hits


def write_if_changed(path, content):
    old = None
    if os.path.exists(path):
        old = open(path, encoding="utf-8").read()
    if old != content:
        os.makedirs(os.path.dirname(path), exist_ok=True)
        with open(path, "w", encoding="utf-8") as f:
            f.write(content)
        return True
    return False


def coq_build(proj, timeout=1500):
    """coq_makefile + make -j16 (full .vo build). Returns (ok, log)."""
    d = coq_dir(proj)
    with Lock("coq-" + proj):
        mk = os.path.join(d, "Makefile.coq")
        cp = os.path.join(d, "_CoqProject")
        if (not os.path.exists(mk)) or os.path.getmtime(mk) < os.path.getmtime(cp):
            rc, out = run(["coq_makefile", "-f", "_CoqProject", "-o", "Makefile.coq"], cwd=d, timeout=120)
            if rc != 0:
                return False, out
        rc, out = run(["make", "-k", "-f", "Makefile.coq", "-j16"], cwd=d, timeout=timeout)  # -k: files that do not depend on a broken proof (the extraction) are still built
        return rc == 0, out


def coq_args(proj):
    """-Q/-R arguments of the project's _CoqProject."""
    args = []
    for line in open(os.path.join(coq_dir(proj), "_CoqProject")):
        t = line.split()
        if t and t[0] in ("-Q", "-R") and len(t) == 3:
            args += t
    return args


THEOREM_RE = re.compile(r"^\s*(Theorem|Corollary)\s+([A-Za-z0-9_']+)", re.M)


def props_check(proj, prop_file, timeout=600):
    """Re-compile Props/<prop_file>.v and parse its Print Assumptions output.

    Returns dict(ok, obligations, discharged, theorems, axioms, log).  A theorem
    is discharged if coqc accepted it and its Print Assumptions output is
    'Closed under the global context' or lists only standard-library axioms.
    """
    d = coq_dir(proj)
    rel = os.path.join("theories", "Props", prop_file + ".v")
    src = open(os.path.join(d, rel), encoding="utf-8").read()
    stripped = re.sub(r"\(\*.*?\*\)", " ", src, flags=re.S)
    theorems = [m.group(2) for m in THEOREM_RE.finditer(stripped)]
    printed = re.findall(r"Print Assumptions\s+([A-Za-z0-9_']+)", stripped)
    with Lock("coq-" + proj):
        rc, out = run(["coqc"] + coq_args(proj) + [rel], cwd=d, timeout=timeout)
    res = {"ok": rc == 0, "obligations": len(theorems), "discharged": 0, "theorems": theorems,
           "axioms": [], "log": out, "file": rel}
    if rc != 0:
        return res
    # split output into one block per Print Assumptions, in order
    blocks = re.split(r"(?=Closed under the global context|Axioms:)", out)
    blocks = [b for b in blocks if b.startswith("Closed under") or b.startswith("Axioms:")]
    axioms = set()
    closed_ok = 0
    for i, name in enumerate(printed):
        if i >= len(blocks):
            break
        b = blocks[i]
        if b.startswith("Closed under"):
            closed_ok += 1
            continue
        names = re.findall(r"^([A-Za-z0-9_'.]+)\s*:", b, flags=re.M)
        bad = [n for n in names if n not in STDLIB_AXIOMS and n.split(".")[-1] not in STDLIB_AXIOMS]
        axioms.update(names)
        if not bad:
            closed_ok += 1
    missing = [t for t in theorems if t not in printed]
    res["axioms"] = sorted(axioms)
    res["discharged"] = closed_ok if not missing else min(closed_ok, len(theorems) - len(missing))
    res["missing_print_assumptions"] = missing
    res["ok"] = (res["discharged"] == res["obligations"]) and res["obligations"] > 0
    return res


def coq_eval(proj, name, content, timeout=900):
    """Compile a generated .v file (cases) inside the project and return coqc's output."""
    d = coq_dir(proj)
    gen = os.path.join(BUILD, "cases", proj)
    os.makedirs(gen, exist_ok=True)
    p = os.path.join(gen, name + ".v")
    with open(p, "w", encoding="utf-8") as f:
        f.write(content)
    rc, out = run(["coqc"] + coq_args(proj) + ["-Q", gen, "Cases", p], cwd=d, timeout=timeout)
    return rc, out


# ---------------------------------------------------------------------------
# Go harness / OCaml drivers
# ---------------------------------------------------------------------------

def _repo_tag():
    return "" if REPO == "/repo" else "-" + hashlib.sha1(REPO.encode()).hexdigest()[:8]


def go_build(cmd, race=False, timeout=600):
    """Build harness/cmd/<cmd> against the go-quartz working tree (REPO) with -tags verif.

    REPO is /repo unless VERIF_REPO is set (scratch copies for mutation testing); then a
    private go.mod with a different replace directive is used and binaries go to a
    separate directory, so /repo-based builds are never disturbed.
    """
    hdir = os.path.join(VERIF, "harness")
    bindir = os.path.join(BUILD, "bin" + _repo_tag())
    os.makedirs(bindir, exist_ok=True)
    out_bin = os.path.join(bindir, cmd + ("-race" if race else ""))
    with Lock("go" + _repo_tag()):
        args = ["go", "build", "-tags", "verif", "-o", out_bin]
        if REPO != "/repo":
            moddir = os.path.join(BUILD, "gomod" + _repo_tag())
            os.makedirs(moddir, exist_ok=True)
            gm = open(os.path.join(hdir, "go.mod")).read().replace("=> /repo", "=> " + REPO)
            write_if_changed(os.path.join(moddir, "go.mod"), gm)
            args.append("-modfile=" + os.path.join(moddir, "go.mod"))
        if race:
            args.append("-race")
        args.append("./cmd/" + cmd)
        rc, out = run(args, cwd=hdir, timeout=timeout)
    if rc != 0:
        return None, out
    return out_bin, out


def ocaml_build(proj, timeout=600):
    """Build ocaml/<proj>/driver.ml together with the extracted gen/*.ml -> binary."""
    d = os.path.join(VERIF, "ocaml", proj)
    os.makedirs(os.path.join(BUILD, "bin"), exist_ok=True)
    out_bin = os.path.join(BUILD, "bin", "ml-" + proj)
    with Lock("ocaml-" + proj):
        rc, out = run(["sh", "build.sh", out_bin], cwd=d, timeout=timeout)
    if rc != 0:
        return None, out
    return out_bin, out


# ---------------------------------------------------------------------------
# Evidence, violations, known findings
# ---------------------------------------------------------------------------

class Ctx:
    def __init__(self, prop, tier, seed):
        self.prop = prop
        self.tier = tier
        self.seed = seed
        self.t0 = time.time()
        self.violations = 0
        self.known_printed = set()

    def wall(self):
        return round(time.time() - self.t0, 2)


def load_known():
    p = os.path.join(VERIF, "known_findings.json")
    if not os.path.exists(p):
        return []
    return json.load(open(p)).get("findings", [])


def known_for(prop):
    return [f for f in load_known() if f.get("property") == prop and f.get("status") == "known"]


def write_replay(ctx, obj, tag=None):
    os.makedirs(REPLAY, exist_ok=True)
    body = json.dumps(obj, indent=1, sort_keys=True, default=str)
    h = hashlib.sha1(body.encode()).hexdigest()[:10]
    name = "%s-%s%s.json" % (ctx.prop, (tag + "-") if tag else "", h)
    p = os.path.join(REPLAY, name)
    with open(p, "w") as f:
        f.write(body + "\n")
    return p


def report_violation(ctx, replay_obj, no_input=False, tag=None):
    """Print the VIOLATION line. replay_obj must describe the failing case, or (no_input)
    name the theorem / correspondence relation that no longer checks."""
    replay_obj = dict(replay_obj)
    replay_obj.setdefault("property", ctx.prop)
    replay_obj["kind"] = "no-failing-input-found" if no_input else "failing-input"
    path = write_replay(ctx, replay_obj, tag)
    ctx.violations += 1
    line = "VIOLATION property=%s replay=%s" % (ctx.prop, path)
    if no_input:
        line += " no-failing-input-found"
    log(line)
    return path


def report_known(ctx, finding):
    key = finding.get("id")
    if key in ctx.known_printed:
        return
    ctx.known_printed.add(key)
    log("KNOWN-FINDING: property=%s %s" % (ctx.prop, finding.get("what", key)))


def _sanitize_coverage(cov):
    """Keep the evidence schema-valid whatever a check put into the well-known keys."""
    cov = dict(cov)
    if "exhaustive" in cov and not isinstance(cov["exhaustive"], bool):
        cov["exhaustive_note"] = cov["exhaustive"]
        cov["exhaustive"] = False
    for k in ("evaluations", "distinct_nontrivial", "states", "transitions", "traces_validated_against_impl",
              "obligations", "discharged", "programs", "disagreements_checked"):
        if k in cov and not isinstance(cov[k], int):
            try:
                cov[k] = int(cov[k])
            except (TypeError, ValueError):
                cov[k + "_note"] = cov.pop(k)
    if "samples" in cov and not isinstance(cov["samples"], list):
        cov["samples"] = [cov["samples"]]
    if "trusted_base" in cov and not isinstance(cov["trusted_base"], list):
        cov["trusted_base"] = [str(cov["trusted_base"])]
    if "rule" in cov and not isinstance(cov["rule"], str):
        cov["rule"] = json.dumps(cov["rule"])
    return cov


def write_evidence(ctx, coverage, assumptions=None, level="proof", extra=None):
    os.makedirs(EVID, exist_ok=True)
    coverage = _sanitize_coverage(coverage)
    ev = {
        "property_id": ctx.prop,
        "tier": ctx.tier,
        "seed": int(ctx.seed),
        "level": level,
        "coverage": coverage,
        "assumptions": assumptions or [],
        "wall_s": ctx.wall(),
        "violations": ctx.violations,
    }
    if extra:
        ev.update(extra)
    p = os.path.join(EVID, ctx.prop + ".json")
    with open(p, "w") as f:
        json.dump(ev, f, indent=1, sort_keys=True, default=str)
        f.write("\n")
    return p


TRUSTED_BASE_COMMON = [
    "Coq 8.16.1 kernel (coqc, full .vo build; vm_compute used, native_compute not used)",
    "no Axiom/Parameter/Admitted in the development (source scan on every run); axioms per theorem from Print Assumptions",
    "hand-written Gallina model tied to /repo by the correspondence harness (Go, build tag verif) on this run",
    "genparams translator (go/ast) copying literal tables/constants from /repo into Params.v",
]


def proof_step(ctx, proj, prop_file, genparams=None):
    """Step 1 of every check: regenerate Params.v, rebuild, re-check Props file.

    Returns (res, broken) where broken is None or a dict describing what no longer checks.
    """
    broken = None
    if genparams:
        ok, out = genparams()
        if not ok:
            broken = {"stage": "genparams", "detail": out[-3000:],
                      "what": "translator could not read the expected declarations from /repo"}
    hits = coq_source_scan(proj)
    if hits:
        broken = {"stage": "source-scan", "detail": hits,
                  "what": "forbidden command in the Coq development"}
    ok, out = coq_build(proj)
    if not ok and broken is None:
        m = re.search(r"File \"([^\"]+)\", line (\d+)[^\n]*\n(Error:[^\n]*(\n[^\n]+){0,6})", out)
        broken = {"stage": "coq-build", "what": "a proof obligation of the development no longer checks",
                  "file": m.group(1) if m else None, "line": m.group(2) if m else None,
                  "detail": (m.group(3) if m else out[-3000:])}
    res = {"ok": False, "obligations": 0, "discharged": 0, "theorems": [], "axioms": [], "log": ""}
    if ok:
        res = props_check(proj, prop_file)
        if not res["ok"] and broken is None:
            broken = {"stage": "props", "what": "property theorem file does not check or relies on a non-stdlib axiom",
                      "file": res.get("file"), "detail": res["log"][-3000:]}
    return res, broken


def proof_coverage(res, proj, prop_file):
    cov = _proof_coverage(res, proj, prop_file)
    if not (cov["obligations"] >= 1 and cov["discharged"] >= 1):
        # a run on which the proofs did not check: the schema's proof keys do not apply
        cov["proof_obligations_seen"] = cov.pop("obligations")
        cov["proof_obligations_discharged"] = cov.pop("discharged")
    return cov


def _proof_coverage(res, proj, prop_file):
    return {
        "obligations": res["obligations"],
        "discharged": res["discharged"],
        "checker_cmd": "make -C coq/%s -f Makefile.coq -j16 && coqc <_CoqProject args> theories/Props/%s.v (Print Assumptions parsed)" % (proj, prop_file),
        "trusted_base": list(TRUSTED_BASE_COMMON) + ["axioms reported by Print Assumptions: %s" % (", ".join(res["axioms"]) or "none (closed under the global context)")],
        "theorems": res["theorems"],
        **({"source_tie": res["source_tie"]} if "source_tie" in res else {}),
    }


# ---------------------------------------------------------------------------
# Verdict protocol (DESIGN.md 2.2 step 3)
# ---------------------------------------------------------------------------

def match_known(prop, case_text):
    """A known finding matches if its `match` regex matches the JSON text of the failing case."""
    for f in known_for(prop):
        pat = f.get("match")
        if pat and re.search(pat, case_text):
            return f
    return None


def decide(ctx, broken, failures, mismatches, search=None, max_lines=3):
    """failures: list of dicts (concrete cases on which the IMPLEMENTATION fails the property oracle).
    mismatches: list of dicts (cases where model and implementation differ on a projected observable).
    broken: None or dict naming the proof obligation / translator step that no longer checks.
    search: callable returning a list of failure dicts (directed search for a failing input)."""
    printed = 0

    def emit(case):
        nonlocal printed
        txt = json.dumps(case, sort_keys=True, default=str)
        k = match_known(ctx.prop, txt)
        if k is not None:
            report_known(ctx, k)
            return
        if printed < max_lines:
            report_violation(ctx, case)
            printed += 1
        else:
            ctx.violations += 1

    for c in failures:
        emit(c)
    if failures:
        return
    if broken is None and not mismatches:
        return
    found = []
    if search is not None:
        try:
            found = search() or []
        except Exception as ex:  # the search is best effort
            found = []
            log("failing-input search failed: %r" % (ex,))
    if found:
        for c in found:
            c = dict(c)
            c["found_by"] = "failing-input search after a broken proof/correspondence"
            c["broken"] = broken
            emit(c)
        if ctx.violations or printed:
            return
        # everything found was a known finding: fall through and still report the broken tie
    what = {}
    if broken is not None:
        what["no_longer_checks"] = broken
    if mismatches:
        what["correspondence"] = "model and implementation differ on a projected observable"
        what["first_mismatches"] = mismatches[:5]
        what["mismatch_count"] = len(mismatches)
    report_violation(ctx, what, no_input=True)


# ---------------------------------------------------------------------------
# Independent re-check with coqchk (thorough tier, one designated check per Coq project)
# ---------------------------------------------------------------------------

COQCHK_DESIGNATED = {"C01": ["cron", "zcompose"], "C07": ["parser"], "C11": ["queue"], "C09": ["sched"],
                     "C05": ["loop"], "C16": ["jobs"], "C18": ["logger"]}


def coqchk_project(proj, timeout=3000):
    d = coq_dir(proj)
    logical = None
    for line in open(os.path.join(d, "_CoqProject")):
        t = line.split()
        if len(t) == 3 and t[0] == "-Q" and t[1] == "theories":
            logical = t[2]
    pdir = os.path.join(d, "theories", "Props")
    libs = sorted("%s.Props.%s" % (logical, f[:-2]) for f in os.listdir(pdir) if f.endswith(".v"))
    rc, out = run(["coqchk", "-silent", "-o"] + coq_args(proj) + libs, cwd=d, timeout=timeout)
    tail = out[out.find("CONTEXT SUMMARY"):] if "CONTEXT SUMMARY" in out else out[-2000:]
    axioms = re.search(r"\* Axioms:(.*?)\n\s*\n\* ", tail + "\n\n* ", flags=re.S)
    return {"project": proj, "libraries": libs, "ok": rc == 0,
            "axioms": (axioms.group(1).strip() if axioms else "?"), "summary": tail[:2500]}


def coqchk_step(ctx):
    """Run after a thorough check of a designated property: coqchk -o on the Props libraries of its project(s);
    the result is merged into the evidence file; a failing re-check is reported as a broken proof."""
    projs = COQCHK_DESIGNATED.get(ctx.prop)
    if not projs:
        return
    results = [coqchk_project(p) for p in projs]
    ep = os.path.join(EVID, ctx.prop + ".json")
    if os.path.exists(ep):
        ev = json.load(open(ep))
        ev["coverage"]["coqchk"] = results
        ev["wall_s"] = ctx.wall()
        json.dump(ev, open(ep, "w"), indent=1, sort_keys=True, default=str)
    bad = [r for r in results if not r["ok"] or r["axioms"] not in ("<none>",)]
    if bad:
        report_violation(ctx, {"no_longer_checks": {"stage": "coqchk", "what": "coqchk does not accept the compiled libraries or reports axioms",
                                                    "detail": bad}}, no_input=True)
