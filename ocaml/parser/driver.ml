(* Driver of the extracted parser model.
   stdin : one case per line, the input string hex encoded (empty line = empty string)
   stdout: one line per case
             E                                   the model rejects (ParseError)
             O <fields> T <fields>               the model accepts: result of parse and of parse_trigger
           <fields> = sec|min|hour|dom|mon|dow|year|dom_n|dow_n, value lists comma separated. *)
open Parser

let rec int_of_pos = function
  | XH -> 1
  | XO p -> 2 * int_of_pos p
  | XI p -> 2 * int_of_pos p + 1

let int_of_z = function Z0 -> 0 | Zpos p -> int_of_pos p | Zneg p -> - (int_of_pos p)

let ascii_of_int n =
  let b i = (n lsr i) land 1 = 1 in
  Ascii (b 0, b 1, b 2, b 3, b 4, b 5, b 6, b 7)

let hexval c =
  match c with
  | '0' .. '9' -> Char.code c - 48
  | 'a' .. 'f' -> Char.code c - 87
  | 'A' .. 'F' -> Char.code c - 55
  | _ -> failwith "bad hex"

let bytes_of_hex s =
  let n = String.length s / 2 in
  let rec go i acc = if i < 0 then acc else go (i - 1) (ascii_of_int (hexval s.[2 * i] * 16 + hexval s.[2 * i + 1]) :: acc) in
  go (n - 1) []

let buf = Buffer.create 65536

let add_list l =
  let first = ref true in
  List.iter (fun z ->
      if not !first then Buffer.add_char buf ',';
      first := false;
      Buffer.add_string buf (string_of_int (int_of_z z))) l

let add_fields f =
  add_list f.fl_sec; Buffer.add_char buf '|';
  add_list f.fl_min; Buffer.add_char buf '|';
  add_list f.fl_hour; Buffer.add_char buf '|';
  add_list f.fl_dom; Buffer.add_char buf '|';
  add_list f.fl_mon; Buffer.add_char buf '|';
  add_list f.fl_dow; Buffer.add_char buf '|';
  add_list f.fl_year; Buffer.add_char buf '|';
  Buffer.add_string buf (string_of_int (int_of_z f.fl_dom_n)); Buffer.add_char buf '|';
  Buffer.add_string buf (string_of_int (int_of_z f.fl_dow_n))

let () =
  (try
     while true do
       let line = input_line stdin in
       let s = bytes_of_hex (String.trim line) in
       (match parse s, parse_trigger s with
        | Ok f, Ok t ->
          Buffer.add_string buf "O "; add_fields f; Buffer.add_string buf " T "; add_fields t;
          (* the extracted wf_fields, for cross-checking the check's own reimplementation *)
          Buffer.add_string buf (if wf_fields f && wf_fields t then " W" else " N")
        | ParseError, ParseError -> Buffer.add_string buf "E"
        | _, _ -> Buffer.add_string buf "?");
       Buffer.add_char buf '\n';
       if Buffer.length buf > 60000 then (print_string (Buffer.contents buf); Buffer.clear buf)
     done
   with End_of_file -> ());
  print_string (Buffer.contents buf)
