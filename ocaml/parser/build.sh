#!/bin/sh
# usage: build.sh <output binary>.  Extracts the Coq model into gen/ and links it with driver.ml.
set -e
cd "$(dirname "$0")"
OUT="$1"
mkdir -p gen
V=../../../coq
(cd gen && timeout 600 coqc -Q $V/parser/theories QzParser -Q $V/base/theories QzBase $V/parser/extract/Extract.v >/dev/null)
cp driver.ml gen/driver.ml
cd gen
timeout 600 ocamlfind ocamlopt -O3 -w -a -package str parser.mli parser.ml driver.ml -o "$OUT" 2>/dev/null || \
timeout 600 ocamlfind ocamlopt -w -a parser.mli parser.ml driver.ml -o "$OUT"
