#!/bin/sh
# build.sh <out>: compile the extracted model (gen/qmodel.ml, written by coq/queue/theories/Extract.v) with driver.ml
set -e
out="$1"
cd "$(dirname "$0")"
[ -f gen/qmodel.ml ] || { echo "gen/qmodel.ml missing: build coq/queue first" >&2; exit 1; }
if [ -x "$out" ] && [ "$out" -nt gen/qmodel.ml ] && [ "$out" -nt driver.ml ]; then exit 0; fi
mkdir -p _build
cp gen/qmodel.ml gen/qmodel.mli driver.ml _build/
cd _build
ocamlfind ocamlopt -w -a -o "$out" qmodel.mli qmodel.ml driver.ml
