(* Correspondence driver for C11: runs the extracted Coq model (gen/qmodel.ml) on the call sequences
   recorded by harness/cmd/queueh and compares, call by call, the model's result with what the Go
   implementation returned (array order included, through the ScheduledJobs(nil) snapshots).

   usage: driver FILE   prints  M <seq> <call index> <call> got <impl result> model <model result>
                                 per mismatch (first per sequence), then  DONE <sequences> <calls> <mismatches> *)
module Q = Qmodel

let rec nat_of_int n = if n <= 0 then Q.O else Q.S (nat_of_int (n - 1))

let ascii_of_char c =
  let n = Char.code c in
  let b i = (n lsr i) land 1 = 1 in
  Q.Ascii (b 0, b 1, b 2, b 3, b 4, b 5, b 6, b 7)

let cstring s =
  let r = ref Q.EmptyString in
  for i = String.length s - 1 downto 0 do r := Q.String (ascii_of_char s.[i], !r) done;
  !r

let ten = Q.Z.of_nat (nat_of_int 10)
let ztab : (string, Q.z) Hashtbl.t = Hashtbl.create 64
let z_of_string s =
  match Hashtbl.find_opt ztab s with
  | Some z -> z
  | None ->
    let neg = String.length s > 0 && s.[0] = '-' in
    let digits = if neg then String.sub s 1 (String.length s - 1) else s in
    let acc = ref Q.Z0 in
    String.iter (fun c -> acc := Q.Z.add (Q.Z.mul !acc ten) (Q.Z.of_nat (nat_of_int (Char.code c - 48)))) digits;
    let z = if neg then Q.Z.opp !acc else !acc in
    Hashtbl.add ztab s z; z

let rec int_of_pos = function Q.XH -> 1 | Q.XO p -> 2 * int_of_pos p | Q.XI p -> 2 * int_of_pos p + 1
let int_of_z = function Q.Z0 -> 0 | Q.Zpos p -> int_of_pos p | Q.Zneg p -> - (int_of_pos p)
let rec int_of_nat = function Q.O -> 0 | Q.S n -> 1 + int_of_nat n

let unhex s =
  (* "6162-" -> "ab" *)
  let s = String.sub s 0 (String.length s - 1) in
  String.init (String.length s / 2) (fun i -> Char.chr (int_of_string ("0x" ^ String.sub s (2 * i) 2)))

let keys : (Q.string * Q.string) array ref = ref [||]
let pats : Q.string array ref = ref [||]

let split_on_string sep s =
  (* split s on the exact separator string sep *)
  let n = String.length sep and l = String.length s in
  let rec go start i acc =
    if i + n > l then List.rev (String.sub s start (l - start) :: acc)
    else if String.sub s i n = sep then go (i + n) (i + n) (String.sub s start (i - start) :: acc)
    else go start (i + 1) acc in
  go 0 0 []

let strop = function 0 -> Q.StringEquals | 1 -> Q.StringStartsWith | 2 -> Q.StringEndsWith | _ -> Q.StringContains

let matcher_of s =
  match s.[0] with
  | 'T' -> Q.MStatus (s.[1] = '1')
  | c ->
    let dot = String.index s '.' in
    let o = int_of_string (String.sub s 1 (dot - 1)) in
    let p = int_of_string (String.sub s (dot + 1) (String.length s - dot - 1)) in
    if c = 'N' then Q.MName (strop o, !pats.(p)) else Q.MGroup (strop o, !pats.(p))

let matchers_of s = if s = "-" then [] else List.map matcher_of (String.split_on_char ',' s)

exception Unknown_id

let show_result = function
  | Q.ROk -> "ok"
  | Q.RErr Q.ErrQueueEmpty -> "Eempty"
  | Q.RErr Q.ErrJobNotFound -> "Enotfound"
  | Q.RErr Q.ErrJobAlreadyExists -> "Eexists"
  | Q.RErr Q.ErrOther -> "Eother"
  | Q.REntry e -> "#" ^ string_of_int (int_of_z e.Q.e_id)
  | Q.RList l -> "[" ^ String.concat "," (List.map (fun e -> string_of_int (int_of_z e.Q.e_id)) l) ^ "]"
  | Q.RSize n -> "=" ^ string_of_int (int_of_nat n)

let () =
  let ic = open_in Sys.argv.(1) in
  let nseq = ref 0 and ncalls = ref 0 and nbad = ref 0 in
  let ks = ref [] and ps = ref [] in
  (try
     while true do
       let line = input_line ic in
       if String.length line > 4 && String.sub line 0 4 = "T K " then begin
         match String.split_on_char ' ' line with
         | [_; _; g; n] -> ks := (cstring (unhex g), cstring (unhex n)) :: !ks
         | _ -> failwith "bad key line"
       end else if String.length line > 4 && String.sub line 0 4 = "T X " then begin
         match String.split_on_char ' ' line with
         | [_; _; p] -> ps := cstring (unhex p) :: !ps
         | _ -> failwith "bad pattern line"
       end else if String.length line > 2 && String.sub line 0 2 = "Q " then begin
         if Array.length !keys = 0 then begin
           keys := Array.of_list (List.rev !ks); pats := Array.of_list (List.rev !ps) end;
         incr nseq;
         let sp = String.index_from line 2 ' ' in
         let sid = String.sub line 2 (sp - 2) in
         let body = String.sub line (sp + 1) (String.length line - sp - 1) in
         let ids : (int, Q.entry) Hashtbl.t = Hashtbl.create 64 in
         let entry_of_id s =
           let s = if String.length s > 0 && s.[String.length s - 1] = '!' then String.sub s 0 (String.length s - 1) else s in
           match int_of_string_opt s with
           | Some i -> (match Hashtbl.find_opt ids i with Some e -> e | None -> raise Unknown_id)
           | None -> raise Unknown_id in
         let state = ref [] in
         let idx = ref 0 in
         (try
            List.iter (fun item ->
                let item = String.trim item in
                incr ncalls;
                let (c, r) = match split_on_string " > " item with [c; r] -> (c, r) | _ -> failwith ("bad item " ^ item) in
                let toks = String.split_on_char ' ' c in
                let report model =
                  incr nbad;
                  Printf.printf "M %s %d %s got %s model %s\n" sid !idx c r model;
                  raise Exit in
                let check_step op =
                  let (a', res) = Q.q_step !state op in
                  let expected =
                    try
                      if r = "ok" then Some Q.ROk
                      else if r = "Eempty" then Some (Q.RErr Q.ErrQueueEmpty)
                      else if r = "Enotfound" then Some (Q.RErr Q.ErrJobNotFound)
                      else if r = "Eexists" then Some (Q.RErr Q.ErrJobAlreadyExists)
                      else if r = "Eother" then Some (Q.RErr Q.ErrOther)
                      else if r.[0] = '#' then Some (Q.REntry (entry_of_id (String.sub r 1 (String.length r - 1))))
                      else if r.[0] = '=' then Some (Q.RSize (nat_of_int (int_of_string (String.sub r 1 (String.length r - 1)))))
                      else if r.[0] = '[' then begin
                        let inner = String.sub r 1 (String.length r - 2) in
                        Some (Q.RList (if inner = "" then [] else List.map entry_of_id (String.split_on_char ',' inner)))
                      end else None
                    with Unknown_id -> None in
                  (match expected with
                   | Some e when e = res -> ()
                   | _ -> report (show_result res));
                  state := a' in
                (match toks with
                 | [p; k; prio; susp; repl; id] when p.[0] = 'P' ->
                   let (g, n) = !keys.(int_of_string k) in
                   let e = { Q.e_key = (g, n); Q.e_prio = z_of_string prio; Q.e_susp = (susp = "1");
                             Q.e_replace = (repl = "1"); Q.e_id = z_of_string id } in
                   Hashtbl.replace ids (int_of_string id) e;
                   check_step (Q.OPush e)
                 | ["O"] -> check_step Q.OPop
                 | ["H"] -> check_step Q.OHead
                 | ["G"; k] -> check_step (Q.OGet !keys.(int_of_string k))
                 | ["R"; k] -> check_step (Q.ORemove !keys.(int_of_string k))
                 | ["Z"] -> check_step Q.OSize
                 | ["C"] -> check_step Q.OClear
                 | ["A"] -> check_step (Q.OScheduled [])
                 | ["L"; ms] -> check_step (Q.OScheduled (matchers_of ms))
                 | ["J"; ms] ->
                   let model = Q.get_job_keys !state (matchers_of ms) in
                   let shown () =
                     "{" ^ String.concat "," (List.map (fun k ->
                         let i = ref (-1) in Array.iteri (fun j k' -> if k' = k then i := j) !keys; string_of_int !i) model) ^ "}" in
                   if String.length r < 2 || r.[0] <> '{' then report (shown ())
                   else begin
                     let inner = String.sub r 1 (String.length r - 2) in
                     let exp = if inner = "" then Some [] else
                         (try Some (List.map (fun s -> !keys.(int_of_string s)) (String.split_on_char ',' inner))
                          with _ -> None) in
                     match exp with
                     | Some l when l = model -> ()
                     | _ -> report (shown ())
                   end
                 | _ -> failwith ("bad call " ^ c));
                incr idx)
              (split_on_string " ; " body)
          with Exit -> ())
       end
     done
   with End_of_file -> ());
  close_in ic;
  Printf.printf "DONE %d %d %d\n" !nseq !ncalls !nbad
