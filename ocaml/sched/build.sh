#!/bin/sh
# usage: build.sh <output binary>.  Extracts the Coq model (coq/sched must be built) into gen/ and links it with driver.ml.
# The binary is replaced atomically (another check may be running the previous one).
set -e
cd "$(dirname "$0")"
OUT="$1"
mkdir -p gen
V=../../../coq/sched
(cd gen && timeout 600 coqc -Q $V/theories QzSched $V/extract/Extract.v >/dev/null)
cp driver.ml gen/driver.ml
cd gen
TMP="$OUT.tmp.$$"
timeout 600 ocamlfind ocamlopt -O3 -w -a schedm.mli schedm.ml driver.ml -o "$TMP" 2>/dev/null || \
timeout 600 ocamlfind ocamlopt -w -a schedm.mli schedm.ml driver.ml -o "$TMP"
mv -f "$TMP" "$OUT"
