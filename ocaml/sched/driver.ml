(* Correspondence driver for the scheduler model (C03/C04/C08/C09): runs the extracted Coq functions
   api / fetch / foreign (and the registry specification spec_api) on the commands written by
   harness/cmd/schedh and prints, per command, what the model says in the same textual form in which
   the harness prints what the Go implementation did.

   One command per line (tokens separated by blanks), or a whole sequence on one line:
     Q <kind> ;; cmd ;; cmd ...        kind: l = list queue, s = sorted queue
   Commands:
     reset <kind>
     T <tid> si <interval> | ro <delay> <0|1> | fl <code> | sc <item,item,...|-> <item>     item: <int> | E<code> | Ew (wrapped expiry = E0)
     A <now> S <name> <group> <repl> <susp> <tid|nil>      name: -jdnil- | -nil- | -empty- | <name>
     A <now> D|P|R|G <name> <group>                        name: -nil- | <name>
     A <now> C | A <now> K
     F <now> <thr> <hintname> <hintgroup>                  hint - - : none;  FX ...: the reschedule Push fails
     X push <name> <group> <prio> <susp> <repl> <tid> | X remove <name> <group> | X clear
   Output per command: <model output> TAB <specification output or ->
     A: <res> [tid:prev:res,...] | {name/group:susp:prio:tid;...}
     F: <name/group:prio:valid | none> [calls] <M<prio>|-> r<0|1> | {registry}
   In a Q line the registry is printed after the last command only and outputs are joined by " ;; ". *)
module M = Schedm

let rec nat_of_int n = if n <= 0 then M.O else M.S (nat_of_int (n - 1))
let rec int_of_nat = function M.O -> 0 | M.S n -> 1 + int_of_nat n

let ascii_of_char c =
  let n = Char.code c in
  let b i = (n lsr i) land 1 = 1 in
  M.Ascii (b 0, b 1, b 2, b 3, b 4, b 5, b 6, b 7)
let char_of_ascii (M.Ascii (b0, b1, b2, b3, b4, b5, b6, b7)) =
  let v b i = if b then 1 lsl i else 0 in
  Char.chr (v b0 0 + v b1 1 + v b2 2 + v b3 3 + v b4 4 + v b5 5 + v b6 6 + v b7 7)
let ctab : (string, M.string) Hashtbl.t = Hashtbl.create 16
let cstring s =
  match Hashtbl.find_opt ctab s with
  | Some c -> c
  | None ->
    let r = ref M.EmptyString in
    for i = String.length s - 1 downto 0 do r := M.String (ascii_of_char s.[i], !r) done;
    Hashtbl.add ctab s !r; !r
let ostring c =
  let b = Buffer.create 8 in
  let rec go = function M.EmptyString -> () | M.String (a, r) -> Buffer.add_char b (char_of_ascii a); go r in
  go c; Buffer.contents b

let z_of_small n = if n = 0 then M.Z0 else M.Z.of_nat (nat_of_int n)
let ten = z_of_small 10
let digit = Array.init 10 z_of_small

(* decimal conversion: through Int64 when the value has at most 62 bits (every value of a correct run:
   UnixNano readings and math.MaxInt64 need 61..63 bits, so 63-bit values take the second path), otherwise
   with the extracted Z.add / Z.mul / Z.div / Z.modulo *)
let rec pos_bits = function M.XH -> 1 | M.XO p | M.XI p -> 1 + pos_bits p
let rec int64_of_pos = function
  | M.XH -> 1L
  | M.XO p -> Int64.shift_left (int64_of_pos p) 1
  | M.XI p -> Int64.logor (Int64.shift_left (int64_of_pos p) 1) 1L
let rec pos_of_int64 (n : int64) =
  if n = 1L then M.XH
  else if Int64.logand n 1L = 0L then M.XO (pos_of_int64 (Int64.shift_right_logical n 1))
  else M.XI (pos_of_int64 (Int64.shift_right_logical n 1))
let z_of_string_slow s =
  let neg = String.length s > 0 && s.[0] = '-' in
  let acc = ref M.Z0 in
  String.iteri (fun i c -> if not (i = 0 && neg) then begin
      if c < '0' || c > '9' then failwith ("bad integer " ^ s);
      acc := M.Z.add (M.Z.mul !acc ten) digit.(Char.code c - 48) end) s;
  if neg then M.Z.opp !acc else !acc
let z_of_string s =
  let n = String.length s in
  if n = 0 then failwith "empty integer"
  else if n <= 18 then begin
    match Int64.of_string_opt s with
    | Some 0L -> M.Z0
    | Some v when v > 0L -> M.Zpos (pos_of_int64 v)
    | Some v -> M.Zneg (pos_of_int64 (Int64.neg v))
    | None -> failwith ("bad integer " ^ s)
  end else begin
    (* up to 2^63-1 exactly *)
    match Int64.of_string_opt s with
    | Some v when v > 0L && Int64.to_string v = s -> M.Zpos (pos_of_int64 v)
    | _ -> z_of_string_slow s
  end
let rec int_of_pos = function M.XH -> 1 | M.XO p -> 2 * int_of_pos p | M.XI p -> 2 * int_of_pos p + 1
let int_of_z = function M.Z0 -> 0 | M.Zpos p -> int_of_pos p | M.Zneg p -> - (int_of_pos p)
let string_of_z_slow z =
  if z = M.Z0 then "0" else begin
    let neg = (match z with M.Zneg _ -> true | _ -> false) in
    let z = ref (if neg then M.Z.opp z else z) in
    let b = Buffer.create 20 in
    while !z <> M.Z0 do Buffer.add_char b (Char.chr (48 + int_of_z (M.Z.modulo !z ten))); z := M.Z.div !z ten done;
    let s = Buffer.contents b in
    let n = String.length s in
    (if neg then "-" else "") ^ String.init n (fun i -> s.[n - 1 - i]) end
let string_of_z z =
  match z with
  | M.Z0 -> "0"
  | M.Zpos p when pos_bits p <= 63 -> Int64.to_string (int64_of_pos p)
  | M.Zneg p when pos_bits p <= 63 -> "-" ^ Int64.to_string (int64_of_pos p)
  | _ -> string_of_z_slow z

(* ---------- state ---------- *)
let ops = ref M.list_queue
let q : M.q ref = ref (Obj.magic [])
let ts : M.xstate M.tsmap ref = ref (fun _ -> M.TFail (nat_of_int 99))
let reg : M.reg ref = ref []
let sts : M.xstate M.tsmap ref = ref (fun _ -> M.TFail (nat_of_int 99))
let spec_ok = ref true
let next_id = ref 0

let reset kind =
  ops := (if kind = "s" then M.sorted_queue else M.list_queue);
  q := !ops.M.q_empty; ts := (fun _ -> M.TFail (nat_of_int 99)); sts := !ts; reg := []; spec_ok := true; next_id := 0

let key name group = (cstring name, cstring group)
let keystr (n, g) = ostring n ^ "/" ^ ostring g
let b01 b = if b then "1" else "0"

let item s : (M.z, M.terr) M.sum =
  (* Ew: expiry reported with the sentinel wrapped (errors.Is holds): the model's expiry code 0 *)
  if s = "Ew" then M.Inr M.O
  else if String.length s > 0 && s.[0] = 'E' then M.Inr (nat_of_int (int_of_string (String.sub s 1 (String.length s - 1))))
  else M.Inl (z_of_string s)
let show_fire = function M.Inl p -> string_of_z p | M.Inr c -> "E" ^ string_of_int (int_of_nat c)

let registry () =
  let l = !ops.M.q_list !q in
  let items = List.map (fun e -> (keystr e.M.e_key, e)) l in
  let items = List.sort (fun (a, _) (b, _) -> compare a b) items in
  "{" ^ String.concat ";" (List.map (fun (k, e) ->
      k ^ ":" ^ b01 e.M.e_susp ^ ":" ^ string_of_z e.M.e_prio ^ ":" ^ string_of_int (int_of_nat e.M.e_tid)) items) ^ "}"

let spec_registry () =
  let items = List.map (fun (k, v) -> (keystr k, v)) !reg in
  let items = List.sort (fun (a, _) (b, _) -> compare a b) items in
  "{" ^ String.concat ";" (List.map (fun (k, v) ->
      k ^ ":" ^ b01 v.M.r_susp ^ ":" ^ string_of_z v.M.r_prio ^ ":" ^ string_of_int (int_of_nat v.M.r_tid)) items) ^ "}"

let show_sent = function
  | M.SIllegalArgument -> "EIA" | M.SJobAlreadyExists -> "EAE" | M.SJobNotFound -> "ENF"
  | M.SJobIsSuspended -> "ESU" | M.SJobIsActive -> "EAC" | M.SQueueEmpty -> "EQE"
  | M.STriggerExpired -> "ETX" | M.SOther -> "EOT"
let show_err = function
  | M.ESent s -> show_sent s
  | M.ETrig c -> let n = int_of_nat c in if n = 0 then "ETX" else "ETC" ^ string_of_int n
let show_entry k susp prio tid = "J:" ^ k ^ ":" ^ b01 susp ^ ":" ^ string_of_z prio ^ ":" ^ string_of_int (int_of_nat tid)
let show_keys l = "K:" ^ String.concat "," (List.sort compare (List.map keystr l))
let show_result = function
  | M.ROk -> "ok"
  | M.RErr e -> show_err e
  | M.RJob e -> show_entry (keystr e.M.e_key) e.M.e_susp e.M.e_prio e.M.e_tid
  | M.RKeys l -> show_keys l
let show_sresult = function
  | M.SOk -> "ok"
  | M.SErr e -> show_err e
  | M.SJob (k, v) -> show_entry (keystr k) v.M.r_susp v.M.r_prio v.M.r_tid
  | M.SKeys l -> show_keys l

(* events are newest first *)
let calls evs =
  let l = List.filter_map (function
      | M.EvTrig (_, t, prev, r, _) -> Some (string_of_int (int_of_nat t) ^ ":" ^ string_of_z prev ^ ":" ^ show_fire r)
      | _ -> None) (List.rev evs) in
  "[" ^ String.concat "," l ^ "]"
let misfire evs =
  match List.filter_map (function M.EvMisfire (_, _, p) -> Some ("M" ^ string_of_z p) | _ -> None) evs with
  | [] -> "-" | x :: _ -> x

let optkey name group = if name = "-nil-" then None else Some (key (if name = "-empty-" then "" else name) group)

let parse_api toks : M.apiop =
  match toks with
  | ["S"; "-jdnil-"; _; _; _; t] -> M.OpSchedule (None, (if t = "nil" then None else Some (nat_of_int (int_of_string t))))
  | ["S"; name; group; r; s; t] ->
    M.OpSchedule (Some { M.jd_key = optkey name group; M.jd_repl = (r = "1"); M.jd_susp = (s = "1") },
                  (if t = "nil" then None else Some (nat_of_int (int_of_string t))))
  | ["D"; name; group] -> M.OpDelete (optkey name group)
  | ["P"; name; group] -> M.OpPause (optkey name group)
  | ["R"; name; group] -> M.OpResume (optkey name group)
  | ["G"; name; group] -> M.OpGet (optkey name group)
  | ["C"] -> M.OpClear
  | ["K"] -> M.OpKeys
  | _ -> failwith ("bad api op: " ^ String.concat " " toks)

(* make the hinted key the first among the entries of minimal priority (list representations only:
   a permutation of the list is the same abstract queue) *)
let apply_hint name group =
  if name <> "-" then begin
    let k = key name group in
    let l : M.entry list = Obj.magic !q in
    match List.find_opt (fun e -> M.key_eqb e.M.e_key k) l with
    | None -> ()
    | Some e ->
      let minp = List.fold_left (fun m x -> if M.Z.leb x.M.e_prio m then x.M.e_prio else m) e.M.e_prio l in
      if M.Z.eqb e.M.e_prio minp then begin
        let rest = List.filter (fun x -> not (M.key_eqb x.M.e_key k)) l in
        (* for the sorted queue the entry must stay inside its run of equal priorities: put it before them *)
        let smaller = List.filter (fun x -> not (M.Z.leb minp x.M.e_prio)) rest in
        let others = List.filter (fun x -> M.Z.leb minp x.M.e_prio) rest in
        q := Obj.magic (smaller @ (e :: others))
      end
  end

(* returns (model output without registry, spec output without registry) *)
let exec toks : string * string =
  match toks with
  | ["reset"; kind] -> reset kind; ("ok", "-")
  | "T" :: tid :: spec ->
    let st = (match spec with
        | ["si"; i] -> M.TSimple (z_of_string i)
        | ["ro"; d; e] -> M.TOnce (z_of_string d, e = "1")
        | ["fl"; c] -> M.TFail (nat_of_int (int_of_string c))
        | ["sc"; l; d] -> M.TScript ((if l = "-" then [] else List.map item (String.split_on_char ',' l)), item d)
        | _ -> failwith "bad trigger spec") in
    let t = nat_of_int (int_of_string tid) in
    ts := M.upd !ts t st; sts := M.upd !sts t st; ("ok", "-")
  | (("A" | "AXP" | "AXR") as kind) :: now :: rest ->
    let op = parse_api rest in
    let nowz = z_of_string now in
    (* AXP / AXR: the same model function over a queue whose next Push / Remove fails (a transient queue failure);
       when the failure was hit, the error the call returns is the queue's (printed EQF) *)
    let fail_push = ref (kind = "AXP") and fail_remove = ref (kind = "AXR") in
    let o = !ops in
    let faulty = { o with
                   M.q_push = (fun e qq -> if !fail_push then (fail_push := false; None) else o.M.q_push e qq);
                   M.q_remove = (fun k qq -> if !fail_remove then (fail_remove := false; None) else o.M.q_remove k qq) } in
    let (((q', ts'), evs), res) = M.api faulty M.nft_exec nowz op !q !ts in
    q := q'; ts := ts';
    let hit = (kind = "AXP" && not !fail_push) || (kind = "AXR" && not !fail_remove) in
    if kind <> "A" then spec_ok := false;
    let spec_out =
      if !spec_ok then begin
        let ((r', sts'), sres) = M.spec_api M.nft_exec nowz op !reg !sts in
        reg := r'; sts := sts'; show_sresult sres
      end else "-" in
    ((if hit then "EQF" else show_result res) ^ " " ^ calls evs, spec_out)
  | [("F" | "FX") as kind; now; thr; hn; hg] ->
    apply_hint hn hg;
    spec_ok := false;
    let id = nat_of_int !next_id in
    incr next_id;
    (* FX: the same model function over a queue whose next Push fails (a transient queue failure) *)
    let fail_next = ref (kind = "FX") in
    let o = !ops in
    let faulty = { o with M.q_push = (fun e qq -> if !fail_next then (fail_next := false; None) else o.M.q_push e qq) } in
    let ((((q', ts'), evs), ret), rst) = M.fetch faulty M.nft_exec (z_of_string thr) (z_of_string now) id M.O !q !ts in
    q := q'; ts := ts';
    let r = (match ret with
        | None -> "none"
        | Some (job, valid) -> keystr job.M.e_key ^ ":" ^ string_of_z job.M.e_prio ^ ":" ^ b01 valid) in
    (r ^ " " ^ calls evs ^ " " ^ misfire evs ^ " r" ^ b01 rst, "-")
  | "X" :: rest ->
    spec_ok := false;
    let m = (match rest with
        | ["push"; name; group; prio; s; r; t] ->
          M.FPush { M.e_key = key name group; M.e_prio = z_of_string prio; M.e_susp = (s = "1"); M.e_repl = (r = "1");
                    M.e_tid = nat_of_int (int_of_string t) }
        | ["remove"; name; group] -> M.FRemove (key name group)
        | ["clear"] -> M.FClear
        | _ -> failwith "bad foreign op") in
    q := M.foreign !ops m !q; ("ok", "-")
  | _ -> failwith ("bad command: " ^ String.concat " " toks)

let tokens s = List.filter (fun t -> t <> "") (String.split_on_char ' ' s)

let split_on_string sep s =
  let n = String.length sep and l = String.length s in
  let rec go start i acc =
    if i + n > l then List.rev (String.sub s start (l - start) :: acc)
    else if String.sub s i n = sep then go (i + n) (i + n) (String.sub s start (i - start) :: acc)
    else go start (i + 1) acc in
  go 0 0 []

let () =
  let ic = if Array.length Sys.argv > 1 then open_in Sys.argv.(1) else stdin in
  let out = Buffer.create (1 lsl 16) in
  let flush_out () = print_string (Buffer.contents out); Buffer.clear out in
  (try while true do
      let line = input_line ic in
      (try
         if String.length line > 2 && line.[0] = 'Q' && line.[1] = ' ' then begin
           match split_on_string " ;; " line with
           | hd :: cmds ->
             (match tokens hd with ["Q"; kind] -> reset kind | _ -> failwith "bad Q line");
             let outs = List.map (fun c -> exec (tokens c)) cmds in
             Buffer.add_string out (String.concat " ;; " (List.map fst outs));
             Buffer.add_string out (" | " ^ registry ());
             Buffer.add_char out '\t';
             Buffer.add_string out (String.concat " ;; " (List.map snd outs));
             Buffer.add_string out (" | " ^ (if !spec_ok then spec_registry () else "-"));
             Buffer.add_char out '\n'
           | [] -> failwith "empty Q line"
         end else begin
           let toks = tokens line in
           let (m, s) = exec toks in
           (match toks with
            | ("A" | "AXP" | "AXR" | "F" | "FX" | "X") :: _ ->
              Buffer.add_string out (m ^ " | " ^ registry ()); Buffer.add_char out '\t';
              Buffer.add_string out (s ^ " | " ^ (if !spec_ok then spec_registry () else "-"))
            | _ -> Buffer.add_string out m; Buffer.add_char out '\t'; Buffer.add_string out s);
           Buffer.add_char out '\n'
         end
       with Failure msg -> Buffer.add_string out ("ERROR " ^ msg ^ "\t-\n"));
      if Buffer.length out > (1 lsl 16) then flush_out ()
    done with End_of_file -> ());
  flush_out ()
