(* Driver for the extracted cron model (Cronm): reads one case per line, prints one result per line.
   Numbers cross the boundary as decimal text; conversion to the extracted binary Z goes through
   Int64 bit by bit (every value here is below 2^63 in absolute value). *)
open Cronm

let rec pos_of_int64 (n : int64) : positive =
  if Int64.equal n 1L then XH
  else if Int64.equal (Int64.logand n 1L) 0L then XO (pos_of_int64 (Int64.shift_right_logical n 1))
  else XI (pos_of_int64 (Int64.shift_right_logical n 1))

let z_of_int64 (n : int64) : z =
  if Int64.equal n 0L then Z0
  else if Int64.compare n 0L > 0 then Zpos (pos_of_int64 n)
  else Zneg (pos_of_int64 (Int64.neg n))

let rec int64_of_pos = function
  | XH -> 1L
  | XO p -> Int64.shift_left (int64_of_pos p) 1
  | XI p -> Int64.logor (Int64.shift_left (int64_of_pos p) 1) 1L

let int64_of_z = function
  | Z0 -> 0L
  | Zpos p -> int64_of_pos p
  | Zneg p -> Int64.neg (int64_of_pos p)

let z_of_string s = z_of_int64 (Int64.of_string s)
let string_of_z z = Int64.to_string (int64_of_z z)

let zlist_of_string s =
  if s = "-" then [] else List.map z_of_string (String.split_on_char ',' s)

let fields_of toks =
  match toks with
  | [sec; mi; hour; dom; domn; mon; dow; down; year] ->
      { fl_sec = zlist_of_string sec; fl_min = zlist_of_string mi; fl_hour = zlist_of_string hour;
        fl_dom = zlist_of_string dom; fl_dom_n = z_of_string domn; fl_mon = zlist_of_string mon;
        fl_dow = zlist_of_string dow; fl_dow_n = z_of_string down; fl_year = zlist_of_string year }
  | _ -> failwith "fields: expected 9 tokens"

let zones : (string, zone) Hashtbl.t = Hashtbl.create 16

let rec pairs = function
  | [] -> []
  | a :: b :: r -> (z_of_string a, z_of_string b) :: pairs r
  | _ -> failwith "zone: odd number of transition tokens"

let string_of_res = function
  | Fire ns -> "F" ^ string_of_z ns
  | Expired -> "E"
  | ModelError -> "M"

let string_of_civil (((((y, m), d), h), mi), s) =
  String.concat "-" (List.map string_of_z [y; m; d; h; mi; s])

let civil_of_strings = function
  | [y; m; d; h; mi; s] -> (((((z_of_string y, z_of_string m), z_of_string d), z_of_string h), z_of_string mi), z_of_string s)
  | _ -> failwith "civil: expected 6 tokens"

let nanos = z_of_int64 1_000_000_000L
let max_nanos = z_of_int64 Int64.max_int

let rec take n l = if n = 0 then [] else match l with [] -> [] | x :: r -> x :: take (n - 1) r
let rec drop n l = if n = 0 then l else match l with [] -> [] | _ :: r -> drop (n - 1) r

let bool01 b = if b then "1" else "0"

let handle line =
  match String.split_on_char ' ' (String.trim line) with
  | "Z" :: id :: off0 :: rest ->
      Hashtbl.replace zones id { z_off0 = z_of_string off0; z_trans = pairs rest };
      let z = Hashtbl.find zones id in
      Printf.printf "Z %s wf=%s\n" id (bool01 (wf_zone z))
  (* C id zone prev gores f1..f9 : model result, oracle `matches` on the implementation's result,
     reference-search result (zones without transitions only) *)
  | "C" :: id :: zid :: prev :: gores :: ftoks ->
      let f = fields_of ftoks in
      let z = Hashtbl.find zones zid in
      let prevz = z_of_string prev in
      let model = next_fire_time_zone f z prevz in
      let mtch =
        if String.length gores > 0 && gores.[0] = 'F' then begin
          let ns = z_of_string (String.sub gores 1 (String.length gores - 1)) in
          let whole = Z.eqb (Z.modulo ns nanos) Z0 in
          let t = Z.div ns nanos in
          match civil_from_unix (offset_at z t) t with
          | Some c -> bool01 (whole && matches f c && Z.ltb prevz ns)
          | None -> "0"
        end else "-" in
      let reff =
        if z.z_trans = [] then begin
          let off = z.z_off0 in
          let prev_s = Z.div prevz nanos in
          match civil_from_unix off prev_s with
          | None -> "M"
          | Some c0 ->
              (match ref_next f c0 with
               | None -> "E"
               | Some c ->
                   let t = Z.sub (civil_to_unix c) off in
                   let ns = Z.mul t nanos in
                   if Z.ltb max_nanos ns then "E" else "F" ^ string_of_z ns)
        end else "-" in
      Printf.printf "C %s %s %s %s wf=%s\n" id (string_of_res model) mtch reff (bool01 (wf_fields f))
  (* W id y m d h mi s f1..f9 : one run of the state machine on a wall clock reading, and the reference *)
  | "W" :: id :: rest ->
      let c = civil_of_strings (take 6 rest) in
      let f = fields_of (drop 6 rest) in
      let m = (match wall_next f c with WNext c' -> string_of_civil c' | WExpired -> "E" | WError -> "M") in
      let r = (match ref_next f c with Some c' -> string_of_civil c' | None -> "E") in
      Printf.printf "W %s %s %s\n" id m r
  (* D id y m kind... : calendar helpers: month_len, weekday of the 1st, closest weekday for d *)
  | ["D"; id; y; m; d] ->
      let y = z_of_string y and m = z_of_string m and d = z_of_string d in
      Printf.printf "D %s %s %s %s\n" id (string_of_z (month_len y m)) (string_of_z (weekday_of y m d))
        (string_of_z (closest_weekday y m d))
  (* N id y m f1..f9 : dayN of the trigger's day rule in month (y, m) *)
  | "N" :: id :: y :: m :: ftoks ->
      let f = fields_of ftoks in
      let c = mk_csm f in
      let (day, ok) = dn_dayN c.f_day (z_of_string y) (z_of_string m) in
      Printf.printf "N %s %s %s\n" id (string_of_z day) (bool01 ok)
  (* T id zone u prev_s : date_in_zone and first_after *)
  | ["T"; id; zid; u; prev_s] ->
      let z = Hashtbl.find zones zid in
      let u = z_of_string u and p = z_of_string prev_s in
      Printf.printf "T %s %s %s\n" id (string_of_z (date_in_zone z u))
        (match first_after z u p with Some t -> string_of_z t | None -> "-")
  (* O id zone t : offset and wall seconds at instant t *)
  | ["O"; id; zid; t] ->
      let z = Hashtbl.find zones zid in
      let t = z_of_string t in
      Printf.printf "O %s %s %s\n" id (string_of_z (offset_at z t)) (string_of_z (wall_secs z t))
  | [""] -> ()
  | _ -> Printf.printf "? %s\n" line

let () =
  try
    while true do
      handle (input_line stdin)
    done
  with End_of_file -> ()
