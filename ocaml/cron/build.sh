#!/bin/sh
# usage: build.sh <output binary>; compiles the extracted model (gen/cronm.ml) and driver.ml
set -e
cd "$(dirname "$0")"
mkdir -p _build
cp gen/cronm.ml gen/cronm.mli driver.ml _build/
cd _build
ocamlfind ocamlopt -O3 -w -a -package str cronm.mli cronm.ml driver.ml -o "$1" 2>/dev/null || ocamlfind ocamlopt -w -a cronm.mli cronm.ml driver.ml -o "$1"
