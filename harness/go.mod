module verifharness

go 1.21

require github.com/reugn/go-quartz v0.0.0

replace github.com/reugn/go-quartz => /repo
