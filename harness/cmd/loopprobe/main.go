// loopprobe: exploratory probe (not used by any check) for an interleaving outside the C05 model:
// after Stop(); Start() the execution loop of the previous run can still be alive (it was inside a
// blocking job or a slow queue call) and, on reaching its select, may consume the interrupt token that
// an API call sent for the new run.  Usage: loopprobe <trials>
package main

import (
	"context"
	"fmt"
	"os"
	"strconv"
	"sync"
	"sync/atomic"
	"time"

	"github.com/reugn/go-quartz/quartz"
)

type arrival struct {
	name string
	rel  chan struct{}
}

type gq struct {
	quartz.JobQueue
	arrive chan arrival
	gated  atomic.Bool
}

// every stalled call has its own release channel, so that two loops can be held independently
func (q *gq) gate(n string) {
	if q.gated.Load() {
		a := arrival{n, make(chan struct{})}
		q.arrive <- a
		<-a.rel
	}
}
func (q *gq) Size() (int, error) { q.gate("Size"); return q.JobQueue.Size() }
func (q *gq) Head() (quartz.ScheduledJob, error) {
	q.gate("Head")
	j, e := q.JobQueue.Head()
	q.gate("HeadDone")
	return j, e
}
func (q *gq) Pop() (quartz.ScheduledJob, error) { q.gate("Pop"); return q.JobQueue.Pop() }

type trig struct {
	mu   sync.Mutex
	offs []time.Duration
}

func (t *trig) NextFireTime(int64) (int64, error) {
	t.mu.Lock()
	defer t.mu.Unlock()
	if len(t.offs) == 0 {
		return 0, quartz.ErrTriggerExpired
	}
	o := t.offs[0]
	t.offs = t.offs[1:]
	return quartz.NowNano() + int64(o), nil
}
func (t *trig) Description() string { return "t" }

type job struct {
	name string
	f    func(context.Context)
}

func (j *job) Execute(ctx context.Context) error { j.f(ctx); return nil }
func (j *job) Description() string               { return j.name }

func next(q *gq, d time.Duration) arrival {
	select {
	case n := <-q.arrive:
		return n
	case <-time.After(d):
		return arrival{"BLOCKED", nil}
	}
}

func trial() (executed bool, byStale bool, trace []string) {
	q := &gq{JobQueue: quartz.NewJobQueue(), arrive: make(chan arrival)}
	q.gated.Store(true)
	s, _ := quartz.NewStdScheduler(quartz.WithQueue(q, &sync.Mutex{}), quartz.WithBlockingExecution(), quartz.WithOutdatedThreshold(time.Hour))
	step := func(want string) bool {
		got := next(q, 3*time.Second)
		trace = append(trace, got.name)
		if got.name != want {
			return false
		}
		close(got.rel)
		return true
	}
	j1in, j1out := make(chan struct{}), make(chan struct{})
	var xRan atomic.Int32
	var xCtxDone atomic.Bool
	s.ScheduleJob(quartz.NewJobDetail(&job{"j1", func(context.Context) { close(j1in); <-j1out }}, quartz.NewJobKey("j1")), &trig{offs: []time.Duration{-time.Millisecond, 2 * time.Hour}})
	s.ScheduleJob(quartz.NewJobDetail(&job{"far", func(context.Context) {}}, quartz.NewJobKey("far")), &trig{offs: []time.Duration{time.Hour, 2 * time.Hour}})
	s.Start(context.Background())
	for _, w := range []string{"Size", "Head", "HeadDone", "Pop"} {
		if !step(w) {
			return
		}
	}
	<-j1in // loop 1 is inside the blocking job
	s.Stop()
	s.Start(context.Background())
	// loop 2: stall it after it has read the head
	for _, w := range []string{"Size", "Head"} {
		if !step(w) {
			return
		}
	}
	loop2 := next(q, 3*time.Second)
	if loop2.name != "HeadDone" {
		trace = append(trace, loop2.name)
		return
	}
	trace = append(trace, "HeadDone(loop2 stalled)")
	// a due job arrives for the new run: the token goes into the buffer
	s.ScheduleJob(quartz.NewJobDetail(&job{"x", func(ctx context.Context) { xRan.Add(1); xCtxDone.Store(ctx.Err() != nil) }}, quartz.NewJobKey("x")),
		&trig{offs: []time.Duration{-time.Millisecond, 3 * time.Hour}})
	// the job of run 1 returns; its loop goes round once more before it sees ctx.Done
	close(j1out)
	// let loop 1 run freely (its gate arrivals are released as they come) while loop 2 stays stalled
	stalled := 1 // loop 2 occupies one pending release
	deadline := time.Now().Add(400 * time.Millisecond)
	for time.Now().Before(deadline) {
		select {
		case n := <-q.arrive:
			trace = append(trace, "old:"+n.name)
			close(n.rel)
		case <-time.After(50 * time.Millisecond):
		}
	}
	_ = stalled
	// now let loop 2 continue
	trace = append(trace, "release loop2")
	close(loop2.rel)
	q.gated.Store(false)
	end := time.Now().Add(1500 * time.Millisecond)
	for time.Now().Before(end) && xRan.Load() == 0 {
		select {
		case a := <-q.arrive:
			close(a.rel)
		case <-time.After(10 * time.Millisecond):
		}
	}
	executed = xRan.Load() > 0
	byStale = executed && xCtxDone.Load()
	s.Stop()
	go func() {
		for {
			select {
			case a := <-q.arrive:
				close(a.rel)
			case <-time.After(200 * time.Millisecond):
				return
			}
		}
	}()
	ctx, c := context.WithTimeout(context.Background(), 2*time.Second)
	s.Wait(ctx)
	c()
	return
}

func main() {
	n := 20
	if len(os.Args) > 1 {
		n, _ = strconv.Atoi(os.Args[1])
	}
	lost, stale, ok := 0, 0, 0
	var sample []string
	for i := 0; i < n; i++ {
		ex, st, tr := trial()
		switch {
		case !ex:
			lost++
			if sample == nil {
				sample = tr
			}
		case st:
			stale++
		default:
			ok++
			if i == 0 {
				fmt.Println("trace of trial 0:", tr)
			}
		}
	}
	fmt.Printf("trials=%d due job executed by the new run=%d, executed by the stale loop with a cancelled context=%d, NOT executed within 1.5 s (lost wake-up)=%d\n", n, ok, stale, lost)
	if sample != nil {
		fmt.Println("sample trace of a lost wake-up:", sample)
	}
}
