package main

import (
	"context"
	"errors"
	"fmt"
	"net"
	"net/http"
	"net/http/httptest"
	"os"
	"runtime"
	"strconv"
	"strings"
	"sync"
	"sync/atomic"
	"time"

	"github.com/reugn/go-quartz/job"
)

const concG = 8

// idErr is an error that carries the id of the execution that produced it.
type idErr struct{ id int }

func (e idErr) Error() string { return "exec " + strconv.Itoa(e.id) }

// conc: rounds of 8 goroutines executing ONE job object at the same time.  Every outcome encodes
// the id of its execution in every field, so a tuple assembled from two executions is detectable.
// The tuple is read only at quiescence (after all 8 returned): each getter takes the lock
// separately, so reading while executions are in flight could legitimately combine two complete
// tuples; during the run only per-getter facts are recorded (values seen are well formed).
// Also checks: each Execute returns its own execution's error; callbacks = executions.
func conc(kind string, rounds int) {
	switch kind {
	case "func":
		concFunc(rounds)
	case "shell":
		concShell(rounds)
	case "curl":
		concCurl(rounds)
	default:
		usage()
	}
}

func barrierRun(rounds int, body func(round, g int), after func(round int)) {
	for r := 0; r < rounds; r++ {
		var start, wg sync.WaitGroup
		start.Add(1)
		for g := 0; g < concG; g++ {
			wg.Add(1)
			go func(g int) {
				defer wg.Done()
				start.Wait()
				body(r, g)
			}(g)
		}
		start.Done()
		wg.Wait()
		after(r)
	}
}

func concFunc(rounds int) {
	var next atomic.Int64
	// the function draws a fresh id; odd ids fail.  result = id (zeroed by the job on error)
	fj := job.NewFunctionJob(func(ctx context.Context) (int, error) {
		id := int(next.Add(1))
		if v, ok := ctx.Value(ctxKey{}).(*int); ok {
			*v = id
		}
		if id%3 == 0 {
			runtime.Gosched()
		}
		if id%2 == 1 {
			return id, idErr{id}
		}
		return id, nil
	})
	var mixed, retWrong, badRead int64
	var firstMixed map[string]any
	stop := make(chan struct{})
	var rd sync.WaitGroup
	rd.Add(1)
	go func() { // per-getter facts while executions are in flight
		defer rd.Done()
		for {
			select {
			case <-stop:
				return
			default:
			}
			s := int(fj.JobStatus())
			if s < 0 || s > 2 {
				atomic.AddInt64(&badRead, 1)
			}
			if r := fj.Result(); r < 0 || r%2 == 1 {
				atomic.AddInt64(&badRead, 1) // a stored result is 0 or an even id
			}
			if e := fj.Error(); e != nil {
				var ie idErr
				if !errors.As(e, &ie) || ie.id%2 != 1 {
					atomic.AddInt64(&badRead, 1)
				}
			}
			runtime.Gosched()
		}
	}()
	barrierRun(rounds, func(r, g int) {
		var id int
		err := fj.Execute(context.WithValue(context.Background(), ctxKey{}, &id))
		var ie idErr
		if id%2 == 1 {
			if !errors.As(err, &ie) || ie.id != id {
				atomic.AddInt64(&retWrong, 1)
			}
		} else if err != nil {
			atomic.AddInt64(&retWrong, 1)
		}
	}, func(r int) {
		st, res, e := int(fj.JobStatus()), fj.Result(), fj.Error()
		lo, hi := r*concG+1, (r+1)*concG
		ok := false
		var ie idErr
		switch {
		case st == 1: // OK: err nil, result = an even id of this round
			ok = e == nil && res%2 == 0 && res >= lo && res <= hi
		case st == 2: // Failure: result zeroed, err carries an odd id of this round
			ok = res == 0 && errors.As(e, &ie) && ie.id%2 == 1 && ie.id >= lo && ie.id <= hi
		}
		if !ok {
			mixed++
			if firstMixed == nil {
				firstMixed = map[string]any{"round": r, "status": st, "result": res, "err": fmt.Sprint(e), "ids": []int{lo, hi}}
			}
		}
	})
	close(stop)
	rd.Wait()
	emit(map[string]any{"kind": "conc", "job": "func", "rounds": rounds, "executions": rounds * concG, "mixed": mixed,
		"first_mixed": firstMixed, "ret_wrong": retWrong, "bad_reads": badRead})
}

func concShell(rounds int) {
	var cbCalls, cbBad int64
	// $$ is the pid of the shell: distinct among the 8 shells alive at the same time
	cmd := `id=$$; echo $id; echo $id >&2; exit $((id % 256))`
	sh := job.NewShellJobWithCallback(cmd, func(_ context.Context, s *job.ShellJob) {
		atomic.AddInt64(&cbCalls, 1)
		if st := int(s.JobStatus()); st != 1 && st != 2 { // per-getter fact only
			atomic.AddInt64(&cbBad, 1)
		}
	})
	var mixed, retWrong int64
	var firstMixed map[string]any
	barrierRun(rounds, func(r, g int) {
		err := sh.Execute(context.Background())
		// own outcome: err nil iff own exit code 0; cannot read own pid, so only the ExitError/None shape
		if err != nil && errClass(err) != "other" {
			atomic.AddInt64(&retWrong, 1)
		}
	}, func(r int) {
		out, eout, ex, st := strings.TrimSpace(sh.Stdout()), strings.TrimSpace(sh.Stderr()), sh.ExitCode(), int(sh.JobStatus())
		id, err := strconv.Atoi(out)
		ok := err == nil && out == eout && ex == id%256 && ((ex == 0 && st == 1) || (ex != 0 && st == 2))
		if !ok {
			mixed++
			if firstMixed == nil {
				firstMixed = map[string]any{"round": r, "stdout": out, "stderr": eout, "exit": ex, "status": st}
			}
		}
	})
	emit(map[string]any{"kind": "conc", "job": "shell", "rounds": rounds, "executions": rounds * concG, "mixed": mixed,
		"first_mixed": firstMixed, "ret_wrong": retWrong, "cb_calls": cbCalls, "cb_bad": cbBad})
}

func concCurl(rounds int) {
	var cbCalls int64
	var n atomic.Int64
	s := &scripted{}
	s.next = func(_ int, req *http.Request) (*http.Response, error) {
		id := int(n.Add(1))
		if id%5 == 0 {
			return nil, idErr{id}
		}
		code := 200 + id%2*300 // even: 200 (OK), odd: 500 (Failure)
		if id%7 == 0 {
			runtime.Gosched()
		}
		return s.response(code, true, strconv.Itoa(id)), nil
	}
	req, _ := http.NewRequest(http.MethodGet, "http://synthetic.invalid/", nil)
	cu := job.NewCurlJobWithOptions(req, job.CurlJobOptions{HTTPClient: s, Callback: func(context.Context, *job.CurlJob) {
		atomic.AddInt64(&cbCalls, 1)
	}})
	var mixed int64
	var firstMixed map[string]any
	maxOpen := int64(0)
	barrierRun(rounds, func(r, g int) { _ = cu.Execute(context.Background()) }, func(r int) {
		code, st := heldCode(cu), int(cu.JobStatus())
		ok := (code == 200 && st == 1) || (code == 500 && st == 2) || (code == -1 && st == 2)
		if !ok {
			mixed++
			if firstMixed == nil {
				firstMixed = map[string]any{"round": r, "code": code, "status": st}
			}
		}
		if o := s.bodies.Load() - s.closed.Load(); o > maxOpen {
			maxOpen = o
		}
	})
	emit(map[string]any{"kind": "conc", "job": "curl", "rounds": rounds, "executions": rounds * concG, "mixed": mixed,
		"first_mixed": firstMixed, "cb_calls": cbCalls, "max_open_bodies_at_quiescence": maxOpen,
		"bodies": s.bodies.Load(), "closed": s.closed.Load()})
}

// ---------------------------------------------------------------------------- leaks

func fdCount() int {
	ents, err := os.ReadDir("/proc/self/fd")
	if err != nil {
		return -1
	}
	return len(ents)
}

type sample struct {
	Goroutines int   `json:"goroutines"`
	Fds        int   `json:"fds"`
	OpenConns  int64 `json:"open_conns"`
}

// settle polls until the numbers are within the bounds or the patience is used up: the
// conclusion "leak" is only drawn after a long quiet period.
func settle(base sample, open func() int64, maxG, maxFd int, maxOpen int64) sample {
	dl := time.Now().Add(12 * time.Second)
	var s sample
	for {
		runtime.GC()
		s = sample{runtime.NumGoroutine(), fdCount(), open()}
		if s.Goroutines-base.Goroutines <= maxG && s.Fds-base.Fds <= maxFd && s.OpenConns <= maxOpen {
			return s
		}
		if time.Now().After(dl) {
			return s
		}
		time.Sleep(50 * time.Millisecond)
	}
}

func leak(n int) {
	const maxG, maxFd, maxOpen = 12, 10, 3
	// CurlJob against a real local server, default-style client with keep-alive, body left unread
	var opened, closed, accepted atomic.Int64
	srv := httptest.NewUnstartedServer(http.HandlerFunc(func(w http.ResponseWriter, r *http.Request) {
		_, _ = w.Write([]byte(strings.Repeat("payload ", 64)))
	}))
	srv.Config.ConnState = func(_ net.Conn, st http.ConnState) {
		switch st {
		case http.StateNew:
			opened.Add(1)
			accepted.Add(1)
		case http.StateClosed, http.StateHijacked:
			closed.Add(1)
		}
	}
	srv.Start()
	open := func() int64 { return opened.Load() - closed.Load() }
	zero := func() int64 { return 0 }
	tr := &http.Transport{}
	req, _ := http.NewRequest(http.MethodGet, srv.URL, nil)
	cu := job.NewCurlJobWithOptions(req, job.CurlJobOptions{HTTPClient: &http.Client{Transport: tr}})
	_ = cu.Execute(context.Background()) // warm up: the first execution may create long-lived helpers
	base := settle(sample{1 << 30, 1 << 30, 0}, open, 0, 0, 1<<30)
	base = sample{runtime.NumGoroutine(), fdCount(), open()}
	for i := 0; i < n; i++ {
		_ = cu.Execute(context.Background())
	}
	after := settle(base, open, maxG, maxFd, maxOpen)
	emit(map[string]any{"kind": "leak", "job": "curl", "executions": n, "before": base, "after": after, "accepted": accepted.Load(),
		"bounds": map[string]int{"goroutines": maxG, "fds": maxFd, "open_conns": maxOpen}, "status": int(cu.JobStatus())})
	tr.CloseIdleConnections()
	srv.Close()

	// ShellJob
	sh := job.NewShellJob("echo x; echo y >&2")
	_ = sh.Execute(context.Background())
	base = sample{runtime.NumGoroutine(), fdCount(), 0}
	for i := 0; i < n; i++ {
		_ = sh.Execute(context.Background())
	}
	after = settle(base, zero, maxG, maxFd, 0)
	emit(map[string]any{"kind": "leak", "job": "shell", "executions": n, "before": base, "after": after,
		"children": childCount(), "bounds": map[string]int{"goroutines": maxG, "fds": maxFd}, "status": int(sh.JobStatus())})

	// FunctionJob
	fj := job.NewFunctionJob(func(context.Context) (int, error) { return 1, nil })
	_ = fj.Execute(context.Background())
	base = sample{runtime.NumGoroutine(), fdCount(), 0}
	for i := 0; i < n; i++ {
		_ = fj.Execute(context.Background())
	}
	after = settle(base, zero, maxG, maxFd, 0)
	emit(map[string]any{"kind": "leak", "job": "func", "executions": n, "before": base, "after": after,
		"bounds": map[string]int{"goroutines": maxG, "fds": maxFd}, "status": int(fj.JobStatus())})
}

// childCount: live or zombie children of this process (from /proc/self/task/*/children).
func childCount() int {
	tasks, err := os.ReadDir("/proc/self/task")
	if err != nil {
		return -1
	}
	n := 0
	for _, t := range tasks {
		b, err := os.ReadFile("/proc/self/task/" + t.Name() + "/children")
		if err != nil {
			continue
		}
		n += len(strings.Fields(string(b)))
	}
	return n
}
