package main

import (
	"bytes"
	"context"
	"errors"
	"fmt"
	"io"
	"net"
	"net/http"
	"net/http/httptest"
	"os"
	"os/exec"
	"path/filepath"
	"strconv"
	"strings"
	"sync"
	"sync/atomic"
	"time"

	"github.com/reugn/go-quartz/job"
)

// ---------------------------------------------------------------------------- CurlJob

// trackBody counts Close calls so that unclosed bodies can be counted.
type trackBody struct {
	io.Reader
	closed *atomic.Int64
	once   sync.Once
}

func (b *trackBody) Close() error { b.once.Do(func() { b.closed.Add(1) }); return nil }

// scripted is an HTTPHandler (the job's public client interface) that answers from a script.
type scripted struct {
	mu     sync.Mutex
	next   func(n int, req *http.Request) (*http.Response, error)
	n      int
	bodies atomic.Int64 // bodies handed out
	closed atomic.Int64 // bodies closed
	sawCtx []context.Context
}

func (s *scripted) Do(req *http.Request) (*http.Response, error) {
	s.mu.Lock()
	n := s.n
	s.n++
	s.sawCtx = append(s.sawCtx, req.Context())
	s.mu.Unlock()
	return s.next(n, req)
}

func (s *scripted) response(code int, body bool, hdr string) *http.Response {
	r := &http.Response{StatusCode: code, Status: fmt.Sprintf("%d X", code), Proto: "HTTP/1.1", ProtoMajor: 1, ProtoMinor: 1,
		Header: http.Header{"X-Id": []string{hdr}}}
	if body {
		s.bodies.Add(1)
		r.Body = &trackBody{Reader: strings.NewReader("body-" + hdr), closed: &s.closed}
	}
	return r
}

type curlObs struct {
	Kind      string `json:"kind"`
	Variant   string `json:"variant"`
	Want      int    `json:"want"`      // code the server / script was told to send (-1: transport error)
	Body      bool   `json:"body"`      // response carries a body
	Callback  bool   `json:"callback"`  // job has a callback
	ErrNil    bool   `json:"err_nil"`   // Execute returned nil
	ErrClass  string `json:"err_class"` // "", canceled, deadline, refused, scripted, other
	Status    int    `json:"status"`    // JobStatus after Execute
	Code      int    `json:"code"`      // status code of the held response (-1: response is nil)
	CbCalls   int64  `json:"cb_calls"`  // callbacks during this execution
	CbStatus  int    `json:"cb_status"` // JobStatus seen by the callback (-1 none)
	CbCtxSame bool   `json:"cb_ctx_same"`
	Note      string `json:"note,omitempty"`
}

var errScripted = errors.New("scripted transport error")

func errClass(err error) string {
	var ne net.Error
	switch {
	case err == nil:
		return ""
	case errors.Is(err, context.Canceled):
		return "canceled"
	case errors.Is(err, context.DeadlineExceeded) || (errors.As(err, &ne) && ne.Timeout()):
		return "deadline"
	case errors.Is(err, errScripted):
		return "scripted"
	case strings.Contains(err.Error(), "refused"):
		return "refused"
	}
	return "other"
}

// heldCode reads the status code of the response the job holds, through DumpResponse.
func heldCode(cu *job.CurlJob) int {
	b, err := cu.DumpResponse(false)
	if err != nil {
		return -1
	}
	f := strings.Fields(string(b))
	if len(f) < 2 {
		return -2
	}
	c, err := strconv.Atoi(f[1])
	if err != nil {
		return -2
	}
	return c
}

type cbProbe struct {
	calls  atomic.Int64
	status atomic.Int64
	ctxOK  atomic.Bool
	want   atomic.Value // context expected
}

func (p *cbProbe) fn(ctx context.Context, cu *job.CurlJob) {
	p.calls.Add(1)
	p.status.Store(int64(cu.JobStatus()))
	if w, ok := p.want.Load().(ctxBox); ok {
		p.ctxOK.Store(w.ctx == ctx)
	}
}

type ctxBox struct{ ctx context.Context }

func newCurl(req *http.Request, h job.HTTPHandler, cb bool) (*job.CurlJob, *cbProbe) {
	p := &cbProbe{}
	p.status.Store(-1)
	opts := job.CurlJobOptions{HTTPClient: h}
	if cb {
		opts.Callback = p.fn
	}
	return job.NewCurlJobWithOptions(req, opts), p
}

func runCurl(cu *job.CurlJob, p *cbProbe, o *curlObs) {
	ctx, cancel := context.WithCancel(context.Background())
	defer cancel()
	p.want.Store(ctxBox{ctx})
	before := p.calls.Load()
	p.status.Store(-1)
	err := cu.Execute(ctx)
	o.ErrNil, o.ErrClass = err == nil, errClass(err)
	o.Status = int(cu.JobStatus())
	o.Code = heldCode(cu)
	o.CbCalls = p.calls.Load() - before
	o.CbStatus = int(p.status.Load())
	o.CbCtxSame = p.ctxOK.Load()
}

// httpSynthetic: ONE job object per (body, callback) variant; the scripted client returns the codes
// 90..610 in order (so every boundary is crossed on the same object and a stale status would show),
// then a shuffled order with transport errors in between.  Counts unclosed bodies at the end.
func httpSynthetic() {
	for _, body := range []bool{false, true} {
		for _, cb := range []bool{false, true} {
			var script []int
			for c := 90; c <= 610; c++ {
				script = append(script, c)
			}
			// boundary ping-pong and transport errors (-1) in between
			script = append(script, 200, 199, 200, 399, 400, 399, -1, 200, -1, 500, 200, 0, 200, 999, -1)
			s := &scripted{}
			s.next = func(n int, req *http.Request) (*http.Response, error) {
				c := script[n]
				if c < 0 {
					return nil, errScripted
				}
				return s.response(c, body, strconv.Itoa(n)), nil
			}
			req, _ := http.NewRequest(http.MethodGet, "http://synthetic.invalid/", nil)
			cu, p := newCurl(req, s, cb)
			emit(map[string]any{"kind": "curl-initial", "variant": "synthetic", "status": int(cu.JobStatus()), "code": heldCode(cu)})
			for _, c := range script {
				o := &curlObs{Kind: "curl", Variant: "synthetic", Want: c, Body: body, Callback: cb}
				runCurl(cu, p, o)
				emit(o)
			}
			emit(map[string]any{"kind": "curl-bodies", "variant": "synthetic", "body": body, "callback": cb,
				"handed_out": s.bodies.Load(), "closed": s.closed.Load(), "executions": len(script)})
		}
	}
}

func codeServer() *httptest.Server {
	return httptest.NewServer(http.HandlerFunc(func(w http.ResponseWriter, r *http.Request) {
		code, _ := strconv.Atoi(r.Header.Get("X-Want"))
		if r.URL.Query().Get("seq") != "" {
			code, _ = strconv.Atoi(r.URL.Query().Get("seq"))
		}
		w.Header().Set("X-Id", r.Header.Get("X-Id"))
		w.WriteHeader(code)
		if r.URL.Query().Get("body") == "1" && code >= 200 && code != 204 && code != 304 {
			_, _ = io.WriteString(w, "hello from the test server\n")
		}
	}))
}

// hdrClient is an HTTPHandler that stamps the wanted code on the (fixed) request of the job and
// forwards to a real http.Client: the bytes go through a real connection to the local server.
type hdrClient struct {
	c    *http.Client
	want atomic.Int64
}

func (h *hdrClient) Do(req *http.Request) (*http.Response, error) {
	req.Header.Set("X-Want", strconv.FormatInt(h.want.Load(), 10))
	return h.c.Do(req)
}

// httpServer: codes 100..599 from a local server over real connections, one job object per variant.
// 1xx: net/http clients treat 1xx (except 101) as informational and keep waiting for the final
// response, so those codes cannot be surfaced by a stock client; the server then completes the
// exchange with its default final status.  The record keeps want (asked) and code (surfaced); the
// oracle is applied to the surfaced code.  (The synthetic sweep covers 1xx as final codes.)
func httpServer() {
	srv := codeServer()
	defer srv.Close()
	for _, body := range []bool{false, true} {
		for _, cb := range []bool{false, true} {
			hc := &hdrClient{c: &http.Client{Timeout: 60 * time.Second,
				CheckRedirect: func(*http.Request, []*http.Request) error { return http.ErrUseLastResponse }}}
			u := srv.URL + "/"
			if body {
				u += "?body=1"
			}
			req, _ := http.NewRequest(http.MethodGet, u, nil)
			cu, p := newCurl(req, hc, cb)
			for c := 100; c <= 599; c++ {
				if c == 101 {
					// 101 Switching Protocols makes the client hand over the connection; skipped on the wire
					continue
				}
				hc.want.Store(int64(c))
				o := &curlObs{Kind: "curl", Variant: "server", Want: c, Body: body, Callback: cb}
				runCurl(cu, p, o)
				emit(o)
			}
			hc.c.CloseIdleConnections()
		}
	}
}

func httpTransport() {
	// refused: a port that was listening and is closed again
	l, _ := net.Listen("tcp", "127.0.0.1:0")
	addr := l.Addr().String()
	l.Close()
	srv := codeServer()
	defer srv.Close()
	release := make(chan struct{})
	slow := httptest.NewServer(http.HandlerFunc(func(w http.ResponseWriter, r *http.Request) {
		select {
		case <-release:
		case <-r.Context().Done():
		}
	}))
	defer slow.Close()
	defer close(release)
	for _, cb := range []bool{false, true} {
		// one job object: 200, refused, 200 ... needs a switching client
		var target atomic.Value
		target.Store(srv.URL)
		sw := handlerFunc(func(req *http.Request) (*http.Response, error) {
			r2 := req.Clone(req.Context())
			u := target.Load().(string)
			r2.URL.Scheme, r2.URL.Host = "http", strings.TrimPrefix(u, "http://")
			r2.Host = ""
			r2.Header.Set("X-Want", "200")
			c := &http.Client{Timeout: 300 * time.Millisecond}
			return c.Do(r2)
		})
		req, _ := http.NewRequest(http.MethodGet, srv.URL+"/?body=1", nil)
		cu, p := newCurl(req, sw, cb)
		steps := []struct{ name, url string }{{"ok", srv.URL}, {"refused", "http://" + addr}, {"ok", srv.URL},
			{"timeout", slow.URL}, {"ok", srv.URL}}
		for _, st := range steps {
			target.Store(st.url)
			want := 200
			if st.name != "ok" {
				want = -1
			}
			o := &curlObs{Kind: "curl", Variant: "transport-" + st.name, Want: want, Body: true, Callback: cb}
			runCurl(cu, p, o)
			emit(o)
		}
		// context cancelled before the call; the request is plain or carries a value-only context of its own
		for _, own := range []bool{false, true} {
			ctx, cancel := context.WithCancel(context.Background())
			cancel()
			req2, _ := http.NewRequest(http.MethodGet, srv.URL+"/", nil)
			if own {
				req2, _ = http.NewRequestWithContext(context.WithValue(context.Background(), ctxKey{}, "trace-4711"), http.MethodGet, srv.URL+"/", nil)
			}
			hc2 := &hdrClient{c: http.DefaultClient}
			hc2.want.Store(200)
			cu2, p2 := newCurl(req2, hc2, cb)
			p2.want.Store(ctxBox{ctx})
			err := cu2.Execute(ctx)
			emit(&curlObs{Kind: "curl", Variant: "transport-cancelled-before", Want: -1, Callback: cb, ErrNil: err == nil, ErrClass: errClass(err),
				Status: int(cu2.JobStatus()), Code: heldCode(cu2), CbCalls: p2.calls.Load(), CbStatus: int(p2.status.Load()), CbCtxSame: p2.ctxOK.Load(),
				Note: map[bool]string{false: "request built with http.NewRequest", true: "request built with http.NewRequestWithContext(value-only context)"}[own]})
		}
	}
}

type handlerFunc func(req *http.Request) (*http.Response, error)

func (f handlerFunc) Do(req *http.Request) (*http.Response, error) { return f(req) }

// ---------------------------------------------------------------------------- ShellJob

type shellObs struct {
	Kind     string `json:"kind"`
	Variant  string `json:"variant"`
	Want     int    `json:"want"` // exit code the command was told to use (-1: killed by a signal)
	Callback bool   `json:"callback"`
	ErrNil   bool   `json:"err_nil"`
	ErrExit  int    `json:"err_exit"` // exit code carried by the returned *exec.ExitError (-2: not an ExitError)
	Exit     int    `json:"exit"`
	Status   int    `json:"status"`
	OutOK    bool   `json:"out_ok"`
	ErrOK    bool   `json:"errout_ok"`
	OutLen   int    `json:"out_len"`
	ErrLen   int    `json:"errout_len"`
	CbCalls  int64  `json:"cb_calls"`
	CbStatus int    `json:"cb_status"`
	CbExit   int    `json:"cb_exit"`
	Note     string `json:"note,omitempty"`
}

type shProbe struct {
	calls  atomic.Int64
	status atomic.Int64
	exit   atomic.Int64
}

func (p *shProbe) fn(_ context.Context, sh *job.ShellJob) {
	p.calls.Add(1)
	p.status.Store(int64(sh.JobStatus()))
	p.exit.Store(int64(sh.ExitCode()))
}

func newShell(cmd string, cb bool) (*job.ShellJob, *shProbe) {
	p := &shProbe{}
	if cb {
		return job.NewShellJobWithCallback(cmd, p.fn), p
	}
	return job.NewShellJob(cmd), p
}

func runShell(sh *job.ShellJob, p *shProbe, o *shellObs, wantOut, wantErr string) {
	before := p.calls.Load()
	p.status.Store(-1)
	p.exit.Store(-99)
	err := sh.Execute(context.Background())
	o.ErrNil = err == nil
	o.ErrExit = -2
	var ee *exec.ExitError
	if errors.As(err, &ee) {
		o.ErrExit = ee.ExitCode()
	}
	o.Exit, o.Status = sh.ExitCode(), int(sh.JobStatus())
	out, eout := sh.Stdout(), sh.Stderr()
	o.OutOK, o.ErrOK, o.OutLen, o.ErrLen = out == wantOut, eout == wantErr, len(out), len(eout)
	o.CbCalls, o.CbStatus, o.CbExit = p.calls.Load()-before, int(p.status.Load()), int(p.exit.Load())
}

func shellExits() {
	sh0, _ := newShell("true", false)
	emit(map[string]any{"kind": "shell-initial", "status": int(sh0.JobStatus()), "exit": sh0.ExitCode()})
	for n := 0; n <= 255; n++ {
		cb := n%2 == 0
		sh, p := newShell(fmt.Sprintf("printf out%d; printf err%d >&2; exit %d", n, n, n), cb)
		o := &shellObs{Kind: "shell", Variant: "exit", Want: n, Callback: cb}
		runShell(sh, p, o, fmt.Sprintf("out%d", n), fmt.Sprintf("err%d", n))
		emit(o)
	}
	// killed by a signal
	sh, p := newShell("printf a; kill -9 $$", true)
	o := &shellObs{Kind: "shell", Variant: "signal", Want: -1, Callback: true}
	runShell(sh, p, o, "a", "")
	emit(o)
	// one object, changing outcome: a stale status / exit code / output would show
	dir, _ := os.MkdirTemp("", "jobsh")
	defer os.RemoveAll(dir)
	f := filepath.Join(dir, "n")
	sh, p = newShell(fmt.Sprintf("read n < %s; printf o$n; printf e$n >&2; exit $n", f), true)
	for _, n := range []int{0, 3, 0, 255, 0, 1, 1, 0, 127, 0} {
		_ = os.WriteFile(f, []byte(strconv.Itoa(n)+"\n"), 0o600)
		o := &shellObs{Kind: "shell", Variant: "sequence", Want: n, Callback: true}
		runShell(sh, p, o, "o"+strconv.Itoa(n), "e"+strconv.Itoa(n))
		emit(o)
	}
}

func shellSizes() {
	for _, n := range []int{0, 1, 2, 4095, 4096, 4097, 65535, 65536, 65537, 262144, 1 << 20, 1<<20 + 1, 3<<20 + 17, 4 << 20} {
		for _, stream := range []string{"stdout", "stderr", "both"} {
			gen := fmt.Sprintf("head -c %d /dev/zero | tr '\\0' x", n)
			var cmd, wo, we string
			x := strings.Repeat("x", n)
			switch stream {
			case "stdout":
				cmd, wo = gen, x
			case "stderr":
				cmd, we = gen+" >&2", x
			default:
				cmd, wo, we = gen+"; "+gen+" >&2", x, x
			}
			sh, p := newShell(cmd, false)
			o := &shellObs{Kind: "shell", Variant: "size-" + stream, Want: 0, Note: strconv.Itoa(n)}
			runShell(sh, p, o, wo, we)
			emit(o)
		}
	}
}

// ---------------------------------------------------------------------------- FunctionJob

type funcObs struct {
	Kind       string `json:"kind"`
	Variant    string `json:"variant"`
	FnErr      bool   `json:"fn_err"`   // the function returned a non-nil error
	RetSame    bool   `json:"ret_same"` // Execute returned exactly the function's error (errors.Is / nil)
	Status     int    `json:"status"`
	ErrSame    bool   `json:"err_same"`    // Error() is the function's error (nil when none)
	ResultOK   bool   `json:"result_kept"` // Result() == what the function returned
	ResultZero bool   `json:"result_zero"` // Result() == zero value
	CtxSame    bool   `json:"ctx_same"`    // the function received the context passed to Execute
}

func funcCases() {
	type step struct {
		v   int
		err error
	}
	e1, e2 := errors.New("e1"), fmt.Errorf("wrapped: %w", errors.New("e2"))
	var cur step
	var gotCtx context.Context
	fj := job.NewFunctionJob(func(ctx context.Context) (int, error) { gotCtx = ctx; return cur.v, cur.err })
	emit(map[string]any{"kind": "func-initial", "status": int(fj.JobStatus()), "result_zero": fj.Result() == 0, "err_nil": fj.Error() == nil})
	for _, st := range []step{{42, nil}, {7, e1}, {43, nil}, {0, nil}, {9, e2}, {10, e1}, {44, nil}, {-5, e2}} {
		cur = st
		ctx, cancel := context.WithCancel(context.Background())
		err := fj.Execute(ctx)
		cancel()
		emit(&funcObs{Kind: "func", Variant: "int", FnErr: st.err != nil, RetSame: err == st.err, Status: int(fj.JobStatus()),
			ErrSame: fj.Error() == st.err, ResultOK: fj.Result() == st.v, ResultZero: fj.Result() == 0, CtxSame: gotCtx == ctx})
	}
	// string and pointer results
	var curS struct {
		v   string
		err error
	}
	fs := job.NewFunctionJobWithDesc(func(ctx context.Context) (string, error) { gotCtx = ctx; return curS.v, curS.err }, "s")
	for _, st := range []struct {
		v   string
		err error
	}{{"hello", nil}, {"partial", e1}, {"again", nil}} {
		curS = st
		ctx := context.WithValue(context.Background(), ctxKey{}, 1)
		err := fs.Execute(ctx)
		emit(&funcObs{Kind: "func", Variant: "string", FnErr: st.err != nil, RetSame: err == st.err, Status: int(fs.JobStatus()),
			ErrSame: fs.Error() == st.err, ResultOK: fs.Result() == st.v, ResultZero: fs.Result() == "", CtxSame: gotCtx == ctx})
	}
	x := 5
	var curP struct {
		v   *int
		err error
	}
	fp := job.NewFunctionJob(func(ctx context.Context) (*int, error) { gotCtx = ctx; return curP.v, curP.err })
	for _, st := range []struct {
		v   *int
		err error
	}{{&x, nil}, {&x, e2}, {&x, nil}} {
		curP = st
		ctx := context.WithValue(context.Background(), ctxKey{}, 2)
		err := fp.Execute(ctx)
		emit(&funcObs{Kind: "func", Variant: "pointer", FnErr: st.err != nil, RetSame: err == st.err, Status: int(fp.JobStatus()),
			ErrSame: fp.Error() == st.err, ResultOK: fp.Result() == st.v, ResultZero: fp.Result() == nil, CtxSame: gotCtx == ctx})
	}
}

// ---------------------------------------------------------------------------- cancellation

// Each case: start Execute, wait until the work is demonstrably in progress, cancel, and see
// whether Execute comes back while the work would still be running.  The work only ends by
// itself after `natural` (10 s) or when the harness releases it, which it does after the
// `patience` watchdog (generous: the conclusion "not aborted" is only drawn after it).
func cancelCases() {
	const patience = 6 * time.Second
	// function
	{
		started := make(chan struct{})
		fj := job.NewFunctionJob(func(ctx context.Context) (int, error) {
			close(started)
			select {
			case <-ctx.Done():
				return 1, ctx.Err()
			case <-time.After(10 * time.Second):
				return 2, nil
			}
		})
		ctx, cancel := context.WithCancel(context.Background())
		done := make(chan error, 1)
		go func() { done <- fj.Execute(ctx) }()
		<-started
		cancel()
		t0 := time.Now()
		res := map[string]any{"kind": "cancel", "variant": "function"}
		select {
		case err := <-done:
			res["aborted"], res["err_class"], res["status"], res["ms"] = true, errClass(err), int(fj.JobStatus()), time.Since(t0).Milliseconds()
			res["result_zero"] = fj.Result() == 0
		case <-time.After(patience):
			res["aborted"] = false
		}
		emit(res)
	}
	// in-flight HTTP request; the request is built without a context, or carries a context of its own that
	// only holds a value (http.NewRequestWithContext): the execution context must abort it either way
	for _, variant := range []string{"http", "http-valuectx"} {
		inflight := make(chan struct{}, 1)
		release := make(chan struct{})
		srv := httptest.NewServer(http.HandlerFunc(func(w http.ResponseWriter, r *http.Request) {
			inflight <- struct{}{}
			select {
			case <-release:
			case <-time.After(10 * time.Second):
			}
		}))
		req, _ := http.NewRequest(http.MethodGet, srv.URL, nil)
		if variant == "http-valuectx" {
			req, _ = http.NewRequestWithContext(context.WithValue(context.Background(), ctxKey{}, "trace-4711"), http.MethodGet, srv.URL, nil)
		}
		p := &cbProbe{}
		p.status.Store(-1)
		cu := job.NewCurlJobWithOptions(req, job.CurlJobOptions{HTTPClient: &http.Client{}, Callback: p.fn})
		ctx, cancel := context.WithCancel(context.Background())
		done := make(chan error, 1)
		go func() { done <- cu.Execute(ctx) }()
		res := map[string]any{"kind": "cancel", "variant": variant}
		select {
		case <-inflight:
			cancel()
			t0 := time.Now()
			select {
			case err := <-done:
				res["aborted"], res["err_class"], res["ms"] = true, errClass(err), time.Since(t0).Milliseconds()
			case <-time.After(patience):
				res["aborted"] = false
			}
		case <-time.After(30 * time.Second):
			res["error"] = "request never reached the server"
		}
		close(release)
		if res["aborted"] == false {
			<-done
		}
		res["status"], res["code"], res["cb_calls"] = int(cu.JobStatus()), heldCode(cu), p.calls.Load()
		cancel()
		srv.Close()
		emit(res)
	}
	// sleep 10
	{
		dir, _ := os.MkdirTemp("", "jobsh")
		defer os.RemoveAll(dir)
		marker := filepath.Join(dir, "started")
		p := &shProbe{}
		sh := job.NewShellJobWithCallback(fmt.Sprintf("echo begun; : > %s; exec sleep 10", marker), p.fn)
		ctx, cancel := context.WithCancel(context.Background())
		done := make(chan error, 1)
		go func() { done <- sh.Execute(ctx) }()
		res := map[string]any{"kind": "cancel", "variant": "shell"}
		dl := time.Now().Add(30 * time.Second)
		for {
			if _, err := os.Stat(marker); err == nil {
				break
			}
			if time.Now().After(dl) {
				res["error"] = "command never started"
				break
			}
			time.Sleep(2 * time.Millisecond)
		}
		cancel()
		t0 := time.Now()
		select {
		case err := <-done:
			res["aborted"], res["err_nil"], res["ms"] = time.Since(t0) < patience, err == nil, time.Since(t0).Milliseconds()
		case <-time.After(patience + 6*time.Second): // sleep 10 ends by itself
			res["aborted"] = false
		}
		res["status"], res["exit"], res["stdout_begun"], res["cb_calls"] = int(sh.JobStatus()), sh.ExitCode(), sh.Stdout() == "begun\n", p.calls.Load()
		emit(res)
	}
}

var _ = bytes.MinRead
