package main

import (
	"context"
	"errors"
	"fmt"
	"math/rand"
	"runtime"
	"sync"
	"sync/atomic"
	"time"

	"github.com/reugn/go-quartz/job"
	"github.com/reugn/go-quartz/quartz"
)

// One logical clock for the whole history: an atomic counter.  If event A
// finished before event B started in real time then tick(A) < tick(B); ties
// are impossible.  (Wall/monotonic time is recorded only for information.)
var clock atomic.Int64

func tick() int64 { return clock.Add(1) }

var errJob = errors.New("scripted job error")

type panicVal struct{ id int64 }

// call is the record of one Execute call on the isolated job.
type call struct {
	G       int    `json:"g"`
	I       int    `json:"i"`
	Dur     string `json:"dur"`           // "0" | "yield" | "1ms" | "hold"
	Outcome string `json:"outcome"`       // scripted: ok | error | panic | nested | nested-wrapped
	Ctx     string `json:"ctx,omitempty"` // "" | cancelled | expired: state of the context passed to Execute
	Invoke  int64  `json:"invoke"`
	Ret     int64  `json:"ret"`
	Entered bool   `json:"entered"` // the underlying job ran for this call
	Enter   int64  `json:"enter"`
	Exit    int64  `json:"exit"`
	Class   string `json:"class"` // nil | joberr | ctxerr | othererr | panic-own | panic-other
	Handle  string `json:"handle,omitempty"` // chain scenarios: which wrapper of the chain Execute was called on
	Origin  string `json:"ctx_origin,omitempty"` // escaped-context scenarios: where the context passed to Execute comes from
	base    context.Context                     // context to build this call's context from (nil: Background)
	gotCtx  context.Context                     // the context the underlying job received
	NsRun   int64  `json:"ns_run,omitempty"`
	hold    chan struct{}
	entered chan struct{}
}

type ctxKey struct{}

// under is the underlying job: it records entry and exit on the logical clock, counts
// executions in flight and ends the way the call's script says.
type under struct {
	busy        quartz.Job // another isolated job that is busy elsewhere (outcomes nested / nested-wrapped)
	inflight    atomic.Int32
	maxInflight atomic.Int32
	runs        atomic.Int64
}

func (u *under) Description() string { return "underlying" }

func (u *under) Execute(ctx context.Context) error {
	c, _ := ctx.Value(ctxKey{}).(*call)
	if c == nil { // scheduler scenario: no per-call record
		c = &call{Dur: "sched", Outcome: "ok"}
	}
	n := u.inflight.Add(1)
	for {
		m := u.maxInflight.Load()
		if n <= m || u.maxInflight.CompareAndSwap(m, n) {
			break
		}
	}
	u.runs.Add(1)
	c.gotCtx = ctx
	c.Entered = true
	c.Enter = tick()
	t0 := time.Now()
	if c.entered != nil {
		close(c.entered)
	}
	switch c.Dur {
	case "yield":
		runtime.Gosched()
	case "1ms":
		time.Sleep(time.Millisecond)
	case "hold":
		<-c.hold
	}
	c.NsRun = time.Since(t0).Nanoseconds()
	u.inflight.Add(-1)
	c.Exit = tick()
	switch c.Outcome {
	case "error":
		return errJob
	case "panic":
		panic(panicVal{int64(c.G)<<32 | int64(c.I)})
	case "nested", "nested-wrapped":
		// the job's work is to run a shared isolated job which is busy elsewhere: it ends with
		// that job's fail-fast error (plain or wrapped)
		if u.busy != nil {
			err := u.busy.Execute(context.Background())
			if err != nil && c.Outcome == "nested-wrapped" {
				err = fmt.Errorf("inner job: %w", err)
			}
			return err
		}
	}
	return nil
}

// busyJob returns an isolated job that is held busy until release() is called.
func busyJob() (quartz.Job, func()) {
	inner := &under{}
	b := job.NewIsolatedJob(inner)
	h := &call{G: -1, Dur: "hold", Outcome: "ok", hold: make(chan struct{}), entered: make(chan struct{})}
	done := make(chan struct{})
	go func() { defer close(done); invoke(b, h) }()
	<-h.entered
	return b, func() { close(h.hold); <-done }
}

// invoke performs one Execute call and classifies what came back.
func invoke(iso quartz.Job, c *call) {
	base := c.base
	if base == nil {
		base = context.Background()
	}
	ctx := context.WithValue(base, ctxKey{}, c)
	switch c.Ctx {
	case "cancelled":
		var cancel context.CancelFunc
		ctx, cancel = context.WithCancel(ctx)
		cancel()
	case "expired":
		var cancel context.CancelFunc
		ctx, cancel = context.WithDeadline(ctx, time.Now().Add(-time.Second))
		defer cancel()
	}
	defer func() {
		if r := recover(); r != nil {
			c.Ret = tick()
			if pv, ok := r.(panicVal); ok && pv.id == int64(c.G)<<32|int64(c.I) {
				c.Class = "panic-own"
			} else {
				c.Class = "panic-other"
			}
		}
	}()
	c.Invoke = tick()
	err := iso.Execute(ctx)
	c.Ret = tick()
	switch {
	case err == nil:
		c.Class = "nil"
	case errors.Is(err, errJob):
		c.Class = "joberr"
	case errors.Is(err, context.Canceled) || errors.Is(err, context.DeadlineExceeded):
		c.Class = "ctxerr"
	default:
		c.Class = "othererr"
	}
}

func isolatedStress(G, N int, seed int64) {
	busy, releaseBusy := busyJob()
	u := &under{busy: busy}
	iso := job.NewIsolatedJob(u)
	durs := []string{"0", "yield", "1ms"}
	outs := []string{"ok", "error", "panic", "ok", "error", "panic", "nested", "nested-wrapped"}
	hist := make([][]*call, G)
	var start, wg sync.WaitGroup
	start.Add(1)
	for g := 0; g < G; g++ {
		g := g
		rng := rand.New(rand.NewSource(seed + int64(g)*7919))
		hist[g] = make([]*call, N)
		for i := 0; i < N; i++ {
			d := durs[0]
			switch x := rng.Intn(100); {
			case x < 3:
				d = durs[2]
			case x < 45:
				d = durs[1]
			}
			cx := ""
			switch x := rng.Intn(100); {
			case x < 3:
				cx = "cancelled"
			case x < 4:
				cx = "expired"
			}
			hist[g][i] = &call{G: g, I: i, Dur: d, Outcome: outs[rng.Intn(len(outs))], Ctx: cx}
		}
		wg.Add(1)
		go func() {
			defer wg.Done()
			start.Wait()
			for i := 0; i < N; i++ {
				invoke(iso, hist[g][i])
				if i%7 == 0 {
					runtime.Gosched()
				}
			}
		}()
	}
	start.Done()
	wg.Wait()
	quiesced := tick()
	// everything has returned: a fresh call must be admitted, whatever the last outcome was
	fresh := &call{G: G, I: 0, Dur: "0", Outcome: "ok"}
	invoke(iso, fresh)
	releaseBusy()
	for g := 0; g < G; g++ {
		for _, c := range hist[g] {
			emit(c)
		}
	}
	emit(map[string]any{"summary": "stress", "goroutines": G, "per_goroutine": N, "seed": seed,
		"max_inflight": u.maxInflight.Load(), "runs": u.runs.Load(), "quiesced": quiesced, "fresh": fresh,
		"gomaxprocs": runtime.GOMAXPROCS(0)})
}

// isolatedHold: for each outcome o: a holder is blocked inside the underlying job; K calls made
// meanwhile must all come back with the fail-fast error without running the job (if one blocked
// instead, the watchdog reports it); the holder is released and ends with o; once its Execute has
// returned a fresh call must be admitted.  Purely sequential outcome series as well.
func isolatedHold() {
	for _, o := range []string{"ok", "error", "panic"} {
		u := &under{}
		iso := job.NewIsolatedJob(u)
		h := &call{G: 0, I: 0, Dur: "hold", Outcome: o, hold: make(chan struct{}), entered: make(chan struct{})}
		done := make(chan struct{})
		go func() { defer close(done); invoke(iso, h) }()
		res := map[string]any{"scenario": "hold", "outcome": o}
		select {
		case <-h.entered:
		case <-time.After(30 * time.Second):
			res["error"] = "holder never entered the job"
			emit(res)
			continue
		}
		var rej []*call
		blocked := false
		for i := 0; i < 50 && !blocked; i++ {
			c := &call{G: 1, I: i, Dur: "0", Outcome: "ok"}
			fin := make(chan struct{})
			go func() { defer close(fin); invoke(iso, c) }()
			select {
			case <-fin:
				rej = append(rej, c)
			case <-time.After(20 * time.Second):
				blocked = true // the call did not fail fast (it waits for the holder)
			}
		}
		close(h.hold)
		select {
		case <-done:
		case <-time.After(30 * time.Second):
			res["error"] = "holder never returned"
		}
		fresh := &call{G: 2, I: 0, Dur: "0", Outcome: "ok"}
		invoke(iso, fresh)
		res["holder"], res["during"], res["blocked"], res["fresh"] = h, rej, blocked, fresh
		res["max_inflight"] = u.maxInflight.Load()
		emit(res)
	}
	// sequential series: every call must be admitted (the previous one has returned)
	busy, releaseBusy := busyJob()
	u := &under{busy: busy}
	iso := job.NewIsolatedJob(u)
	var seq []*call
	type st struct{ o, cx string }
	for i, x := range []st{{"ok", ""}, {"error", ""}, {"ok", ""}, {"panic", ""}, {"ok", ""}, {"panic", ""}, {"panic", ""}, {"error", ""},
		{"error", ""}, {"ok", ""}, {"ok", "cancelled"}, {"ok", ""}, {"error", "expired"}, {"ok", ""}, {"panic", "cancelled"}, {"ok", ""},
		{"nested", ""}, {"ok", ""}, {"nested-wrapped", ""}, {"ok", ""}, {"nested", "cancelled"}, {"ok", ""}} {
		c := &call{G: 0, I: i, Dur: "0", Outcome: x.o, Ctx: x.cx}
		invoke(iso, c)
		seq = append(seq, c)
	}
	releaseBusy()
	emit(map[string]any{"scenario": "sequential", "calls": seq, "max_inflight": u.maxInflight.Load()})

	// chained isolated jobs: `report` is an isolated job whose work is to run the shared isolated job
	// `export`; while export is busy elsewhere report is executed once (admitted, ends with export's
	// fail-fast error); then nothing runs report any more and its next call must be admitted.
	for _, wrap := range []bool{false, true} {
		export, releaseExport := busyJob()
		ru := &under{busy: export}
		report := job.NewIsolatedJob(ru)
		o := "nested"
		if wrap {
			o = "nested-wrapped"
		}
		first := &call{G: 0, I: 0, Dur: "0", Outcome: o}
		invoke(report, first)
		second := &call{G: 0, I: 1, Dur: "0", Outcome: "ok"}
		invoke(report, second)
		releaseExport()
		third := &call{G: 0, I: 2, Dur: "0", Outcome: o} // export is free now: runs it for real
		invoke(report, third)
		// directly nested: NewIsolatedJob(NewIsolatedJob(job))
		nu := &under{}
		nested := job.NewIsolatedJob(job.NewIsolatedJob(nu))
		n1 := &call{G: 1, I: 0, Dur: "0", Outcome: "error"}
		invoke(nested, n1)
		n2 := &call{G: 1, I: 1, Dur: "0", Outcome: "ok"}
		invoke(nested, n2)
		emit(map[string]any{"scenario": "chained", "wrapped": wrap, "calls": []*call{first, second, third, n1, n2},
			"max_inflight": ru.maxInflight.Load()})
	}
	isolatedHandles()
	isolatedEscaped()
}

// isolatedHandles: an isolated job wrapped a second and a third time -- h0 = NewIsolatedJob(job),
// h1 = NewIsolatedJob(h0), h2 = NewIsolatedJob(h1) -- with EVERY handle of the chain in use.  While
// an execution admitted through one handle is blocked inside the job, calls through each handle of
// the chain (the holder's own, the inner and the outer ones) must come back with an error without
// running the job; once the holder has returned a call through each handle must be admitted.
func isolatedHandles() {
	outcomes := []string{"ok", "error", "panic"}
	n := 0
	for depth := 2; depth <= 3; depth++ {
		for hi := 0; hi < depth; hi++ {
			u := &under{}
			hs := []quartz.Job{job.NewIsolatedJob(u)}
			for len(hs) < depth {
				hs = append(hs, job.NewIsolatedJob(hs[len(hs)-1]))
			}
			name := func(i int) string { return fmt.Sprintf("h%d of a chain of %d wrappers (h0 wraps the job itself)", i, depth) }
			o := outcomes[n%len(outcomes)]
			n++
			h := &call{G: 0, I: 0, Dur: "hold", Outcome: o, Handle: name(hi), hold: make(chan struct{}), entered: make(chan struct{})}
			done := make(chan struct{})
			go func(j quartz.Job) { defer close(done); invoke(j, h) }(hs[hi])
			res := map[string]any{"scenario": "handles", "depth": depth, "holder_handle": hi, "outcome": o}
			select {
			case <-h.entered:
			case <-time.After(30 * time.Second):
				res["error"] = "holder never entered the job"
				emit(res)
				continue
			}
			var during []*call
			blocked := false
			for i := 0; i < 4*depth && !blocked; i++ {
				c := &call{G: 1, I: i, Dur: "0", Outcome: "ok", Handle: name(i % depth)}
				fin := make(chan struct{})
				go func(j quartz.Job) { defer close(fin); invoke(j, c) }(hs[i%depth])
				select {
				case <-fin:
					during = append(during, c)
				case <-time.After(20 * time.Second):
					blocked = true
				}
			}
			close(h.hold)
			select {
			case <-done:
			case <-time.After(30 * time.Second):
				res["error"] = "holder never returned"
			}
			var fresh []*call
			for i := 0; i < depth && res["error"] == nil && !blocked; i++ {
				c := &call{G: 2, I: i, Dur: "0", Outcome: outcomes[(n+i)%len(outcomes)], Handle: name(i)}
				invoke(hs[i], c)
				fresh = append(fresh, c)
			}
			res["holder"], res["during"], res["blocked"], res["fresh"] = h, during, blocked, fresh
			res["max_inflight"] = u.maxInflight.Load()
			emit(res)
		}
	}
}

// isolatedEscaped: contexts that ESCAPED from the wrapped job -- the ctx argument of a finished
// execution, the ctx argument of the execution currently in progress (handed to another goroutine),
// and contexts derived from them (WithValue / WithCancel / WithTimeout) -- are used for calls while an
// execution is in flight: such a call is a call like any other (error, job not run); after the holder
// has returned a call with each of these contexts must be admitted.
func isolatedEscaped() {
	type escKey struct{}
	for _, o := range []string{"ok", "panic"} {
		u := &under{}
		iso := job.NewIsolatedJob(u)
		res := map[string]any{"scenario": "escaped", "outcome": o}
		early := &call{G: 0, I: 0, Dur: "0", Outcome: "ok"}
		invoke(iso, early) // a finished execution; the job kept its ctx
		h := &call{G: 0, I: 1, Dur: "hold", Outcome: o, hold: make(chan struct{}), entered: make(chan struct{})}
		done := make(chan struct{})
		go func() { defer close(done); invoke(iso, h) }()
		select {
		case <-h.entered:
		case <-time.After(30 * time.Second):
			res["error"] = "holder never entered the job"
			emit(res)
			continue
		}
		if early.gotCtx == nil || h.gotCtx == nil {
			res["error"] = "the underlying job did not run for the preparatory calls"
			close(h.hold)
			<-done
			emit(res)
			continue
		}
		var cancels []context.CancelFunc
		mk := func() []struct {
			origin string
			ctx    context.Context
		} {
			var out []struct {
				origin string
				ctx    context.Context
			}
			for _, src := range []struct {
				name string
				ctx  context.Context
			}{{"the ctx argument of a FINISHED execution", early.gotCtx}, {"the ctx argument of the execution IN PROGRESS", h.gotCtx}} {
				c1, cancel1 := context.WithCancel(src.ctx)
				c2, cancel2 := context.WithTimeout(src.ctx, time.Hour)
				cancels = append(cancels, cancel1, cancel2)
				out = append(out,
					struct {
						origin string
						ctx    context.Context
					}{src.name, src.ctx},
					struct {
						origin string
						ctx    context.Context
					}{"context.WithValue(" + src.name + ")", context.WithValue(src.ctx, escKey{}, 1)},
					struct {
						origin string
						ctx    context.Context
					}{"context.WithCancel(" + src.name + ")", c1},
					struct {
						origin string
						ctx    context.Context
					}{"context.WithTimeout(" + src.name + ", 1h)", c2})
			}
			out = append(out, struct {
				origin string
				ctx    context.Context
			}{"context.Background() (control)", context.Background()})
			return out
		}
		var during []*call
		blocked := false
		for i, e := range mk() {
			c := &call{G: 1, I: i, Dur: "0", Outcome: "ok", Origin: e.origin, base: e.ctx}
			fin := make(chan struct{})
			go func() { defer close(fin); invoke(iso, c) }()
			select {
			case <-fin:
				during = append(during, c)
			case <-time.After(20 * time.Second):
				blocked = true
			}
			if blocked {
				break
			}
		}
		close(h.hold)
		select {
		case <-done:
		case <-time.After(30 * time.Second):
			res["error"] = "holder never returned"
		}
		var fresh []*call
		if res["error"] == nil && !blocked {
			for i, e := range mk() {
				c := &call{G: 2, I: i, Dur: "0", Outcome: "ok", Origin: e.origin, base: e.ctx}
				invoke(iso, c)
				fresh = append(fresh, c)
			}
		}
		for _, cancel := range cancels {
			cancel()
		}
		res["holder"], res["during"], res["blocked"], res["fresh"] = h, during, blocked, fresh
		res["max_inflight"] = u.maxInflight.Load()
		emit(res)
	}
}

// schedJob wraps `under` for the scheduler scenario: each execution takes `dur`.
type schedJob struct {
	u     *under
	dur   time.Duration
	mu    sync.Mutex
	spans [][2]int64
	n     int
}

func (s *schedJob) Description() string { return "sched-underlying" }
func (s *schedJob) Execute(ctx context.Context) error {
	n := s.u.inflight.Add(1)
	for {
		m := s.u.maxInflight.Load()
		if n <= m || s.u.maxInflight.CompareAndSwap(m, n) {
			break
		}
	}
	enter := tick()
	time.Sleep(s.dur)
	s.mu.Lock()
	s.n++
	k := s.n
	s.mu.Unlock()
	s.u.inflight.Add(-1)
	exit := tick()
	s.mu.Lock()
	s.spans = append(s.spans, [2]int64{enter, exit})
	s.mu.Unlock()
	switch k % 3 { // ok, error, panic in turn: none may wedge the gate
	case 1:
		return errJob
	case 2:
		panic(fmt.Sprintf("scripted panic %d", k))
	}
	return nil
}

// counting wrapper around the isolated job: how many firings the scheduler made
type countJob struct {
	quartz.Job
	calls    atomic.Int64
	rejected atomic.Int64
}

func (c *countJob) Execute(ctx context.Context) error {
	c.calls.Add(1)
	err := c.Job.Execute(ctx)
	if err != nil && !errors.Is(err, errJob) {
		c.rejected.Add(1)
	}
	return err
}

func isolatedSched(ms int) {
	u := &under{}
	sj := &schedJob{u: u, dur: 25 * time.Millisecond}
	cj := &countJob{Job: job.NewIsolatedJob(sj)}
	sched, err := quartz.NewStdScheduler()
	if err != nil {
		emit(map[string]any{"scenario": "sched", "error": err.Error()})
		return
	}
	ctx, cancel := context.WithCancel(context.Background())
	sched.Start(ctx)
	err = sched.ScheduleJob(quartz.NewJobDetail(cj, quartz.NewJobKey("iso")), quartz.NewSimpleTrigger(4*time.Millisecond))
	if err != nil {
		emit(map[string]any{"scenario": "sched", "error": err.Error()})
		cancel()
		return
	}
	time.Sleep(time.Duration(ms) * time.Millisecond)
	sched.Stop()
	sched.Wait(context.Background())
	cancel()
	sj.mu.Lock()
	spans := append([][2]int64{}, sj.spans...)
	sj.mu.Unlock()
	// after the scheduler is quiescent a direct call must be admitted
	before := len(spans)
	var freshPanic any
	func() {
		defer func() { freshPanic = recover() }()
		_ = cj.Job.Execute(context.Background())
	}()
	sj.mu.Lock()
	after := len(sj.spans)
	sj.mu.Unlock()
	emit(map[string]any{"scenario": "sched", "ms": ms, "spans": spans, "firings": cj.calls.Load(),
		"rejected": cj.rejected.Load(), "max_inflight": u.maxInflight.Load(), "fresh_admitted": after == before+1,
		"fresh_panicked": freshPanic != nil})
}
