package main

import (
	"context"
	"errors"
	"fmt"
	"net/http"
	"os"
	"path/filepath"
	"strings"
	"sync/atomic"
	"time"

	"github.com/reugn/go-quartz/job"
)

// overlap: channel-sequenced overlapping executions of ONE job object.  The property speaks of the
// most recent COMPLETED execution, so the order of completion decides, not the order of start.
//
//	order "ABBA": A starts, B starts, B completes, A completes  -> at quiescence the tuple must be A's
//	order "ABAB": A starts, B starts, A completes, B completes  -> the tuple must be B's
//
// FunctionJob and ShellJob compute outside the mutex, so both orders are feasible.  CurlJob holds
// its mutex across Do: a second execution cannot even start its request before the first has
// committed, so only "A in Do, B waiting, A completes, B completes" exists (tuple must be B's).
// No timing is involved: every step waits for the previous one (watchdogs only guard against hangs).
type overlapObs struct {
	Kind     string `json:"kind"`
	Job      string `json:"job"`
	Order    string `json:"order"`
	Variant  string `json:"variant"` // which of A/B fails
	Last     string `json:"last"`    // execution that completed last
	RetAOwn  bool   `json:"ret_a_own"`
	RetBOwn  bool   `json:"ret_b_own"`
	Status   int    `json:"status"`
	WantStat int    `json:"want_status"`
	TupleOK  bool   `json:"tuple_is_last"` // every visible field is the one of the last completed execution
	Result   int    `json:"result"`        // FunctionJob: Result()
	Detail   string `json:"detail"`
	Skipped  string `json:"skipped,omitempty"`
	Error    string `json:"error,omitempty"`
}

const overlapPatience = 60 * time.Second

func waitCh(ch <-chan struct{}) bool {
	select {
	case <-ch:
		return true
	case <-time.After(overlapPatience):
		return false
	}
}

func overlap() {
	for _, order := range []string{"ABBA", "ABAB"} {
		for _, failing := range []string{"A", "B", "none", "both"} {
			overlapFunc(order, failing)
		}
	}
	for _, order := range []string{"ABBA", "ABAB"} {
		for _, failing := range []string{"A", "B"} {
			overlapShell(order, failing)
		}
	}
	for _, failing := range []string{"A", "B"} {
		overlapCurl(failing)
	}
}

func overlapFunc(order, failing string) {
	o := &overlapObs{Kind: "overlap", Job: "func", Order: order, Variant: "fails:" + failing}
	errA, errB := errors.New("execution A failed"), errors.New("execution B failed")
	type oc struct {
		v   int
		err error
	}
	a, b := oc{7, nil}, oc{42, nil}
	if failing == "A" || failing == "both" {
		a = oc{7, errA}
	}
	if failing == "B" || failing == "both" {
		b = oc{42, errB}
	}
	var n atomic.Int32
	startedA, startedB := make(chan struct{}), make(chan struct{})
	relA, relB := make(chan struct{}), make(chan struct{})
	fj := job.NewFunctionJob(func(context.Context) (int, error) {
		if n.Add(1) == 1 {
			close(startedA)
			<-relA
			return a.v, a.err
		}
		close(startedB)
		<-relB
		return b.v, b.err
	})
	doneA, doneB := make(chan error, 1), make(chan error, 1)
	go func() { doneA <- fj.Execute(context.Background()) }()
	if !waitCh(startedA) {
		o.Error = "execution A never started"
		emit(o)
		return
	}
	go func() { doneB <- fj.Execute(context.Background()) }()
	if !waitCh(startedB) {
		// an implementation that serialises the user function cannot produce this interleaving; not judged
		o.Skipped = "execution B did not start while A was running"
		close(relA)
		close(relB)
		emit(o)
		return
	}
	var ra, rb error
	last := oc{}
	if order == "ABBA" {
		close(relB)
		rb = <-doneB
		close(relA)
		ra = <-doneA
		last, o.Last = a, "A"
	} else {
		close(relA)
		ra = <-doneA
		close(relB)
		rb = <-doneB
		last, o.Last = b, "B"
	}
	o.RetAOwn, o.RetBOwn = ra == a.err, rb == b.err
	st, res, e := int(fj.JobStatus()), fj.Result(), fj.Error()
	o.Status, o.Result = st, res
	wantRes := last.v
	o.WantStat = 1
	if last.err != nil {
		wantRes, o.WantStat = 0, 2
	}
	o.TupleOK = st == o.WantStat && res == wantRes && e == last.err
	o.Detail = fmt.Sprintf("status=%d result=%d err=%v; last completed %s returned (%d, %v)", st, res, e, o.Last, last.v, last.err)
	emit(o)
}

func overlapShell(order, failing string) {
	o := &overlapObs{Kind: "overlap", Job: "shell", Order: order, Variant: "fails:" + failing}
	dir, err := os.MkdirTemp("", "jobsh-ov")
	if err != nil {
		o.Error = err.Error()
		emit(o)
		return
	}
	defer os.RemoveAll(dir)
	exA, exB := 0, 0
	if failing == "A" {
		exA = 3
	} else {
		exB = 4
	}
	p := func(s string) string { return filepath.Join(dir, s) }
	// the first shell to create `first` is A; each announces itself, waits for its go-file, writes, exits
	cmd := fmt.Sprintf(`if mkdir %s 2>/dev/null; then me=A; ex=%d; else me=B; ex=%d; fi; : > %s/started$me; `+
		`while [ ! -e %s/go$me ]; do sleep 0.01; done; echo out$me; echo err$me >&2; exit $ex`,
		p("first"), exA, exB, dir, dir)
	var cbs atomic.Int32
	sh := job.NewShellJobWithCallback(cmd, func(context.Context, *job.ShellJob) { cbs.Add(1) })
	exists := func(name string) bool {
		dl := time.Now().Add(overlapPatience)
		for time.Now().Before(dl) {
			if _, err := os.Stat(p(name)); err == nil {
				return true
			}
			time.Sleep(2 * time.Millisecond)
		}
		return false
	}
	release := func(name string) { _ = os.WriteFile(p(name), nil, 0o600) }
	doneA, doneB := make(chan error, 1), make(chan error, 1)
	go func() { doneA <- sh.Execute(context.Background()) }()
	if !exists("startedA") {
		o.Error = "execution A never started"
		release("goA")
		emit(o)
		return
	}
	go func() { doneB <- sh.Execute(context.Background()) }()
	if !exists("startedB") {
		o.Skipped = "execution B did not start while A was running"
		release("goA")
		release("goB")
		emit(o)
		return
	}
	var ra, rb error
	lastName, lastEx := "A", exA
	if order == "ABBA" {
		release("goB")
		rb = <-doneB
		release("goA")
		ra = <-doneA
	} else {
		release("goA")
		ra = <-doneA
		release("goB")
		rb = <-doneB
		lastName, lastEx = "B", exB
	}
	o.Last = lastName
	o.RetAOwn, o.RetBOwn = (ra == nil) == (exA == 0), (rb == nil) == (exB == 0)
	st, ex, so, se := int(sh.JobStatus()), sh.ExitCode(), strings.TrimSpace(sh.Stdout()), strings.TrimSpace(sh.Stderr())
	o.Status, o.WantStat = st, 1
	if lastEx != 0 {
		o.WantStat = 2
	}
	o.TupleOK = st == o.WantStat && ex == lastEx && so == "out"+lastName && se == "err"+lastName
	o.Detail = fmt.Sprintf("status=%d exit=%d stdout=%q stderr=%q callbacks=%d; last completed %s exited %d", st, ex, so, se, cbs.Load(), lastName, lastEx)
	if cbs.Load() != 2 {
		o.TupleOK = false
	}
	emit(o)
}

func overlapCurl(failing string) {
	o := &overlapObs{Kind: "overlap", Job: "curl", Order: "A-in-Do,B-waits,A,B", Variant: "fails:" + failing, Last: "B"}
	codeA, codeB := 200, 200
	if failing == "A" {
		codeA = 500
	} else {
		codeB = 503
	}
	inDoA, relA := make(chan struct{}), make(chan struct{})
	s := &scripted{}
	s.next = func(n int, _ *http.Request) (*http.Response, error) {
		if n == 0 {
			close(inDoA)
			<-relA
			return s.response(codeA, true, "A"), nil
		}
		return s.response(codeB, true, "B"), nil
	}
	req, _ := http.NewRequest(http.MethodGet, "http://synthetic.invalid/", nil)
	cu := job.NewCurlJobWithOptions(req, job.CurlJobOptions{HTTPClient: s})
	doneA, doneB := make(chan error, 1), make(chan error, 1)
	go func() { doneA <- cu.Execute(context.Background()) }()
	if !waitCh(inDoA) {
		o.Error = "execution A never reached the client"
		emit(o)
		return
	}
	go func() { doneB <- cu.Execute(context.Background()) }()
	time.Sleep(20 * time.Millisecond) // give B the chance to reach the mutex (not needed for soundness)
	close(relA)
	ra, rb := <-doneA, <-doneB
	o.RetAOwn, o.RetBOwn = ra == nil, rb == nil
	st, code := int(cu.JobStatus()), heldCode(cu)
	o.Status, o.WantStat = st, 1
	if codeB >= 400 {
		o.WantStat = 2
	}
	// whichever of the two reached the client second is the last to commit; the script makes that B
	o.TupleOK = st == o.WantStat && code == codeB && s.bodies.Load()-s.closed.Load() <= 1
	o.Detail = fmt.Sprintf("status=%d code=%d open_bodies=%d; last committed answered %d", st, code, s.bodies.Load()-s.closed.Load(), codeB)
	emit(o)
}
