// jobsh: correspondence harness for the built-in jobs (C16) and the isolated job (C17).
// Every sub-command prints JSON lines on stdout; the checks (checks/c16.py, checks/c17.py)
// apply the property oracles and compare with the Coq model.
//
//	jobsh isolated stress G N SEED   G goroutines x N calls of Execute on one isolated job (history)
//	jobsh isolated hold              deterministic: holder blocked inside the job, callers rejected, gate reopens
//	jobsh isolated sched MS          real scheduler (unbounded mode), interval < job duration, for MS milliseconds
//	jobsh http synthetic             codes 90..610 through a scripted HTTPHandler on one job object (x body x callback)
//	jobsh http server                codes 100..599 from a local httptest server on one job object (x body x callback)
//	jobsh http transport             refused / timeout / cancelled context
//	jobsh http dump                  DumpResponse(true) after every execution against a real server returns that execution's body (round3.go)
//	jobsh http stream                previous response's body kept open by the server (stalled / trickle); next execution under another context (round3.go)
//	jobsh shell nostart              executions that never start the shell (ctx done, shell missing / not executable) between ones that run (round3.go)
//	jobsh shell background           the shell exits while a background process keeps stdout/stderr open for 0.5 .. 4 s and writes late (round3.go)
//	jobsh shell exits                exit codes 0..255, signal, stale-status sequence on one object
//	jobsh shell sizes                output sizes 0 .. 1 MiB on stdout and stderr
//	jobsh func                       FunctionJob results / errors / zeroing
//	jobsh cancel                     cancellation aborts a function, an in-flight request, `sleep 10`
//	jobsh overlap                    channel-sequenced overlapping executions (A starts, B starts, B completes, A completes; and mirror)
//	jobsh conc KIND ROUNDS           8 goroutines on one job object (KIND = func | shell | curl)
//	jobsh leak N                     goroutines, server connections, descriptors before/after N executions
package main

import (
	"encoding/json"
	"fmt"
	"os"
	"strconv"
	"sync"
)

var outMu sync.Mutex
var enc = json.NewEncoder(os.Stdout)

func emit(v any) {
	outMu.Lock()
	defer outMu.Unlock()
	if err := enc.Encode(v); err != nil {
		fmt.Fprintln(os.Stderr, "encode:", err)
		os.Exit(3)
	}
}

func atoi(s string) int {
	n, err := strconv.Atoi(s)
	if err != nil {
		usage()
	}
	return n
}

func usage() {
	fmt.Fprintln(os.Stderr, "usage: jobsh isolated stress G N SEED | isolated hold | isolated sched MS | http synthetic|server|transport|stream|dump | shell exits|sizes|nostart|background | func | cancel | overlap | conc KIND ROUNDS | leak N")
	os.Exit(2)
}

func main() {
	a := os.Args[1:]
	if len(a) == 0 {
		usage()
	}
	switch {
	case a[0] == "isolated" && len(a) == 5 && a[1] == "stress":
		isolatedStress(atoi(a[2]), atoi(a[3]), int64(atoi(a[4])))
	case a[0] == "isolated" && len(a) == 2 && a[1] == "hold":
		isolatedHold()
	case a[0] == "isolated" && len(a) == 3 && a[1] == "sched":
		isolatedSched(atoi(a[2]))
	case a[0] == "http" && len(a) == 2 && a[1] == "synthetic":
		httpSynthetic()
	case a[0] == "http" && len(a) == 2 && a[1] == "server":
		httpServer()
	case a[0] == "http" && len(a) == 2 && a[1] == "transport":
		httpTransport()
	case a[0] == "http" && len(a) == 2 && a[1] == "dump":
		httpDump()
	case a[0] == "http" && len(a) == 2 && a[1] == "stream":
		httpStream()
	case a[0] == "shell" && len(a) == 2 && a[1] == "background":
		shellBackground()
	case a[0] == "shell" && len(a) == 2 && a[1] == "nostart":
		shellNoStart()
	case a[0] == "shell" && len(a) == 2 && a[1] == "exits":
		shellExits()
	case a[0] == "shell" && len(a) == 2 && a[1] == "sizes":
		shellSizes()
	case a[0] == "func" && len(a) == 1:
		funcCases()
	case a[0] == "cancel" && len(a) == 1:
		cancelCases()
	case a[0] == "overlap" && len(a) == 1:
		overlap()
	case a[0] == "conc" && len(a) == 3:
		conc(a[1], atoi(a[2]))
	case a[0] == "leak" && len(a) == 2:
		leak(atoi(a[1]))
	default:
		usage()
	}
}
