package main

// Round-3 scenario classes of the built-in-jobs harness (C16).
//
//	jobsh http stream     executions repeated on ONE CurlJob where the response of the earlier execution has a body
//	                      the server keeps open (stalled: nothing more is sent; trickle: a byte now and then), the
//	                      later execution runs under a different context: it must return (plain request), and
//	                      cancelling its context must abort it (request the server holds)
//	jobsh shell nostart   executions of ONE ShellJob in which the shell is never started (context already cancelled /
//	                      expired, shell not found on PATH, shell not executable) between executions that run: every
//	                      execution must leave its own outcome and call the callback once

import (
	"context"
	"errors"
	"fmt"
	"io"
	"net/http"
	"net/http/httptest"
	"os"
	"os/exec"
	"path/filepath"
	"strconv"
	"strings"
	"sync"
	"sync/atomic"
	"syscall"
	"time"

	"github.com/reugn/go-quartz/job"
)

// ---------------------------------------------------------------------------- long-lived response bodies

type streamObs struct {
	Kind     string `json:"kind"`
	Variant  string `json:"variant"`
	Body     string `json:"prev_body"` // how the server treats the body of the FIRST response: stalled | trickle
	FirstCtx string `json:"first_ctx"` // context of the first execution
	Second   string `json:"second"`    // plain (server answers 201 at once) | hang-cancel (server holds the request; ctx cancelled)

	FirstReturned bool `json:"first_returned"`
	FirstErrNil   bool `json:"first_err_nil"`
	FirstStatus   int  `json:"first_status"`
	FirstCode     int  `json:"first_code"`

	SecondReturned bool   `json:"second_returned"`  // Execute came back within the patience (after the cancellation, if any)
	SecondReached  bool   `json:"second_reached"`   // the second request reached the server before the verdict
	EverReturned   bool   `json:"returned_at_last"` // ... at least after the server ended the first response's stream
	Ms             int64  `json:"ms"`
	ErrNil         bool   `json:"err_nil"`
	ErrClass       string `json:"err_class"`
	Status         int    `json:"status"`
	Code           int    `json:"code"`
	CbCalls        int64  `json:"cb_calls"` // callbacks over both executions
	PatienceMs     int64  `json:"patience_ms"`
	Error          string `json:"error,omitempty"`
}

// pathClient sends the job's (fixed) request to the path chosen for the current step, over a real connection.
type pathClient struct {
	c    *http.Client
	path atomic.Value
}

func (p *pathClient) Do(req *http.Request) (*http.Response, error) {
	r2 := req.Clone(req.Context())
	r2.URL.Path = p.path.Load().(string)
	return p.c.Do(r2)
}

func streamCase(body, firstCtx, second string) *streamObs {
	const patience = 6 * time.Second
	o := &streamObs{Kind: "stream", Variant: body + "/first-ctx=" + firstCtx + "/" + second, Body: body, FirstCtx: firstCtx, Second: second,
		Status: -1, Code: -1, FirstStatus: -1, FirstCode: -1, PatienceMs: patience.Milliseconds()}
	release := make(chan struct{})
	var relOnce sync.Once
	rel := func() { relOnce.Do(func() { close(release) }) }
	reached := make(chan struct{}, 4)
	mux := http.NewServeMux()
	mux.HandleFunc("/stream", func(w http.ResponseWriter, r *http.Request) {
		w.Header().Set("Content-Type", "text/event-stream")
		w.WriteHeader(200)
		_, _ = io.WriteString(w, "data: first event\n\n")
		fl, _ := w.(http.Flusher)
		if fl != nil {
			fl.Flush()
		}
		tick := time.NewTicker(25 * time.Millisecond)
		defer tick.Stop()
		for {
			select {
			case <-release:
				return
			case <-r.Context().Done():
				return
			case <-tick.C:
				if body == "trickle" {
					if _, err := io.WriteString(w, "."); err != nil {
						return
					}
					if fl != nil {
						fl.Flush()
					}
				}
			}
		}
	})
	mux.HandleFunc("/plain", func(w http.ResponseWriter, r *http.Request) {
		reached <- struct{}{}
		w.WriteHeader(201)
		_, _ = io.WriteString(w, "done\n")
	})
	mux.HandleFunc("/hang", func(w http.ResponseWriter, r *http.Request) {
		reached <- struct{}{}
		select {
		case <-release:
		case <-r.Context().Done():
		}
	})
	srv := httptest.NewServer(mux)
	defer func() {
		rel()
		srv.CloseClientConnections()
		srv.Close()
	}()
	tr := &http.Transport{}
	defer tr.CloseIdleConnections()
	pc := &pathClient{c: &http.Client{Transport: tr}}
	req, _ := http.NewRequest(http.MethodGet, srv.URL+"/", nil)
	p := &cbProbe{}
	p.status.Store(-1)
	cu := job.NewCurlJobWithOptions(req, job.CurlJobOptions{HTTPClient: pc, Callback: p.fn})

	// contexts
	parent, cancelParent := context.WithCancel(context.Background())
	defer cancelParent()
	var ctx1 context.Context
	cancel1 := func() {}
	switch firstCtx {
	case "background":
		ctx1 = context.Background()
	case "own-live": // a context of its own that stays alive (e.g. the scheduler's)
		ctx1, cancel1 = context.WithCancel(context.Background())
	case "sibling": // both executions get children of one parent
		ctx1, cancel1 = context.WithCancel(parent)
	case "cancelled-after": // per-execution context, cancelled as soon as the execution returned
		ctx1, cancel1 = context.WithCancel(context.Background())
	}
	defer cancel1()

	// first execution: the server delivers the headers and one event, then keeps the body open
	pc.path.Store("/stream")
	done1 := make(chan error, 1)
	go func() { done1 <- cu.Execute(ctx1) }()
	select {
	case err := <-done1:
		o.FirstReturned, o.FirstErrNil = true, err == nil
		o.FirstStatus, o.FirstCode = int(cu.JobStatus()), heldCode(cu)
	case <-time.After(30 * time.Second):
		o.Error = "the first execution (headers delivered, body kept open by the server) did not return within 30 s"
		return o
	}
	if firstCtx == "cancelled-after" {
		cancel1()
	}

	// second execution under a different context
	var ctx2 context.Context
	var cancel2 context.CancelFunc
	if firstCtx == "sibling" {
		ctx2, cancel2 = context.WithCancel(parent)
	} else {
		ctx2, cancel2 = context.WithCancel(context.Background())
	}
	defer cancel2()
	if second == "plain" {
		pc.path.Store("/plain")
	} else {
		pc.path.Store("/hang")
	}
	done2 := make(chan error, 1)
	go func() { done2 <- cu.Execute(ctx2) }()
	var err2 error
	t0 := time.Now()
	if second == "hang-cancel" {
		// wait until the request is demonstrably in flight (or give up waiting), then cancel
		select {
		case <-reached:
			o.SecondReached = true
		case err2 = <-done2:
			o.SecondReturned = true // returned before the cancellation: judged by its outcome below
		case <-time.After(3 * time.Second):
		}
		cancel2()
		t0 = time.Now()
	}
	if !o.SecondReturned {
		select {
		case err2 = <-done2:
			o.SecondReturned = true
		case <-time.After(patience):
		}
	}
	o.Ms = time.Since(t0).Milliseconds()
	select {
	case <-reached:
		o.SecondReached = true
	default:
	}
	o.EverReturned = o.SecondReturned
	if !o.SecondReturned {
		// let the server end the first response's stream, so that the harness can clean up
		rel()
		select {
		case err2 = <-done2:
			o.EverReturned = true
		case <-time.After(20 * time.Second):
			return o // the getters would block on the job's mutex
		}
	}
	o.ErrNil, o.ErrClass = err2 == nil, errClass(err2)
	o.Status, o.Code, o.CbCalls = int(cu.JobStatus()), heldCode(cu), p.calls.Load()
	return o
}

func httpStream() {
	type variant struct{ body, fc, second string }
	var vs []variant
	for _, body := range []string{"stalled", "trickle"} {
		for _, fc := range []string{"background", "own-live", "sibling", "cancelled-after"} {
			for _, second := range []string{"plain", "hang-cancel"} {
				vs = append(vs, variant{body, fc, second})
			}
		}
	}
	out := make([]*streamObs, len(vs))
	var wg sync.WaitGroup
	for i, v := range vs {
		wg.Add(1)
		go func(i int, v variant) {
			defer wg.Done()
			out[i] = streamCase(v.body, v.fc, v.second)
		}(i, v)
	}
	wg.Wait()
	for _, o := range out {
		emit(o)
	}
}

// ---------------------------------------------------------------------------- the shell is never started

type noStartObs struct {
	shellObs
	ErrClass string `json:"err_class"` // "", canceled, deadline, notfound, noexec, exit, other
	Step     int    `json:"step"`
	Prev     string `json:"prev"` // what the previous execution on this object was
}

func shellErrClass(err error) string {
	var ee *exec.ExitError
	switch {
	case err == nil:
		return ""
	case errors.Is(err, context.Canceled):
		return "canceled"
	case errors.Is(err, context.DeadlineExceeded):
		return "deadline"
	case errors.Is(err, exec.ErrNotFound):
		return "notfound"
	case errors.Is(err, syscall.ENOEXEC) || errors.Is(err, syscall.EACCES):
		return "noexec"
	case errors.As(err, &ee):
		return "exit"
	}
	return "other"
}

func shellNoStart() {
	dir, _ := os.MkdirTemp("", "jobsh")
	defer os.RemoveAll(dir)
	// a directory whose bash / sh cannot be executed
	bad := filepath.Join(dir, "badbin")
	_ = os.Mkdir(bad, 0o755)
	for _, n := range []string{"bash", "sh"} {
		_ = os.WriteFile(filepath.Join(bad, n), []byte("\x00\x01not an executable\n"), 0o755)
	}
	origPath := os.Getenv("PATH")
	f := filepath.Join(dir, "n")

	type step struct {
		how  string // run | ctx-cancelled | ctx-expired | shell-missing | shell-not-executable
		exit int
	}
	execute := func(sh *job.ShellJob, p *shProbe, st step, o *noStartObs) {
		ctx, cancel := context.WithCancel(context.Background())
		defer cancel()
		wantOut, wantErr := "", ""
		switch st.how {
		case "run":
			_ = os.WriteFile(f, []byte(strconv.Itoa(st.exit)+"\n"), 0o600)
			wantOut, wantErr = fmt.Sprintf("o%d.%d", st.exit, o.Step), fmt.Sprintf("e%d.%d", st.exit, o.Step)
		case "ctx-cancelled":
			cancel()
		case "ctx-expired":
			var c2 context.CancelFunc
			ctx, c2 = context.WithDeadline(context.Background(), time.Now().Add(-time.Second))
			defer c2()
		case "shell-missing":
			_ = os.Setenv("PATH", filepath.Join(dir, "no-such-dir"))
			defer os.Setenv("PATH", origPath)
		case "shell-not-executable":
			_ = os.Setenv("PATH", bad)
			defer os.Setenv("PATH", origPath)
		}
		_ = os.WriteFile(filepath.Join(dir, "step"), []byte(strconv.Itoa(o.Step)+"\n"), 0o600)
		before := p.calls.Load()
		p.status.Store(-1)
		p.exit.Store(-99)
		err := sh.Execute(ctx)
		o.ErrNil, o.ErrClass, o.ErrExit = err == nil, shellErrClass(err), -2
		var ee *exec.ExitError
		if errors.As(err, &ee) {
			o.ErrExit = ee.ExitCode()
		}
		o.Exit, o.Status = sh.ExitCode(), int(sh.JobStatus())
		out, eout := sh.Stdout(), sh.Stderr()
		o.OutOK, o.ErrOK, o.OutLen, o.ErrLen = out == wantOut, eout == wantErr, len(out), len(eout)
		o.CbCalls, o.CbStatus, o.CbExit = p.calls.Load()-before, int(p.status.Load()), int(p.exit.Load())
	}
	cmd := fmt.Sprintf("read n < %s; read s < %s; printf o$n.$s; printf e$n.$s >&2; exit $n", f, filepath.Join(dir, "step"))
	for _, how := range []string{"ctx-cancelled", "ctx-expired", "shell-missing", "shell-not-executable"} {
		for _, cb := range []bool{true, false} {
			// the very first execution of an object is one that never starts the shell
			{
				sh, p := newShell(cmd, cb)
				o := &noStartObs{shellObs: shellObs{Kind: "shell", Variant: "nostart-" + how, Want: -1, Callback: cb}, Step: 0, Prev: "none (new job)"}
				execute(sh, p, step{how, 0}, o)
				emit(o)
			}
			// ... and between executions that run, on one object
			sh, p := newShell(cmd, cb)
			prev := "none (new job)"
			for i, st := range []step{{"run", 0}, {how, 0}, {"run", 0}, {"run", 3}, {how, 0}, {how, 0}, {"run", 0}} {
				v, want := "nostart-"+how, -1
				if st.how == "run" {
					v, want = "nostart-seq-run", st.exit
				}
				o := &noStartObs{shellObs: shellObs{Kind: "shell", Variant: v, Want: want, Callback: cb,
					Note: "one ShellJob: run(0), " + how + ", run(0), run(3), " + how + ", " + how + ", run(0)"}, Step: i + 1, Prev: prev}
				execute(sh, p, st, o)
				emit(o)
				prev = st.how
				if st.how == "run" {
					prev = fmt.Sprintf("run, exit %d", st.exit)
				}
			}
		}
	}
}

// ---------------------------------------------------------------------------- round 4: background process keeps the pipes

// shellBackground: the shell exits while a process it started in the background still holds the
// captured stdout / stderr pipe for a while and then writes some more.  The execution's outcome is
// the command's: status OK exactly when the shell exited 0, Execute returns nil then, and stdout /
// stderr are what the execution wrote (everything written before the pipes were closed).
// All variants run in parallel (they mostly sleep); no timing is asserted.
func shellBackground() {
	type variant struct {
		name     string
		hold     string // seconds, as the shell's sleep takes it
		cmd      string
		exit     int
		out, err string
	}
	var vs []variant
	for _, h := range []string{"0.5", "1.5", "4"} {
		vs = append(vs,
			variant{"stdout-late-write", h, fmt.Sprintf("(sleep %s; printf late) & printf early", h), 0, "earlylate", ""},
			variant{"stderr-late-write", h, fmt.Sprintf("(sleep %s; printf late >&2) & printf early >&2", h), 0, "", "earlylate"},
			variant{"both-held-silent", h, fmt.Sprintf("sleep %s & printf out; printf err >&2", h), 0, "out", "err"},
			variant{"late-write-exit-3", h, fmt.Sprintf("(sleep %s; printf late) & printf early; exit 3", h), 3, "earlylate", ""},
		)
	}
	out := make([]*shellObs, len(vs))
	var wg sync.WaitGroup
	for i, v := range vs {
		wg.Add(1)
		go func(i int, v variant) {
			defer wg.Done()
			cb := i%2 == 0
			sh, p := newShell(v.cmd, cb)
			o := &shellObs{Kind: "shell", Variant: "bg-" + v.name, Want: v.exit, Callback: cb,
				Note: "background process holds the pipe for " + v.hold + " s after the shell exited: " + v.cmd}
			runShell(sh, p, o, v.out, v.err)
			out[i] = o
		}(i, v)
	}
	wg.Wait()
	for _, o := range out {
		emit(o)
	}
}

// ---------------------------------------------------------------------------- round 5: the response of an execution, body included

type dumpObs struct {
	Kind     string `json:"kind"`
	Variant  string `json:"variant"`
	Callback bool   `json:"callback"`
	Step     int    `json:"step"`
	Code     int    `json:"want"` // code the server sent
	Size     int    `json:"size"` // bytes of body the server sent
	ErrNil   bool   `json:"err_nil"`
	Status   int    `json:"status"`
	Held     int    `json:"code"`
	CbCalls  int64  `json:"cb_calls"`
	DumpErr  string `json:"dump_err,omitempty"`  // error of DumpResponse(true) after Execute returned
	BodyOK   bool   `json:"body_ok"`             // the dumped body is what the server sent in THIS execution
	BodyLen  int    `json:"body_len"`            // length of the dumped body
	Dump2Err string `json:"dump2_err,omitempty"` // a second DumpResponse(true)
	Body2OK  bool   `json:"body2_ok"`
}

func dumpBody(step, size int) string {
	var sb strings.Builder
	for i := 0; sb.Len() < size; i++ {
		fmt.Fprintf(&sb, "[execution %d line %d]\n", step, i)
	}
	return sb.String()[:size]
}

// httpDump: after every execution of ONE CurlJob against a real server (bodies of 1 B .. 64 KiB, codes 200 / 404 / 500),
// with and without a callback (which does not touch the body), DumpResponse(true) must return the response of
// that execution, body included.
func httpDump() {
	srv := httptest.NewServer(http.HandlerFunc(func(w http.ResponseWriter, r *http.Request) {
		step, _ := strconv.Atoi(r.Header.Get("X-Step"))
		size, _ := strconv.Atoi(r.Header.Get("X-Size"))
		code, _ := strconv.Atoi(r.Header.Get("X-Want"))
		w.Header().Set("Content-Length", strconv.Itoa(size))
		w.Header().Set("Content-Type", "text/plain")
		w.WriteHeader(code)
		_, _ = io.WriteString(w, dumpBody(step, size))
	}))
	defer srv.Close()
	steps := []struct{ code, size int }{{200, 1}, {200, 4096}, {404, 300}, {200, 65536}, {500, 2048}, {200, 10000}, {200, 3}}
	for _, cb := range []bool{false, true} {
		tr := &http.Transport{}
		var cur atomic.Int64
		h := handlerFunc(func(req *http.Request) (*http.Response, error) {
			i := int(cur.Load())
			req.Header.Set("X-Step", strconv.Itoa(i))
			req.Header.Set("X-Size", strconv.Itoa(steps[i].size))
			req.Header.Set("X-Want", strconv.Itoa(steps[i].code))
			return (&http.Client{Transport: tr}).Do(req)
		})
		req, _ := http.NewRequest(http.MethodGet, srv.URL+"/", nil)
		cu, p := newCurl(req, h, cb)
		for i, st := range steps {
			cur.Store(int64(i))
			before := p.calls.Load()
			err := cu.Execute(context.Background())
			o := &dumpObs{Kind: "dump", Variant: "server-body", Callback: cb, Step: i, Code: st.code, Size: st.size, ErrNil: err == nil,
				Status: int(cu.JobStatus()), Held: heldCode(cu), CbCalls: p.calls.Load() - before}
			want := dumpBody(i, st.size)
			check := func() (string, bool, int) {
				b, err := cu.DumpResponse(true)
				if err != nil {
					return err.Error(), false, 0
				}
				parts := strings.SplitN(string(b), "\r\n\r\n", 2)
				if len(parts) != 2 {
					return "", false, -1
				}
				return "", parts[1] == want, len(parts[1])
			}
			o.DumpErr, o.BodyOK, o.BodyLen = check()
			o.Dump2Err, o.Body2OK, _ = check()
			emit(o)
		}
		tr.CloseIdleConnections()
	}
}
