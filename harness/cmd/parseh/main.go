// parseh: correspondence harness of the cron parser (property C07).
//
// stdin : one case per line, the expression hex encoded (empty line = empty string)
// stdout: one line per case, in the format of /verif/ocaml/parser/driver.ml
//
//	E                          every entry point rejects, each with an error matching ErrCronParse
//	O <fields> T <fields>      every entry point accepts: parsed fields (hook VerifParseFields) and the
//	                           fields the trigger acts on (hook VerifTriggerFields)
//	X <json>                   anything else: a panic, entry points that disagree, a rejection whose
//	                           error does not match ErrCronParse, a nil trigger without error
//
// <fields> = sec|min|hour|dom|mon|dow|year|dom_n|dow_n, value lists comma separated.
// Every call runs under recover.
package main

import (
	"bufio"
	"encoding/hex"
	"encoding/json"
	"errors"
	"fmt"
	"os"
	"strconv"
	"strings"

	"github.com/reugn/go-quartz/quartz"
)

type outcome struct {
	Panic string `json:"panic,omitempty"`
	Err   string `json:"err,omitempty"`
	IsCP  bool   `json:"is_cron_parse"`
	OK    bool   `json:"ok"`
}

func guard(o *outcome, f func() error) {
	defer func() {
		if r := recover(); r != nil {
			o.Panic = fmt.Sprint(r)
			o.OK = false
		}
	}()
	err := f()
	if err != nil {
		o.Err = err.Error()
		o.IsCP = errors.Is(err, quartz.ErrCronParse)
		return
	}
	o.OK = true
}

func fieldsText(b *strings.Builder, f quartz.VerifFields) {
	for i := 0; i < 7; i++ {
		for j, v := range f.Values[i] {
			if j > 0 {
				b.WriteByte(',')
			}
			b.WriteString(strconv.Itoa(v))
		}
		b.WriteByte('|')
	}
	b.WriteString(strconv.Itoa(f.N[3]))
	b.WriteByte('|')
	b.WriteString(strconv.Itoa(f.N[5]))
}

// nOther reports markers in fields that never carry one (they are not part of the projected form).
func nOther(f quartz.VerifFields) bool {
	for _, i := range []int{0, 1, 2, 4, 6} {
		if f.N[i] != 0 {
			return true
		}
	}
	return false
}

func main() {
	in := bufio.NewScanner(os.Stdin)
	in.Buffer(make([]byte, 1<<20), 1<<26)
	w := bufio.NewWriterSize(os.Stdout, 1<<16)
	defer w.Flush()
	for in.Scan() {
		raw, err := hex.DecodeString(strings.TrimSpace(in.Text()))
		if err != nil {
			fmt.Fprintln(os.Stderr, "bad hex input:", err)
			os.Exit(2)
		}
		expr := string(raw)
		var po, vo, to outcome
		var pf, tf quartz.VerifFields
		nilTrigger := false
		guard(&po, func() error {
			f, err := quartz.VerifParseFields(expr)
			pf = f
			return err
		})
		guard(&vo, func() error { return quartz.ValidateCronExpression(expr) })
		guard(&to, func() error {
			ct, err := quartz.NewCronTrigger(expr)
			if err != nil {
				return err
			}
			if ct == nil {
				nilTrigger = true
				return nil
			}
			tf = quartz.VerifTriggerFields(ct)
			return nil
		})
		clean := po.Panic == "" && vo.Panic == "" && to.Panic == "" && !nilTrigger
		switch {
		case clean && po.OK && vo.OK && to.OK && !nOther(pf) && !nOther(tf):
			var b strings.Builder
			b.WriteString("O ")
			fieldsText(&b, pf)
			b.WriteString(" T ")
			fieldsText(&b, tf)
			w.WriteString(b.String())
			w.WriteByte('\n')
		case clean && !po.OK && !vo.OK && !to.OK && po.IsCP && vo.IsCP && to.IsCP:
			w.WriteString("E\n")
		default:
			j, _ := json.Marshal(map[string]any{"parse": po, "validate": vo, "trigger": to, "nil_trigger": nilTrigger,
				"marker_in_plain_field": po.OK && nOther(pf)})
			w.WriteString("X ")
			w.Write(j)
			w.WriteByte('\n')
		}
	}
}
