package main

func cmdLife()       {}
func cmdModes()      {}
func cmdRetry()      {}
func cmdRetryChild() {}
func cmdDirect()     {}
func cmdFaults()     {}
