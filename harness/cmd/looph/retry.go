package main

import (
	"context"
	"encoding/json"
	"errors"
	"fmt"
	"math"
	"os"
	"os/exec"
	"strings"
	"sync"
	"sync/atomic"
	"time"

	"github.com/reugn/go-quartz/quartz"
)

// C13: scripted jobs.  A child process runs one scheduler with a batch of scripted jobs (so that an
// unrecovered panic, which kills the process, is itself observed); cancellation scenarios and the
// direct calls of executeWithRetries run one job each.

type retrySpec struct {
	Name     string   `json:"name"`
	Script   []string `json:"script"` // outcome of the k-th attempt of the FIRST fire: ok | fail | panic ; afterwards ok
	MaxR     int      `json:"maxr"`
	Interval int      `json:"interval_ms"`
	DurMs    int      `json:"dur_ms"` // every attempt of a failing outcome takes this long
	Forever  bool     `json:"forever"` // the job fails on every attempt
	// what the job's Description() does: "" returns its name | "panic" panics | "nilderef" dereferences a nil
	// field of the job (and then a "panic" outcome of Execute is a dereference of the same nil field)
	Desc string `json:"desc,omitempty"`
}

type retryBatch struct {
	Mode   string      `json:"mode"`
	Limit  int         `json:"limit"`
	Cancel string      `json:"cancel"` // none | before_wait | during_wait | during_attempt
	Specs  []retrySpec `json:"specs"`
}

type attemptRec struct {
	Start int64 `json:"s"` // us
	End   int64 `json:"e"`
}

type retryObs struct {
	Kind      string       `json:"kind"`
	Via       string       `json:"via"` // scheduler | direct
	Mode      string       `json:"mode"`
	Cancel    string       `json:"cancel"`
	Spec      retrySpec    `json:"spec"`
	Attempts  []attemptRec `json:"attempts"`  // of the first fire
	Attempts2 []attemptRec `json:"attempts2"` // of the second fire (same script again)
	LaterFire int64        `json:"later_fires"` // executions belonging to later fire times
	Sibling   int64        `json:"sibling_after"`
	WaitOK    bool         `json:"wait_returned"`
	Crashed   bool         `json:"crashed"`
	Returned  bool         `json:"returned"` // direct: the call returned normally
	Detail    string       `json:"detail,omitempty"`
	AfterStop int          `json:"attempts_after_stop"` // zero_interval: attempts started later than 50 ms after Stop returned
}

type scripted struct {
	spec     retrySpec
	trig     *scriptTrigger
	base     time.Time
	mu       sync.Mutex
	first    []attemptRec
	second   []attemptRec
	k        int // attempts of the first fire so far
	k2       int
	later    atomic.Int64
	onAttempt func(k int, ctx context.Context) // hook for cancellation scenarios (called inside attempt k of the first fire)
	fireOf   func() int
	dep      *jobDep // a dependency the job was built without when spec.Desc == "nilderef"
}

type jobDep struct{ label string }

// Description is user code like Execute: a job that is broken badly enough (built with a nil dependency, a
// typed-nil receiver) panics here as well.  Nothing the scheduler does with a job may take the process down.
func (j *scripted) Description() string {
	switch j.spec.Desc {
	case "panic":
		panic("scripted panic in Description()")
	case "nilderef":
		return j.dep.label
	}
	return j.spec.Name
}
func (j *scripted) Execute(ctx context.Context) error {
	fire := j.fireOf()
	if fire > 2 {
		j.later.Add(1)
		return nil
	}
	j.mu.Lock()
	recs, k := &j.first, j.k
	if fire == 2 {
		// the second fire time replays the same script: the retry budget is per execution
		recs, k = &j.second, j.k2
		j.k2++
		if k == 0 {
			j.later.Add(1)
		}
	} else {
		j.k++
	}
	st := int64(time.Since(j.base) / time.Microsecond)
	*recs = append(*recs, attemptRec{Start: st, End: -1})
	j.mu.Unlock()
	out := "ok"
	if k < len(j.spec.Script) {
		out = j.spec.Script[k]
	}
	if j.spec.Forever {
		out = "fail"
	}
	if j.onAttempt != nil && fire <= 1 {
		j.onAttempt(k, ctx)
	}
	if out != "ok" && out != "panic" && j.spec.DurMs > 0 {
		time.Sleep(time.Duration(j.spec.DurMs) * time.Millisecond)
	}
	j.mu.Lock()
	(*recs)[k].End = int64(time.Since(j.base) / time.Microsecond)
	j.mu.Unlock()
	switch out {
	case "fail":
		return errors.New("scripted failure")
	case "deadline": // the job's own per-attempt timeout, not the scheduler's context
		return context.DeadlineExceeded
	case "wrapcancel":
		return fmt.Errorf("upstream call aborted: %w", context.Canceled)
	case "panic":
		if j.spec.Desc == "nilderef" {
			return errors.New(j.dep.label) // nil pointer dereference
		}
		panic("scripted panic")
	}
	return nil
}

func newScripted(sp retrySpec, base time.Time, later time.Duration) (*scripted, *quartz.JobDetail, *scriptTrigger) {
	tr := relTrigger(2*time.Millisecond, later, later, later, later)
	j := &scripted{spec: sp, trig: tr, base: base}
	j.fireOf = func() int { tr.mu.Lock(); defer tr.mu.Unlock(); return tr.calls - 1 }
	jd := quartz.NewJobDetailWithOptions(j, quartz.NewJobKey(sp.Name),
		&quartz.JobDetailOptions{MaxRetries: sp.MaxR, RetryInterval: time.Duration(sp.Interval) * time.Millisecond})
	return j, jd, tr
}

func runRetryBatch(b retryBatch) []retryObs {
	var opts []quartz.SchedulerOpt
	switch b.Mode {
	case "blocking":
		opts = append(opts, quartz.WithBlockingExecution())
	case "pool":
		opts = append(opts, quartz.WithWorkerLimit(b.Limit))
	}
	opts = append(opts, quartz.WithOutdatedThreshold(time.Minute))
	s, _ := quartz.NewStdScheduler(opts...)
	base := time.Now()
	var sib atomic.Int64
	later := 900 * time.Millisecond
	if b.Mode == "blocking" {
		later = 2500 * time.Millisecond
	}
	var js []*scripted
	stopCalled := make(chan struct{})
	var stopOnce sync.Once
	doStop := func() { stopOnce.Do(func() { s.Stop(); close(stopCalled) }) }
	for _, sp := range b.Specs {
		j, jd, tr := newScripted(sp, base, later)
		switch b.Cancel {
		case "before_wait":
			j.onAttempt = func(k int, ctx context.Context) {
				if k == 0 {
					doStop() // the context is done before the first retry wait begins
				}
			}
		case "during_wait":
			j.onAttempt = func(k int, ctx context.Context) {
				if k == 0 {
					go func() { time.Sleep(time.Duration(sp.Interval) * time.Millisecond / 3); doStop() }()
				}
			}
		case "zero_interval":
			j.onAttempt = func(k int, ctx context.Context) {
				if k == 3 {
					go doStop()
				}
				time.Sleep(200 * time.Microsecond)
			}
		case "during_attempt":
			j.onAttempt = func(k int, ctx context.Context) {
				if k == 1 {
					go func() { time.Sleep(5 * time.Millisecond); doStop() }()
					select {
					case <-ctx.Done():
					case <-time.After(5 * time.Second):
					}
				}
			}
		}
		if err := s.ScheduleJob(jd, tr); err != nil {
			panic(err)
		}
		js = append(js, j)
	}
	s.ScheduleJob(detail("sibling", func(context.Context) error { sib.Add(1); return nil }), quartz.NewSimpleTrigger(10*time.Millisecond))
	s.Start(context.Background())
	out := make([]retryObs, len(js))
	if b.Cancel == "none" {
		// every job gets a later fire time executed (after a panic too), the sibling keeps running
		pollUntil(12*time.Second, func() bool {
			for _, j := range js {
				if j.later.Load() == 0 {
					return false
				}
			}
			return true
		})
		// let the second fire's retry sequence finish
		time.Sleep(time.Duration(8*(maxInterval(b.Specs)+maxDur(b.Specs))+80) * time.Millisecond)
		s0 := sib.Load()
		pollUntil(3*time.Second, func() bool { return sib.Load() >= s0+3 })
		for i := range out {
			out[i].Sibling = sib.Load() - s0
		}
	} else {
		select {
		case <-stopCalled:
		case <-time.After(8 * time.Second):
		}
		time.Sleep(time.Duration(60+2*maxInterval(b.Specs)) * time.Millisecond)
	}
	stopAt := int64(time.Since(base) / time.Microsecond)
	waitOK := stopAndWait(s, 6*time.Second)
	for i, j := range js {
		j.mu.Lock()
		if b.Cancel == "zero_interval" {
			for _, a := range j.first {
				if a.Start > stopAt+50000 {
					out[i].AfterStop++
				}
			}
			if len(j.first) > 400 {
				j.first = j.first[:400]
			}
		}
		out[i].Kind, out[i].Via, out[i].Mode, out[i].Cancel, out[i].Spec = "retry", "scheduler", b.Mode, b.Cancel, j.spec
		out[i].Attempts = append([]attemptRec{}, j.first...)
		out[i].Attempts2 = append([]attemptRec{}, j.second...)
		out[i].LaterFire = j.later.Load()
		out[i].WaitOK = waitOK
		j.mu.Unlock()
	}
	return out
}

func maxDur(sp []retrySpec) int {
	m := 0
	for _, s := range sp {
		if s.DurMs > m {
			m = s.DurMs
		}
	}
	return m
}

func maxInterval(sp []retrySpec) int {
	m := 0
	for _, s := range sp {
		if s.Interval > m {
			m = s.Interval
		}
	}
	return m
}

func cmdRetryChild() {
	var b retryBatch
	if err := json.Unmarshal([]byte(os.Args[2]), &b); err != nil {
		fmt.Fprintln(os.Stderr, err)
		os.Exit(2)
	}
	for _, o := range runRetryBatch(b) {
		emit(o)
	}
}

func scripts() [][]string {
	rep := func(s string, n int) []string {
		out := make([]string, n)
		for i := range out {
			out[i] = s
		}
		return out
	}
	var out [][]string
	for _, k := range []int{0, 1, 2, 3, 5, 8} {
		out = append(out, append(rep("fail", k), "ok"))
	}
	out = append(out, rep("fail", 12)) // always failing
	out = append(out, []string{"deadline", "deadline", "ok"}, []string{"wrapcancel", "fail", "deadline", "ok"})
	for _, j := range []int{0, 1, 2, 4} {
		out = append(out, append(rep("fail", j), "panic", "ok"))
	}
	return out
}

func specsFor(interval int, maxrs []int, tag string) []retrySpec {
	var out []retrySpec
	for si, sc := range scripts() {
		for _, m := range maxrs {
			sp := retrySpec{Name: fmt.Sprintf("%s_s%d_m%d_i%d", tag, si, m, interval), Script: sc, MaxR: m, Interval: interval}
			if interval == 1 && (si+m)%2 == 0 {
				sp.DurMs = 4 // attempts that outlast the retry interval
			}
			out = append(out, sp)
		}
	}
	return out
}

// jobs that are broken in Description() as well
func descSpecs(tag string) []retrySpec {
	rep := func(s string, n int) []string {
		out := make([]string, n)
		for i := range out {
			out[i] = s
		}
		return out
	}
	var out []retrySpec
	add := func(sc []string, m int, desc string) {
		out = append(out, retrySpec{Name: fmt.Sprintf("%s_%d_m%d_%s", tag, len(out), m, desc), Script: sc, MaxR: m, Interval: 1, Desc: desc})
	}
	for _, desc := range []string{"panic", "nilderef"} {
		add([]string{"panic", "ok"}, 2, desc)         // Execute panics at once
		add([]string{"fail", "panic", "ok"}, 3, desc) // ... on a retry
		add(rep("fail", 12), 0, desc)                 // Execute only fails: no retries configured
		add(rep("fail", 12), 2, desc)                 // ... retries used up
		add([]string{"fail", "ok"}, 1, desc)          // succeeds on its retry
	}
	return out
}

func runChild(b retryBatch) []retryObs {
	arg, _ := json.Marshal(b)
	cmd := exec.Command(os.Args[0], "retrychild", string(arg))
	var sb, eb strings.Builder
	cmd.Stdout, cmd.Stderr = &sb, &eb
	err := cmd.Run()
	var out []retryObs
	for _, l := range strings.Split(sb.String(), "\n") {
		if strings.HasPrefix(l, "{") {
			var o retryObs
			if json.Unmarshal([]byte(l), &o) == nil {
				out = append(out, o)
			}
		}
	}
	if err != nil || len(out) != len(b.Specs) {
		tail := eb.String()
		if len(tail) > 1500 {
			tail = tail[:1500]
		}
		// the process died: report every spec of the batch as crashed (the caller narrows it down)
		out = nil
		for _, sp := range b.Specs {
			out = append(out, retryObs{Kind: "retry", Via: "scheduler", Mode: b.Mode, Cancel: b.Cancel, Spec: sp, Crashed: true, Detail: tail})
		}
	}
	return out
}

func cmdRetry() {
	tier := argStr(3, "quick")
	maxrs := []int{-1, 0, 1, 2, 3, 7}
	var batches []retryBatch
	batches = append(batches,
		retryBatch{Mode: "unbounded", Cancel: "none", Specs: append(specsFor(0, maxrs, "u"), specsFor(1, maxrs, "u")...)},
		retryBatch{Mode: "unbounded", Cancel: "none", Specs: specsFor(20, maxrs, "u")},
		retryBatch{Mode: "pool", Limit: 8, Cancel: "none", Specs: append(specsFor(1, []int{-1, 0, 1, 3}, "p"), specsFor(20, []int{2, 7}, "p")...)},
		retryBatch{Mode: "blocking", Cancel: "none", Specs: append(specsFor(0, []int{0, 2, 7}, "b"), specsFor(1, []int{-1, 1, 3}, "b")...)},
	)
	// MaxRetries at the ends of its type: the budget is max(0, MaxRetries) whatever the value
	extremes := []int{math.MaxInt, math.MaxInt - 1, math.MinInt, math.MinInt + 1}
	batches = append(batches,
		retryBatch{Mode: "unbounded", Cancel: "none", Specs: append(specsFor(0, extremes, "xu"), specsFor(1, []int{math.MaxInt, math.MinInt}, "xu")...)},
		retryBatch{Mode: "pool", Limit: 4, Cancel: "none", Specs: specsFor(1, []int{math.MaxInt, math.MaxInt - 1, math.MinInt}, "xp")},
		retryBatch{Mode: "blocking", Cancel: "none", Specs: specsFor(0, []int{math.MaxInt, math.MinInt}, "xb")},
	)
	// jobs whose Description() panics: whether Execute panics, fails until the retries are used up or succeeds,
	// the scheduler, the other jobs and Wait are unaffected (a batch of their own: a dying process is narrowed
	// down spec by spec)
	for _, m := range []struct {
		mode  string
		limit int
		tag   string
	}{{"unbounded", 0, "du"}, {"pool", 2, "dp"}, {"blocking", 0, "db"}} {
		batches = append(batches, retryBatch{Mode: m.mode, Limit: m.limit, Cancel: "none", Specs: descSpecs(m.tag)})
	}
	if tier == "thorough" {
		batches = append(batches,
			retryBatch{Mode: "pool", Limit: 2, Cancel: "none", Specs: specsFor(1, maxrs, "p2")},
			retryBatch{Mode: "pool", Limit: 8, Cancel: "none", Specs: specsFor(20, maxrs, "p8")},
			retryBatch{Mode: "blocking", Cancel: "none", Specs: specsFor(20, []int{0, 1, 2, 3}, "b20")},
		)
	}
	for _, mode := range []string{"unbounded", "pool", "blocking"} {
		for _, c := range []string{"before_wait", "during_wait", "during_attempt"} {
			iv := 60
			if c == "before_wait" {
				iv = 40
			}
			batches = append(batches, retryBatch{Mode: mode, Limit: 2, Cancel: c,
				Specs: []retrySpec{{Name: "c_" + mode + "_" + c, Script: []string{"fail", "fail", "fail", "fail", "ok"}, MaxR: 5, Interval: iv}}})
		}
		batches = append(batches, retryBatch{Mode: mode, Limit: 2, Cancel: "before_wait",
			Specs: []retrySpec{{Name: "c0_" + mode, Script: []string{"fail", "fail", "fail", "ok"}, MaxR: 5, Interval: 0}}})
		batches = append(batches, retryBatch{Mode: mode, Limit: 2, Cancel: "zero_interval",
			Specs: []retrySpec{{Name: "z0_" + mode, Script: []string{"fail"}, MaxR: 2000000, Interval: 0, Forever: true}}})
	}
	only := argStr(4, "")
	var wg sync.WaitGroup
	sem := make(chan struct{}, 8)
	for _, b := range batches {
		b := b
		if only != "" {
			var keep []retrySpec
			for _, sp := range b.Specs {
				if sp.Name == only {
					keep = append(keep, sp)
				}
			}
			if len(keep) == 0 {
				continue
			}
			b.Specs = keep
		}
		wg.Add(1)
		go func() {
			defer wg.Done()
			sem <- struct{}{}
			defer func() { <-sem }()
			obs := runChild(b)
			if len(obs) > 1 && obs[0].Crashed {
				// narrow a crashed batch down to the specs that crash on their own
				for _, sp := range b.Specs {
					one := runChild(retryBatch{Mode: b.Mode, Limit: b.Limit, Cancel: b.Cancel, Specs: []retrySpec{sp}})
					for _, o := range one {
						emit(o)
					}
				}
				return
			}
			for _, o := range obs {
				emit(o)
			}
		}()
	}
	wg.Wait()
}

// ---- direct calls of executeWithRetries through the verif hook ----
func cmdDirect() {
	s, _ := quartz.NewStdScheduler()
	base := time.Now()
	var all []retryObs
	for _, iv := range []int{0, 1} {
		for si, sc := range scripts() {
			for _, m := range []int{-1, 0, 1, 2, 3, 7, math.MaxInt, math.MaxInt - 1, math.MinInt} {
				for _, cancel := range []string{"none", "precancelled"} {
					if cancel == "precancelled" && iv == 0 {
						continue // both select arms ready: the outcome is not determined
					}
					sp := retrySpec{Name: fmt.Sprintf("d_s%d_m%d_i%d", si, m, iv), Script: sc, MaxR: m, Interval: iv * 5}
					if cancel == "none" {
						sp.Interval = iv
					}
					j, jd, tr := newScripted(sp, base, time.Hour)
					tr.calls = 2 // first fire
					ctx, c := context.WithCancel(context.Background())
					if cancel == "precancelled" {
						c()
					}
					o := retryObs{Kind: "retry", Via: "direct", Mode: "direct", Cancel: cancel, Spec: sp}
					func() {
						defer func() {
							if r := recover(); r != nil {
								o.Crashed = true
								o.Detail = fmt.Sprint(r)
							}
						}()
						quartz.VerifExecuteWithRetries(s, ctx, jd)
						o.Returned = true
					}()
					c()
					o.Attempts = j.first
					o.WaitOK = true
					all = append(all, o)
				}
			}
		}
	}
	for _, o := range all {
		emit(o)
	}
}
