package main

import (
	"context"
	"fmt"
	"math"
	"sync"
	"sync/atomic"
	"time"

	"github.com/reugn/go-quartz/quartz"
)

// within runs f under a watchdog; false: f did not return within d (the goroutine is left behind)
func within(d time.Duration, f func()) bool {
	done := make(chan struct{})
	go func() { f(); close(done) }()
	select {
	case <-done:
		return true
	case <-time.After(d):
		return false
	}
}

// ---------------------------------------------------------------------------------------------
// C05: scheduler options at their extremes and a misfire listener that does not keep up.
//   misfire:   MisfiredChan of capacity cap with a listener that never drains / drains slowly, k > cap jobs
//              scheduled in the past beyond OutdatedThreshold (k misfires in a row), then a job due shortly:
//              it is dispatched promptly and the API calls made meanwhile return.
//   threshold: OutdatedThreshold in {MaxInt64, MaxInt64/2, 1 h, 2 s, default, 1 ns} x RetryInterval in
//              {default, 1 ns, MaxInt64}, a stored job whose fire time is at the end of the int64 range, a job due
//              at once and one due shortly: each is executed (threshold >= 2 s) or at least executed-or-reported
//              as misfired (tiny thresholds: being late by more than the threshold is a legitimate misfire).
// ---------------------------------------------------------------------------------------------
type optsResult struct {
	Kind        string `json:"kind"` // opts
	Test        string `json:"test"` // misfire | threshold
	Trial       int    `json:"trial"`
	Mode        string `json:"mode"`
	Cap         int    `json:"misfired_chan_cap"`
	Listener    string `json:"listener"` // never | slow | none
	K           int    `json:"misfires_in_a_row"`
	Threshold   int64  `json:"outdated_threshold_ns"`
	RetryIvl    int64  `json:"retry_interval_ns"`
	DueExecs    int32  `json:"due_execs"`      // the job due shortly
	NowExecs    int32  `json:"due_now_execs"`  // threshold: the job due at once
	Misfired    int32  `json:"reported_misfired"` // threshold: due jobs that arrived on MisfiredChan instead
	FarExecs    int32  `json:"far_future_job_execs"`
	APIHung     string `json:"api_call_hung,omitempty"`
	StopHung    bool   `json:"stop_hung"`
	WaitOK      bool   `json:"wait_returned"`
	MustExecute bool   `json:"must_execute"`
	Ancient     int64  `json:"overdue_head_fire_time"`
}

func runMisfire(trial int, mode string, capacity, k int, listener string) optsResult {
	res := optsResult{Kind: "opts", Test: "misfire", Trial: trial, Mode: mode, Cap: capacity, Listener: listener, K: k, Threshold: int64(2 * time.Second), MustExecute: true}
	mis := make(chan quartz.ScheduledJob, capacity)
	opts := append(modeOpts(mode, 2)[:len(modeOpts(mode, 2))-1], quartz.WithOutdatedThreshold(2*time.Second), quartz.WithMisfiredChan(mis))
	s, _ := quartz.NewStdScheduler(opts...)
	stopDrain := make(chan struct{})
	defer close(stopDrain)
	if listener == "slow" {
		go func() {
			for {
				select {
				case <-mis:
					select {
					case <-time.After(150 * time.Millisecond):
					case <-stopDrain:
						return
					}
				case <-stopDrain:
					return
				}
			}
		}()
	}
	for i := 0; i < k; i++ {
		// first fire time ten seconds in the past: outdated; re-based to an hour from now
		s.ScheduleJob(detail(fmt.Sprintf("late%d", i), func(context.Context) error { return nil }), relTrigger(-10*time.Second, time.Hour, 2*time.Hour))
	}
	s.Start(context.Background())
	time.Sleep(40 * time.Millisecond) // the loop meets the misfires
	var due atomic.Int32
	hung := func(name string, f func()) {
		if res.APIHung == "" && !within(5*time.Second, f) {
			res.APIHung = name
		}
	}
	hung("ScheduleJob", func() {
		s.ScheduleJob(detail("due", func(context.Context) error { due.Add(1); return nil }), relTrigger(10*time.Millisecond, time.Hour))
	})
	hung("DeleteJob", func() { s.DeleteJob(quartz.NewJobKey("late0")) })
	hung("GetJobKeys", func() { s.GetJobKeys() })
	limit := 5 * time.Second
	if listener == "slow" {
		limit = time.Duration(k)*150*time.Millisecond + 5*time.Second
	}
	pollUntil(limit, func() bool { return due.Load() > 0 })
	time.Sleep(10 * time.Millisecond)
	res.DueExecs = due.Load()
	// let a scheduler that is stuck on the channel go, then stop it
	go func() {
		for {
			select {
			case <-mis:
			case <-stopDrain:
				return
			}
		}
	}()
	res.StopHung = !within(6*time.Second, func() { res.WaitOK = stopAndWait(s, 6*time.Second) })
	return res
}

func runThreshold(trial int, mode string, thr, ri time.Duration) optsResult {
	return runThresholdA(trial, mode, thr, ri, 0)
}

// ancient != 0: the head of the queue is a job whose fire time is hopelessly overdue (MinInt64, -1<<62): it is
// dropped as a misfire and the due jobs behind it are dispatched
func runThresholdA(trial int, mode string, thr, ri time.Duration, ancient int64) optsResult {
	res := optsResult{Ancient: ancient, Kind: "opts", Test: "threshold", Trial: trial, Mode: mode, Listener: "none", Cap: 64, Threshold: int64(thr), RetryIvl: int64(ri),
		MustExecute: thr >= 2*time.Second}
	mis := make(chan quartz.ScheduledJob, 64)
	o := modeOpts(mode, 2)
	o = append(o[:len(o)-1], quartz.WithMisfiredChan(mis))
	if thr != 0 {
		o = append(o, quartz.WithOutdatedThreshold(thr))
	}
	if ri != 0 {
		o = append(o, quartz.WithRetryInterval(ri))
	}
	s, _ := quartz.NewStdScheduler(o...)
	var due, now, far atomic.Int32
	// a stored job whose fire time is at the very end of the range (not paused): never due, never outdated
	s.ScheduleJob(detail("far", func(context.Context) error { far.Add(1); return nil }), &scriptTrigger{next: []int64{math.MaxInt64 - 1000, math.MaxInt64 - 10}})
	s.ScheduleJob(detail("now", func(context.Context) error { now.Add(1); return nil }), relTrigger(-time.Microsecond, time.Hour))
	if ancient != 0 {
		s.ScheduleJob(detail("ancient", func(context.Context) error { return nil }), &scriptTrigger{next: []int64{ancient}})
	}
	s.Start(context.Background())
	s.ScheduleJob(detail("due", func(context.Context) error { due.Add(1); return nil }), relTrigger(15*time.Millisecond, time.Hour))
	var misDue, misNow atomic.Int32
	stop := make(chan struct{})
	go func() {
		for {
			select {
			case j := <-mis:
				switch j.JobDetail().JobKey().Name() {
				case "due":
					misDue.Add(1)
				case "now":
					misNow.Add(1)
				}
			case <-stop:
				return
			}
		}
	}()
	pollUntil(5*time.Second, func() bool { return due.Load()+misDue.Load() > 0 && now.Load()+misNow.Load() > 0 })
	time.Sleep(10 * time.Millisecond)
	res.DueExecs, res.NowExecs, res.FarExecs = due.Load(), now.Load(), far.Load()
	res.Misfired = misDue.Load() + misNow.Load()
	if !res.MustExecute {
		// executed or reported: count a report as served
		if res.DueExecs == 0 && misDue.Load() > 0 {
			res.DueExecs = 1
		}
		if res.NowExecs == 0 && misNow.Load() > 0 {
			res.NowExecs = 1
		}
	}
	res.StopHung = !within(6*time.Second, func() { res.WaitOK = stopAndWait(s, 6*time.Second) })
	close(stop)
	return res
}

func cmdOpts() {
	var wg sync.WaitGroup
	sem := make(chan struct{}, 8)
	trial := 0
	run := func(f func(t int) optsResult) {
		t := trial
		trial++
		wg.Add(1)
		go func() {
			defer wg.Done()
			sem <- struct{}{}
			defer func() { <-sem }()
			emit(f(t))
		}()
	}
	modes := []string{"unbounded", "pool", "blocking"}
	i := 0
	for _, c := range []int{0, 1, 2} {
		for _, l := range []string{"never", "slow"} {
			c, l, m := c, l, modes[i%3]
			i++
			run(func(t int) optsResult { return runMisfire(t, m, c, c+2, l) })
		}
	}
	run(func(t int) optsResult { return runMisfire(t, "unbounded", 1, 6, "never") })
	max := time.Duration(math.MaxInt64)
	for _, thr := range []time.Duration{max, max / 2, time.Hour, 2 * time.Second, 0, time.Nanosecond} {
		for _, ri := range []time.Duration{0, time.Nanosecond, max} {
			thr, ri, m := thr, ri, modes[i%3]
			i++
			run(func(t int) optsResult { return runThreshold(t, m, thr, ri) })
		}
	}
	// a hopelessly overdue head; both orders of the two execution options
	for _, a := range []int64{math.MinInt64, math.MinInt64 + 1, -1 << 62, -1} {
		for _, thr := range []time.Duration{0, max, time.Hour} {
			a, thr, m := a, thr, modes[i%3]
			i++
			run(func(t int) optsResult { return runThresholdA(t, m, thr, 0, a) })
		}
	}
	for _, m := range []string{"blocking+limit", "limit+blocking"} {
		m := m
		run(func(t int) optsResult { return runThreshold(t, m, time.Hour, 0) })
		run(func(t int) optsResult { return runMisfire(t, m, 1, 3, "never") })
	}
	wg.Wait()
}

// ---------------------------------------------------------------------------------------------
// C12: jobs whose Description() is as badly behaved as a job can be: it blocks while the job's own Execute is
// in progress (one mutex around both, as a job that guards its state would have), it is slow, or it panics.
// A long-running job delays neither the dispatch of other due jobs nor its own next fire times.
// ---------------------------------------------------------------------------------------------
type descJob struct {
	kind   string // mutex | slow | panic
	mu     sync.Mutex
	starts atomic.Int64 // calls of Execute (own fire times dispatched)
	fl     *inflight
}

func (j *descJob) Execute(ctx context.Context) error {
	j.starts.Add(1)
	if !j.mu.TryLock() {
		return nil // an execution is in progress: this fire time has nothing to do
	}
	defer j.mu.Unlock()
	j.fl.enter()
	defer j.fl.exit()
	<-ctx.Done() // long-running: ends with the scheduler
	return nil
}

func (j *descJob) Description() string {
	switch j.kind {
	case "mutex":
		j.mu.Lock()
		defer j.mu.Unlock()
	case "slow":
		time.Sleep(300 * time.Millisecond)
	case "panic":
		panic("Description() of a broken job")
	}
	return "descJob"
}

func runDescMode(mode, kind string, seed int) modesResult {
	limit, bound := 0, 0
	switch mode {
	case "pool":
		limit, bound = 3, 3
	case "blocking":
		bound = 1
	}
	res := modesResult{Kind: "modes", Mode: mode, Limit: limit, Test: "desc_" + kind, Bound: bound, Jobs: 2, Seed: seed}
	s, _ := quartz.NewStdScheduler(modeOpts(mode, limit)...)
	var fl inflight
	lj := &descJob{kind: kind, fl: &fl}
	var sib atomic.Int64
	var last, maxGap atomic.Int64
	base := time.Now()
	tick := func(ctx context.Context) error {
		fl.enter()
		defer fl.exit()
		now := int64(time.Since(base))
		if l := last.Swap(now); l != 0 {
			g := now - l
			for {
				m := maxGap.Load()
				if g <= m || maxGap.CompareAndSwap(m, g) {
					break
				}
			}
		}
		sib.Add(1)
		return nil
	}
	s.ScheduleJob(detail("ticker", tick), quartz.NewSimpleTrigger(10*time.Millisecond))
	s.ScheduleJob(quartz.NewJobDetail(lj, quartz.NewJobKey("long")), quartz.NewSimpleTrigger(60*time.Millisecond))
	s.Start(context.Background())
	if mode == "unbounded" {
		time.Sleep(1500 * time.Millisecond)
		// the silence at the end counts too
		if l := last.Load(); l != 0 {
			if g := int64(time.Since(base)) - l; g > maxGap.Load() {
				maxGap.Store(g)
			}
		}
	} else {
		// bounded modes: the long job legitimately takes a worker / the loop; only the bound and survival are at stake
		time.Sleep(400 * time.Millisecond)
	}
	res.OwnNext, res.Sibling = lj.starts.Load(), sib.Load()
	res.MaxGapMs = maxGap.Load() / 1e6
	res.WaitOK = stopAndWait(s, 5*time.Second)
	res.MaxInflight = fl.max.Load()
	res.Execs = res.OwnNext + res.Sibling
	return res
}

// pool of n, every worker busy with a job of its own duration, one more job due (the loop is handing it
// over); then ONE of the running jobs ends (the one that started i-th): the waiting job must start at once,
// whichever worker became free
func runHandover(n, which, seed int) modesResult {
	res := modesResult{Kind: "modes", Mode: "pool", Limit: n, Test: "handover_when_any_worker_frees", Bound: n, Jobs: n + 1, Barrier: which, Seed: seed}
	s, _ := quartz.NewStdScheduler(modeOpts("pool", n)...)
	var fl inflight
	var order atomic.Int64
	rel := make([]chan struct{}, n)
	for i := range rel {
		rel[i] = make(chan struct{})
	}
	var execs atomic.Int64
	for i := 0; i < n; i++ {
		s.ScheduleJob(detail(fmt.Sprintf("busy%d", i), func(ctx context.Context) error {
			fl.enter()
			defer fl.exit()
			execs.Add(1)
			me := order.Add(1) - 1 // the me-th job to start
			select {
			case <-rel[me]:
			case <-ctx.Done():
			}
			return nil
		}), quartz.NewRunOnceTrigger(time.Duration(1+5*i)*time.Millisecond))
	}
	s.Start(context.Background())
	if !pollUntil(5*time.Second, func() bool { return order.Load() >= int64(n) }) {
		res.WaitOK = stopAndWait(s, 5*time.Second)
		return res
	}
	var waiting atomic.Int64
	s.ScheduleJob(detail("waiting", func(ctx context.Context) error {
		fl.enter()
		defer fl.exit()
		execs.Add(1)
		waiting.Add(1)
		return nil
	}), quartz.NewRunOnceTrigger(time.Millisecond))
	time.Sleep(60 * time.Millisecond) // the loop is blocked in the hand-over
	early := waiting.Load()
	close(rel[which])
	res.Reached = pollUntil(3*time.Second, func() bool { return waiting.Load() > 0 }) && early == 0
	res.OwnNext = early
	for i := range rel {
		if i != which {
			close(rel[i])
		}
	}
	res.WaitOK = stopAndWait(s, 5*time.Second)
	res.MaxInflight = fl.max.Load()
	res.Execs = execs.Load()
	return res
}

// descmodes <seed> [panic|nopanic]: the panicking kinds in a process of its own (a panic in Description() on the loop's goroutine kills it)
func cmdDescModes() {
	seed := argInt(2, 1)
	which := argStr(3, "all") // all | panic | nopanic
	var wg sync.WaitGroup
	for _, mode := range []string{"unbounded", "pool", "blocking"} {
		for _, kind := range []string{"mutex", "slow", "panic"} {
			if (which == "panic") != (kind == "panic") && which != "all" {
				continue
			}
			mode, kind := mode, kind
			wg.Add(1)
			go func() { defer wg.Done(); emit(runDescMode(mode, kind, seed)) }()
		}
	}
	for _, nw := range [][2]int{{2, 0}, {2, 1}, {3, 0}, {3, 1}, {3, 2}} {
		if which == "panic" {
			break
		}
		nw := nw
		wg.Add(1)
		go func() { defer wg.Done(); emit(runHandover(nw[0], nw[1], seed)) }()
	}
	if which != "panic" {
		for _, nk := range [][2]int{{1, 1}, {2, 1}, {2, 2}, {3, 1}, {3, 3}} {
			nk := nk
			wg.Add(2)
			go func() { defer wg.Done(); emit(runRestartBusyBarrier(nk[0], nk[1], seed)) }()
			go func() { defer wg.Done(); emit(runMisfiresThenBarrier(nk[0], nk[0]+nk[1], seed)) }()
		}
	}
	wg.Wait()
}

// ---------------------------------------------------------------------------------------------
// C15: a slow API-side queue operation (Push / Remove / Clear take 400 ms) and a lifecycle call arriving while
// the API call is inside it: nothing deadlocks, every call returns, and the scheduler works afterwards.
// ---------------------------------------------------------------------------------------------
type slowAPIQ struct {
	quartz.JobQueue
	slow    atomic.Value // string: the method that is slow now ("" none)
	entered chan struct{}
}

func (q *slowAPIQ) nap(m string) {
	if v, _ := q.slow.Load().(string); v == m {
		select {
		case q.entered <- struct{}{}:
		default:
		}
		time.Sleep(400 * time.Millisecond)
	}
}
func (q *slowAPIQ) Push(j quartz.ScheduledJob) error { q.nap("Push"); return q.JobQueue.Push(j) }
func (q *slowAPIQ) Remove(k *quartz.JobKey) (quartz.ScheduledJob, error) {
	q.nap("Remove")
	return q.JobQueue.Remove(k)
}
func (q *slowAPIQ) Clear() error { q.nap("Clear"); return q.JobQueue.Clear() }

type slowAPIResult struct {
	Kind     string   `json:"kind"` // slowapi
	Trial    int      `json:"trial"`
	API      string   `json:"api"`    // ScheduleJob | DeleteJob | PauseJob | Clear
	Method   string   `json:"slow_queue_method"`
	Action   string   `json:"action"` // stop | cancel | stopstart | isstarted
	Hung     []string `json:"calls_not_returned_within_5s"`
	Started  bool     `json:"started_at_end"`
	Fired    int32    `json:"probe_execs"`
	WaitOK   bool     `json:"wait_returned"`
	Error    string   `json:"error,omitempty"`
}

func runSlowAPI(trial int, api, action string) slowAPIResult {
	method := map[string]string{"ScheduleJob": "Push", "DeleteJob": "Remove", "PauseJob": "Remove", "Clear": "Clear"}[api]
	res := slowAPIResult{Kind: "slowapi", Trial: trial, API: api, Method: method, Action: action}
	q := &slowAPIQ{JobQueue: quartz.NewJobQueue(), entered: make(chan struct{}, 1)}
	q.slow.Store("")
	s, _ := quartz.NewStdScheduler(quartz.WithQueue(q, &sync.Mutex{}), quartz.WithOutdatedThreshold(time.Minute))
	s.ScheduleJob(detail("victim", func(context.Context) error { return nil }), relTrigger(time.Hour, 2*time.Hour))
	ctx, cancel := context.WithCancel(context.Background())
	defer cancel()
	s.Start(ctx)
	time.Sleep(5 * time.Millisecond)
	q.slow.Store(method)
	var mu sync.Mutex
	hung := func(name string, f func()) bool {
		ok := within(5*time.Second, f)
		if !ok {
			mu.Lock()
			res.Hung = append(res.Hung, name)
			mu.Unlock()
		}
		return ok
	}
	apiDone := make(chan struct{})
	go func() {
		defer close(apiDone)
		hung(api, func() {
			switch api {
			case "ScheduleJob":
				s.ScheduleJob(detail("added", func(context.Context) error { return nil }), relTrigger(time.Hour, 2*time.Hour))
			case "DeleteJob":
				s.DeleteJob(quartz.NewJobKey("victim"))
			case "PauseJob":
				s.PauseJob(quartz.NewJobKey("victim"))
			case "Clear":
				s.Clear()
			}
		})
	}()
	select {
	case <-q.entered:
	case <-time.After(5 * time.Second):
		res.Error = api + " did not reach the queue's " + method
		return res
	}
	time.Sleep(20 * time.Millisecond) // the API call holds the queue lock, inside the slow operation
	switch action {
	case "stop":
		hung("Stop", s.Stop)
	case "cancel":
		cancel()
		hung("IsStarted (after cancel)", func() { pollUntil(3*time.Second, func() bool { return !s.IsStarted() }) })
	case "stopstart":
		if hung("Stop", s.Stop) {
			hung("Start", func() { s.Start(context.Background()) })
		}
	case "isstarted":
		hung("IsStarted", func() { s.IsStarted() })
	}
	<-apiDone
	q.slow.Store("")
	if len(res.Hung) > 0 {
		return res // deadlocked: nothing more can be asked of this scheduler
	}
	// afterwards the scheduler is usable: (re)start, a job due at once fires
	hung("Start", func() { s.Start(context.Background()) })
	var ran atomic.Int32
	hung("ScheduleJob (probe)", func() {
		s.ScheduleJob(detail("probe", func(context.Context) error { ran.Add(1); return nil }), relTrigger(-time.Millisecond, 3*time.Hour))
	})
	if len(res.Hung) == 0 {
		pollUntil(5*time.Second, func() bool { return ran.Load() > 0 })
		res.Started = s.IsStarted()
		res.Fired = ran.Load()
		hung("Stop+Wait", func() { res.WaitOK = stopAndWait(s, 6*time.Second) })
	}
	return res
}

func cmdSlowAPI() {
	var wg sync.WaitGroup
	sem := make(chan struct{}, 8)
	trial := 0
	for _, api := range []string{"ScheduleJob", "DeleteJob", "PauseJob", "Clear"} {
		for _, action := range []string{"stop", "cancel", "stopstart", "isstarted"} {
			api, action, t := api, action, trial
			trial++
			wg.Add(1)
			go func() {
				defer wg.Done()
				sem <- struct{}{}
				defer func() { <-sem }()
				emit(runSlowAPI(t, api, action))
			}()
		}
	}
	for _, cf := range [][2]int{{0, 1}, {0, 2}, {1, 2}, {1, 3}, {2, 4}} {
		cf, t := cf, trial
		trial++
		wg.Add(1)
		go func() { defer wg.Done(); emit(runPushFault(t, cf[0], cf[1])) }()
	}
	// held before (Size, Head) or after (SizeDone, HeadDone) the call has taken its reading
	for i, h := range []string{"Size", "Head", "SizeDone", "HeadDone", "SizeDone", "HeadDone"} {
		h, t, d := h, trial, time.Duration(150+250*(i/4))*time.Millisecond
		trial++
		wg.Add(1)
		go func() { defer wg.Done(); emit(runStaleTimer(t, h, d)) }()
	}
	wg.Wait()
}

// ---------------------------------------------------------------------------------------------
// round 5
// ---------------------------------------------------------------------------------------------

// C12: pool of n; k jobs of the first run are still executing (they end only when told to) when Stop(); Start()
// happen: the new run has n workers of its own, n jobs due at once meet at a barrier of n.
func runRestartBusyBarrier(n, k, seed int) modesResult {
	res := modesResult{Kind: "modes", Mode: "pool", Limit: n, Test: "restart_busy_then_barrier", Bound: n, Jobs: n, Barrier: n, Seed: seed, Restart: true, Panics: k}
	s, _ := quartz.NewStdScheduler(modeOpts("pool", n)...)
	relOld := make(chan struct{})
	var oldIn atomic.Int64
	for i := 0; i < k; i++ {
		s.ScheduleJob(detail(fmt.Sprintf("old%d", i), func(context.Context) error { oldIn.Add(1); <-relOld; return nil }), quartz.NewRunOnceTrigger(time.Millisecond))
	}
	parent, pc := context.WithCancel(context.Background())
	defer pc()
	s.Start(parent)
	pollUntil(5*time.Second, func() bool { return oldIn.Load() >= int64(k) })
	s.Stop()
	s.Start(parent)
	res.Reached, res.MaxInflight, res.Execs = barrierOfN(s, n)
	close(relOld)
	res.WaitOK = stopAndWait(s, 5*time.Second)
	return res
}

// n jobs due at once on a running scheduler; reports whether all n were inside Execute together, the
// maximum in flight among them and how many ran
func barrierOfN(s quartz.Scheduler, n int) (bool, int64, int64) {
	var fl inflight
	var inside, execs atomic.Int64
	reached := make(chan struct{})
	var once sync.Once
	for i := 0; i < n; i++ {
		s.ScheduleJob(detail(fmt.Sprintf("bar%d", i), func(ctx context.Context) error {
			fl.enter()
			defer fl.exit()
			execs.Add(1)
			if inside.Add(1) >= int64(n) {
				once.Do(func() { close(reached) })
			}
			defer inside.Add(-1)
			select {
			case <-reached:
			case <-time.After(5 * time.Second):
			case <-ctx.Done():
			}
			return nil
		}), quartz.NewRunOnceTrigger(time.Millisecond))
	}
	ok := false
	select {
	case <-reached:
		ok = true
	case <-time.After(5 * time.Second):
	}
	return ok, fl.max.Load(), execs.Load()
}

// C12: pool of n; m >= n fetches that yield nothing to execute (jobs far beyond OutdatedThreshold: misfires),
// then n jobs due at once meet at a barrier of n
func runMisfiresThenBarrier(n, m, seed int) modesResult {
	res := modesResult{Kind: "modes", Mode: "pool", Limit: n, Test: "misfires_then_barrier", Bound: n, Jobs: n, Barrier: n, Seed: seed, Panics: m}
	s, _ := quartz.NewStdScheduler(modeOpts("pool", n)...)
	var calls atomic.Int64
	for i := 0; i < m; i++ {
		tr := relTrigger(-time.Hour, time.Hour, 2*time.Hour)
		s.ScheduleJob(detail(fmt.Sprintf("late%d", i), func(context.Context) error { return nil }), &countCalls{Trigger: tr, n: &calls})
	}
	s.Start(context.Background())
	// every late job has been fetched and re-based (two trigger calls each)
	pollUntil(3*time.Second, func() bool { return calls.Load() >= int64(2*m) })
	time.Sleep(10 * time.Millisecond)
	res.Reached, res.MaxInflight, res.Execs = barrierOfN(s, n)
	res.WaitOK = stopAndWait(s, 5*time.Second)
	return res
}

type countCalls struct {
	quartz.Trigger
	n *atomic.Int64
}

func (t *countCalls) NextFireTime(prev int64) (int64, error) {
	t.n.Add(1)
	return t.Trigger.NextFireTime(prev)
}

// ---------------------------------------------------------------------------------------------
// C15: the loop's own re-Push fails while the misfire listener does not drain (pushfault); a loop of a stopped
// run returns from a slow queue call after the new run has armed its tick (staletimer)
// ---------------------------------------------------------------------------------------------
type pushFaultQ struct {
	quartz.JobQueue
	failLeft atomic.Int32 // the next so many Push calls made by fetchAndReschedule fail
	failed   atomic.Int32
}

func (q *pushFaultQ) Push(j quartz.ScheduledJob) error {
	if callerOf() == "fetchAndReschedule" && q.failLeft.Load() > 0 {
		if q.failLeft.Add(-1) >= 0 {
			q.failed.Add(1)
			return mkInjected("plain", "Push")
		}
	}
	return q.JobQueue.Push(j)
}

type pushFaultResult struct {
	Kind     string   `json:"kind"` // pushfault
	Trial    int      `json:"trial"`
	Cap      int      `json:"misfired_chan_cap"`
	Fails    int      `json:"failing_repushes"`
	Failed   int32    `json:"repushes_failed"`
	Hung     []string `json:"calls_not_returned_within_5s"`
	Stored   []string `json:"stored_after_faults"`
	NotFired []string `json:"stored_jobs_not_fired_within_5s"`
	Probe    int32    `json:"probe_execs"`
	WaitOK   bool     `json:"wait_returned"`
}

func runPushFault(trial, capacity, fails int) pushFaultResult {
	res := pushFaultResult{Kind: "pushfault", Trial: trial, Cap: capacity, Fails: fails}
	q := &pushFaultQ{JobQueue: quartz.NewJobQueue()}
	mis := make(chan quartz.ScheduledJob, capacity) // nobody listens
	s, _ := quartz.NewStdScheduler(quartz.WithQueue(q, &sync.Mutex{}), quartz.WithOutdatedThreshold(time.Minute), quartz.WithMisfiredChan(mis),
		quartz.WithRetryInterval(20*time.Millisecond))
	execs := map[string]*atomic.Int64{}
	njobs := fails + 3
	for i := 0; i < njobs; i++ {
		name := fmt.Sprintf("j%d", i)
		c := &atomic.Int64{}
		execs[name] = c
		s.ScheduleJob(detail(name, func(context.Context) error { c.Add(1); return nil }), quartz.NewSimpleTrigger(time.Duration(20+3*i)*time.Millisecond))
	}
	q.failLeft.Store(int32(fails))
	s.Start(context.Background())
	pollUntil(3*time.Second, func() bool { return q.failed.Load() >= int32(fails) })
	time.Sleep(60 * time.Millisecond) // the faults are over
	res.Failed = q.failed.Load()
	hung := func(name string, f func()) {
		if !within(5*time.Second, f) {
			res.Hung = append(res.Hung, name)
		}
	}
	var keys []*quartz.JobKey
	hung("GetJobKeys", func() { keys, _ = s.GetJobKeys() })
	var probe atomic.Int32
	if len(res.Hung) == 0 {
		hung("ScheduleJob", func() {
			s.ScheduleJob(detail("probe", func(context.Context) error { probe.Add(1); return nil }), relTrigger(5*time.Millisecond, time.Hour))
		})
	}
	if len(res.Hung) == 0 {
		hung("DeleteJob", func() { s.DeleteJob(quartz.NewJobKey("nope")) })
	}
	if len(res.Hung) == 0 {
		before := map[string]int64{}
		for _, k := range keys {
			if c := execs[k.Name()]; c != nil {
				before[k.Name()] = c.Load()
				res.Stored = append(res.Stored, k.Name())
			}
		}
		pollUntil(5*time.Second, func() bool {
			for k, b := range before {
				if execs[k].Load() <= b {
					return false
				}
			}
			return probe.Load() > 0
		})
		for k, b := range before {
			if execs[k].Load() <= b {
				res.NotFired = append(res.NotFired, k)
			}
		}
		res.Probe = probe.Load()
	}
	go func() { // let a scheduler that is stuck on the channel go
		for range mis {
		}
	}()
	within(7*time.Second, func() { res.WaitOK = stopAndWait(s, 6*time.Second) })
	return res
}

type staleTimerResult struct {
	Kind    string `json:"kind"` // staletimer
	Trial   int    `json:"trial"`
	Held    string `json:"old_loop_held_in"` // Size | Head (before the reading) | SizeDone | HeadDone (after it)
	DueInMs int    `json:"job_due_in_ms"`
	Fired   int32  `json:"execs"`
	WaitOK  bool   `json:"wait_returned"`
	Error   string `json:"error,omitempty"`
}

// the loop of run 1 is inside a slow Size()/Head(); Stop(); Start(); a job due in `dueIn` is scheduled and the
// new loop parks on it; only then does the slow call of the old loop return.  No API call follows.
func runStaleTimer(trial int, heldIn string, dueIn time.Duration) staleTimerResult {
	res := staleTimerResult{Kind: "staletimer", Trial: trial, Held: heldIn, DueInMs: int(dueIn / time.Millisecond)}
	q := &rQueue{JobQueue: quartz.NewJobQueue(), arrive: make(chan rArrival)}
	q.gated.Store(true)
	s, _ := quartz.NewStdScheduler(quartz.WithQueue(q, &sync.Mutex{}), quartz.WithOutdatedThreshold(time.Hour))
	defer func() { within(9*time.Second, func() { q.shutdown(s) }) }()
	if heldIn != "SizeDone" {
		s.ScheduleJob(detail("far", func(context.Context) error { return nil }), relTrigger(time.Hour, 2*time.Hour))
	} else {
		q.sizeDone.Store(true) // empty queue: the old loop's reading is "nothing stored"
	}
	s.Start(context.Background())
	var held rArrival
	for {
		var a rArrival
		select {
		case a = <-q.arrive:
		case <-time.After(5 * time.Second):
			res.Error = "the loop did not reach " + heldIn
			return res
		}
		if a.name == heldIn {
			held = a
			break
		}
		close(a.rel)
	}
	q.gated.Store(false) // the new run's calls are not stalled
	q.sizeDone.Store(false)
	s.Stop()
	s.Start(context.Background())
	var ran atomic.Int32
	s.ScheduleJob(detail("x", func(context.Context) error { ran.Add(1); return nil }), relTrigger(dueIn, 3*time.Hour))
	time.Sleep(40 * time.Millisecond) // the new loop has armed its timer for x
	close(held.rel)                   // the old loop's slow call returns: it sees its context done and exits
	pollUntil(dueIn+5*time.Second, func() bool { return ran.Load() > 0 })
	res.Fired = ran.Load()
	res.WaitOK = true
	return res
}
