package main

import (
	"context"
	"fmt"
	"sync"
	"sync/atomic"
	"time"

	"github.com/reugn/go-quartz/quartz"
)

// C05 x C10: restart with the execution loop of the stopped run still alive.
// Variant "job":   blocking mode, a job of run 1 is still executing when Stop(); Start() happen.
// Variant "queue": the loop of run 1 is inside a slow Size() call when Stop(); Start() happen.
// In both, the new loop is held between Head() and its select, a due job is scheduled (its token goes
// into the channel buffer), then the old loop is let go: it must neither consume that token nor
// dequeue the job.

type rArrival struct {
	name string
	rel  chan struct{}
}

// every stalled call has its own release channel, so that two loops can be held independently
type rQueue struct {
	quartz.JobQueue
	arrive    chan rArrival
	gated     atomic.Bool
	pushGated atomic.Bool
	sizeDone  atomic.Bool // Size also stalls after it has taken its reading
	failPops  atomic.Int32 // the next so many Pop calls fail
	popFails  atomic.Int32
}

var errTransient = fmt.Errorf("transient queue fault")

func (q *rQueue) Push(j quartz.ScheduledJob) error {
	if q.pushGated.Load() {
		q.gate("Push")
	}
	return q.JobQueue.Push(j)
}

func (q *rQueue) gate(n string) {
	if q.gated.Load() && (n == "Push" || fromLoop()) {
		a := rArrival{n, make(chan struct{})}
		q.arrive <- a
		<-a.rel
	}
}
func (q *rQueue) Size() (int, error) {
	q.gate("Size")
	n, e := q.JobQueue.Size()
	if q.sizeDone.Load() {
		q.gate("SizeDone") // the slow part comes after the reading was taken
	}
	return n, e
}
func (q *rQueue) Head() (quartz.ScheduledJob, error) {
	q.gate("Head")
	j, e := q.JobQueue.Head()
	q.gate("HeadDone")
	return j, e
}
func (q *rQueue) Pop() (quartz.ScheduledJob, error) {
	q.gate("Pop")
	if q.failPops.Load() > 0 {
		q.failPops.Add(-1)
		q.popFails.Add(1)
		return nil, errTransient
	}
	return q.JobQueue.Pop()
}

type restartResult struct {
	Kind       string   `json:"kind"`
	Trial      int      `json:"trial"`
	Variant    string   `json:"variant"`
	Executed   int32    `json:"executed"`        // executions of the due job
	ByStale    int32    `json:"by_stopped_run"`  // ... that received a cancelled context
	DelayMs    int64    `json:"delay_ms"`
	IsStarted  bool     `json:"is_started"`
	Trace      []string `json:"trace"`
	Error      string   `json:"error,omitempty"`
}

func runRestart(trial int, variant string) (res restartResult) {
	res = restartResult{Kind: "restart", Trial: trial, Variant: variant, DelayMs: -1}
	q := &rQueue{JobQueue: quartz.NewJobQueue(), arrive: make(chan rArrival)}
	q.gated.Store(true)
	opts := []quartz.SchedulerOpt{quartz.WithQueue(q, &sync.Mutex{}), quartz.WithOutdatedThreshold(time.Hour)}
	if variant == "job" {
		opts = append(opts, quartz.WithBlockingExecution())
	}
	s, _ := quartz.NewStdScheduler(opts...)
	next := func(d time.Duration) rArrival {
		select {
		case a := <-q.arrive:
			return a
		case <-time.After(d):
			return rArrival{"BLOCKED", nil}
		}
	}
	step := func(want string) bool {
		a := next(5 * time.Second)
		res.Trace = append(res.Trace, a.name)
		if a.name != want {
			res.Error = "expected " + want + ", got " + a.name
			return false
		}
		close(a.rel)
		return true
	}
	var xRan, xStale atomic.Int32
	var tExec atomic.Int64
	hour := time.Hour
	j1in, j1out := make(chan struct{}), make(chan struct{})
	s.ScheduleJob(detail("far", func(context.Context) error { return nil }), relTrigger(hour, 2*hour))
	var oldHeld rArrival
	defer func() {
		// let everything go, stop, wait
		q.gated.Store(false)
		stop := make(chan struct{})
		go func() {
			for {
				select {
				case a := <-q.arrive:
					close(a.rel)
				case <-stop:
					return
				}
			}
		}()
		select {
		case <-j1out:
		default:
			close(j1out)
		}
		s.Stop()
		ctx, c := context.WithTimeout(context.Background(), 5*time.Second)
		s.Wait(ctx)
		c()
		close(stop)
	}()
	if variant == "job" {
		s.ScheduleJob(detail("j1", func(context.Context) error { close(j1in); <-j1out; return nil }), relTrigger(-time.Millisecond, 2*hour))
		s.Start(context.Background())
		for _, w := range []string{"Size", "Head", "HeadDone", "Pop"} {
			if !step(w) {
				return
			}
		}
		select {
		case <-j1in: // loop 1 is inside the blocking job
		case <-time.After(5 * time.Second):
			res.Error = "the blocking job did not start"
			return
		}
	} else {
		s.Start(context.Background())
		oldHeld = next(5 * time.Second) // loop 1 is inside a slow Size() call
		res.Trace = append(res.Trace, oldHeld.name+"(old loop held)")
		if oldHeld.name != "Size" {
			res.Error = "expected Size, got " + oldHeld.name
			return
		}
	}
	s.Stop()
	s.Start(context.Background())
	// loop 2: hold it after it has read the head
	for _, w := range []string{"Size", "Head"} {
		if !step(w) {
			return
		}
	}
	loop2 := next(5 * time.Second)
	res.Trace = append(res.Trace, loop2.name+"(new loop held)")
	if loop2.name != "HeadDone" {
		res.Error = "expected HeadDone, got " + loop2.name
		return
	}
	t0 := time.Now()
	s.ScheduleJob(detail("x", func(ctx context.Context) error {
		xRan.Add(1)
		if ctx.Err() != nil {
			xStale.Add(1)
		}
		tExec.CompareAndSwap(0, int64(time.Since(t0)))
		return nil
	}), relTrigger(-time.Millisecond, 3*hour))
	// the old loop goes on; it gets all the time it wants while the new loop stays held
	if variant == "job" {
		close(j1out)
	} else {
		close(oldHeld.rel)
	}
	deadline := time.Now().Add(300 * time.Millisecond)
	for time.Now().Before(deadline) {
		select {
		case a := <-q.arrive:
			res.Trace = append(res.Trace, "old:"+a.name)
			close(a.rel)
		case <-time.After(40 * time.Millisecond):
		}
	}
	res.Trace = append(res.Trace, "release new loop")
	close(loop2.rel)
	q.gated.Store(false)
	end := time.Now().Add(5 * time.Second)
	for time.Now().Before(end) && xRan.Load() == 0 {
		select {
		case a := <-q.arrive:
			close(a.rel)
		case <-time.After(5 * time.Millisecond):
		}
	}
	time.Sleep(20 * time.Millisecond)
	res.Executed, res.ByStale = xRan.Load(), xStale.Load()
	if t := tExec.Load(); t > 0 {
		res.DelayMs = t / 1e6
	}
	res.IsStarted = s.IsStarted()
	return
}

// C05: a slow Push inside ResumeJob (a persistent queue).  The loop is parked (on a paused head, or on a
// far head); ResumeJob of a job that is due runs with its Push held back; whatever the loop does in the
// meantime, once the Push has landed and ResumeJob has returned the resumed job must be dispatched.
func runSlowPush(trial int, sit string) (res restartResult) {
	res = restartResult{Kind: "restart", Trial: trial, Variant: "slowpush-" + sit, DelayMs: -1}
	q := &rQueue{JobQueue: quartz.NewJobQueue(), arrive: make(chan rArrival)}
	q.gated.Store(true)
	s, _ := quartz.NewStdScheduler(quartz.WithQueue(q, &sync.Mutex{}), quartz.WithOutdatedThreshold(time.Hour))
	var ran atomic.Int32
	var tExec atomic.Int64
	hour := time.Hour
	t0 := time.Now()
	if sit == "far" {
		s.ScheduleJob(detail("far", func(context.Context) error { return nil }), relTrigger(hour, 2*hour))
	}
	s.ScheduleJob(detail("pz", func(ctx context.Context) error {
		ran.Add(1)
		tExec.CompareAndSwap(0, int64(time.Since(t0)))
		return nil
	}), relTrigger(hour, -time.Millisecond, 3*hour))
	s.PauseJob(quartz.NewJobKey("pz"))
	s.Start(context.Background())
	defer func() {
		q.gated.Store(false)
		q.pushGated.Store(false)
		stop := make(chan struct{})
		go func() {
			for {
				select {
				case a := <-q.arrive:
					close(a.rel)
				case <-stop:
					return
				}
			}
		}()
		s.Stop()
		ctx, c := context.WithTimeout(context.Background(), 5*time.Second)
		s.Wait(ctx)
		c()
		close(stop)
	}()
	// let the loop park
	for {
		select {
		case a := <-q.arrive:
			res.Trace = append(res.Trace, a.name)
			close(a.rel)
			continue
		case <-time.After(150 * time.Millisecond):
		}
		break
	}
	res.Trace = append(res.Trace, "parked")
	q.pushGated.Store(true)
	t0 = time.Now()
	apiDone := make(chan error, 1)
	go func() { apiDone <- s.ResumeJob(quartz.NewJobKey("pz")) }()
	var push *rArrival
	deadline := time.Now().Add(5 * time.Second)
	quietSince := time.Now()
	for time.Now().Before(deadline) {
		select {
		case a := <-q.arrive:
			quietSince = time.Now()
			if a.name == "Push" {
				res.Trace = append(res.Trace, "Push(held)")
				aa := a
				push = &aa
			} else {
				res.Trace = append(res.Trace, "loop:"+a.name)
				close(a.rel)
			}
			continue
		case <-time.After(20 * time.Millisecond):
		}
		if push != nil && time.Since(quietSince) > 150*time.Millisecond {
			break
		}
	}
	if push == nil {
		res.Error = "ResumeJob did not reach its Push"
		return
	}
	res.Trace = append(res.Trace, "release Push")
	q.pushGated.Store(false)
	close(push.rel)
	select {
	case err := <-apiDone:
		if err != nil {
			res.Error = "ResumeJob failed: " + err.Error()
			return
		}
	case <-time.After(5 * time.Second):
		res.Error = "ResumeJob did not return"
		return
	}
	end := time.Now().Add(5 * time.Second)
	for time.Now().Before(end) && ran.Load() == 0 {
		select {
		case a := <-q.arrive:
			close(a.rel)
		case <-time.After(5 * time.Millisecond):
		}
	}
	time.Sleep(20 * time.Millisecond)
	res.Executed = ran.Load()
	if t := tExec.Load(); t > 0 {
		res.DelayMs = t / 1e6
	}
	res.IsStarted = s.IsStarted()
	return
}

// finish a scenario: open the gates, serve late arrivals, stop, wait
func (q *rQueue) shutdown(s quartz.Scheduler) {
	q.gated.Store(false)
	q.pushGated.Store(false)
	stop := make(chan struct{})
	go func() {
		for {
			select {
			case a := <-q.arrive:
				close(a.rel)
			case <-stop:
				return
			}
		}
	}()
	done := make(chan struct{})
	go func() {
		s.Stop()
		ctx, c := context.WithTimeout(context.Background(), 5*time.Second)
		s.Wait(ctx)
		c()
		close(done)
	}()
	select {
	case <-done:
	case <-time.After(8 * time.Second):
	}
	close(stop)
}

// C05 (x C15): one transient Pop failure sends the loop into its RetryInterval wait (8 s here); a job that
// becomes due meanwhile must still be dispatched promptly: the wake-up makes the loop recompute.
func runPopFault(trial int) (res restartResult) {
	res = restartResult{Kind: "restart", Trial: trial, Variant: "popfault", DelayMs: -1}
	q := &rQueue{JobQueue: quartz.NewJobQueue(), arrive: make(chan rArrival)}
	s, _ := quartz.NewStdScheduler(quartz.WithQueue(q, &sync.Mutex{}), quartz.WithOutdatedThreshold(time.Hour), quartz.WithRetryInterval(8*time.Second))
	defer q.shutdown(s)
	var ran atomic.Int32
	var tExec atomic.Int64
	hour := time.Hour
	q.failPops.Store(1)
	s.ScheduleJob(detail("a", func(context.Context) error { return nil }), relTrigger(-time.Millisecond, 2*hour))
	s.Start(context.Background())
	if !pollUntil(5*time.Second, func() bool { return q.popFails.Load() >= 1 }) {
		res.Error = "the planned Pop failure did not happen"
		return
	}
	time.Sleep(30 * time.Millisecond) // the loop is in its retry wait
	res.Trace = append(res.Trace, "Pop failed once; loop waits RetryInterval = 8 s")
	t0 := time.Now()
	s.ScheduleJob(detail("x", func(context.Context) error {
		ran.Add(1)
		tExec.CompareAndSwap(0, int64(time.Since(t0)))
		return nil
	}), relTrigger(-time.Millisecond, 3*hour))
	pollUntil(5*time.Second, func() bool { return ran.Load() > 0 })
	res.Executed = ran.Load()
	if t := tExec.Load(); t > 0 {
		res.DelayMs = t / 1e6
	}
	res.IsStarted = s.IsStarted()
	return
}

type parkTrigger struct {
	scriptTrigger
	park    chan struct{} // NextFireTime waits here from its second call on (the call made by the loop)
	entered chan struct{}
}

func (t *parkTrigger) NextFireTime(prev int64) (int64, error) {
	t.mu.Lock()
	n := t.calls
	t.mu.Unlock()
	if n >= 1 {
		select {
		case t.entered <- struct{}{}:
		default:
		}
		<-t.park
	}
	return t.scriptTrigger.NextFireTime(prev)
}

// C05: ScheduleJob(Replace) of the job that is being dispatched (its trigger is slow, so the loop is between
// Pop and its re-Push): the replacement, due at once, must be dispatched
func runReplaceGap(trial int) (res restartResult) {
	res = restartResult{Kind: "restart", Trial: trial, Variant: "replacegap", DelayMs: -1}
	q := &rQueue{JobQueue: quartz.NewJobQueue(), arrive: make(chan rArrival)}
	s, _ := quartz.NewStdScheduler(quartz.WithQueue(q, &sync.Mutex{}), quartz.WithOutdatedThreshold(time.Hour))
	defer q.shutdown(s)
	hour := time.Hour
	pt := &parkTrigger{park: make(chan struct{}), entered: make(chan struct{}, 1)}
	pt.relative = true
	pt.next = []int64{int64(-time.Millisecond), int64(2 * hour), int64(3 * hour)}
	opts := func() *quartz.JobDetailOptions { return &quartz.JobDetailOptions{Replace: true, RetryInterval: time.Second} }
	var ran atomic.Int32
	var tExec atomic.Int64
	s.ScheduleJob(quartz.NewJobDetailWithOptions(&funcJob{"k-old", func(context.Context) error { return nil }}, quartz.NewJobKey("k"), opts()), pt)
	s.Start(context.Background())
	select {
	case <-pt.entered: // the loop has popped k and is asking its trigger for the next fire time
	case <-time.After(5 * time.Second):
		res.Error = "the loop did not fetch the job"
		return
	}
	res.Trace = append(res.Trace, "loop between Pop and Push of k")
	t0 := time.Now()
	apiDone := make(chan error, 1)
	go func() {
		apiDone <- s.ScheduleJob(quartz.NewJobDetailWithOptions(&funcJob{"k-new", func(context.Context) error {
			ran.Add(1)
			tExec.CompareAndSwap(0, int64(time.Since(t0)))
			return nil
		}}, quartz.NewJobKey("k"), opts()), relTrigger(-time.Millisecond, 5*hour))
	}()
	// give the call every chance to land in the gap, then let the loop finish its fetch
	select {
	case err := <-apiDone:
		apiDone <- err
		res.Trace = append(res.Trace, "ScheduleJob(Replace) returned while the loop was in the gap")
	case <-time.After(80 * time.Millisecond):
		res.Trace = append(res.Trace, "ScheduleJob(Replace) waits for the queue lock")
	}
	close(pt.park)
	select {
	case err := <-apiDone:
		if err != nil {
			res.Error = "ScheduleJob(Replace) failed: " + err.Error()
			return
		}
	case <-time.After(5 * time.Second):
		res.Error = "ScheduleJob(Replace) did not return"
		return
	}
	pollUntil(5*time.Second, func() bool { return ran.Load() > 0 })
	time.Sleep(20 * time.Millisecond)
	res.Executed = ran.Load()
	if t := tExec.Load(); t > 0 {
		res.DelayMs = t / 1e6
	}
	res.IsStarted = s.IsStarted()
	return
}

// C05: a ScheduleJob whose (slow) Push overlaps Start: when the push lands the loop is already parked on
// the empty queue; the job, due at once, must be dispatched
func runStartOverlap(trial int) (res restartResult) {
	res = restartResult{Kind: "restart", Trial: trial, Variant: "startoverlap", DelayMs: -1}
	q := &rQueue{JobQueue: quartz.NewJobQueue(), arrive: make(chan rArrival)}
	q.gated.Store(true)
	q.pushGated.Store(true)
	s, _ := quartz.NewStdScheduler(quartz.WithQueue(q, &sync.Mutex{}), quartz.WithOutdatedThreshold(time.Hour))
	defer q.shutdown(s)
	var ran atomic.Int32
	var tExec atomic.Int64
	t0 := time.Now()
	apiDone := make(chan error, 1)
	go func() {
		apiDone <- s.ScheduleJob(detail("x", func(context.Context) error {
			ran.Add(1)
			tExec.CompareAndSwap(0, int64(time.Since(t0)))
			return nil
		}), relTrigger(-time.Millisecond, 3*time.Hour))
	}()
	var push rArrival
	select {
	case push = <-q.arrive:
	case <-time.After(5 * time.Second):
		res.Error = "ScheduleJob did not reach its Push"
		return
	}
	res.Trace = append(res.Trace, push.name+"(held)")
	s.Start(context.Background())
	// the loop looks at the (still empty) queue and parks
	for {
		select {
		case a := <-q.arrive:
			res.Trace = append(res.Trace, "loop:"+a.name)
			close(a.rel)
			continue
		case <-time.After(150 * time.Millisecond):
		}
		break
	}
	res.Trace = append(res.Trace, "release Push")
	q.pushGated.Store(false)
	t0 = time.Now()
	close(push.rel)
	select {
	case err := <-apiDone:
		if err != nil {
			res.Error = "ScheduleJob failed: " + err.Error()
			return
		}
	case <-time.After(5 * time.Second):
		res.Error = "ScheduleJob did not return"
		return
	}
	end := time.Now().Add(5 * time.Second)
	for time.Now().Before(end) && ran.Load() == 0 {
		select {
		case a := <-q.arrive:
			close(a.rel)
		case <-time.After(5 * time.Millisecond):
		}
	}
	time.Sleep(20 * time.Millisecond)
	res.Executed = ran.Load()
	if t := tExec.Load(); t > 0 {
		res.DelayMs = t / 1e6
	}
	res.IsStarted = s.IsStarted()
	return
}

// C10 (x C12): restart of a scheduler with a worker pool while a worker of the stopped run is still busy.
// In the new run one job occupies every new worker and one more is due (the new loop is handing it
// over); then the old worker's job returns and that worker is back in its select with its cancelled
// context.  No job of the new run may be entered with a cancelled context, and no more than `limit` of them
// may run at once.
type staleWorkerResult struct {
	Kind        string `json:"kind"`
	Trial       int    `json:"trial"`
	Limit       int    `json:"limit"`
	NewExecs    int32  `json:"new_run_execs"`
	StaleExecs  int32  `json:"entered_with_cancelled_ctx"`
	MaxInflight int64  `json:"max_inflight_new_run"`
	WaitOK      bool   `json:"wait_returned"`
	Error       string `json:"error,omitempty"`
}

func runStaleWorker(trial, limit int) staleWorkerResult {
	res := staleWorkerResult{Kind: "staleworker", Trial: trial, Limit: limit}
	s, _ := quartz.NewStdScheduler(quartz.WithWorkerLimit(limit), quartz.WithOutdatedThreshold(time.Minute))
	rel1 := make(chan struct{})
	var oldIn atomic.Int32
	for i := 0; i < limit; i++ {
		s.ScheduleJob(detail("old"+string(rune('a'+i)), func(context.Context) error { oldIn.Add(1); <-rel1; return nil }), quartz.NewRunOnceTrigger(time.Millisecond))
	}
	s.Start(context.Background())
	if !pollUntil(5*time.Second, func() bool { return oldIn.Load() >= int32(limit) }) {
		res.Error = "the jobs of the first run did not start"
		close(rel1)
		stopAndWait(s, 3*time.Second)
		return res
	}
	s.Stop()
	s.Start(context.Background())
	rel2 := make(chan struct{})
	var newExecs, stale atomic.Int32
	var fl inflight
	mk := func(name string) {
		s.ScheduleJob(detail(name, func(ctx context.Context) error {
			newExecs.Add(1)
			if ctx.Err() != nil {
				stale.Add(1)
			}
			fl.enter()
			defer fl.exit()
			<-rel2
			return nil
		}), quartz.NewRunOnceTrigger(time.Millisecond))
	}
	for i := 0; i < limit; i++ {
		mk("x" + string(rune('a'+i)))
	}
	pollUntil(5*time.Second, func() bool { return newExecs.Load() >= int32(limit) })
	for i := 0; i < limit; i++ {
		mk("y" + string(rune('a'+i))) // these make the new loop block in the hand-over
	}
	time.Sleep(25 * time.Millisecond)
	close(rel1) // the workers of the stopped run finish and go back to their select
	time.Sleep(40 * time.Millisecond)
	res.MaxInflight = fl.max.Load()
	close(rel2)
	pollUntil(3*time.Second, func() bool { return newExecs.Load() >= int32(2*limit) })
	res.NewExecs, res.StaleExecs = newExecs.Load(), stale.Load()
	res.WaitOK = stopAndWait(s, 5*time.Second)
	return res
}

func cmdRestart() {
	n := argInt(3, 12)
	var wg sync.WaitGroup
	sem := make(chan struct{}, 8)
	for i := 0; i < n; i++ {
		i := i
		wg.Add(1)
		go func() {
			defer wg.Done()
			sem <- struct{}{}
			defer func() { <-sem }()
			variant := "job"
			if i%2 == 1 {
				variant = "queue"
			}
			ch := make(chan restartResult, 1)
			go func() {
				switch i % 9 {
				case 4:
					variant = "slowpush-paused"
					ch <- runSlowPush(i, "paused")
				case 5:
					variant = "slowpush-far"
					ch <- runSlowPush(i, "far")
				case 6:
					variant = "popfault"
					ch <- runPopFault(i)
				case 7:
					variant = "replacegap"
					ch <- runReplaceGap(i)
				case 8:
					variant = "startoverlap"
					ch <- runStartOverlap(i)
				default:
					ch <- runRestart(i, variant)
				}
			}()
			select {
			case r := <-ch:
				emit(r)
			case <-time.After(40 * time.Second):
				emit(restartResult{Kind: "restart", Trial: i, Variant: variant, DelayMs: -1, Error: "trial did not finish within 40 s"})
			}
		}()
	}
	// restart with a busy worker of the stopped run
	for i := 0; i < n; i++ {
		i := i
		wg.Add(1)
		go func() {
			defer wg.Done()
			sem <- struct{}{}
			defer func() { <-sem }()
			ch := make(chan staleWorkerResult, 1)
			go func() { ch <- runStaleWorker(i, 1+i%2) }()
			select {
			case r := <-ch:
				emit(r)
			case <-time.After(40 * time.Second):
				emit(staleWorkerResult{Kind: "staleworker", Trial: i, Limit: 1 + i%2, Error: "trial did not finish within 40 s"})
			}
		}()
	}
	wg.Wait()
}
