package main

import (
	"context"
	"sync"
	"sync/atomic"
	"time"

	"github.com/reugn/go-quartz/quartz"
)

// C05 x C10: restart with the execution loop of the stopped run still alive.
// Variant "job":   blocking mode, a job of run 1 is still executing when Stop(); Start() happen.
// Variant "queue": the loop of run 1 is inside a slow Size() call when Stop(); Start() happen.
// In both, the new loop is held between Head() and its select, a due job is scheduled (its token goes
// into the channel buffer), then the old loop is let go: it must neither consume that token nor
// dequeue the job.

type rArrival struct {
	name string
	rel  chan struct{}
}

// every stalled call has its own release channel, so that two loops can be held independently
type rQueue struct {
	quartz.JobQueue
	arrive    chan rArrival
	gated     atomic.Bool
	pushGated atomic.Bool
}

func (q *rQueue) Push(j quartz.ScheduledJob) error {
	if q.pushGated.Load() {
		q.gate("Push")
	}
	return q.JobQueue.Push(j)
}

func (q *rQueue) gate(n string) {
	if q.gated.Load() {
		a := rArrival{n, make(chan struct{})}
		q.arrive <- a
		<-a.rel
	}
}
func (q *rQueue) Size() (int, error) { q.gate("Size"); return q.JobQueue.Size() }
func (q *rQueue) Head() (quartz.ScheduledJob, error) {
	q.gate("Head")
	j, e := q.JobQueue.Head()
	q.gate("HeadDone")
	return j, e
}
func (q *rQueue) Pop() (quartz.ScheduledJob, error) { q.gate("Pop"); return q.JobQueue.Pop() }

type restartResult struct {
	Kind       string   `json:"kind"`
	Trial      int      `json:"trial"`
	Variant    string   `json:"variant"`
	Executed   int32    `json:"executed"`        // executions of the due job
	ByStale    int32    `json:"by_stopped_run"`  // ... that received a cancelled context
	DelayMs    int64    `json:"delay_ms"`
	IsStarted  bool     `json:"is_started"`
	Trace      []string `json:"trace"`
	Error      string   `json:"error,omitempty"`
}

func runRestart(trial int, variant string) (res restartResult) {
	res = restartResult{Kind: "restart", Trial: trial, Variant: variant, DelayMs: -1}
	q := &rQueue{JobQueue: quartz.NewJobQueue(), arrive: make(chan rArrival)}
	q.gated.Store(true)
	opts := []quartz.SchedulerOpt{quartz.WithQueue(q, &sync.Mutex{}), quartz.WithOutdatedThreshold(time.Hour)}
	if variant == "job" {
		opts = append(opts, quartz.WithBlockingExecution())
	}
	s, _ := quartz.NewStdScheduler(opts...)
	next := func(d time.Duration) rArrival {
		select {
		case a := <-q.arrive:
			return a
		case <-time.After(d):
			return rArrival{"BLOCKED", nil}
		}
	}
	step := func(want string) bool {
		a := next(5 * time.Second)
		res.Trace = append(res.Trace, a.name)
		if a.name != want {
			res.Error = "expected " + want + ", got " + a.name
			return false
		}
		close(a.rel)
		return true
	}
	var xRan, xStale atomic.Int32
	var tExec atomic.Int64
	hour := time.Hour
	j1in, j1out := make(chan struct{}), make(chan struct{})
	s.ScheduleJob(detail("far", func(context.Context) error { return nil }), relTrigger(hour, 2*hour))
	var oldHeld rArrival
	defer func() {
		// let everything go, stop, wait
		q.gated.Store(false)
		stop := make(chan struct{})
		go func() {
			for {
				select {
				case a := <-q.arrive:
					close(a.rel)
				case <-stop:
					return
				}
			}
		}()
		select {
		case <-j1out:
		default:
			close(j1out)
		}
		s.Stop()
		ctx, c := context.WithTimeout(context.Background(), 5*time.Second)
		s.Wait(ctx)
		c()
		close(stop)
	}()
	if variant == "job" {
		s.ScheduleJob(detail("j1", func(context.Context) error { close(j1in); <-j1out; return nil }), relTrigger(-time.Millisecond, 2*hour))
		s.Start(context.Background())
		for _, w := range []string{"Size", "Head", "HeadDone", "Pop"} {
			if !step(w) {
				return
			}
		}
		select {
		case <-j1in: // loop 1 is inside the blocking job
		case <-time.After(5 * time.Second):
			res.Error = "the blocking job did not start"
			return
		}
	} else {
		s.Start(context.Background())
		oldHeld = next(5 * time.Second) // loop 1 is inside a slow Size() call
		res.Trace = append(res.Trace, oldHeld.name+"(old loop held)")
		if oldHeld.name != "Size" {
			res.Error = "expected Size, got " + oldHeld.name
			return
		}
	}
	s.Stop()
	s.Start(context.Background())
	// loop 2: hold it after it has read the head
	for _, w := range []string{"Size", "Head"} {
		if !step(w) {
			return
		}
	}
	loop2 := next(5 * time.Second)
	res.Trace = append(res.Trace, loop2.name+"(new loop held)")
	if loop2.name != "HeadDone" {
		res.Error = "expected HeadDone, got " + loop2.name
		return
	}
	t0 := time.Now()
	s.ScheduleJob(detail("x", func(ctx context.Context) error {
		xRan.Add(1)
		if ctx.Err() != nil {
			xStale.Add(1)
		}
		tExec.CompareAndSwap(0, int64(time.Since(t0)))
		return nil
	}), relTrigger(-time.Millisecond, 3*hour))
	// the old loop goes on; it gets all the time it wants while the new loop stays held
	if variant == "job" {
		close(j1out)
	} else {
		close(oldHeld.rel)
	}
	deadline := time.Now().Add(300 * time.Millisecond)
	for time.Now().Before(deadline) {
		select {
		case a := <-q.arrive:
			res.Trace = append(res.Trace, "old:"+a.name)
			close(a.rel)
		case <-time.After(40 * time.Millisecond):
		}
	}
	res.Trace = append(res.Trace, "release new loop")
	close(loop2.rel)
	q.gated.Store(false)
	end := time.Now().Add(5 * time.Second)
	for time.Now().Before(end) && xRan.Load() == 0 {
		select {
		case a := <-q.arrive:
			close(a.rel)
		case <-time.After(5 * time.Millisecond):
		}
	}
	time.Sleep(20 * time.Millisecond)
	res.Executed, res.ByStale = xRan.Load(), xStale.Load()
	if t := tExec.Load(); t > 0 {
		res.DelayMs = t / 1e6
	}
	res.IsStarted = s.IsStarted()
	return
}

// C05: a slow Push inside ResumeJob (a persistent queue).  The loop is parked (on a paused head, or on a
// far head); ResumeJob of a job that is due runs with its Push held back; whatever the loop does in the
// meantime, once the Push has landed and ResumeJob has returned the resumed job must be dispatched.
func runSlowPush(trial int, sit string) (res restartResult) {
	res = restartResult{Kind: "restart", Trial: trial, Variant: "slowpush-" + sit, DelayMs: -1}
	q := &rQueue{JobQueue: quartz.NewJobQueue(), arrive: make(chan rArrival)}
	q.gated.Store(true)
	s, _ := quartz.NewStdScheduler(quartz.WithQueue(q, &sync.Mutex{}), quartz.WithOutdatedThreshold(time.Hour))
	var ran atomic.Int32
	var tExec atomic.Int64
	hour := time.Hour
	t0 := time.Now()
	if sit == "far" {
		s.ScheduleJob(detail("far", func(context.Context) error { return nil }), relTrigger(hour, 2*hour))
	}
	s.ScheduleJob(detail("pz", func(ctx context.Context) error {
		ran.Add(1)
		tExec.CompareAndSwap(0, int64(time.Since(t0)))
		return nil
	}), relTrigger(hour, -time.Millisecond, 3*hour))
	s.PauseJob(quartz.NewJobKey("pz"))
	s.Start(context.Background())
	defer func() {
		q.gated.Store(false)
		q.pushGated.Store(false)
		stop := make(chan struct{})
		go func() {
			for {
				select {
				case a := <-q.arrive:
					close(a.rel)
				case <-stop:
					return
				}
			}
		}()
		s.Stop()
		ctx, c := context.WithTimeout(context.Background(), 5*time.Second)
		s.Wait(ctx)
		c()
		close(stop)
	}()
	// let the loop park
	for {
		select {
		case a := <-q.arrive:
			res.Trace = append(res.Trace, a.name)
			close(a.rel)
			continue
		case <-time.After(150 * time.Millisecond):
		}
		break
	}
	res.Trace = append(res.Trace, "parked")
	q.pushGated.Store(true)
	t0 = time.Now()
	apiDone := make(chan error, 1)
	go func() { apiDone <- s.ResumeJob(quartz.NewJobKey("pz")) }()
	var push *rArrival
	deadline := time.Now().Add(5 * time.Second)
	quietSince := time.Now()
	for time.Now().Before(deadline) {
		select {
		case a := <-q.arrive:
			quietSince = time.Now()
			if a.name == "Push" {
				res.Trace = append(res.Trace, "Push(held)")
				aa := a
				push = &aa
			} else {
				res.Trace = append(res.Trace, "loop:"+a.name)
				close(a.rel)
			}
			continue
		case <-time.After(20 * time.Millisecond):
		}
		if push != nil && time.Since(quietSince) > 150*time.Millisecond {
			break
		}
	}
	if push == nil {
		res.Error = "ResumeJob did not reach its Push"
		return
	}
	res.Trace = append(res.Trace, "release Push")
	q.pushGated.Store(false)
	close(push.rel)
	select {
	case err := <-apiDone:
		if err != nil {
			res.Error = "ResumeJob failed: " + err.Error()
			return
		}
	case <-time.After(5 * time.Second):
		res.Error = "ResumeJob did not return"
		return
	}
	end := time.Now().Add(5 * time.Second)
	for time.Now().Before(end) && ran.Load() == 0 {
		select {
		case a := <-q.arrive:
			close(a.rel)
		case <-time.After(5 * time.Millisecond):
		}
	}
	time.Sleep(20 * time.Millisecond)
	res.Executed = ran.Load()
	if t := tExec.Load(); t > 0 {
		res.DelayMs = t / 1e6
	}
	res.IsStarted = s.IsStarted()
	return
}

// C10 (x C12): restart of a scheduler with a worker pool while a worker of the stopped run is still busy.
// In the new run one job occupies every new worker and one more is due (the new loop is handing it
// over); then the old worker's job returns and that worker is back in its select with its cancelled
// context.  No job of the new run may be entered with a cancelled context, and no more than `limit` of them
// may run at once.
type staleWorkerResult struct {
	Kind        string `json:"kind"`
	Trial       int    `json:"trial"`
	Limit       int    `json:"limit"`
	NewExecs    int32  `json:"new_run_execs"`
	StaleExecs  int32  `json:"entered_with_cancelled_ctx"`
	MaxInflight int64  `json:"max_inflight_new_run"`
	WaitOK      bool   `json:"wait_returned"`
	Error       string `json:"error,omitempty"`
}

func runStaleWorker(trial, limit int) staleWorkerResult {
	res := staleWorkerResult{Kind: "staleworker", Trial: trial, Limit: limit}
	s, _ := quartz.NewStdScheduler(quartz.WithWorkerLimit(limit), quartz.WithOutdatedThreshold(time.Minute))
	rel1 := make(chan struct{})
	var oldIn atomic.Int32
	for i := 0; i < limit; i++ {
		s.ScheduleJob(detail("old"+string(rune('a'+i)), func(context.Context) error { oldIn.Add(1); <-rel1; return nil }), quartz.NewRunOnceTrigger(time.Millisecond))
	}
	s.Start(context.Background())
	if !pollUntil(5*time.Second, func() bool { return oldIn.Load() >= int32(limit) }) {
		res.Error = "the jobs of the first run did not start"
		close(rel1)
		stopAndWait(s, 3*time.Second)
		return res
	}
	s.Stop()
	s.Start(context.Background())
	rel2 := make(chan struct{})
	var newExecs, stale atomic.Int32
	var fl inflight
	mk := func(name string) {
		s.ScheduleJob(detail(name, func(ctx context.Context) error {
			newExecs.Add(1)
			if ctx.Err() != nil {
				stale.Add(1)
			}
			fl.enter()
			defer fl.exit()
			<-rel2
			return nil
		}), quartz.NewRunOnceTrigger(time.Millisecond))
	}
	for i := 0; i < limit; i++ {
		mk("x" + string(rune('a'+i)))
	}
	pollUntil(5*time.Second, func() bool { return newExecs.Load() >= int32(limit) })
	for i := 0; i < limit; i++ {
		mk("y" + string(rune('a'+i))) // these make the new loop block in the hand-over
	}
	time.Sleep(25 * time.Millisecond)
	close(rel1) // the workers of the stopped run finish and go back to their select
	time.Sleep(40 * time.Millisecond)
	res.MaxInflight = fl.max.Load()
	close(rel2)
	pollUntil(3*time.Second, func() bool { return newExecs.Load() >= int32(2*limit) })
	res.NewExecs, res.StaleExecs = newExecs.Load(), stale.Load()
	res.WaitOK = stopAndWait(s, 5*time.Second)
	return res
}

func cmdRestart() {
	n := argInt(3, 12)
	var wg sync.WaitGroup
	sem := make(chan struct{}, 8)
	for i := 0; i < n; i++ {
		i := i
		wg.Add(1)
		go func() {
			defer wg.Done()
			sem <- struct{}{}
			defer func() { <-sem }()
			variant := "job"
			if i%2 == 1 {
				variant = "queue"
			}
			ch := make(chan restartResult, 1)
			go func() {
				switch {
				case i%6 == 4:
					variant = "slowpush-paused"
					ch <- runSlowPush(i, "paused")
				case i%6 == 5:
					variant = "slowpush-far"
					ch <- runSlowPush(i, "far")
				default:
					ch <- runRestart(i, variant)
				}
			}()
			select {
			case r := <-ch:
				emit(r)
			case <-time.After(40 * time.Second):
				emit(restartResult{Kind: "restart", Trial: i, Variant: variant, DelayMs: -1, Error: "trial did not finish within 40 s"})
			}
		}()
	}
	// restart with a busy worker of the stopped run
	for i := 0; i < n; i++ {
		i := i
		wg.Add(1)
		go func() {
			defer wg.Done()
			sem <- struct{}{}
			defer func() { <-sem }()
			ch := make(chan staleWorkerResult, 1)
			go func() { ch <- runStaleWorker(i, 1+i%2) }()
			select {
			case r := <-ch:
				emit(r)
			case <-time.After(40 * time.Second):
				emit(staleWorkerResult{Kind: "staleworker", Trial: i, Limit: 1 + i%2, Error: "trial did not finish within 40 s"})
			}
		}()
	}
	wg.Wait()
}
