package main

import (
	"context"
	"fmt"
	"sync"
	"sync/atomic"
	"time"

	"github.com/reugn/go-quartz/quartz"
)

// C12: in-flight counter (max over the run, sampled at every Execute entry and exit) and barriers.

type modesResult struct {
	Kind        string `json:"kind"`
	Mode        string `json:"mode"`  // blocking | pool | unbounded | blocking+limit
	Limit       int    `json:"limit"` // WorkerLimit (0: none)
	Test        string `json:"test"`  // barrier_n | barrier_n1 | mixed | independent
	Bound       int    `json:"bound"` // 0: unbounded
	Jobs        int    `json:"jobs"`
	MaxInflight int64  `json:"max_inflight"`
	Barrier     int    `json:"barrier"`         // size of the barrier
	Reached     bool   `json:"barrier_reached"` // all `barrier` jobs were inside at the same time
	Execs       int64  `json:"execs"`
	Sibling     int64  `json:"sibling_execs"`
	OwnNext     int64  `json:"own_next_execs"`
	WaitOK      bool   `json:"wait_returned"`
	Seed        int    `json:"seed"`
	Restart     bool   `json:"restart"`
	Failing     bool   `json:"failing_jobs"`
	MaxGapMs    int64  `json:"sibling_max_gap_ms"`
	Panics      int    `json:"panics"` // panic_then_barrier: executions that panicked before the barrier jobs were scheduled
}

type inflight struct {
	cur, max atomic.Int64
}

func (f *inflight) enter() {
	c := f.cur.Add(1)
	for {
		m := f.max.Load()
		if c <= m || f.max.CompareAndSwap(m, c) {
			return
		}
	}
}
func (f *inflight) exit() { f.cur.Add(-1) }

func modeOpts(mode string, limit int) []quartz.SchedulerOpt {
	var o []quartz.SchedulerOpt
	switch mode {
	case "blocking":
		o = append(o, quartz.WithBlockingExecution())
	case "blocking+limit":
		o = append(o, quartz.WithBlockingExecution(), quartz.WithWorkerLimit(limit))
	case "limit+blocking": // the same two options in the other order
		o = append(o, quartz.WithWorkerLimit(limit), quartz.WithBlockingExecution())
	case "pool":
		o = append(o, quartz.WithWorkerLimit(limit))
	}
	return append(o, quartz.WithOutdatedThreshold(time.Minute))
}

func stopAndWait(s quartz.Scheduler, d time.Duration) bool {
	s.Stop()
	ctx, c := context.WithTimeout(context.Background(), d)
	defer c()
	s.Wait(ctx)
	return ctx.Err() == nil
}

// barrier test: `jobs` jobs, all due at once, each waits inside Execute until `size` of them are inside
// (or `hold` has passed)
func runBarrier(mode string, limit, bound, jobs, size int, hold time.Duration, test string, seed int) modesResult {
	return runBarrierR(mode, limit, bound, jobs, size, hold, test, seed, false)
}

func runBarrierR(mode string, limit, bound, jobs, size int, hold time.Duration, test string, seed int, restart bool) modesResult {
	res := modesResult{Kind: "modes", Mode: mode, Limit: limit, Test: test, Bound: bound, Jobs: jobs, Barrier: size, Seed: seed, Restart: restart}
	s, _ := quartz.NewStdScheduler(modeOpts(mode, limit)...)
	var fl inflight
	var inside atomic.Int64
	var execs atomic.Int64
	reached := make(chan struct{})
	var once sync.Once
	for i := 0; i < jobs; i++ {
		name := fmt.Sprintf("b%d", i)
		s.ScheduleJob(detail(name, func(ctx context.Context) error {
			fl.enter()
			defer fl.exit()
			execs.Add(1)
			if inside.Add(1) >= int64(size) {
				once.Do(func() { close(reached) })
			}
			defer inside.Add(-1)
			select {
			case <-reached:
			case <-time.After(hold):
			case <-ctx.Done():
			}
			return nil
		}), quartz.NewRunOnceTrigger(30*time.Millisecond))
	}
	parent, pcancel := context.WithCancel(context.Background())
	defer pcancel()
	if restart {
		// a stopped and restarted scheduler under a still-live parent context has the same bound
		s.Start(parent)
		time.Sleep(2 * time.Millisecond)
		s.Stop()
		wctx, wc := context.WithTimeout(context.Background(), 3*time.Second)
		s.Wait(wctx)
		wc()
	}
	s.Start(parent)
	deadline := hold + 2*time.Second
	if test == "barrier_n1" {
		// everything must have run through: jobs/bound rounds of `hold` each
		rounds := 1
		if bound > 0 {
			rounds = (jobs + bound - 1) / bound
		}
		deadline = time.Duration(rounds)*hold + 3*time.Second
	}
	select {
	case <-reached:
		res.Reached = true
	case <-time.After(deadline):
	}
	if test == "barrier_n1" {
		pollUntil(deadline, func() bool { return execs.Load() >= int64(jobs) })
	}
	res.WaitOK = stopAndWait(s, 5*time.Second)
	res.MaxInflight = fl.max.Load()
	res.Execs = execs.Load()
	return res
}

var errMixed = fmt.Errorf("mixed workload failure")

func retryDetail(name string, retries bool, f func(ctx context.Context) error) *quartz.JobDetail {
	if !retries {
		return detail(name, f)
	}
	return quartz.NewJobDetailWithOptions(&funcJob{name, f}, quartz.NewJobKey(name), &quartz.JobDetailOptions{MaxRetries: 2, RetryInterval: time.Millisecond})
}

func runMixed(mode string, limit, bound, seed int) modesResult {
	r := &rng{s: uint64(seed)*31 + uint64(limit)*1009 + uint64(len(mode))}
	jobs := 3*limit + 2
	if jobs > 40 {
		jobs = 40
	}
	res := modesResult{Kind: "modes", Mode: mode, Limit: limit, Test: "mixed", Bound: bound, Jobs: jobs, Seed: seed, Failing: true}
	s, _ := quartz.NewStdScheduler(modeOpts(mode, limit)...)
	var fl inflight
	var execs atomic.Int64
	for i := 0; i < jobs; i++ {
		d := time.Duration(r.intn(6)) * time.Millisecond
		never := i == 0 && mode != "blocking" && mode != "blocking+limit" && limit != 1
		name := fmt.Sprintf("m%d", i)
		failing := i%3 == 1 // these fail every time and are retried (MaxRetries 2, 1 ms apart): retries run where the job runs
		s.ScheduleJob(retryDetail(name, failing, func(ctx context.Context) error {
			fl.enter()
			defer fl.exit()
			execs.Add(1)
			if never {
				<-ctx.Done()
				return nil
			}
			time.Sleep(d)
			if failing {
				return errMixed
			}
			return nil
		}), quartz.NewSimpleTrigger(time.Duration(2+r.intn(4))*time.Millisecond))
	}
	s.Start(context.Background())
	time.Sleep(350 * time.Millisecond)
	res.WaitOK = stopAndWait(s, 5*time.Second)
	res.MaxInflight = fl.max.Load()
	res.Execs = execs.Load()
	return res
}

// unbounded mode: a never-returning job delays neither a sibling nor its own next fire times
func runIndependent(seed int) modesResult {
	res := modesResult{Kind: "modes", Mode: "unbounded", Test: "independent", Jobs: 2, Seed: seed}
	s, _ := quartz.NewStdScheduler(modeOpts("unbounded", 0)...)
	var fl inflight
	var own, sib atomic.Int64
	s.ScheduleJob(detail("never", func(ctx context.Context) error {
		fl.enter()
		defer fl.exit()
		own.Add(1)
		<-ctx.Done()
		return nil
	}), quartz.NewSimpleTrigger(15*time.Millisecond))
	s.ScheduleJob(detail("sib", func(ctx context.Context) error {
		fl.enter()
		defer fl.exit()
		sib.Add(1)
		return nil
	}), quartz.NewSimpleTrigger(10*time.Millisecond))
	s.Start(context.Background())
	pollUntil(5*time.Second, func() bool { return own.Load() >= 4 && sib.Load() >= 4 })
	res.OwnNext, res.Sibling = own.Load(), sib.Load()
	res.WaitOK = stopAndWait(s, 5*time.Second)
	res.MaxInflight = fl.max.Load()
	res.Execs = res.OwnNext + res.Sibling
	return res
}

// unbounded mode: a recurring job that fails and is still in its retry sequence (4 retries, 150 ms apart)
// when its next fire times come must delay neither a sibling ticker nor its own next fire times
func runRetryingIndependent(seed int) modesResult {
	res := modesResult{Kind: "modes", Mode: "unbounded", Test: "retrying_independent", Jobs: 2, Seed: seed, Failing: true}
	s, _ := quartz.NewStdScheduler(modeOpts("unbounded", 0)...)
	var own, sib atomic.Int64
	var last, maxGap atomic.Int64
	base := time.Now()
	s.ScheduleJob(quartz.NewJobDetailWithOptions(&funcJob{"retrying", func(ctx context.Context) error {
		own.Add(1)
		return errMixed
	}}, quartz.NewJobKey("retrying"), &quartz.JobDetailOptions{MaxRetries: 4, RetryInterval: 150 * time.Millisecond}), quartz.NewSimpleTrigger(100*time.Millisecond))
	s.ScheduleJob(detail("ticker", func(ctx context.Context) error {
		now := int64(time.Since(base))
		if l := last.Swap(now); l != 0 {
			g := now - l
			for {
				m := maxGap.Load()
				if g <= m || maxGap.CompareAndSwap(m, g) {
					break
				}
			}
		}
		sib.Add(1)
		return nil
	}), quartz.NewSimpleTrigger(10*time.Millisecond))
	s.Start(context.Background())
	time.Sleep(1600 * time.Millisecond)
	res.OwnNext, res.Sibling = own.Load(), sib.Load()
	res.MaxGapMs = maxGap.Load() / 1e6
	res.WaitOK = stopAndWait(s, 5*time.Second)
	res.Execs = res.OwnNext + res.Sibling
	return res
}

// pool mode: jobs whose error is (or wraps) a context error of their own must not cost the pool its workers
func runCtxErrThenBarrier(limit, seed int) modesResult {
	res := modesResult{Kind: "modes", Mode: "pool", Limit: limit, Test: "ctxerr_then_barrier", Bound: limit, Jobs: 2*limit + 2 + limit, Barrier: limit, Seed: seed, Failing: true}
	s, _ := quartz.NewStdScheduler(modeOpts("pool", limit)...)
	var fl inflight
	var pre, execs atomic.Int64
	npre := 2*limit + 2
	for i := 0; i < npre; i++ {
		err := error(context.DeadlineExceeded)
		if i%2 == 1 {
			err = fmt.Errorf("lookup aborted: %w", context.Canceled)
		}
		s.ScheduleJob(detail(fmt.Sprintf("ce%d", i), func(ctx context.Context) error {
			fl.enter()
			defer fl.exit()
			pre.Add(1)
			return err
		}), quartz.NewRunOnceTrigger(time.Millisecond))
	}
	s.Start(context.Background())
	pollUntil(4*time.Second, func() bool { return pre.Load() >= int64(npre) })
	var inside atomic.Int64
	reached := make(chan struct{})
	var once sync.Once
	for i := 0; i < limit; i++ {
		s.ScheduleJob(detail(fmt.Sprintf("cb%d", i), func(ctx context.Context) error {
			fl.enter()
			defer fl.exit()
			execs.Add(1)
			if inside.Add(1) >= int64(limit) {
				once.Do(func() { close(reached) })
			}
			defer inside.Add(-1)
			select {
			case <-reached:
			case <-time.After(5 * time.Second):
			case <-ctx.Done():
			}
			return nil
		}), quartz.NewRunOnceTrigger(time.Millisecond))
	}
	select {
	case <-reached:
		res.Reached = true
	case <-time.After(5 * time.Second):
	}
	res.WaitOK = stopAndWait(s, 5*time.Second)
	res.MaxInflight = fl.max.Load()
	res.Execs = pre.Load() + execs.Load()
	return res
}

// pool mode: p executions that panic (one after the other, so that each is taken by whichever worker is
// free), then `limit` jobs due at once: the pool still has `limit` workers, so they all meet at the barrier,
// and the loop is not stuck in a hand-over
func runPanicThenBarrier(limit, p, seed int) modesResult {
	res := modesResult{Kind: "modes", Mode: "pool", Limit: limit, Test: "panic_then_barrier", Bound: limit, Jobs: p + limit, Barrier: limit, Seed: seed, Panics: p, Failing: true}
	s, _ := quartz.NewStdScheduler(modeOpts("pool", limit)...)
	var fl inflight
	var pre, execs atomic.Int64
	s.Start(context.Background())
	for i := 0; i < p; i++ {
		s.ScheduleJob(detail(fmt.Sprintf("pp%d", i), func(ctx context.Context) error {
			fl.enter()
			defer fl.exit()
			pre.Add(1)
			panic("job panic before the barrier")
		}), quartz.NewRunOnceTrigger(time.Millisecond))
		// one at a time; a pool that cannot take the job any more shows below
		pollUntil(2*time.Second, func() bool { return pre.Load() >= int64(i+1) })
	}
	time.Sleep(10 * time.Millisecond)
	var inside atomic.Int64
	reached := make(chan struct{})
	var once sync.Once
	for i := 0; i < limit; i++ {
		s.ScheduleJob(detail(fmt.Sprintf("pb%d", i), func(ctx context.Context) error {
			fl.enter()
			defer fl.exit()
			execs.Add(1)
			if inside.Add(1) >= int64(limit) {
				once.Do(func() { close(reached) })
			}
			defer inside.Add(-1)
			select {
			case <-reached:
			case <-time.After(5 * time.Second):
			case <-ctx.Done():
			}
			return nil
		}), quartz.NewRunOnceTrigger(time.Millisecond))
	}
	select {
	case <-reached:
		res.Reached = true
	case <-time.After(5 * time.Second):
	}
	res.WaitOK = stopAndWait(s, 5*time.Second)
	res.MaxInflight = fl.max.Load()
	res.Execs = pre.Load() + execs.Load()
	return res
}

func cmdModes() {
	seed := argInt(2, 1)
	tier := argStr(3, "quick")
	limits := []int{1, 2, 3, 8}
	if tier == "thorough" {
		limits = append(limits, 64)
	}
	var wg sync.WaitGroup
	sem := make(chan struct{}, 4)
	run := func(f func() modesResult) {
		wg.Add(1)
		go func() {
			defer wg.Done()
			sem <- struct{}{}
			defer func() { <-sem }()
			emit(f())
		}()
	}
	hold := 150 * time.Millisecond
	for _, n := range limits {
		n := n
		run(func() modesResult { return runBarrier("pool", n, n, n, n, 5*time.Second, "barrier_n", seed) })
		run(func() modesResult { return runBarrier("pool", n, n, n+1, n+1, hold, "barrier_n1", seed) })
		run(func() modesResult { return runBarrier("pool", n, n, 2*n+1, n+1, hold/2, "barrier_n1", seed) })
		run(func() modesResult { return runMixed("pool", n, n, seed) })
	}
	run(func() modesResult { return runBarrier("blocking", 0, 1, 2, 2, hold, "barrier_n1", seed) })
	run(func() modesResult { return runBarrier("blocking", 0, 1, 1, 1, 5*time.Second, "barrier_n", seed) })
	run(func() modesResult { return runBarrier("blocking+limit", 4, 1, 3, 2, hold, "barrier_n1", seed) })
	run(func() modesResult { return runMixed("blocking", 0, 1, seed) })
	run(func() modesResult { return runMixed("blocking+limit", 3, 1, seed) })
	run(func() modesResult { return runBarrier("limit+blocking", 4, 1, 3, 2, hold, "barrier_n1", seed) })
	run(func() modesResult { return runMixed("limit+blocking", 3, 1, seed) })
	run(func() modesResult { return runBarrier("unbounded", 0, 0, 24, 24, 5*time.Second, "barrier_n", seed) })
	run(func() modesResult { return runBarrier("unbounded", 0, 0, 320, 320, 8*time.Second, "barrier_n", seed) })
	for _, n := range []int{1, 2, 3} {
		n := n
		run(func() modesResult { return runBarrierR("pool", n, n, n+1, n+1, hold, "barrier_n1", seed, true) })
		run(func() modesResult { return runBarrierR("pool", n, n, n, n, 5*time.Second, "barrier_n", seed, true) })
	}
	run(func() modesResult { return runBarrierR("blocking", 0, 1, 2, 2, hold, "barrier_n1", seed, true) })
	run(func() modesResult { return runMixed("unbounded", 5, 0, seed) })
	run(func() modesResult { return runIndependent(seed) })
	run(func() modesResult { return runRetryingIndependent(seed) })
	run(func() modesResult { return runCtxErrThenBarrier(2, seed) })
	run(func() modesResult { return runCtxErrThenBarrier(3, seed) })
	for _, np := range [][2]int{{1, 1}, {2, 1}, {2, 2}, {3, 1}, {3, 2}, {3, 3}, {8, 3}, {8, 8}} {
		np := np
		run(func() modesResult { return runPanicThenBarrier(np[0], np[1], seed) })
	}
	wg.Wait()
}
