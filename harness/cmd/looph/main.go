// looph: correspondence harness for the engine "loop" (properties C05, C10, C12, C13, C15).
// It drives the real StdScheduler (built from the go-quartz working tree with -tags verif) and prints
// one JSON object per case on stdout.  Subcommands:
//
//	gate  <seed> <n>          C05: single-steps the real execution loop through a gated JobQueue
//	free  <seed> <n>          C05: free-running loop with a queue that sleeps inside Size/Head
//	life  <seed> <n>          C10: Start/Stop/cancel/Wait sequences
//	modes <seed> <tier>       C12: in-flight bounds, barriers, independence
//	retry <seed> <tier>       C13: scripted jobs (each scenario in a child process)
//	retrychild <json>         (internal) one C13 scenario
//	direct <seed>             C13: VerifExecuteWithRetries called directly
//	faults <seed> <tier>      C15: fault-injecting JobQueue
//	restart <seed> <n>        C05/C10: restart with the loop of the stopped run still alive
//	poolstop <seed> <rounds>  C10: shutdown of a saturated worker pool
//	opts                      C05: MisfiredChan that is not drained, OutdatedThreshold / RetryInterval at their extremes
//	descmodes <seed>          C12: jobs whose Description() blocks / is slow / panics; hand-over when any worker frees
//	slowapi                   C15: lifecycle calls while an API call is inside a slow queue operation
//	busycancel <seed> <rounds> C10: cancellation of the Start context while the loop is held in a job / a queue call
package main

import (
	"context"
	"encoding/json"
	"fmt"
	"math"
	"os"
	"sort"
	"strconv"
	"sync"
	"sync/atomic"
	"time"

	"github.com/reugn/go-quartz/quartz"
)

var outMu sync.Mutex

func emit(v any) {
	b, err := json.Marshal(v)
	if err != nil {
		panic(err)
	}
	outMu.Lock()
	fmt.Println(string(b))
	outMu.Unlock()
}

func argInt(i int, def int) int {
	if len(os.Args) > i {
		if v, err := strconv.Atoi(os.Args[i]); err == nil {
			return v
		}
	}
	return def
}

func argStr(i int, def string) string {
	if len(os.Args) > i {
		return os.Args[i]
	}
	return def
}

// deterministic PRNG (splitmix64)
type rng struct{ s uint64 }

func (r *rng) next() uint64 {
	r.s += 0x9e3779b97f4a7c15
	z := r.s
	z = (z ^ (z >> 30)) * 0xbf58476d1ce4e5b9
	z = (z ^ (z >> 27)) * 0x94d049bb133111eb
	return z ^ (z >> 31)
}
func (r *rng) intn(n int) int { return int(r.next() % uint64(n)) }

// ---- scripted trigger: returns the listed absolute fire times one after the other, then expires ----
type scriptTrigger struct {
	mu    sync.Mutex
	next  []int64
	calls int
	// when set, the value is computed at call time (now + offset), so "due now" stays due
	relative bool
}

func (t *scriptTrigger) NextFireTime(prev int64) (int64, error) {
	t.mu.Lock()
	defer t.mu.Unlock()
	t.calls++
	if len(t.next) == 0 {
		return 0, quartz.ErrTriggerExpired
	}
	n := t.next[0]
	t.next = t.next[1:]
	if t.relative {
		n += quartz.NowNano()
	}
	return n, nil
}
func (t *scriptTrigger) Description() string { return "script" }

// relTrigger(offsets...) : fire times relative to the moment NextFireTime is called
func relTrigger(offsets ...time.Duration) *scriptTrigger {
	t := &scriptTrigger{relative: true}
	for _, o := range offsets {
		t.next = append(t.next, int64(o))
	}
	return t
}

// ---- execution log ----
type execLog struct {
	mu   sync.Mutex
	evs  []execEv
	cond chan struct{}
}
type execEv struct {
	Key string `json:"key"`
	At  int64  `json:"at"` // ns since the log was created
}

func newExecLog() *execLog { return &execLog{cond: make(chan struct{}, 1024)} }
func (l *execLog) add(key string, base time.Time) {
	l.mu.Lock()
	l.evs = append(l.evs, execEv{key, int64(time.Since(base))})
	l.mu.Unlock()
	select {
	case l.cond <- struct{}{}:
	default:
	}
}
func (l *execLog) count(key string) int {
	l.mu.Lock()
	defer l.mu.Unlock()
	n := 0
	for _, e := range l.evs {
		if e.Key == key {
			n++
		}
	}
	return n
}
func (l *execLog) snapshot() []execEv {
	l.mu.Lock()
	defer l.mu.Unlock()
	return append([]execEv{}, l.evs...)
}

// waitFor waits until key has been executed at least n times (generous deadline)
func (l *execLog) waitFor(key string, n int, d time.Duration) bool {
	deadline := time.Now().Add(d)
	for {
		if l.count(key) >= n {
			return true
		}
		if time.Now().After(deadline) {
			return false
		}
		select {
		case <-l.cond:
		case <-time.After(5 * time.Millisecond):
		}
	}
}

// ---- plain job ----
type funcJob struct {
	name string
	f    func(ctx context.Context) error
}

func (j *funcJob) Execute(ctx context.Context) error { return j.f(ctx) }
func (j *funcJob) Description() string               { return j.name }

func detail(name string, f func(ctx context.Context) error) *quartz.JobDetail {
	return quartz.NewJobDetail(&funcJob{name, f}, quartz.NewJobKey(name))
}

// queue priorities in milliseconds relative to base; MaxInt64 stays MaxInt64
func prioMs(p int64, base int64) int64 {
	if p == math.MaxInt64 {
		return math.MaxInt64
	}
	d := p - base
	if d >= 0 {
		return d / 1e6
	}
	return -((-d + 999999) / 1e6)
}

func snapshotQueue(q quartz.JobQueue, base int64) []int64 {
	js, err := q.ScheduledJobs(nil)
	if err != nil {
		return nil
	}
	out := make([]int64, 0, len(js))
	for _, j := range js {
		out = append(out, prioMs(j.NextRunTime(), base))
	}
	sort.Slice(out, func(a, b int) bool { return out[a] < out[b] })
	return out
}

var _ = atomic.Int64{}

func main() {
	if len(os.Args) < 2 {
		fmt.Fprintln(os.Stderr, "usage: looph gate|free|life|modes|retry|retrychild|direct|faults ...")
		os.Exit(2)
	}
	switch os.Args[1] {
	case "gate":
		cmdGate()
	case "free":
		cmdFree()
	case "life":
		cmdLife()
	case "modes":
		cmdModes()
	case "retry":
		cmdRetry()
	case "retrychild":
		cmdRetryChild()
	case "direct":
		cmdDirect()
	case "faults":
		cmdFaults()
	case "restart":
		cmdRestart()
	case "poolstop":
		cmdPoolStop()
	case "busycancel":
		cmdBusyCancel()
	case "opts":
		cmdOpts()
	case "descmodes":
		cmdDescModes()
	case "slowapi":
		cmdSlowAPI()
	default:
		fmt.Fprintln(os.Stderr, "unknown subcommand", os.Args[1])
		os.Exit(2)
	}
}
