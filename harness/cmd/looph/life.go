package main

import (
	"context"
	"fmt"
	"runtime"
	"strings"
	"sync"
	"sync/atomic"
	"time"

	"github.com/reugn/go-quartz/quartz"
)

// C10: sequences of Start / Stop / cancel / Stop-immediately-Start / ScheduleJob with spacing
// 0 / Gosched / 1ms / 20ms, in the three execution modes, with jobs that are idle, running or blocked
// on their context when the scheduler stops.

type lifeOp struct {
	Op  string `json:"op"`  // start | stop | cancel | stopstart | schedule | wait
	Gap string `json:"gap"` // 0 | yield | 1ms | 20ms   (pause after the op)
}

type lifeResult struct {
	Kind            string   `json:"kind"`
	ID              int      `json:"id"`
	Seed            int      `json:"seed"`
	Mode            string   `json:"mode"`
	Jobs            string   `json:"jobs"` // idle | running | blocked | reentrant (blocked, then calls the scheduler)
	StopHung        bool     `json:"stop_hung"`
	Ops             []lifeOp `json:"ops"`
	Expected        bool     `json:"expected_started"` // last of {Start, Stop, cancel of the running run} is Start
	Observed        bool     `json:"observed_started"`
	Stable          bool     `json:"stable"`           // and it stayed that way
	FiredWhenOn     bool     `json:"fired_when_started"` // only meaningful if Expected
	WaitReturned    bool     `json:"wait_returned"`
	ExecsAfterWait  int      `json:"execs_after_wait"`
	Leaked          int      `json:"leaked_goroutines"`
	LeakSample      string   `json:"leak_sample,omitempty"`
	BlockedStarted  int64    `json:"blocked_started"`
	BlockedSawDone  int64    `json:"blocked_saw_done"`
	LiveCtxAtStart  int64    `json:"execs_started_with_done_ctx_while_running"`
	StartsEffective int      `json:"effective_starts"`
	EarlyWaits      int      `json:"waits_returned_while_started"` // Wait came back although the scheduler was started
	LateWaits       int      `json:"waits_hanging_while_stopped"`
}

func gap(g string) {
	switch g {
	case "yield":
		runtime.Gosched()
	case "1ms":
		time.Sleep(time.Millisecond)
	case "20ms":
		time.Sleep(20 * time.Millisecond)
	}
}

func quartzGoroutines() (int, string) {
	buf := make([]byte, 1<<20)
	n := runtime.Stack(buf, true)
	n2 := 0
	sample := ""
	for _, g := range strings.Split(string(buf[:n]), "\n\n") {
		if strings.Contains(g, "github.com/reugn/go-quartz/quartz.") {
			n2++
			if sample == "" {
				sample = g
				if len(sample) > 600 {
					sample = sample[:600]
				}
			}
		}
	}
	return n2, sample
}

func pollUntil(d time.Duration, f func() bool) bool {
	deadline := time.Now().Add(d)
	for {
		if f() {
			return true
		}
		if time.Now().After(deadline) {
			return false
		}
		time.Sleep(2 * time.Millisecond)
	}
}

func genLifeOps(r *rng) []lifeOp {
	gaps := []string{"0", "yield", "1ms", "20ms"}
	n := 3 + r.intn(6)
	ops := []lifeOp{{"start", gaps[r.intn(4)]}}
	for i := 0; i < n; i++ {
		var op string
		switch r.intn(10) {
		case 0, 1:
			op = "start"
		case 2, 3:
			op = "stop"
		case 4, 5:
			op = "cancel"
		case 6, 7:
			op = "stopstart"
		case 8:
			op = "wait"
		default:
			op = "schedule"
		}
		ops = append(ops, lifeOp{op, gaps[r.intn(4)]})
	}
	return ops
}

func runLife(seed, id int, fixed []lifeOp) lifeResult { return runLifeM(seed, id, fixed, "") }

// modeOverride: an option combination outside the rotation (blocking+limit: BlockingExecution AND WorkerLimit)
func runLifeM(seed, id int, fixed []lifeOp, modeOverride string) lifeResult {
	r := &rng{s: uint64(seed)*7919 + uint64(id)*104729 + 1}
	mode := []string{"unbounded", "blocking", "pool"}[id%3]
	if modeOverride != "" {
		mode = modeOverride
	}
	jobs := []string{"idle", "running", "blocked", "reentrant"}[(id/3)%4]
	ops := fixed
	if ops == nil {
		ops = genLifeOps(r)
	}
	res := lifeResult{Kind: "life", ID: id, Seed: seed, Mode: mode, Jobs: jobs, Ops: ops}
	var opts []quartz.SchedulerOpt
	switch mode {
	case "blocking":
		opts = append(opts, quartz.WithBlockingExecution())
	case "pool":
		opts = append(opts, quartz.WithWorkerLimit(2))
	case "blocking+limit":
		opts = append(opts, quartz.WithBlockingExecution(), quartz.WithWorkerLimit(2))
	}
	s, _ := quartz.NewStdScheduler(opts...)
	var execStarts atomic.Int64
	var lastExecStart atomic.Int64
	var blockedStarted, blockedSawDone atomic.Int64
	base := time.Now()
	stamp := func() { execStarts.Add(1); lastExecStart.Store(int64(time.Since(base))) }
	tick := detail("tick", func(ctx context.Context) error { stamp(); return nil })
	var second *quartz.JobDetail
	switch jobs {
	case "running":
		second = detail("busy", func(ctx context.Context) error { stamp(); time.Sleep(15 * time.Millisecond); return nil })
	case "reentrant":
		// a job that, once its context is cancelled, asks the scheduler about itself before returning
		second = detail("blocked", func(ctx context.Context) error {
			stamp()
			blockedStarted.Add(1)
			<-ctx.Done()
			_ = s.IsStarted()
			_, _ = s.GetJobKeys()
			blockedSawDone.Add(1)
			return nil
		})
	case "blocked":
		second = detail("blocked", func(ctx context.Context) error {
			stamp()
			blockedStarted.Add(1)
			<-ctx.Done()
			blockedSawDone.Add(1)
			return nil
		})
	}
	s.ScheduleJob(tick, quartz.NewSimpleTrigger(4*time.Millisecond))
	if second != nil {
		s.ScheduleJob(second, quartz.NewSimpleTrigger(9*time.Millisecond))
	}
	stopWD := func() bool {
		done := make(chan struct{})
		go func() { s.Stop(); close(done) }()
		select {
		case <-done:
			return true
		case <-time.After(6 * time.Second):
			res.StopHung = true
			return false
		}
	}
	expected := false
	var cancelCur context.CancelFunc
	effective := 0
	var cancels []context.CancelFunc
	var startsAtLastStart int64
	doStart := func() {
		ctx, c := context.WithCancel(context.Background())
		cancels = append(cancels, c)
		if !expected {
			cancelCur = c
			effective++
			startsAtLastStart = execStarts.Load()
		}
		s.Start(ctx)
		expected = true
	}
	nsched := 0
	for _, op := range ops {
		switch op.Op {
		case "start":
			doStart()
		case "stop":
			if !stopWD() {
				return res
			}
			expected = false
		case "cancel":
			if expected && cancelCur != nil {
				cancelCur()
				expected = false
				// cancellation takes effect through the watcher goroutine: wait for it (asymmetric, generous)
				pollUntil(3*time.Second, func() bool { return !s.IsStarted() })
			}
		case "stopstart":
			if !stopWD() {
				return res
			}
			expected = false
			doStart()
		case "wait":
			// Wait returns only when the scheduler has shut down: while started it must run into its own timeout
			if expected {
				wctx, wc := context.WithTimeout(context.Background(), 120*time.Millisecond)
				s.Wait(wctx)
				if wctx.Err() == nil && s.IsStarted() {
					res.EarlyWaits++
				}
				wc()
			} else {
				wctx, wc := context.WithTimeout(context.Background(), 6*time.Second)
				s.Wait(wctx)
				if wctx.Err() != nil {
					res.LateWaits++
				}
				wc()
			}
		case "schedule":
			nsched++
			name := "extra" + string(rune('a'+nsched%26))
			s.ScheduleJob(detail(name, func(ctx context.Context) error { stamp(); return nil }), quartz.NewSimpleTrigger(6*time.Millisecond))
		}
		gap(op.Gap)
	}
	res.Expected = expected
	res.StartsEffective = effective
	// quiescence: give helper goroutines of earlier runs time to do their last steps
	time.Sleep(30 * time.Millisecond)
	pollUntil(2*time.Second, func() bool { return s.IsStarted() == expected })
	res.Observed = s.IsStarted()
	time.Sleep(40 * time.Millisecond)
	res.Stable = s.IsStarted() == res.Observed
	if expected {
		// a (re)started scheduler fires its jobs
		res.FiredWhenOn = pollUntil(4*time.Second, func() bool { return execStarts.Load() > startsAtLastStart })
	}
	// shut down and wait
	if !stopWD() {
		return res
	}
	wctx, wc := context.WithTimeout(context.Background(), 6*time.Second)
	done := make(chan struct{})
	go func() { s.Wait(wctx); close(done) }()
	<-done
	res.WaitReturned = wctx.Err() == nil
	wc()
	tWait := int64(time.Since(base))
	n0 := execStarts.Load()
	time.Sleep(60 * time.Millisecond)
	if res.WaitReturned {
		res.ExecsAfterWait = int(execStarts.Load() - n0)
		if lastExecStart.Load() > tWait && res.ExecsAfterWait == 0 {
			res.ExecsAfterWait = 1
		}
	}
	// goroutine accounting while the contexts given to Start are still alive: everything the scheduler
	// created must be gone after Stop + Wait on its own account
	pollUntil(2*time.Second, func() bool { n, _ := quartzGoroutines(); return n == 0 })
	res.Leaked, res.LeakSample = quartzGoroutines()
	if res.Leaked == 0 {
		res.LeakSample = ""
	}
	for _, c := range cancels {
		c()
	}
	pollUntil(2*time.Second, func() bool { n, _ := quartzGoroutines(); return n == 0 })
	res.BlockedStarted = blockedStarted.Load()
	res.BlockedSawDone = blockedSawDone.Load()
	return res
}

var lifeFixed = [][]lifeOp{
	{{"start", "0"}, {"stop", "0"}, {"start", "0"}},
	{{"start", "1ms"}, {"stopstart", "0"}},
	{{"start", "20ms"}, {"stopstart", "0"}, {"stopstart", "0"}, {"stopstart", "yield"}},
	{{"start", "0"}, {"start", "0"}, {"stop", "0"}, {"stop", "0"}},
	{{"start", "20ms"}, {"cancel", "0"}, {"start", "0"}},
	{{"start", "1ms"}, {"cancel", "0"}},
	{{"start", "20ms"}, {"stop", "20ms"}},
	{{"start", "20ms"}, {"cancel", "yield"}, {"start", "20ms"}, {"stopstart", "0"}, {"cancel", "0"}, {"start", "1ms"}},
	{{"start", "0"}, {"schedule", "1ms"}, {"stopstart", "0"}, {"schedule", "20ms"}},
	{{"start", "1ms"}, {"start", "0"}, {"cancel", "0"}},
	{{"start", "20ms"}, {"stop", "0"}, {"wait", "0"}, {"start", "20ms"}, {"wait", "0"}},
	{{"start", "1ms"}, {"wait", "0"}, {"cancel", "0"}, {"wait", "0"}, {"start", "1ms"}, {"wait", "0"}, {"stopstart", "0"}, {"wait", "1ms"}},
	{{"start", "1ms"}, {"start", "1ms"}, {"cancel", "1ms"}, {"start", "20ms"}},
	{{"start", "20ms"}, {"stop", "1ms"}, {"start", "20ms"}, {"stop", "0"}, {"start", "20ms"}, {"stop", "0"}},
}

// worker-pool mode: all workers busy with jobs that end only at shutdown, one more fire time due (the loop
// is blocked handing it over), then Stop or cancellation: Wait must return and nothing may be left behind.
type poolStopResult struct {
	Kind     string `json:"kind"`
	Round    int    `json:"round"`
	Variant  string `json:"variant"` // stop | cancel
	Limit    int    `json:"limit"`
	Started  int64  `json:"started"`
	WaitOK   bool   `json:"wait_returned"`
	Leaked   int    `json:"leaked_goroutines"`
	Sample   string `json:"leak_sample,omitempty"`
	SawDone  int64  `json:"saw_done"`
}

func runPoolStop(round int, variant string, limit int) poolStopResult {
	res := poolStopResult{Kind: "poolstop", Round: round, Variant: variant, Limit: limit}
	s, _ := quartz.NewStdScheduler(quartz.WithWorkerLimit(limit), quartz.WithOutdatedThreshold(time.Minute))
	var started, sawDone atomic.Int64
	for i := 0; i < limit+2; i++ {
		name := "ps" + string(rune('a'+i))
		s.ScheduleJob(detail(name, func(ctx context.Context) error {
			started.Add(1)
			<-ctx.Done()
			sawDone.Add(1)
			return nil
		}), quartz.NewRunOnceTrigger(time.Millisecond))
	}
	ctx, cancel := context.WithCancel(context.Background())
	defer cancel()
	s.Start(ctx)
	pollUntil(5*time.Second, func() bool { return started.Load() >= int64(limit) })
	time.Sleep(60 * time.Millisecond) // the loop is now blocked handing the next job over
	res.Started = started.Load()
	if variant == "cancel" {
		cancel()
	} else {
		s.Stop()
	}
	wctx, wc := context.WithTimeout(context.Background(), 6*time.Second)
	s.Wait(wctx)
	res.WaitOK = wctx.Err() == nil
	wc()
	pollUntil(2*time.Second, func() bool { n, _ := quartzGoroutines(); return n == 0 })
	res.Leaked, res.Sample = quartzGoroutines()
	if res.Leaked == 0 {
		res.Sample = ""
	}
	res.SawDone = sawDone.Load()
	cancel()
	// do not leave a blocked loop of a broken scheduler behind for the next round's profile
	if res.Leaked > 0 {
		go func() {
			for i := 0; i < 50; i++ {
				time.Sleep(20 * time.Millisecond)
			}
		}()
	}
	return res
}

func cmdLife() {
	seed := argInt(2, 1)
	n := argInt(3, 40)
	only := argInt(4, -1)
	shard, shards := argInt(5, 0), argInt(6, 1)
	id := 0
	run := func(f []lifeOp) {
		if (only < 0 && id%shards == shard) || only == id {
			emit(runLife(seed, id, f))
		}
		id++
	}
	// fixed sequences in all nine mode x job combinations, then random ones; sequentially within a
	// process, because the goroutine profile is process-wide
	for rep := 0; rep < 9; rep++ {
		for _, f := range lifeFixed {
			run(f)
		}
	}
	for i := 0; i < n; i++ {
		run(nil)
	}
	// both options at once (BlockingExecution wins; no pool is started): the same lifecycle obligations
	for k, f := range lifeFixed {
		if k%2 == 0 {
			f := f
			if (only < 0 && id%shards == shard) || only == id {
				emit(runLifeM(seed, id, f, "blocking+limit"))
			}
			id++
		}
	}
}

type lateJobResult struct {
	Kind      string `json:"kind"`
	Round     int    `json:"round"`
	WaitOK    bool   `json:"wait_returned"`
	LateExecs int64  `json:"execs_begun_after_wait"`
	StopHung  bool   `json:"stop_hung"`
	Execs     int64  `json:"execs"`
}

type slowTrigger struct {
	entered chan struct{}
	release chan struct{}
	n       atomic.Int64
}

func (t *slowTrigger) NextFireTime(prev int64) (int64, error) {
	if t.n.Add(1) == 1 {
		return quartz.NowNano() - int64(time.Millisecond), nil // due at once
	}
	select {
	case t.entered <- struct{}{}:
	default:
	}
	<-t.release
	return quartz.NowNano() + int64(time.Hour), nil
}
func (t *slowTrigger) Description() string { return "slow" }

// unbounded mode: the loop is inside fetchAndReschedule of a due job (its trigger is slow) when Stop comes;
// the job is then handed to a fresh goroutine while the loop exits.  Whatever begins must be over when Wait returns.
func runLateJob(round int) lateJobResult {
	res := lateJobResult{Kind: "latejob", Round: round}
	s, _ := quartz.NewStdScheduler(quartz.WithOutdatedThreshold(time.Minute))
	tr := &slowTrigger{entered: make(chan struct{}, 1), release: make(chan struct{})}
	var waitDone atomic.Bool
	var late, execs atomic.Int64
	s.ScheduleJob(detail("lj", func(ctx context.Context) error {
		execs.Add(1)
		if waitDone.Load() {
			late.Add(1)
		}
		time.Sleep(time.Millisecond)
		if waitDone.Load() {
			late.Add(1)
		}
		return nil
	}), tr)
	s.Start(context.Background())
	select {
	case <-tr.entered:
	case <-time.After(5 * time.Second):
		close(tr.release)
		stopAndWait(s, 3*time.Second)
		return res
	}
	stopped := make(chan struct{})
	go func() { s.Stop(); close(stopped) }()
	select {
	case <-stopped:
	case <-time.After(3 * time.Second):
		res.StopHung = true // Stop waits for something that waits for Stop
		close(tr.release)
		<-stopped
		stopAndWait(s, 3*time.Second)
		return res
	}
	done := make(chan struct{})
	go func() {
		ctx, c := context.WithTimeout(context.Background(), 6*time.Second)
		s.Wait(ctx)
		res.WaitOK = ctx.Err() == nil
		c()
		waitDone.Store(true)
		close(done)
	}()
	time.Sleep(time.Duration(round%4) * 50 * time.Microsecond)
	close(tr.release)
	<-done
	time.Sleep(15 * time.Millisecond)
	res.LateExecs, res.Execs = late.Load(), execs.Load()
	return res
}

// poolstop <seed> <rounds>: the pool-shutdown rounds in a process of their own (the goroutine profile is
// process-wide; a leak left by anything else must not hide or fake a verdict)
func cmdPoolStop() {
	rounds := argInt(3, 24)
	for r := 0; r < rounds; r++ {
		pr := runPoolStop(r, []string{"stop", "cancel"}[r%2], 1+r%3)
		emit(pr)
		if pr.Leaked > 0 || !pr.WaitOK {
			return // a stuck goroutine would be counted again in every later round
		}
	}
	func() {
		defer func() {
			if r := recover(); r != nil {
				emit(map[string]any{"kind": "latejob", "round": -1, "panic": fmt.Sprint(r)})
			}
		}()
		for r := 0; r < 4*rounds; r++ {
			lr := runLateJob(r)
			emit(lr)
			if lr.StopHung {
				return
			}
		}
	}()
}

// ---- C10: cancellation of the context given to Start while the execution loop is busy ----
// The loop of the run is held outside its select (inside a blocking-mode job that returns late, or inside a
// slow Size / Head / Pop of a custom queue) when the context is cancelled.  Cancellation is equivalent to
// Stop whatever the loop is doing: IsStarted turns false, a following Start is effective (IsStarted true, and
// it stays true when the old loop finally returns), and a job due then is executed by the new run.
type busyCancelResult struct {
	Kind                string   `json:"kind"`
	Trial               int      `json:"trial"`
	Variant             string   `json:"variant"` // job | Size | Head | Pop  (where the loop is held)
	Restart             bool     `json:"restart"` // true: Start while the old loop is still held; false: Start after it was let go
	Ops                 []string `json:"ops"`
	StartedAfterCancel  bool     `json:"started_after_cancel"`  // IsStarted 3 s after the cancellation (polled)
	StartedAfterStart   bool     `json:"started_after_start"`   // IsStarted after the following Start
	StartedAfterRelease bool     `json:"started_after_release"` // ... and once the old loop has been let go
	Stable              bool     `json:"stable"`
	Fired               int32    `json:"probe_execs"` // executions of a job scheduled (due at once) at the end
	FiredStale          int32    `json:"probe_execs_with_cancelled_ctx"`
	WaitOK              bool     `json:"wait_returned"`
	Error               string   `json:"error,omitempty"`
}

func runBusyCancel(trial int, variant string, restart bool) (res busyCancelResult) {
	res = busyCancelResult{Kind: "busycancel", Trial: trial, Variant: variant, Restart: restart}
	q := &rQueue{JobQueue: quartz.NewJobQueue(), arrive: make(chan rArrival)}
	opts := []quartz.SchedulerOpt{quartz.WithQueue(q, &sync.Mutex{}), quartz.WithOutdatedThreshold(time.Hour)}
	if variant == "job" {
		opts = append(opts, quartz.WithBlockingExecution())
	} else {
		q.gated.Store(true)
	}
	s, _ := quartz.NewStdScheduler(opts...)
	hour := time.Hour
	jobIn, jobOut := make(chan struct{}), make(chan struct{})
	var held rArrival
	auto := make(chan struct{}) // closed: every further arrival is let through at once
	autoDone := make(chan struct{})
	defer func() {
		select {
		case <-jobOut:
		default:
			close(jobOut)
		}
		if held.rel != nil {
			select {
			case <-held.rel:
			default:
				close(held.rel)
			}
		}
		q.gated.Store(false)
		select {
		case <-auto:
		default:
			close(auto)
		}
		res.WaitOK = stopAndWait(s, 6*time.Second)
		close(autoDone)
	}()
	go func() {
		<-auto
		for {
			select {
			case a := <-q.arrive:
				close(a.rel)
			case <-autoDone:
				return
			}
		}
	}()
	switch variant {
	case "job":
		// the job returns only when it is told to, long after its context was cancelled
		s.ScheduleJob(detail("late", func(context.Context) error { close(jobIn); <-jobOut; return nil }), relTrigger(-time.Millisecond, 2*hour))
	case "Pop":
		s.ScheduleJob(detail("due", func(context.Context) error { return nil }), relTrigger(-time.Millisecond, 2*hour))
	default:
		s.ScheduleJob(detail("far", func(context.Context) error { return nil }), relTrigger(hour, 2*hour))
	}
	ctx1, cancel1 := context.WithCancel(context.Background())
	defer cancel1()
	s.Start(ctx1)
	res.Ops = append(res.Ops, "start")
	if variant == "job" {
		select {
		case <-jobIn:
		case <-time.After(5 * time.Second):
			res.Error = "the blocking job did not start"
			return
		}
	} else {
		for {
			var a rArrival
			select {
			case a = <-q.arrive:
			case <-time.After(5 * time.Second):
				res.Error = "the loop did not reach " + variant
				return
			}
			if a.name == variant {
				held = a
				break
			}
			close(a.rel)
		}
	}
	// the loop of run 1 is busy; everything else the queue is asked from now on is answered at once
	close(auto)
	cancel1()
	res.Ops = append(res.Ops, "cancel")
	pollUntil(3*time.Second, func() bool { return !s.IsStarted() })
	res.StartedAfterCancel = s.IsStarted()
	release := func() {
		if variant == "job" {
			close(jobOut)
		} else {
			close(held.rel)
		}
		time.Sleep(60 * time.Millisecond) // the old loop runs into its ctx.Done and returns
	}
	ctx2, cancel2 := context.WithCancel(context.Background())
	defer cancel2()
	if restart {
		s.Start(ctx2)
		res.Ops = append(res.Ops, "start")
		res.StartedAfterStart = s.IsStarted()
		release()
	} else {
		release()
		s.Start(ctx2)
		res.Ops = append(res.Ops, "start")
		res.StartedAfterStart = s.IsStarted()
		time.Sleep(20 * time.Millisecond)
	}
	res.StartedAfterRelease = s.IsStarted()
	time.Sleep(60 * time.Millisecond)
	res.Stable = s.IsStarted() == res.StartedAfterRelease
	var ran, stale atomic.Int32
	s.ScheduleJob(detail("probe", func(ctx context.Context) error {
		if ctx.Err() != nil {
			stale.Add(1)
		}
		ran.Add(1)
		return nil
	}), relTrigger(-time.Millisecond, 3*hour))
	pollUntil(4*time.Second, func() bool { return ran.Load() > 0 })
	time.Sleep(20 * time.Millisecond)
	res.Fired, res.FiredStale = ran.Load(), stale.Load()
	return
}

// busycancel <seed> <rounds>
func cmdBusyCancel() {
	rounds := argInt(3, 2)
	var wg sync.WaitGroup
	sem := make(chan struct{}, 8)
	trial := 0
	for r := 0; r < rounds; r++ {
		for _, v := range []string{"job", "Size", "Head", "Pop"} {
			for _, restart := range []bool{true, false} {
				v, restart, t := v, restart, trial
				trial++
				wg.Add(1)
				go func() {
					defer wg.Done()
					sem <- struct{}{}
					defer func() { <-sem }()
					ch := make(chan busyCancelResult, 1)
					go func() { ch <- runBusyCancel(t, v, restart) }()
					select {
					case x := <-ch:
						emit(x)
					case <-time.After(40 * time.Second):
						emit(busyCancelResult{Kind: "busycancel", Trial: t, Variant: v, Restart: restart, Error: "trial did not finish within 40 s"})
					}
				}()
			}
		}
	}
	wg.Wait()
}
