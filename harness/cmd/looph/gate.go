package main

import (
	"context"
	"fmt"
	"math"
	"sync"
	"sync/atomic"
	"time"

	"github.com/reugn/go-quartz/quartz"
)

// gateQ: a JobQueue whose loop-only calls (Size, Head, Pop) announce themselves and wait for a
// release, so that the driver decides where the real execution loop is while API calls happen.
type gateQ struct {
	inner   quartz.JobQueue
	arrive  chan string
	release chan struct{}
	gated   atomic.Bool
	mu      sync.Mutex
	popKey  string
	popJK   *quartz.JobKey
	popPrio int64
	popOK   bool
	records bool // the queue keeps records of its own: what it returns is never the object that was pushed
}

// a persistent / serialising queue hands out its own record objects (the JobQueue contract speaks of
// ScheduledJob values, not of object identity)
type ownRecord struct{ quartz.ScheduledJob }

func (q *gateQ) out(j quartz.ScheduledJob, err error) (quartz.ScheduledJob, error) {
	if err != nil || !q.records || j == nil {
		return j, err
	}
	return &ownRecord{j}, nil
}

func newGateQ() *gateQ {
	q := &gateQ{inner: quartz.NewJobQueue(), arrive: make(chan string), release: make(chan struct{})}
	q.gated.Store(true)
	return q
}
// Only calls made by the execution loop are stall points: a Size/Head/Pop that an API method makes on
// its own account (from the driver's goroutine) passes, otherwise the driver would wait for itself.
func fromLoop() bool {
	switch callerOf() {
	case "startExecutionLoop", "calculateNextTick", "executeAndReschedule", "fetchAndReschedule":
		return true
	}
	return false
}

func (q *gateQ) gate(name string) {
	if q.gated.Load() && fromLoop() {
		q.arrive <- name
		<-q.release
	}
}
func (q *gateQ) Size() (int, error) { q.gate("Size"); return q.inner.Size() }
func (q *gateQ) Head() (quartz.ScheduledJob, error) {
	q.gate("Head")
	j, err := q.inner.Head()
	q.gate("HeadDone")
	return q.out(j, err)
}
func (q *gateQ) Pop() (quartz.ScheduledJob, error) {
	q.gate("Pop")
	j, err := q.inner.Pop()
	q.mu.Lock()
	if err == nil {
		q.popKey, q.popJK, q.popPrio, q.popOK = j.JobDetail().JobKey().String(), j.JobDetail().JobKey(), j.NextRunTime(), true
	} else {
		q.popOK = false
		q.popKey = ""
	}
	q.mu.Unlock()
	return q.out(j, err)
}
func (q *gateQ) Push(j quartz.ScheduledJob) error {
	if r, ok := j.(*ownRecord); ok {
		j = r.ScheduledJob
	}
	return q.inner.Push(j)
}
func (q *gateQ) Get(k *quartz.JobKey) (quartz.ScheduledJob, error) {
	return q.out(q.inner.Get(k))
}
func (q *gateQ) Remove(k *quartz.JobKey) (quartz.ScheduledJob, error) {
	return q.out(q.inner.Remove(k))
}
func (q *gateQ) ScheduledJobs(m []quartz.Matcher[quartz.ScheduledJob]) ([]quartz.ScheduledJob, error) {
	js, err := q.inner.ScheduledJobs(m)
	if err == nil && q.records {
		for i := range js {
			js[i] = &ownRecord{js[i]}
		}
	}
	return js, err
}
func (q *gateQ) Clear() error { return q.inner.Clear() }

// open the gates for good and let anything that is waiting through
func (q *gateQ) open() {
	q.gated.Store(false)
	for {
		select {
		case <-q.arrive:
			q.release <- struct{}{}
		case <-time.After(30 * time.Millisecond):
			return
		}
	}
}

type gateScen struct {
	ID    int    `json:"id"`
	Mode  string `json:"mode"`  // unbounded | blocking | pool
	Sit   string `json:"sit"`   // empty | far | paused | mid
	Pos   string `json:"pos"`   // parked | atSize | atHead | atHeadDone
	Call  string `json:"call"`  // schedule | replace | resume
	Other string `json:"other"` // none | delete | pause | clear
	Rec   bool   `json:"own_records,omitempty"` // the queue returns record objects of its own
}

type gateResult struct {
	Kind     string           `json:"kind"`
	Scen     gateScen         `json:"scen"`
	Obs      []map[string]any `json:"obs"`
	Execs    []execEv         `json:"execs"`
	DueKey   string           `json:"due_key"`
	DueExecs int              `json:"due_execs"`
	DelayMs  int64            `json:"delay_ms"` // from the API call that made the job due to its Execute
	Error    string           `json:"error,omitempty"`
	Notes    []string         `json:"notes,omitempty"`
}

// rel releases a stalled gate; a loop that is not waiting there any more is a harness-level failure
func (d *gdriver) rel() {
	select {
	case d.q.release <- struct{}{}:
	case <-time.After(gateLong):
		panic("release of a gate timed out: the loop is not waiting at the gate")
	}
}

type gdriver struct {
	q       *gateQ
	s       quartz.Scheduler
	base    time.Time
	baseN   int64
	obs     []map[string]any
	stalled bool
	lastPop int // index in obs of a pop whose outcome is not filled in yet, -1 if none
	log     *execLog
	jobGate chan string   // arrivals of gated job executions
	jobRel  chan struct{} // release of a gated job
	notes   []string
}

const gateLong = 5 * time.Second
const gateQuiet = 120 * time.Millisecond

func (d *gdriver) tms() int64 { return int64(time.Since(d.base) / time.Millisecond) }

func (d *gdriver) record(m map[string]any) {
	m["t"] = d.tms()
	d.obs = append(d.obs, m)
}

// fill in what the last fetch did, once the loop is stalled again or parked
func (d *gdriver) settlePop() {
	if d.lastPop < 0 {
		return
	}
	o := d.obs[d.lastPop]
	d.q.mu.Lock()
	key, jk, prio, ok := d.q.popKey, d.q.popJK, d.q.popPrio, d.q.popOK
	d.q.mu.Unlock()
	o["pop_ok"] = ok
	if ok {
		o["key"] = key
		o["prio"] = prioMs(prio, d.baseN)
		if j, err := d.q.inner.Get(jk); err == nil {
			o["resched"] = prioMs(j.NextRunTime(), d.baseN)
		} else {
			o["resched"] = nil
		}
		o["due"] = prio <= d.baseN+o["t"].(int64)*1e6+5e6 && prio != math.MaxInt64
	}
	d.lastPop = -1
}

// what the loop is expected to do next, computed from the real state (used only to choose how long to wait)
func (d *gdriver) predictAfterSelect() string {
	if quartz.VerifInterruptPending(d.s) {
		return "Size"
	}
	h, err := d.q.inner.Head()
	if err == nil && h.NextRunTime() <= quartz.NowNano()+int64(20*time.Millisecond) {
		return "Pop"
	}
	return "BLOCKED"
}

// release the stalled gate (if any) and wait for the next arrival; want is the prediction
func (d *gdriver) step(want string) string {
	if d.stalled {
		d.rel()
		d.stalled = false
	}
	wait := gateLong
	if want == "BLOCKED" {
		wait = gateQuiet
	}
	select {
	case got := <-d.q.arrive:
		d.stalled = true
		if got == "Size" || got == "Head" {
			d.settlePop()
		}
		switch got {
		case "Pop":
			d.record(map[string]any{"k": "pop"})
			d.lastPop = len(d.obs) - 1
		default:
			d.record(map[string]any{"k": "gate", "g": got})
		}
		return got
	case got := <-d.jobGate:
		d.settlePop()
		d.record(map[string]any{"k": "jobstart", "key": got})
		return "Exec:" + got
	case <-time.After(wait):
		d.settlePop()
		d.record(map[string]any{"k": "parked", "q": snapshotQueue(d.q.inner, d.baseN), "tok": quartz.VerifInterruptPending(d.s)})
		return "BLOCKED"
	}
}

// run the loop forward until it is parked (or max steps)
func (d *gdriver) drain(max int) string {
	last := ""
	for i := 0; i < max; i++ {
		want := "Size"
		switch last {
		case "":
			if !d.stalled {
				want = d.predictAfterSelect()
			} else {
				want = "any"
			}
		case "Size":
			if n, _ := d.q.inner.Size(); n > 0 {
				want = "Head"
			} else {
				want = "sel"
			}
		case "Head":
			want = "HeadDone"
		case "HeadDone":
			want = "sel"
		case "Pop":
			want = "Size"
		}
		if want == "sel" {
			// the loop is about to enter the select: release first, then look at the real state
			if d.stalled {
				d.rel()
				d.stalled = false
			}
			time.Sleep(2 * time.Millisecond)
			want = d.predictAfterSelect()
		}
		got := d.step(want)
		if got == "BLOCKED" {
			return got
		}
		if len(got) > 5 && got[:5] == "Exec:" {
			return got
		}
		last = got
	}
	d.notes = append(d.notes, "drain: step limit reached")
	return "LIMIT"
}

func (d *gdriver) api(call string, f func() error) {
	err := f()
	es := ""
	if err != nil {
		es = err.Error()
	}
	d.record(map[string]any{"k": "api", "call": call, "err": es, "q": snapshotQueue(d.q.inner, d.baseN)})
}

func runGateScenario(sc gateScen) gateResult {
	ch := make(chan gateResult, 1)
	go func() { ch <- runGateScenario1(sc) }()
	select {
	case r := <-ch:
		return r
	case <-time.After(40 * time.Second):
		return gateResult{Kind: "gate", Scen: sc, Error: "scenario did not finish within 40 s (scheduler or harness blocked)", DelayMs: -1}
	}
}

func runGateScenario1(sc gateScen) (res gateResult) {
	res = gateResult{Kind: "gate", Scen: sc, DelayMs: -1}
	defer func() {
		if r := recover(); r != nil {
			res.Error = fmt.Sprint("harness panic: ", r)
		}
	}()
	q := newGateQ()
	q.records = sc.Rec
	opts := []quartz.SchedulerOpt{quartz.WithQueue(q, &sync.Mutex{}), quartz.WithOutdatedThreshold(time.Hour)}
	switch sc.Mode {
	case "blocking":
		opts = append(opts, quartz.WithBlockingExecution())
	case "pool":
		opts = append(opts, quartz.WithWorkerLimit(2))
	}
	s, err := quartz.NewStdScheduler(opts...)
	if err != nil {
		res.Error = err.Error()
		return
	}
	d := &gdriver{q: q, s: s, base: time.Now(), lastPop: -1, log: newExecLog(),
		jobGate: make(chan string), jobRel: make(chan struct{})}
	d.baseN = quartz.NowNano()
	base := d.base
	plain := func(name string) *quartz.JobDetail {
		return detail(name, func(context.Context) error { d.log.add(name, base); return nil })
	}
	gatedJob := func(name string) *quartz.JobDetail {
		return detail(name, func(context.Context) error {
			d.jobGate <- name
			<-d.jobRel
			d.log.add(name, base)
			return nil
		})
	}
	// ---- situation before Start ----
	hour := time.Hour
	switch sc.Sit {
	case "far":
		d.api("schedule", func() error { return s.ScheduleJob(plain("far"), relTrigger(hour, 2*hour)) })
	case "paused":
		// resumed later: its trigger then answers "due"
		d.api("schedule", func() error { return s.ScheduleJob(plain("pz"), relTrigger(hour, -time.Millisecond, 3*hour)) })
		d.api("pause", func() error { return s.PauseJob(quartz.NewJobKey("pz")) })
	case "mid":
		d.api("schedule", func() error { return s.ScheduleJob(gatedJob("blk"), relTrigger(-time.Millisecond, 3*hour)) })
	}
	if sc.Call == "resume" && sc.Sit != "paused" {
		d.api("schedule", func() error { return s.ScheduleJob(plain("pz"), relTrigger(hour, -time.Millisecond, 3*hour)) })
		d.api("pause", func() error { return s.PauseJob(quartz.NewJobKey("pz")) })
	}
	if sc.Call == "replace" {
		d.api("schedule", func() error { return s.ScheduleJob(plain("rep"), relTrigger(2*hour, 4*hour)) })
	}
	if sc.Other == "delete" || sc.Other == "pause" {
		d.api("schedule", func() error { return s.ScheduleJob(plain("oth"), relTrigger(5*hour, 6*hour)) })
	}
	d.record(map[string]any{"k": "start", "q": snapshotQueue(q.inner, d.baseN), "tok": quartz.VerifInterruptPending(s)})
	ctx, cancel := context.WithCancel(context.Background())
	defer cancel()
	s.Start(ctx)
	defer func() {
		q.open()
		select {
		case d.jobRel <- struct{}{}:
		default:
		}
		done := make(chan struct{})
		go func() {
			s.Stop()
			wctx, wc := context.WithTimeout(context.Background(), 5*time.Second)
			s.Wait(wctx)
			wc()
			close(done)
		}()
		select {
		case <-done:
		case <-time.After(8 * time.Second):
		}
	}()
	// ---- reach the parked situation ----
	first := d.step("Size")
	if first != "Size" {
		res.Error = "loop did not call Size after Start: " + first
		res.Obs = d.obs
		return
	}
	got := d.drainFrom("Size")
	if sc.Sit == "mid" {
		if got != "Exec:blk" {
			res.Error = "blocking job did not start: " + got
			res.Obs = d.obs
			return
		}
	} else if got != "BLOCKED" {
		res.Error = "loop did not park: " + got
		res.Obs = d.obs
		return
	}
	// ---- move the loop to the chosen position ----
	if sc.Pos != "parked" {
		d.api("reset", func() error { s.(*quartz.StdScheduler).Reset(); return nil })
		seq := map[string][]string{"atSize": {"Size"}, "atHead": {"Size", "Head"}, "atHeadDone": {"Size", "Head", "HeadDone"}}[sc.Pos]
		for _, w := range seq {
			if g := d.step(w); g != w {
				res.Error = "could not reach position " + sc.Pos + ": got " + g + " want " + w
				res.Obs = d.obs
				return
			}
		}
	}
	// ---- the API calls ----
	dueKey := ""
	headMoving := func() {
		switch sc.Call {
		case "schedule":
			dueKey = "x"
			d.api("schedule", func() error { return s.ScheduleJob(plain("x"), relTrigger(-time.Millisecond, 7*hour)) })
		case "replace":
			dueKey = "rep"
			d.api("schedule", func() error {
				jd := quartz.NewJobDetailWithOptions(&funcJob{"rep", func(context.Context) error { d.log.add("rep", base); return nil }},
					quartz.NewJobKey("rep"), &quartz.JobDetailOptions{Replace: true, RetryInterval: time.Second})
				return s.ScheduleJob(jd, relTrigger(-time.Millisecond, 7*hour))
			})
		case "resume":
			dueKey = "pz"
			d.api("resume", func() error { return s.ResumeJob(quartz.NewJobKey("pz")) })
		}
	}
	other := func() {
		switch sc.Other {
		case "delete":
			d.api("delete", func() error { return s.DeleteJob(quartz.NewJobKey("oth")) })
		case "pause":
			d.api("pause", func() error { return s.PauseJob(quartz.NewJobKey("oth")) })
		case "clear":
			d.api("clear", func() error { return s.Clear() })
		}
	}
	tCall := time.Now()
	if sc.Other == "clear" || sc.ID%2 == 1 {
		other()
		if sc.Other == "clear" && sc.Call != "schedule" {
			// the job to replace / resume is gone: schedule a new due one instead
			sc.Call = "schedule"
		}
		tCall = time.Now()
		headMoving()
	} else {
		headMoving()
		other()
	}
	res.DueKey = dueKey
	// ---- let the loop run until it parks again ----
	if sc.Sit == "mid" {
		select {
		case d.jobRel <- struct{}{}: // the blocking job returns
		case <-time.After(gateLong):
			panic("the blocking job is not waiting for its release")
		}
		d.record(map[string]any{"k": "jobend", "key": "blk"})
	}
	var g string
	if d.stalled {
		g = d.drainFrom(map[string]string{"atSize": "@Size", "atHead": "@Head", "atHeadDone": "@HeadDone"}[sc.Pos])
	} else {
		g = d.drain(40)
	}
	if g != "BLOCKED" {
		d.notes = append(d.notes, "final drain ended with "+g)
	}
	// ---- the oracle's observation: was the due job executed, and how soon ----
	okExec := d.log.waitFor(dueKey, 1, 3*time.Second)
	if !okExec {
		// give a lost wake-up every chance to show itself as a delay instead: keep releasing gates for a while
		for i := 0; i < 1 && !okExec; i++ {
			d.drain(10)
			okExec = d.log.waitFor(dueKey, 1, time.Second)
		}
	}
	res.DueExecs = d.log.count(dueKey)
	res.DelayMs = -1
	for _, e := range d.log.snapshot() {
		if e.Key == dueKey {
			res.DelayMs = (e.At - int64(tCall.Sub(base))) / 1e6
			break
		}
	}
	res.Obs = d.obs
	res.Execs = d.log.snapshot()
	res.Notes = d.notes
	return
}

// drainFrom continues a drain when the last arrival is known ("@X": stalled at X, not yet released)
func (d *gdriver) drainFrom(last string) string {
	cur := last
	if len(cur) > 0 && cur[0] == '@' {
		cur = cur[1:]
	}
	for i := 0; i < 40; i++ {
		want := "Size"
		switch cur {
		case "Size":
			if n, _ := d.q.inner.Size(); n > 0 {
				want = "Head"
			} else {
				want = "sel"
			}
		case "Head":
			want = "HeadDone"
		case "HeadDone":
			want = "sel"
		case "Pop":
			want = "Size"
		}
		if want == "sel" {
			if d.stalled {
				d.rel()
				d.stalled = false
			}
			time.Sleep(2 * time.Millisecond)
			want = d.predictAfterSelect()
		}
		got := d.step(want)
		if got == "BLOCKED" || (len(got) > 5 && got[:5] == "Exec:") {
			return got
		}
		cur = got
	}
	d.notes = append(d.notes, "drain: step limit reached")
	return "LIMIT"
}

func gateScenarios() []gateScen {
	var out []gateScen
	id := 0
	add := func(mode, sit, pos, call, other string) {
		out = append(out, gateScen{ID: id, Mode: mode, Sit: sit, Pos: pos, Call: call, Other: other, Rec: id%3 == 1})
		id++
	}
	for _, sit := range []string{"empty", "far", "paused", "mid"} {
		poss := []string{"parked", "atSize", "atHead", "atHeadDone"}
		if sit == "empty" {
			poss = []string{"parked", "atSize"}
		}
		if sit == "mid" {
			poss = []string{"parked"}
		}
		for _, pos := range poss {
			for _, call := range []string{"schedule", "replace", "resume"} {
				if sit == "empty" && call != "schedule" && (pos == "atHead" || pos == "atHeadDone") {
					continue
				}
				for _, other := range []string{"none", "delete", "pause", "clear"} {
					mode := "unbounded"
					if sit == "mid" {
						mode = "blocking"
					} else if id%5 == 3 {
						mode = "pool"
					} else if id%5 == 4 {
						mode = "blocking"
					}
					add(mode, sit, pos, call, other)
				}
			}
		}
	}
	return out
}

func cmdGate() {
	seed := argInt(2, 1)
	limit := argInt(3, 0)
	only := argInt(4, -1)
	scs := gateScenarios()
	if only >= 0 {
		for _, sc := range scs {
			if sc.ID == only {
				emit(runGateScenario(sc))
			}
		}
		return
	}
	// a deterministic rotation so that a limited run still sees every kind over several seeds
	if limit > 0 && limit < len(scs) {
		off := seed % len(scs)
		rot := append(append([]gateScen{}, scs[off:]...), scs[:off]...)
		step := len(scs) / limit
		var pick []gateScen
		for i := 0; i < limit; i++ {
			pick = append(pick, rot[i*step])
		}
		scs = pick
	}
	par := 6
	var failed atomic.Int64
	ch := make(chan gateScen)
	var wg sync.WaitGroup
	for w := 0; w < par; w++ {
		wg.Add(1)
		go func() {
			defer wg.Done()
			for sc := range ch {
				if failed.Load() >= 6 {
					continue // enough evidence; the remaining scenarios would only wait for their deadlines
				}
				r := runGateScenario(sc)
				if r.Error != "" || r.DueExecs != 1 {
					failed.Add(1)
				}
				emit(r)
			}
		}()
	}
	for _, sc := range scs {
		ch <- sc
	}
	close(ch)
	wg.Wait()
}

// ---- free-running: a queue that sleeps inside Size/Head widens the window ----
type sleepyQ struct {
	quartz.JobQueue
	r  *rng
	mu sync.Mutex
}

func (q *sleepyQ) nap() {
	q.mu.Lock()
	n := q.r.intn(4)
	q.mu.Unlock()
	switch n {
	case 0:
	case 1:
		time.Sleep(50 * time.Microsecond)
	case 2:
		time.Sleep(500 * time.Microsecond)
	default:
		time.Sleep(2 * time.Millisecond)
	}
}
func (q *sleepyQ) Size() (int, error) { q.nap(); n, e := q.JobQueue.Size(); q.nap(); return n, e }
func (q *sleepyQ) Head() (quartz.ScheduledJob, error) {
	q.nap()
	j, e := q.JobQueue.Head()
	q.nap()
	return j, e
}

// the API-side calls are slow as well (a persistent queue): a wake-up sent before the change is
// published would let the loop look at the old contents
func (q *sleepyQ) Push(j quartz.ScheduledJob) error { q.nap(); q.nap(); e := q.JobQueue.Push(j); return e }
func (q *sleepyQ) Remove(k *quartz.JobKey) (quartz.ScheduledJob, error) {
	j, e := q.JobQueue.Remove(k)
	q.nap()
	return j, e
}

type freeResult struct {
	Kind    string `json:"kind"`
	Iter    int    `json:"iter"`
	Call    string `json:"call"`
	Mode    string `json:"mode"`
	Delay   int64  `json:"delay_us"` // API call -> Execute; -1: not executed within the deadline
	DelayMs int64  `json:"delay_ms"`
	Seed    int    `json:"seed"`
}

func runFree(seed, iter int) freeResult {
	r := &rng{s: uint64(seed)*1000003 + uint64(iter)}
	call := []string{"schedule", "replace", "resume"}[iter%3]
	mode := []string{"unbounded", "pool", "blocking"}[(iter/3)%3]
	q := &sleepyQ{JobQueue: quartz.NewJobQueue(), r: &rng{s: r.next()}}
	// the "never outdated" settings rotate with the plain one
	thr := []time.Duration{time.Hour, time.Duration(math.MaxInt64), time.Duration(math.MaxInt64 / 2)}[(iter/9)%3]
	opts := []quartz.SchedulerOpt{quartz.WithQueue(q, &sync.Mutex{}), quartz.WithOutdatedThreshold(thr)}
	switch mode {
	case "blocking":
		opts = append(opts, quartz.WithBlockingExecution())
	case "pool":
		opts = append(opts, quartz.WithWorkerLimit(2))
	}
	s, _ := quartz.NewStdScheduler(opts...)
	ran := make(chan time.Time, 4)
	job := func(name string, report bool) *quartz.JobDetail {
		return detail(name, func(context.Context) error {
			if report {
				select {
				case ran <- time.Now():
				default:
				}
			}
			return nil
		})
	}
	hour := time.Hour
	s.ScheduleJob(job("far", false), relTrigger(hour, 2*hour))
	switch call {
	case "replace":
		s.ScheduleJob(job("rep", false), relTrigger(2*hour, 3*hour))
	case "resume":
		s.ScheduleJob(job("pz", true), relTrigger(hour, -time.Millisecond, 3*hour))
		s.PauseJob(quartz.NewJobKey("pz"))
	}
	ctx, cancel := context.WithCancel(context.Background())
	s.Start(ctx)
	// let the loop settle, then poke it so that it is somewhere in its re-arm sequence
	time.Sleep(time.Duration(1+r.intn(4)) * time.Millisecond)
	s.(*quartz.StdScheduler).Reset()
	time.Sleep(time.Duration(r.intn(3000)) * time.Microsecond)
	t0 := time.Now()
	del := r.intn(2) == 0
	apiDone := make(chan struct{})
	go func() {
		defer close(apiDone)
		switch call {
		case "schedule":
			s.ScheduleJob(job("x", true), relTrigger(-time.Millisecond, 7*hour))
		case "replace":
			jd := quartz.NewJobDetailWithOptions(job("rep", true).Job(), quartz.NewJobKey("rep"), &quartz.JobDetailOptions{Replace: true, RetryInterval: time.Second})
			s.ScheduleJob(jd, relTrigger(-time.Millisecond, 7*hour))
		case "resume":
			s.ResumeJob(quartz.NewJobKey("pz"))
		}
		if del {
			s.DeleteJob(quartz.NewJobKey("far"))
		}
	}()
	res := freeResult{Kind: "free", Iter: iter, Call: call, Mode: mode, Delay: -1, DelayMs: -1, Seed: seed}
	select {
	case t := <-ran:
		res.Delay = int64(t.Sub(t0) / time.Microsecond)
		res.DelayMs = res.Delay / 1000
	case <-time.After(4 * time.Second):
	}
	cancel()
	// shutdown under a watchdog: a scheduler that deadlocks must not take the harness with it
	fin := make(chan struct{})
	go func() {
		<-apiDone
		s.Stop()
		wctx, wc := context.WithTimeout(context.Background(), 3*time.Second)
		s.Wait(wctx)
		wc()
		close(fin)
	}()
	select {
	case <-fin:
	case <-time.After(6 * time.Second):
	}
	return res
}

func cmdFree() {
	seed := argInt(2, 1)
	n := argInt(3, 200)
	par := 8
	var wg sync.WaitGroup
	ch := make(chan int)
	for w := 0; w < par; w++ {
		wg.Add(1)
		go func() {
			defer wg.Done()
			for i := range ch {
				emit(runFree(seed, i))
			}
		}()
	}
	for i := 0; i < n; i++ {
		ch <- i
	}
	close(ch)
	wg.Wait()
}

var _ = math.MaxInt64
