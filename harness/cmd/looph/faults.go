package main

import (
	"context"
	"errors"
	"fmt"
	"runtime"
	"strings"
	"sync"
	"sync/atomic"
	"time"

	"github.com/reugn/go-quartz/quartz"
)

// C15: a JobQueue wrapper that fails or delays chosen calls.

var errInjected = errors.New("injected queue fault")

// The injected failure as a remote / persistent queue would report it: a plain error, an error that wraps a
// context error of the queue's own per-operation deadline (the scheduler's context is alive), or one that
// wraps a sentinel of package quartz on an operation where that sentinel has no meaning in the JobQueue
// contract (ErrQueueEmpty is an answer of Head and Pop, ErrJobNotFound of Get and Remove: not used there).
type injErr struct {
	op    string
	wraps error
}

func (e *injErr) Error() string {
	if e.wraps == nil {
		return "queue " + e.op + ": " + errInjected.Error()
	}
	return "queue " + e.op + ": " + errInjected.Error() + ": " + e.wraps.Error()
}
func (e *injErr) Unwrap() error        { return e.wraps }
func (e *injErr) Is(target error) bool { return target == errInjected }

var errKinds = []string{"plain", "deadline", "canceled", "queue_empty", "not_found"}

func kindAllowed(kind, method string) bool {
	switch kind {
	case "queue_empty":
		return method != "Head" && method != "Pop"
	case "not_found":
		return method != "Get" && method != "Remove"
	}
	return true
}

func mkInjected(kind, method string) error {
	if !kindAllowed(kind, method) {
		kind = "plain"
	}
	switch kind {
	case "deadline":
		return &injErr{method, context.DeadlineExceeded}
	case "canceled":
		return &injErr{method, context.Canceled}
	case "queue_empty":
		return &injErr{method, quartz.ErrQueueEmpty}
	case "not_found":
		return &injErr{method, quartz.ErrJobNotFound}
	}
	return &injErr{method, nil}
}

var qMethods = []string{"Size", "Head", "Pop", "Push", "Get", "Remove", "ScheduledJobs", "Clear"}

type faultPlan struct {
	Kind   string `json:"kind"`   // single | burst | random | slow | none
	Method string `json:"method"` // for single / burst
	Index  int    `json:"index"`  // call index of that method (0-based)
	Fault  string `json:"fault"`  // fail | delay
	K      int    `json:"k"`      // burst length
	Pct    int    `json:"pct"`    // random: percent of calls that fault
	RI     int    `json:"ri_ms"`  // RetryInterval
	// what the injected error is: "" / plain | deadline | canceled (wraps context.DeadlineExceeded / Canceled) |
	// queue_empty | not_found (wraps quartz.ErrQueueEmpty / ErrJobNotFound) | mixed (drawn per fault)
	Err string `json:"err,omitempty"`
}

type qcall struct {
	Method string `json:"m"`
	Caller string `json:"c"` // scheduler method the call was made from
	API    int64  `json:"api"`
	Out    string `json:"o"` // ok | fail | delay | err (the inner queue's own error)
	At     int64  `json:"t"` // us
}

type faultQ struct {
	inner  quartz.JobQueue
	plan   faultPlan
	on     atomic.Bool
	mu     sync.Mutex
	counts map[string]int
	calls  []qcall
	r      *rng
	apiSeq atomic.Int64
	base   time.Time
}

func callerOf() string {
	pcs := make([]uintptr, 16)
	n := runtime.Callers(2, pcs)
	fr := runtime.CallersFrames(pcs[:n])
	for {
		f, more := fr.Next()
		if i := strings.Index(f.Function, "quartz.(*StdScheduler)."); i >= 0 {
			name := f.Function[i+len("quartz.(*StdScheduler)."):]
			if j := strings.Index(name, "."); j >= 0 {
				name = name[:j]
			}
			return name
		}
		if !more {
			return ""
		}
	}
}

// decide what happens to this call; returns (fail, delay)
func (q *faultQ) decide(m string) (bool, time.Duration, int) {
	q.mu.Lock()
	defer q.mu.Unlock()
	idx := q.counts[m]
	q.counts[m] = idx + 1
	if !q.on.Load() {
		return false, 0, idx
	}
	p := q.plan
	switch p.Kind {
	case "single":
		if m == p.Method && idx == p.Index {
			if p.Fault == "fail" {
				return true, 0, idx
			}
			return false, 150 * time.Millisecond, idx
		}
	case "burst":
		if m == p.Method && idx >= p.Index && idx < p.Index+p.K {
			return true, 0, idx
		}
	case "random":
		if q.r.intn(100) < p.Pct {
			if q.r.intn(3) == 0 {
				return false, time.Duration(1+q.r.intn(20)) * time.Millisecond, idx
			}
			return true, 0, idx
		}
	case "slow":
		return false, 2 * time.Millisecond, idx
	}
	return false, 0, idx
}

func (q *faultQ) injected(m string) error {
	kind := q.plan.Err
	if kind == "mixed" {
		q.mu.Lock()
		kind = errKinds[q.r.intn(len(errKinds))]
		q.mu.Unlock()
	}
	return mkInjected(kind, m)
}

func (q *faultQ) note(m, out string, caller string) {
	api := int64(0)
	switch caller {
	case "ScheduleJob", "GetJobKeys", "GetScheduledJob", "DeleteJob", "PauseJob", "ResumeJob", "Clear":
		api = q.apiSeq.Load()
	}
	q.mu.Lock()
	q.calls = append(q.calls, qcall{m, caller, api, out, int64(time.Since(q.base) / time.Microsecond)})
	q.mu.Unlock()
}

func doQ[T any](q *faultQ, m string, f func() (T, error)) (T, error) {
	caller := callerOf()
	fail, delay, _ := q.decide(m)
	if delay > 0 {
		time.Sleep(delay)
	}
	if fail {
		var zero T
		q.note(m, "fail", caller)
		return zero, q.injected(m)
	}
	v, err := f()
	switch {
	case err != nil:
		q.note(m, "err", caller)
	case delay > 0:
		q.note(m, "delay", caller)
	default:
		q.note(m, "ok", caller)
	}
	return v, err
}

func (q *faultQ) Size() (int, error) { return doQ(q, "Size", q.inner.Size) }
func (q *faultQ) Head() (quartz.ScheduledJob, error) {
	return doQ(q, "Head", q.inner.Head)
}
func (q *faultQ) Pop() (quartz.ScheduledJob, error) { return doQ(q, "Pop", q.inner.Pop) }
func (q *faultQ) Push(j quartz.ScheduledJob) error {
	_, err := doQ(q, "Push", func() (int, error) { return 0, q.inner.Push(j) })
	return err
}
func (q *faultQ) Get(k *quartz.JobKey) (quartz.ScheduledJob, error) {
	return doQ(q, "Get", func() (quartz.ScheduledJob, error) { return q.inner.Get(k) })
}
func (q *faultQ) Remove(k *quartz.JobKey) (quartz.ScheduledJob, error) {
	return doQ(q, "Remove", func() (quartz.ScheduledJob, error) { return q.inner.Remove(k) })
}
func (q *faultQ) ScheduledJobs(m []quartz.Matcher[quartz.ScheduledJob]) ([]quartz.ScheduledJob, error) {
	return doQ(q, "ScheduledJobs", func() ([]quartz.ScheduledJob, error) { return q.inner.ScheduledJobs(m) })
}
func (q *faultQ) Clear() error {
	_, err := doQ(q, "Clear", func() (int, error) { return 0, q.inner.Clear() })
	return err
}

type countTrigger struct {
	quartz.Trigger
	calls atomic.Int64
	mu    sync.Mutex
	fires map[int64]bool // distinct fire times for which the loop asked for the successor (one per valid fetch)
}

func (t *countTrigger) NextFireTime(prev int64) (int64, error) {
	t.calls.Add(1)
	if c := callerOf(); c == "fetchAndReschedule" || c == "validateJob" {
		t.mu.Lock()
		if t.fires == nil {
			t.fires = map[int64]bool{}
		}
		t.fires[prev] = true
		t.mu.Unlock()
	}
	return t.Trigger.NextFireTime(prev)
}

type apiRec struct {
	Seq     int64    `json:"seq"`
	Name    string   `json:"name"`
	Err     string   `json:"err"` // nil | injected | other
	Started bool     `json:"started"`
	Calls   []string `json:"calls"`
	Outs    []string `json:"outs"`
	TookMs  int64    `json:"took_ms"`
}

type faultResult struct {
	Kind        string           `json:"kind"`
	ID          int              `json:"id"`
	Plan        faultPlan        `json:"plan"`
	Fired       int              `json:"faults_fired"`
	APIs        []apiRec         `json:"apis"`
	MaxPerWin   map[string]int   `json:"max_calls_per_window"` // loop calls of Size/Head/Pop per RetryInterval window while faults are on
	FailPerWin  map[string]int   `json:"max_failing_calls_per_window"`
	MinFailGap  map[string]int64 `json:"min_failing_gap_us"`   // between consecutive failing loop calls of one method (quiet phases only)
	Execs       map[string]int64 `json:"execs"`
	TrigCalls   map[string]int64 `json:"trigger_calls"`
	FireTimes   map[string]int   `json:"distinct_fire_times_fetched"`
	Stored      []string         `json:"stored_after_faults"`
	Recovered   map[string]bool  `json:"fired_after_faults"`
	WaitOK      bool             `json:"wait_returned"`
	Hung        string           `json:"hung,omitempty"`
	StateDiff   []string         `json:"state_differs,omitempty"` // jobs whose Suspended flag is not what the successful calls imply
	LoopCalls   int              `json:"loop_calls"`
	DurationMs  int64            `json:"duration_ms"`
	TokenEvents int              `json:"token_events"`
}

func runFault(id int, plan faultPlan, seed int) faultResult {
	res := faultResult{Kind: "faults", ID: id, Plan: plan}
	if plan.RI == 0 {
		plan.RI = 100
	}
	q := &faultQ{inner: quartz.NewJobQueue(), plan: plan, counts: map[string]int{}, r: &rng{s: uint64(seed)*977 + uint64(id)}, base: time.Now()}
	q.on.Store(true)
	s, _ := quartz.NewStdScheduler(quartz.WithQueue(q, &sync.Mutex{}), quartz.WithRetryInterval(time.Duration(plan.RI)*time.Millisecond),
		quartz.WithOutdatedThreshold(time.Minute))
	execs := map[string]*atomic.Int64{}
	trigs := map[string]*countTrigger{}
	var emu sync.Mutex
	job := func(name string) *quartz.JobDetail {
		c := &atomic.Int64{}
		emu.Lock()
		execs[name] = c
		emu.Unlock()
		return detail(name, func(context.Context) error { c.Add(1); return nil })
	}
	trig := func(name string, t quartz.Trigger) quartz.Trigger {
		ct := &countTrigger{Trigger: t}
		emu.Lock()
		trigs[name] = ct
		emu.Unlock()
		return ct
	}
	var apis []apiRec
	var lastErr error
	sawInjected := false
	// which jobs the caller has every reason to believe are active: a call that returned an error changed nothing
	active := map[string]bool{}
	api := func(name string, f func() error) {
		seq := q.apiSeq.Add(1)
		t0 := time.Now()
		done := make(chan error, 1)
		go func() { done <- f() }()
		var err error
		select {
		case err = <-done:
		case <-time.After(6 * time.Second):
			res.Hung = name
			err = errors.New("hung")
		}
		r := apiRec{Seq: seq, Name: name, Started: s.IsStarted(), TookMs: int64(time.Since(t0) / time.Millisecond)}
		lastErr = err
		if err != nil && errors.Is(err, errInjected) {
			sawInjected = true
		}
		switch {
		case err == nil:
			r.Err = "nil"
		case errors.Is(err, errInjected):
			r.Err = "injected"
		default:
			r.Err = "other"
		}
		apis = append(apis, r)
	}
	ms := func(n int) { time.Sleep(time.Duration(n) * time.Millisecond) }
	quiet := plan.Kind == "burst"
	// ---- the fixed scenario ----
	sched := func(k string, t quartz.Trigger) {
		api("ScheduleJob", func() error { return s.ScheduleJob(job(k), trig(k, t)) })
		if lastErr == nil {
			active[k] = true
		}
	}
	pause := func(k string) {
		api("PauseJob", func() error { return s.PauseJob(quartz.NewJobKey(k)) })
		if lastErr == nil {
			active[k] = false
		}
	}
	resume := func(k string) {
		if on, known := active[k]; known && on {
			return // the pause before did not succeed: the caller has no reason to resume an active job
		}
		api("ResumeJob", func() error { return s.ResumeJob(quartz.NewJobKey(k)) })
		if lastErr == nil {
			active[k] = true
		}
	}
	del := func(k string) {
		api("DeleteJob", func() error { return s.DeleteJob(quartz.NewJobKey(k)) })
		if lastErr == nil {
			delete(active, k)
		}
	}
	sched("a", quartz.NewSimpleTrigger(30*time.Millisecond))
	sched("b", quartz.NewSimpleTrigger(50*time.Millisecond))
	ctx, cancel := context.WithCancel(context.Background())
	defer cancel()
	s.Start(ctx)
	if quiet {
		// no API activity while the burst is being served: consecutive failing calls must be RetryInterval apart
		budget := plan.K*plan.RI + 1500
		if plan.K >= 100 {
			budget += 3000 // a long outage: a back-off that grows first gets the time to show what it does next
		}
		pollUntil(time.Duration(budget)*time.Millisecond, func() bool {
			q.mu.Lock()
			defer q.mu.Unlock()
			return q.counts[plan.Method] >= plan.Index+plan.K+2
		})
	} else {
		ms(70)
		api("GetJobKeys", func() error { _, err := s.GetJobKeys(); return err })
		api("GetScheduledJob", func() error { _, err := s.GetScheduledJob(quartz.NewJobKey("a")); return err })
		pause("a")
		ms(40)
		resume("a")
		sched("c", quartz.NewRunOnceTrigger(10*time.Millisecond))
		sched("d", quartz.NewSimpleTrigger(40*time.Millisecond))
		ms(60)
		del("b")
		api("GetJobKeys", func() error { _, err := s.GetJobKeys(); return err })
		pause("d")
		api("GetScheduledJob", func() error { _, err := s.GetScheduledJob(quartz.NewJobKey("d")); return err })
		resume("d")
		del("nope")
		ms(80)
		if plan.Kind == "single" && plan.Method != "Clear" && (plan.Index%2 == 1 || sawInjected) {
			// in half of the single-fault runs the jobs scheduled first stay until the end
			api("GetJobKeys", func() error { _, err := s.GetJobKeys(); return err })
		} else {
			api("Clear", func() error { return s.Clear() })
			if lastErr == nil {
				active = map[string]bool{}
			}
		}
		sched("e", quartz.NewSimpleTrigger(25*time.Millisecond))
		sched("f", quartz.NewSimpleTrigger(35*time.Millisecond))
		ms(120)
	}
	// ---- faults stop; every active stored job must fire again ----
	q.on.Store(false)
	tOff := int64(time.Since(q.base) / time.Microsecond)
	ms(10)
	// every job that is still stored and that the caller believes active (its last successful call was not a
	// pause) must fire again; the Suspended flag itself is not consulted
	stored := map[string]bool{}
	if js, err := q.inner.ScheduledJobs(nil); err == nil {
		for _, j := range js {
			k := j.JobDetail().JobKey().Name()
			if active[k] && k != "c" {
				stored[k] = true
			}
		}
	}
	if js, err := q.inner.ScheduledJobs(nil); err == nil {
		for _, j := range js {
			k := j.JobDetail().JobKey().Name()
			if on, known := active[k]; known && j.JobDetail().Options().Suspended == on {
				res.StateDiff = append(res.StateDiff, k)
			}
		}
	}
	before := map[string]int64{}
	for k := range stored {
		before[k] = execs[k].Load()
		res.Stored = append(res.Stored, k)
	}
	res.Recovered = map[string]bool{}
	pollUntil(5*time.Second, func() bool {
		all := true
		for k := range stored {
			if execs[k].Load() > before[k] {
				res.Recovered[k] = true
			} else {
				all = false
			}
		}
		return all
	})
	for k := range stored {
		if !res.Recovered[k] {
			res.Recovered[k] = false
		}
	}
	res.WaitOK = stopAndWait(s, 6*time.Second)
	res.DurationMs = int64(time.Since(q.base) / time.Millisecond)
	// ---- digest the call log ----
	q.mu.Lock()
	calls := append([]qcall{}, q.calls...)
	q.mu.Unlock()
	byAPI := map[int64]*apiRec{}
	for i := range apis {
		byAPI[apis[i].Seq] = &apis[i]
	}
	win := int64(plan.RI) * 1000
	perWin := map[string]map[int64]int{}
	failWin := map[string]map[int64]int{}
	res.MaxPerWin = map[string]int{}
	res.FailPerWin = map[string]int{}
	res.MinFailGap = map[string]int64{}
	lastFail := map[string]int64{}
	for _, c := range calls {
		if c.Out == "fail" {
			res.Fired++
		}
		if c.API != 0 {
			if a := byAPI[c.API]; a != nil {
				a.Calls = append(a.Calls, c.Method)
				o := c.Out
				if o == "err" {
					o = "fail"
				}
				if o == "delay" {
					o = "ok"
				}
				a.Outs = append(a.Outs, o)
			}
			continue
		}
		if c.Caller == "startExecutionLoop" || c.Caller == "calculateNextTick" || c.Caller == "fetchAndReschedule" {
			res.LoopCalls++
			if c.Method == "Size" || c.Method == "Head" || c.Method == "Pop" {
				if perWin[c.Method] == nil {
					perWin[c.Method] = map[int64]int{}
					failWin[c.Method] = map[int64]int{}
				}
				if c.At < tOff {
					perWin[c.Method][c.At/win]++
					if c.Out == "fail" {
						failWin[c.Method][c.At/win]++
					}
				}
				if c.Out == "fail" && quiet && c.At < tOff {
					if lf, ok := lastFail[c.Method]; ok {
						g := c.At - lf
						if m, ok := res.MinFailGap[c.Method]; !ok || g < m {
							res.MinFailGap[c.Method] = g
						}
					}
					lastFail[c.Method] = c.At
				}
			}
		}
	}
	for m, w := range perWin {
		for _, n := range w {
			if n > res.MaxPerWin[m] {
				res.MaxPerWin[m] = n
			}
		}
		for _, n := range failWin[m] {
			if n > res.FailPerWin[m] {
				res.FailPerWin[m] = n
			}
		}
	}
	res.APIs = apis
	res.Execs = map[string]int64{}
	res.TrigCalls = map[string]int64{}
	for k, v := range execs {
		res.Execs[k] = v.Load()
	}
	res.FireTimes = map[string]int{}
	for k, v := range trigs {
		res.TrigCalls[k] = v.calls.Load()
		v.mu.Lock()
		res.FireTimes[k] = len(v.fires)
		v.mu.Unlock()
	}
	return res
}

func faultPlans(tier string) []faultPlan {
	var out []faultPlan
	out = append(out, faultPlan{Kind: "none"})
	ranges := map[string]int{"Size": 6, "Head": 6, "Pop": 6, "Push": 9, "Get": 4, "Remove": 4, "ScheduledJobs": 2, "Clear": 1}
	if tier == "thorough" {
		ranges = map[string]int{"Size": 14, "Head": 14, "Pop": 12, "Push": 18, "Get": 4, "Remove": 4, "ScheduledJobs": 2, "Clear": 1}
	}
	for _, m := range qMethods {
		for i := 0; i < ranges[m]; i++ {
			out = append(out, faultPlan{Kind: "single", Method: m, Index: i, Fault: "fail"})
			out = append(out, faultPlan{Kind: "single", Method: m, Index: i, Fault: "delay"})
		}
	}
	ks := []int{2, 10, 50}
	for _, m := range []string{"Size", "Head", "Pop"} {
		for _, k := range ks {
			out = append(out, faultPlan{Kind: "burst", Method: m, Index: 2, K: k, RI: 20})
		}
	}
	out = append(out, faultPlan{Kind: "burst", Method: "Pop", Index: 1, K: 4, RI: 100})
	for _, p := range []int{5, 20, 50} {
		out = append(out, faultPlan{Kind: "random", Pct: p})
		if tier == "thorough" {
			out = append(out, faultPlan{Kind: "random", Pct: p, RI: 30}, faultPlan{Kind: "random", Pct: p, RI: 10})
		}
	}
	out = append(out, faultPlan{Kind: "slow"})
	// ---- the kind of error: what a store with per-operation deadlines, or one that reuses the sentinels of
	// package quartz, reports.  Quiet bursts (no API call while the loop meets the fault: nothing else wakes it),
	// single faults in the API scenario, random mixes.
	for _, m := range []string{"Size", "Head", "Pop"} {
		for _, k := range errKinds[1:] {
			if kindAllowed(k, m) {
				out = append(out, faultPlan{Kind: "burst", Method: m, Index: 2, K: 2, RI: 20, Err: k})
			}
		}
		out = append(out, faultPlan{Kind: "burst", Method: m, Index: 1, K: 1, RI: 30, Err: "deadline"})
		out = append(out, faultPlan{Kind: "single", Method: m, Index: 1, Fault: "fail", Err: "deadline"},
			faultPlan{Kind: "single", Method: m, Index: 3, Fault: "fail", Err: "canceled"})
	}
	for _, m := range []string{"Push", "Get", "Remove", "ScheduledJobs", "Clear"} {
		i := 0
		for _, k := range errKinds[1:] {
			if kindAllowed(k, m) {
				out = append(out, faultPlan{Kind: "single", Method: m, Index: i % ranges[m], Fault: "fail", Err: k})
				i++
			}
		}
	}
	out = append(out, faultPlan{Kind: "random", Pct: 20, Err: "mixed"}, faultPlan{Kind: "random", Pct: 50, Err: "mixed"})
	// ---- long unbroken outages: hundreds of consecutive failures with a short RetryInterval; the rate oracle
	// (failing calls per RetryInterval window) holds from the first failure to the last
	out = append(out, faultPlan{Kind: "burst", Method: "Size", Index: 2, K: 300, RI: 1},
		faultPlan{Kind: "burst", Method: "Pop", Index: 1, K: 300, RI: 2},
		faultPlan{Kind: "burst", Method: "Head", Index: 2, K: 200, RI: 1, Err: "deadline"})
	if tier == "thorough" {
		out = append(out, faultPlan{Kind: "burst", Method: "Size", Index: 2, K: 1500, RI: 2}, faultPlan{Kind: "burst", Method: "Pop", Index: 1, K: 1000, RI: 1})
	}
	return out
}

func cmdFaults() {
	seed := argInt(2, 1)
	tier := argStr(3, "quick")
	only := argInt(4, -1)
	plans := faultPlans(tier)
	var wg sync.WaitGroup
	sem := make(chan struct{}, 8)
	for i, p := range plans {
		if only >= 0 && only != i {
			continue
		}
		i, p := i, p
		wg.Add(1)
		go func() {
			defer wg.Done()
			sem <- struct{}{}
			defer func() { <-sem }()
			emit(runFault(i, p, seed))
		}()
	}
	wg.Wait()
}

var _ = fmt.Sprint
