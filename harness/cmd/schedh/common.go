package main

import (
	"context"
	"errors"
	"fmt"
	"sort"
	"strconv"
	"strings"
	"sync"
	"sync/atomic"
	"time"

	"github.com/reugn/go-quartz/quartz"
)

// ---------------------------------------------------------------------------
// clock, event log
// ---------------------------------------------------------------------------

var base = time.Now()

func mono() int64 { return int64(time.Since(base)) }

// event is one observation of a free-running or concurrent run.
type event struct {
	Seq   int64  `json:"seq"`
	Kind  string `json:"kind"`            // trig | exec | api | misfire | foreign | dup
	Mono  int64  `json:"mono"`            // ns since process start at the moment of recording (for api: at return)
	Mono0 int64  `json:"mono0,omitempty"` // api: at invocation
	Wall  int64  `json:"wall,omitempty"`  // NowNano at the moment of recording
	Key   string `json:"key,omitempty"`
	Tid   int    `json:"tid"`
	Prev  int64  `json:"prev"`
	Res   int64  `json:"res"`
	Err   string `json:"err,omitempty"`
	Op    string `json:"op,omitempty"`
	Cl    int    `json:"cl,omitempty"`
	Sched int    `json:"sched,omitempty"`
	Get   string `json:"get,omitempty"`
}

type evlog struct {
	mu  sync.Mutex
	seq int64
	evs []event
}

func (l *evlog) add(e event) {
	l.mu.Lock()
	l.seq++
	e.Seq = l.seq
	l.evs = append(l.evs, e)
	l.mu.Unlock()
}

func (l *evlog) take() []event {
	l.mu.Lock()
	defer l.mu.Unlock()
	out := l.evs
	l.evs = nil
	return out
}

// ---------------------------------------------------------------------------
// triggers
// ---------------------------------------------------------------------------

type customErr struct{ code int }

func (e customErr) Error() string { return "custom trigger error " + strconv.Itoa(e.code) }

type fire struct {
	val  int64
	code int // -1: a fire time; 0: ErrTriggerExpired itself; wrappedExpired: the sentinel wrapped with %w; >0: an unrelated (custom) error
}

// wrappedExpired: the trigger reports expiry as fmt.Errorf("...: %w", quartz.ErrTriggerExpired) -- the idiom the library
// uses for its own sentinels. It is an expiry (errors.Is), so results print as E0; only the trigger's script names it (Ew).
const wrappedExpired = -3

func (f fire) isErr() bool { return f.code != -1 }

func (f fire) String() string {
	if f.code == wrappedExpired {
		return "E0"
	}
	if f.code >= 0 {
		return "E" + strconv.Itoa(f.code)
	}
	return strconv.FormatInt(f.val, 10)
}

// item is the form used in a trigger's script (T command).
func (f fire) item() string {
	if f.code == wrappedExpired {
		return "Ew"
	}
	return f.String()
}

type call struct {
	tid  int
	prev int64
	res  fire
}

// rtrig is a recording trigger: it wraps one of the library's triggers (SimpleTrigger, RunOnceTrigger)
// or plays a script / fails, and reports every NextFireTime call.
type rtrig struct {
	id     int
	spec   string // si <interval> | ro <delay> <0|1> | fl <code> | sc <items> <dflt>
	inner  quartz.Trigger
	code   int
	script []fire
	dflt   fire
	mu     sync.Mutex
	calls  *[]call // per-step sink (single-threaded use)
	// failFrom > 0: a wrapped library trigger fails from its failFrom-th call on with failCode (0: ErrTriggerExpired itself,
	// wrappedExpired: the sentinel wrapped with %w, > 0: an unrelated error) -- a calendar that runs out / a source that fails
	failFrom, failCode, ncalls int
	log    *evlog  // free-running sink
	key    string
}

func (t *rtrig) Description() string { return "rtrig" + strconv.Itoa(t.id) }

func (t *rtrig) NextFireTime(prev int64) (int64, error) {
	wall := quartz.NowNano()
	m := mono()
	t.mu.Lock()
	var f fire
	switch {
	case t.inner != nil && t.failFrom > 0 && t.ncalls+1 >= t.failFrom:
		t.ncalls++
		f = fire{0, t.failCode}
	case t.inner != nil:
		t.ncalls++
		v, err := t.inner.NextFireTime(prev)
		switch {
		case err == nil:
			f = fire{v, -1}
		case errors.Is(err, quartz.ErrTriggerExpired):
			f = fire{0, 0}
		default:
			f = fire{0, 99}
		}
	case t.script != nil || t.dflt.code != -2:
		if len(t.script) > 0 {
			f = t.script[0]
			t.script = t.script[1:]
		} else {
			f = t.dflt
		}
	default:
		f = fire{0, t.code}
	}
	t.mu.Unlock()
	if t.calls != nil {
		*t.calls = append(*t.calls, call{t.id, prev, f})
	}
	if t.log != nil {
		e := event{Kind: "trig", Mono: m, Wall: wall, Tid: t.id, Prev: prev, Key: t.key}
		if f.isErr() {
			e.Err = f.String()
		} else {
			e.Res = f.val
		}
		t.log.add(e)
	}
	switch {
	case !f.isErr():
		return f.val, nil
	case f.code == 0:
		return 0, quartz.ErrTriggerExpired
	case f.code == wrappedExpired:
		return 0, fmt.Errorf("calendar exhausted: %w", quartz.ErrTriggerExpired)
	default:
		return 0, fmt.Errorf("wrapped: %w", customErr{f.code})
	}
}

func newSimple(id int, interval int64) *rtrig {
	return &rtrig{id: id, spec: fmt.Sprintf("si %d", interval), inner: quartz.NewSimpleTrigger(time.Duration(interval)), dflt: fire{0, -2}}
}

func newOnce(id int, delay int64, expired bool) *rtrig {
	e := 0
	if expired {
		e = 1
	}
	return &rtrig{id: id, spec: fmt.Sprintf("ro %d %d", delay, e), inner: &quartz.RunOnceTrigger{Delay: time.Duration(delay), Expired: expired}, dflt: fire{0, -2}}
}

func newFail(id, code int) *rtrig {
	return &rtrig{id: id, spec: fmt.Sprintf("fl %d", code), code: code, dflt: fire{0, -2}}
}

func newScript(id int, script []fire, dflt fire) *rtrig {
	items := make([]string, len(script))
	for i, f := range script {
		items[i] = f.item()
	}
	l := strings.Join(items, ",")
	if l == "" {
		l = "-"
	}
	return &rtrig{id: id, spec: fmt.Sprintf("sc %s %s", l, dflt.item()), script: append([]fire{}, script...), dflt: dflt}
}

// ---------------------------------------------------------------------------
// jobs
// ---------------------------------------------------------------------------

type rjob struct {
	key   string
	tid   int
	log   *evlog
	dur   time.Duration
	count atomic.Int64
	fail  int // first n attempts of each execution fail (retries)
}

func (j *rjob) Description() string { return "rjob " + j.key }

func (j *rjob) Execute(ctx context.Context) error {
	wall := quartz.NowNano()
	m := mono()
	j.count.Add(1)
	if j.log != nil {
		j.log.add(event{Kind: "exec", Mono: m, Wall: wall, Key: j.key, Tid: j.tid})
	}
	if j.dur > 0 {
		t := time.NewTimer(j.dur)
		select {
		case <-t.C:
		case <-ctx.Done():
			t.Stop()
		}
	}
	return nil
}

// ---------------------------------------------------------------------------
// recording locker and queue (lock discipline), copying queue
// ---------------------------------------------------------------------------

type recLocker struct {
	mu      sync.Mutex
	held    atomic.Bool
	latency time.Duration // > 0: acquiring takes that long (a distributed lock)
}

func (l *recLocker) Lock() {
	if l.latency > 0 {
		time.Sleep(l.latency)
	}
	l.mu.Lock()
	l.held.Store(true)
}
func (l *recLocker) Unlock() { l.held.Store(false); l.mu.Unlock() }

// recQueue checks that every mutating / reading call of the scheduler on the queue happens with the
// locker held (Size and Head are used by the loop's tick computation without the locker).
type recQueue struct {
	inner      quartz.JobQueue
	locker     *recLocker
	violations atomic.Int64
	first      atomic.Value // string
	calls      atomic.Int64
}

func (q *recQueue) check(op string) {
	q.calls.Add(1)
	if !q.locker.held.Load() {
		if q.violations.Add(1) == 1 {
			q.first.Store(op)
		}
	}
}
func (q *recQueue) Push(j quartz.ScheduledJob) error   { q.check("Push"); return q.inner.Push(j) }
func (q *recQueue) Pop() (quartz.ScheduledJob, error)  { q.check("Pop"); return q.inner.Pop() }
func (q *recQueue) Head() (quartz.ScheduledJob, error) { return q.inner.Head() }
func (q *recQueue) Get(k *quartz.JobKey) (quartz.ScheduledJob, error) {
	q.check("Get")
	return q.inner.Get(k)
}
func (q *recQueue) Remove(k *quartz.JobKey) (quartz.ScheduledJob, error) {
	q.check("Remove")
	return q.inner.Remove(k)
}
func (q *recQueue) ScheduledJobs(m []quartz.Matcher[quartz.ScheduledJob]) ([]quartz.ScheduledJob, error) {
	q.check("ScheduledJobs")
	return q.inner.ScheduledJobs(m)
}
func (q *recQueue) Size() (int, error) { return q.inner.Size() }
func (q *recQueue) Clear() error       { q.check("Clear"); return q.inner.Clear() }

// faultQueue fails the next Push when armed (a transient failure of a persistent queue), or -- in free-running
// mode -- every n-th Push.
type faultQueue struct {
	inner      quartz.JobQueue
	failNext   atomic.Bool
	failRemove atomic.Bool // the next Remove fails
	every      int64
	pushes     atomic.Int64
	failed     atomic.Int64
}

var errTransient = errors.New("transient queue failure")

func (q *faultQueue) Push(j quartz.ScheduledJob) error {
	n := q.pushes.Add(1)
	if q.failNext.CompareAndSwap(true, false) || (q.every > 0 && n%q.every == 0) {
		q.failed.Add(1)
		return errTransient
	}
	return q.inner.Push(j)
}
func (q *faultQueue) Pop() (quartz.ScheduledJob, error)                 { return q.inner.Pop() }
func (q *faultQueue) Head() (quartz.ScheduledJob, error)                { return q.inner.Head() }
func (q *faultQueue) Get(k *quartz.JobKey) (quartz.ScheduledJob, error) { return q.inner.Get(k) }
func (q *faultQueue) Remove(k *quartz.JobKey) (quartz.ScheduledJob, error) {
	if q.failRemove.CompareAndSwap(true, false) {
		q.failed.Add(1)
		return nil, errTransient
	}
	return q.inner.Remove(k)
}
func (q *faultQueue) ScheduledJobs(m []quartz.Matcher[quartz.ScheduledJob]) ([]quartz.ScheduledJob, error) {
	return q.inner.ScheduledJobs(m)
}
func (q *faultQueue) Size() (int, error) { return q.inner.Size() }
func (q *faultQueue) Clear() error       { return q.inner.Clear() }

// copyQueue hands out fresh copies (new ScheduledJob, new JobDetail, new options) from every call
// and stores a copy of what it is given, so nothing the scheduler holds aliases what is in the queue.
type copyQueue struct{ inner quartz.JobQueue }

func cp(j quartz.ScheduledJob) quartz.ScheduledJob {
	if j == nil {
		return nil
	}
	jd := j.JobDetail()
	o := *jd.Options()
	return quartz.VerifNewScheduledJob(quartz.NewJobDetailWithOptions(jd.Job(), jd.JobKey(), &o), j.Trigger(), j.NextRunTime())
}
func (q *copyQueue) Push(j quartz.ScheduledJob) error { return q.inner.Push(cp(j)) }
func (q *copyQueue) Pop() (quartz.ScheduledJob, error) {
	j, err := q.inner.Pop()
	return cp(j), err
}
func (q *copyQueue) Head() (quartz.ScheduledJob, error) {
	j, err := q.inner.Head()
	return cp(j), err
}
func (q *copyQueue) Get(k *quartz.JobKey) (quartz.ScheduledJob, error) {
	j, err := q.inner.Get(k)
	return cp(j), err
}
func (q *copyQueue) Remove(k *quartz.JobKey) (quartz.ScheduledJob, error) {
	j, err := q.inner.Remove(k)
	return cp(j), err
}
func (q *copyQueue) ScheduledJobs(m []quartz.Matcher[quartz.ScheduledJob]) ([]quartz.ScheduledJob, error) {
	l, err := q.inner.ScheduledJobs(m)
	out := make([]quartz.ScheduledJob, len(l))
	for i, j := range l {
		out[i] = cp(j)
	}
	return out, err
}
func (q *copyQueue) Size() (int, error) { return q.inner.Size() }
func (q *copyQueue) Clear() error       { return q.inner.Clear() }

// ---------------------------------------------------------------------------
// projections
// ---------------------------------------------------------------------------

func keyStr(k *quartz.JobKey) string { return k.Name() + "/" + k.Group() }

// errClass maps an error to the class names the model driver prints.
func errClass(err error) string {
	var ce customErr
	switch {
	case err == nil:
		return "ok"
	case errors.Is(err, errTransient):
		return "EQF" // the injected queue failure came back to the caller
	case errors.Is(err, quartz.ErrIllegalArgument):
		return "EIA"
	case errors.Is(err, quartz.ErrJobAlreadyExists):
		return "EAE"
	case errors.Is(err, quartz.ErrJobNotFound):
		return "ENF"
	case errors.Is(err, quartz.ErrJobIsSuspended):
		return "ESU"
	case errors.Is(err, quartz.ErrJobIsActive):
		return "EAC"
	case errors.Is(err, quartz.ErrQueueEmpty):
		return "EQE"
	case errors.Is(err, quartz.ErrTriggerExpired):
		return "ETX"
	case errors.As(err, &ce):
		return "ETC" + strconv.Itoa(ce.code)
	}
	return "E?" + err.Error()
}

// illegalStateConsistent: the state sentinels are documented to unwrap to ErrIllegalState as well.
func illegalStateConsistent(err error) bool {
	if err == nil {
		return true
	}
	for _, s := range []error{quartz.ErrJobAlreadyExists, quartz.ErrJobNotFound, quartz.ErrJobIsSuspended, quartz.ErrJobIsActive} {
		if errors.Is(err, s) && !errors.Is(err, quartz.ErrIllegalState) {
			return false
		}
	}
	return true
}

func tidOf(t quartz.Trigger) int {
	if r, ok := t.(*rtrig); ok {
		return r.id
	}
	return -1
}

func entryStr(sj quartz.ScheduledJob) string {
	s := "0"
	if sj.JobDetail().Options().Suspended {
		s = "1"
	}
	return keyStr(sj.JobDetail().JobKey()) + ":" + s + ":" + strconv.FormatInt(sj.NextRunTime(), 10) + ":" + strconv.Itoa(tidOf(sj.Trigger()))
}

// registry dumps the scheduler's registry through the public API: sorted keys, one GetScheduledJob per key.
func registry(s quartz.Scheduler) string {
	keys, err := s.GetJobKeys()
	if err != nil {
		return "{!keys " + err.Error() + "}"
	}
	items := make([]string, 0, len(keys))
	for _, k := range keys {
		sj, err := s.GetScheduledJob(k)
		if err != nil {
			items = append(items, keyStr(k)+":!"+errClass(err))
			continue
		}
		items = append(items, entryStr(sj))
	}
	sort.Strings(items)
	return "{" + strings.Join(items, ";") + "}"
}

func callsStr(cs []call) string {
	items := make([]string, len(cs))
	for i, c := range cs {
		items[i] = strconv.Itoa(c.tid) + ":" + strconv.FormatInt(c.prev, 10) + ":" + c.res.String()
	}
	return "[" + strings.Join(items, ",") + "]"
}
