package main

import (
	"bufio"
	"context"
	"fmt"
	"math/rand"
	"os"
	"strconv"
	"strings"
	"sync"
	"time"

	"github.com/reugn/go-quartz/quartz"
)

// Step correspondence: a scheduler (or two on one queue and locker) is driven one call at a time from a
// single goroutine: API calls, fetchAndReschedule (hook VerifFetchAndReschedule) and foreign changes of
// the queue. After every call the harness prints
//
//	<command for the model driver> TAB <what the implementation did>
//
// in the textual form the driver (ocaml/sched/driver.ml) uses for the model's answer.

const (
	thrNS   = int64(10 * time.Second) // OutdatedThreshold of every scheduler in step mode
	lateNS  = int64(-60 * time.Second)
	dueNS   = int64(-3 * time.Second)
	futNS   = int64(time.Hour)
	stallNS = int64(2 * time.Second) // a scenario older than this is abandoned (classification margins)
)

type world struct {
	variant  string // life: n never started | s started | t stopped ; queue: d default | c copying | h shared by two schedulers
	scheds   []quartz.Scheduler
	rq       *recQueue
	fq       *faultQueue
	locker   *recLocker
	trigs    []*rtrig
	calls    []call
	misfired chan quartz.ScheduledJob
	cancel   []context.CancelFunc
	born     int64
	thr      int64 // OutdatedThreshold of the schedulers of this world
	badWrap  int
}

func newWorld(variant string, misCap int) *world { return newWorldThr(variant, misCap, thrNS) }

func newWorldThr(variant string, misCap int, thr int64) *world {
	w := &world{variant: variant, locker: &recLocker{}, born: quartz.NowNano(), thr: thr}
	var inner quartz.JobQueue = quartz.NewJobQueue()
	if variant[1] == 'c' {
		inner = &copyQueue{inner}
	}
	w.fq = &faultQueue{inner: inner}
	w.rq = &recQueue{inner: w.fq, locker: w.locker}
	n := 1
	if variant[1] == 'h' {
		n = 2
	}
	if misCap >= 0 {
		w.misfired = make(chan quartz.ScheduledJob, misCap)
	}
	for i := 0; i < n; i++ {
		opts := []quartz.SchedulerOpt{quartz.WithQueue(w.rq, w.locker), quartz.WithOutdatedThreshold(time.Duration(thr))}
		if w.misfired != nil {
			opts = append(opts, quartz.WithMisfiredChan(w.misfired))
		}
		s, err := quartz.NewStdScheduler(opts...)
		if err != nil {
			panic(err)
		}
		switch variant[0] {
		case 's':
			ctx, cancel := context.WithCancel(context.Background())
			w.cancel = append(w.cancel, cancel)
			s.Start(ctx)
		case 't':
			ctx, cancel := context.WithCancel(context.Background())
			s.Start(ctx)
			s.Stop()
			s.Wait(context.Background())
			cancel()
		}
		w.scheds = append(w.scheds, s)
	}
	return w
}

func (w *world) close() {
	for i, s := range w.scheds {
		if w.variant[0] == 's' {
			s.Stop()
			s.Wait(context.Background())
			w.cancel[i]()
		}
	}
}

func (w *world) qkind() string {
	if w.variant[1] == 'c' {
		return "s" // compared with the sorted-list instance of the model
	}
	return "l"
}

func (w *world) addTrig(t *rtrig) *rtrig {
	t.id = len(w.trigs)
	t.calls = &w.calls
	w.trigs = append(w.trigs, t)
	return t
}

// op is one command: cmd is the text for the driver without the clock reading.
type op struct {
	pushFail   bool   // F: the next Push of the queue fails (the reschedule push of this fetch)
	removeFail bool   // A: the next Remove of the queue fails
	kind       byte   // 'A' api, 'F' fetch, 'X' foreign
	text       string // A: "S name group r s tid" ...; X: "push ..." ; F: ""
	sched      int
	run        func(s quartz.Scheduler) string // A / X: performs the call, returns the result class
}

var noJob = &rjob{key: "-"}

func mkKey(name, group string) *quartz.JobKey {
	if name == "-nil-" {
		return nil
	}
	if name == "-empty-" {
		return quartz.NewJobKeyWithGroup("", group)
	}
	return quartz.NewJobKeyWithGroup(name, group)
}

func b01(b bool) string {
	if b {
		return "1"
	}
	return "0"
}

// opSchedule builds a ScheduleJob call with a fresh JobDetail.
func (w *world) opSchedule(name, group string, repl, susp bool, t *rtrig, jdNil bool) op {
	tid := "nil"
	if t != nil {
		tid = strconv.Itoa(t.id)
	}
	if jdNil {
		return op{kind: 'A', text: "S -jdnil- - 0 0 " + tid, run: func(s quartz.Scheduler) string {
			var tr quartz.Trigger
			if t != nil {
				tr = t
			}
			return errClassW(w, s.ScheduleJob(nil, tr))
		}}
	}
	return op{kind: 'A', text: fmt.Sprintf("S %s %s %s %s %s", name, group, b01(repl), b01(susp), tid),
		run: func(s quartz.Scheduler) string {
			o := quartz.NewDefaultJobDetailOptions()
			o.Replace, o.Suspended = repl, susp
			jd := quartz.NewJobDetailWithOptions(noJob, mkKey(name, group), o)
			var tr quartz.Trigger // a nil *rtrig must become a nil interface
			if t != nil {
				tr = t
			}
			return errClassW(w, s.ScheduleJob(jd, tr))
		}}
}

func errClassW(w *world, err error) string {
	if !illegalStateConsistent(err) {
		w.badWrap++
	}
	return errClass(err)
}

func (w *world) opKey(c byte, name, group string) op {
	return op{kind: 'A', text: fmt.Sprintf("%c %s %s", c, name, group), run: func(s quartz.Scheduler) string {
		k := mkKey(name, group)
		switch c {
		case 'D':
			return errClassW(w, s.DeleteJob(k))
		case 'P':
			return errClassW(w, s.PauseJob(k))
		case 'R':
			return errClassW(w, s.ResumeJob(k))
		default:
			sj, err := s.GetScheduledJob(k)
			if err != nil {
				return errClassW(w, err)
			}
			return "J:" + entryStr(sj)
		}
	}}
}

func (w *world) opClear() op {
	return op{kind: 'A', text: "C", run: func(s quartz.Scheduler) string { return errClassW(w, s.Clear()) }}
}

func (w *world) opKeys() op {
	return op{kind: 'A', text: "K", run: func(s quartz.Scheduler) string {
		keys, err := s.GetJobKeys()
		if err != nil {
			return errClassW(w, err)
		}
		ks := make([]string, len(keys))
		for i, k := range keys {
			ks[i] = keyStr(k)
		}
		sortStrings(ks)
		return "K:" + strings.Join(ks, ",")
	}}
}

func sortStrings(a []string) {
	for i := 1; i < len(a); i++ {
		for j := i; j > 0 && a[j] < a[j-1]; j-- {
			a[j], a[j-1] = a[j-1], a[j]
		}
	}
}

// foreign changes go through the recording queue with the locker held, as another scheduler process would.
func (w *world) opForeignPush(name, group string, prio int64, susp, repl bool, t *rtrig) op {
	return op{kind: 'X', text: fmt.Sprintf("push %s %s %d %s %s %d", name, group, prio, b01(susp), b01(repl), t.id),
		run: func(quartz.Scheduler) string {
			o := quartz.NewDefaultJobDetailOptions()
			o.Replace, o.Suspended = repl, susp
			jd := quartz.NewJobDetailWithOptions(noJob, mkKey(name, group), o)
			w.locker.Lock()
			_ = w.rq.Push(quartz.VerifNewScheduledJob(jd, t, prio))
			w.locker.Unlock()
			return "ok"
		}}
}

func (w *world) opForeignRemove(name, group string) op {
	return op{kind: 'X', text: fmt.Sprintf("remove %s %s", name, group), run: func(quartz.Scheduler) string {
		w.locker.Lock()
		_, _ = w.rq.Remove(mkKey(name, group))
		w.locker.Unlock()
		return "ok"
	}}
}

func (w *world) opForeignClear() op {
	return op{kind: 'X', text: "clear", run: func(quartz.Scheduler) string {
		w.locker.Lock()
		_ = w.rq.Clear()
		w.locker.Unlock()
		return "ok"
	}}
}

// step performs one op and returns (driver command, observation without registry).
func (w *world) step(o op) (string, string) {
	s := w.scheds[o.sched%len(w.scheds)]
	w.calls = w.calls[:0]
	tb := quartz.NowNano()
	var obs string
	hint := "- -"
	switch o.kind {
	case 'A', 'X':
		if o.pushFail {
			w.fq.failNext.Store(true)
		}
		if o.removeFail {
			w.fq.failRemove.Store(true)
		}
		obs = o.run(s)
		w.fq.failNext.Store(false)
		w.fq.failRemove.Store(false)
	case 'F':
		// the interrupt token of a never-started scheduler is never consumed: Reset() shows only while
		// no token is pending yet
		tokBefore := quartz.VerifInterruptPending(s)
		mbefore := 0
		if w.misfired != nil {
			mbefore = len(w.misfired)
		}
		if o.pushFail {
			w.fq.failNext.Store(true)
		}
		done := make(chan struct{})
		var job quartz.ScheduledJob
		var valid bool
		var err error
		go func() { // fetch must not block (non-blocking misfire offer): watched from outside
			job, valid, err = quartz.VerifFetchAndReschedule(s)
			close(done)
		}()
		select {
		case <-done:
		case <-time.After(10 * time.Second):
			aborted = true // a blocked fetch holds the queue locker for ever: nothing more can be learnt from this process
			return "F 0 0 - -", "BLOCKED"
		}
		w.fq.failNext.Store(false)
		r := "none"
		if err != nil {
			r = "!" + errClass(err)
		} else if job != nil {
			r = keyStr(job.JobDetail().JobKey()) + ":" + strconv.FormatInt(job.NextRunTime(), 10) + ":" + b01(valid)
			hint = job.JobDetail().JobKey().Name() + " " + job.JobDetail().JobKey().Group()
		}
		mis := "-"
		if w.misfired != nil && len(w.misfired) > mbefore {
			// delivered: read it back (keeps room for the next one when the buffer is small)
			m := <-w.misfired
			mis = "M" + strconv.FormatInt(m.NextRunTime(), 10)
		} else if w.misfired == nil || cap(w.misfired) == 0 {
			mis = "?" // no channel or unbuffered without a receiver: an offer cannot be seen
		}
		tok := "r" + b01(quartz.VerifInterruptPending(s))
		if tokBefore {
			tok = "r?"
		}
		obs = r + " " + callsStr(w.calls) + " " + mis + " " + tok
	}
	ta := quartz.NowNano()
	now := tb
	for _, c := range w.calls {
		if c.prev >= tb && c.prev <= ta {
			now = c.prev
			break
		}
	}
	switch o.kind {
	case 'A':
		c := "A"
		if o.pushFail {
			c = "AXP"
		} else if o.removeFail {
			c = "AXR"
		}
		return fmt.Sprintf("%s %d %s", c, now, o.text), obs + " " + callsStr(w.calls)
	case 'X':
		return "X " + o.text, obs
	default:
		c := "F"
		if o.pushFail {
			c = "FX"
		}
		return fmt.Sprintf("%s %d %d %s", c, now, w.thr, hint), obs
	}
}

// aborted is set when a fetch step blocked; the generators stop at the next sequence boundary.
var aborted bool

type emitter struct {
	w   *bufio.Writer
	seq int
}

func (e *emitter) comment(format string, a ...any) { fmt.Fprintf(e.w, "# "+format+"\n", a...) }

// ---------------------------------------------------------------------------
// exhaustive API sequences (one Q line per sequence)
// ---------------------------------------------------------------------------

type protoOp struct {
	mk func(w *world) op // builds the op in a fresh world (creating its trigger if it needs one)
}

func trigMaker(kind string) func(w *world) *rtrig {
	return func(w *world) *rtrig {
		switch kind {
		case "si":
			return w.addTrig(newSimple(0, futNS))
		case "ro":
			return w.addTrig(newOnce(0, futNS, false))
		case "rx":
			return w.addTrig(newOnce(0, futNS, true))
		default:
			return w.addTrig(newFail(0, 7))
		}
	}
}

// collide: distinct (name, group) pairs whose printed forms group::name coincide
var collide = [][2]string{{"db::backup", "eu"}, {"backup", "eu::db"}}

func alphabet(size string) []protoOp {
	var out []protoOp
	keys := [][2]string{{"a", "default"}, {"b", "default"}, {"a", "g"}, {"b", "g"}, collide[0], collide[1]}
	trigs := []string{"si", "ro", "rx", "fl"}
	opts := [][2]bool{{false, false}, {true, false}, {false, true}, {true, true}}
	if size == "full4" {
		keys = keys[:4]
	}
	if size == "collide" {
		keys = collide
		trigs = []string{"si", "rx"}
		opts = opts[:3]
	}
	if size == "small" {
		keys = [][2]string{{"a", "default"}, {"a", "g"}}
		trigs = []string{"si", "rx"}
		opts = opts[:3]
	}
	for _, k := range keys {
		for _, o := range opts {
			for _, t := range trigs {
				k, o, t := k, o, t
				out = append(out, protoOp{func(w *world) op { return w.opSchedule(k[0], k[1], o[0], o[1], trigMaker(t)(w), false) }})
			}
		}
		for _, c := range []byte{'D', 'P', 'R'} {
			k, c := k, c
			out = append(out, protoOp{func(w *world) op { return w.opKey(c, k[0], k[1]) }})
		}
		if size != "small" {
			k := k
			out = append(out, protoOp{func(w *world) op { return w.opKey('G', k[0], k[1]) }})
		}
	}
	out = append(out, protoOp{func(w *world) op { return w.opClear() }})
	out = append(out, protoOp{func(w *world) op { return w.opSchedule("a", "default", true, false, nil, false) }}) // nil trigger
	if size == "full" || size == "full4" {
		out = append(out,
			protoOp{func(w *world) op { return w.opKeys() }},
			protoOp{func(w *world) op { return w.opSchedule("", "", false, false, trigMaker("si")(w), true) }},              // nil job detail
			protoOp{func(w *world) op { return w.opSchedule("-nil-", "default", false, false, trigMaker("si")(w), false) }}, // nil key
			protoOp{func(w *world) op { return w.opSchedule("-empty-", "g", false, false, trigMaker("si")(w), false) }},     // empty name
			protoOp{func(w *world) op { return w.opKey('D', "-nil-", "default") }},
			protoOp{func(w *world) op { return w.opKey('P', "-nil-", "default") }},
			protoOp{func(w *world) op { return w.opKey('R', "-nil-", "default") }},
			protoOp{func(w *world) op { return w.opKey('G', "-nil-", "default") }},
		)
	}
	return out
}

type stats struct {
	sequences, calls, lockCalls, lockViolations, badWrap, stalled, blocked int
	firstViolation                                                         string
}

func (st *stats) absorb(w *world) {
	st.lockCalls += int(w.rq.calls.Load())
	v := int(w.rq.violations.Load())
	if v > 0 && st.firstViolation == "" {
		st.firstViolation, _ = w.rq.first.Load().(string)
	}
	st.lockViolations += v
	st.badWrap += w.badWrap
}

func runExhaustive(e *emitter, st *stats, size string, depth int, variants []string, only int) {
	alpha := alphabet(size)
	idx := make([]int, depth)
	vi := 0
	for {
		variant := variants[vi%len(variants)]
		vi++
		if only < 0 || only == e.seq {
			w := newWorld(variant, 4)
			var cmds, obss []string
			for _, i := range idx {
				ntr := len(w.trigs)
				o := alpha[i].mk(w)
				o.sched = len(cmds)
				for _, t := range w.trigs[ntr:] {
					cmds = append(cmds, fmt.Sprintf("T %d %s", t.id, t.spec))
					obss = append(obss, "ok")
				}
				c, ob := w.step(o)
				cmds = append(cmds, c)
				obss = append(obss, ob)
				st.calls++
			}
			reg := registry(w.scheds[0])
			w.close()
			st.absorb(w)
			fmt.Fprintf(e.w, "Q %s ;; %s\t%s | %s\t#%d %s\n", w.qkind(), strings.Join(cmds, " ;; "), strings.Join(obss, " ;; "), reg, e.seq, variant)
		}
		e.seq++
		st.sequences++
		// next index vector
		p := depth - 1
		for p >= 0 {
			idx[p]++
			if idx[p] < len(alpha) {
				break
			}
			idx[p] = 0
			p--
		}
		if p < 0 {
			return
		}
	}
}

// ---------------------------------------------------------------------------
// random sequences: API only (any life-cycle variant) or API + fetch + foreign (never-started schedulers)
// ---------------------------------------------------------------------------

func (w *world) randomOp(r *rand.Rand, withFetch bool, base int64) op {
	names := []string{"a", "b"}
	groups := []string{"default", "g"}
	name, group := names[r.Intn(2)], groups[r.Intn(2)]
	if r.Intn(5) == 0 { // two keys that differ as pairs but print alike (db::backup in eu / backup in eu::db)
		kk := collide[r.Intn(2)]
		name, group = kk[0], kk[1]
	}
	pick := r.Intn(100)
	mkTrig := func() *rtrig {
		if !withFetch {
			return trigMaker([]string{"si", "si", "ro", "rx", "fl"}[r.Intn(5)])(w)
		}
		switch r.Intn(10) {
		case 0:
			return w.addTrig(newOnce(0, dueNS, false)) // fires once, on time
		case 1:
			return w.addTrig(newOnce(0, lateNS, false)) // its single fire time is already outdated
		case 2:
			return w.addTrig(newOnce(0, futNS, true))
		case 3:
			return w.addTrig(newFail(0, 1+r.Intn(3)))
		case 4:
			return w.addTrig(newSimple(0, dueNS)) // walks back in time: due, due, due, late, re-based ...
		case 5:
			return w.addTrig(newSimple(0, futNS))
		case 6:
			return w.addTrig(newSimple(0, lateNS))
		default:
			// scripted fire times placed by margin around the clock of the scenario start
			n := 1 + r.Intn(5)
			sc := make([]fire, n)
			for i := range sc {
				off := []int64{dueNS, dueNS, lateNS, futNS, dueNS + int64(i+1)*int64(time.Millisecond)}[r.Intn(5)]
				sc[i] = fire{base + off + int64(r.Intn(1000))*1000, -1}
				if r.Intn(12) == 0 {
					sc[i] = fire{0, r.Intn(3)}
				}
			}
			d := fire{base + futNS, -1}
			if r.Intn(3) == 0 {
				d = fire{0, 0}
			}
			return w.addTrig(newScript(0, sc, d))
		}
	}
	var o op
	switch {
	case withFetch && pick < 3:
		o = op{kind: 'F', pushFail: true}
	case withFetch && pick < 38:
		o = op{kind: 'F'}
	case withFetch && pick < 44:
		if len(w.trigs) == 0 || r.Intn(2) == 0 {
			mkTrig()
		}
		t := w.trigs[r.Intn(len(w.trigs))]
		off := []int64{dueNS, lateNS, futNS}[r.Intn(3)]
		o = w.opForeignPush(name, group, base+off+int64(r.Intn(1000))*1000, r.Intn(5) == 0, r.Intn(2) == 0, t)
	case withFetch && pick < 46:
		o = w.opForeignRemove(name, group)
	case withFetch && pick < 47:
		o = w.opForeignClear()
	case pick < 70:
		var t *rtrig
		if len(w.trigs) > 0 && r.Intn(6) == 0 {
			t = w.trigs[r.Intn(len(w.trigs))] // a trigger shared with another job / an earlier call
		} else if r.Intn(25) != 0 {
			t = mkTrig()
		}
		switch r.Intn(30) {
		case 0:
			o = w.opSchedule("", "", false, false, t, true)
		case 1:
			o = w.opSchedule("-nil-", group, false, false, t, false)
		case 2:
			o = w.opSchedule("-empty-", group, false, false, t, false)
		default:
			o = w.opSchedule(name, group, r.Intn(3) == 0, r.Intn(4) == 0, t, false)
		}
	case pick < 77:
		o = w.opKey('D', name, group)
	case pick < 86:
		o = w.opKey('P', name, group)
	case pick < 95:
		o = w.opKey('R', name, group)
	case pick < 97:
		o = w.opKey('G', name, group)
	case pick < 98:
		o = w.opKeys()
	case pick < 99:
		o = w.opKey([]byte{'D', 'P', 'R', 'G'}[r.Intn(4)], "-nil-", group)
	default:
		o = w.opClear()
	}
	o.sched = r.Intn(2)
	if withFetch && o.kind == 'A' { // a transient failure of the queue inside the call
		switch r.Intn(14) {
		case 0:
			o.pushFail = true
		case 1:
			o.removeFail = true
		}
	}
	return o
}

func runRandom(e *emitter, st *stats, r *rand.Rand, nseq, depth int, withFetch bool, variants []string, only int) {
	for n := 0; n < nseq && !aborted; n++ {
		seed := r.Int63()
		if only >= 0 && only != e.seq {
			e.seq++
			continue
		}
		for attempt := 0; ; attempt++ {
			rr := rand.New(rand.NewSource(seed))
			variant := variants[n%len(variants)]
			misCap := []int{-1, 0, 1, 64}[rr.Intn(4)]
			if !withFetch {
				misCap = 4
			}
			thr := thrNS
			if withFetch {
				switch rr.Intn(8) { // the boundary settings of OutdatedThreshold
				case 0:
					thr = 0
				case 1:
					thr = int64(1<<63 - 1)
				}
			}
			w := newWorldThr(variant, misCap, thr)
			var lines []string
			lines = append(lines, fmt.Sprintf("# seq %d variant %s miscap %d thr %d", e.seq, variant, misCap, thr), "reset "+w.qkind()+"\tok")
			stalled := false
			for i := 0; i < depth; i++ {
				ntr := len(w.trigs)
				o := w.randomOp(rr, withFetch, w.born)
				for _, t := range w.trigs[ntr:] {
					lines = append(lines, fmt.Sprintf("T %d %s\tok", t.id, t.spec))
				}
				c, ob := w.step(o)
				st.calls++
				if ob == "BLOCKED" {
					st.blocked++
					lines = append(lines, c+"\t"+ob)
					break
				}
				lines = append(lines, c+"\t"+ob+" | "+registry(w.scheds[0]))
				if withFetch && quartz.NowNano()-w.born > stallNS {
					stalled = true
					break
				}
			}
			if aborted {
				for _, l := range lines {
					fmt.Fprintln(e.w, l)
				}
				st.sequences++
				return
			}
			w.close()
			st.absorb(w)
			if stalled && attempt < 3 {
				st.stalled++
				continue
			}
			if stalled {
				lines = lines[:1]
			}
			for _, l := range lines {
				fmt.Fprintln(e.w, l)
			}
			break
		}
		e.seq++
		st.sequences++
	}
}

// ---------------------------------------------------------------------------
// fixed scenarios aimed at the classification boundaries and at the pause/delete window
// ---------------------------------------------------------------------------

func runDirected(e *emitter, st *stats, only int) {
	type sc struct {
		name string
		run  func(w *world) []op
	}
	f := op{kind: 'F'}
	var scenarios []sc
	for _, qv := range []string{"nd", "nc", "nh"} {
		for _, mc := range []int{-1, 0, 1, 8} {
			qv, mc := qv, mc
			scenarios = append(scenarios, sc{fmt.Sprintf("classify %s miscap %d", qv, mc), func(w *world) []op {
				b := w.born
				late := w.addTrig(newScript(0, []fire{{b + lateNS, -1}, {b + dueNS, -1}, {b + futNS, -1}}, fire{0, 0}))
				due := w.addTrig(newScript(0, []fire{{b + dueNS - 1000, -1}, {b + dueNS + 1000, -1}, {0, 0}}, fire{0, 0}))
				fut := w.addTrig(newSimple(0, futNS))
				once := w.addTrig(newOnce(0, dueNS-5000, false))
				return []op{
					w.opSchedule("a", "default", false, false, late, false),
					w.opSchedule("b", "default", false, false, due, false),
					w.opSchedule("a", "g", false, false, fut, false),
					w.opSchedule("b", "g", false, true, once, false), // suspended: parked without a trigger call
					f, f, f, f, f, f, f,
					w.opKey('R', "b", "g"), f, f, f,
					w.opKey('P', "a", "g"), f, w.opKey('D', "a", "g"), f, f,
					w.opClear(), f,
				}
			}})
		}
	}
	scenarios = append(scenarios, sc{"pause-between-fetches", func(w *world) []op {
		t := w.addTrig(newSimple(0, dueNS))
		return []op{w.opSchedule("a", "default", false, false, t, false), f, w.opKey('P', "a", "default"), f, f,
			w.opKey('R', "a", "default"), f, f, f, f, f, w.opKey('D', "a", "default"), f}
	}})
	scenarios = append(scenarios, sc{"foreign-and-shared", func(w *world) []op {
		t := w.addTrig(newSimple(0, dueNS))
		u := w.addTrig(newSimple(0, futNS))
		b := w.born
		f1 := op{kind: 'F', sched: 1}
		return []op{w.opForeignPush("a", "g", b+dueNS, false, false, t), f, f1,
			w.opForeignPush("a", "g", b+lateNS, false, true, u), f1, w.opForeignPush("b", "g", b+futNS, true, false, u), f, f1,
			w.opForeignRemove("a", "g"), f, f1, w.opForeignClear(), f}
	}})
	for _, qv := range []string{"nd", "nc", "nh"} {
		qv := qv
		scenarios = append(scenarios, sc{"pushfail " + qv, func(w *world) []op {
			b := w.born
			fx := op{kind: 'F', pushFail: true}
			t := w.addTrig(newScript(0, []fire{{b + dueNS, -1}, {b + dueNS + 1000, -1}, {b + dueNS + 2000, -1}, {b + futNS, -1}}, fire{0, 0}))
			u := w.addTrig(newSimple(0, futNS))
			l := w.addTrig(newScript(0, []fire{{b + lateNS, -1}, {b + dueNS + 5000, -1}, {b + futNS, -1}}, fire{0, 0}))
			return []op{
				w.opSchedule("a", "default", false, false, t, false), f, fx, f, f, // due: fetched, then the reschedule push fails
				w.opSchedule("b", "g", false, false, u, false), fx, f, // not due: the push-back fails
				w.opSchedule("a", "g", false, false, l, false), fx, f, // late: the re-base push fails
				w.opSchedule("a", "default", false, true, t, false), fx, f, // suspended
			}
		}})
	}
	for _, qv := range []string{"nd", "nc"} {
		qv := qv
		scenarios = append(scenarios, sc{"apifault " + qv, func(w *world) []op {
			t := w.addTrig(newSimple(0, futNS))
			u := w.addTrig(newSimple(0, futNS))
			rf := func(o op) op { o.removeFail = true; return o }
			pf := func(o op) op { o.pushFail = true; return o }
			return []op{
				w.opSchedule("a", "default", false, false, t, false),
				rf(w.opKey('P', "a", "default")), w.opKey('G', "a", "default"), // Remove fails inside PauseJob: error, still active
				w.opKey('P', "a", "default"),
				rf(w.opKey('R', "a", "default")), w.opKey('G', "a", "default"), // ... inside ResumeJob: error, still paused
				rf(w.opKey('D', "a", "default")), w.opKey('G', "a", "default"),
				w.opKey('R', "a", "default"),
				pf(w.opSchedule("b", "g", false, false, u, false)), w.opKeys(),
				w.opSchedule("b", "g", false, false, u, false),
				pf(w.opKey('P', "b", "g")), w.opKeys(), // Push fails inside PauseJob: error (the entry is lost)
				w.opSchedule("b", "g", false, true, u, false),
				pf(w.opKey('R', "b", "g")), w.opKeys(),
			}
		}})
	}
	for i, s := range scenarios {
		if aborted {
			return
		}
		if only >= 0 && only != e.seq {
			e.seq++
			continue
		}
		variant := "nd"
		misCap := 8
		if strings.HasPrefix(s.name, "apifault") {
			fmt.Sscanf(s.name, "apifault %s", &variant)
		} else if strings.HasPrefix(s.name, "pushfail") {
			fmt.Sscanf(s.name, "pushfail %s", &variant)
		} else if strings.HasPrefix(s.name, "classify") {
			fmt.Sscanf(s.name, "classify %s miscap %d", &variant, &misCap)
		} else if s.name == "foreign-and-shared" {
			variant = "nh"
		}
		_ = i
		w := newWorld(variant, misCap)
		fmt.Fprintf(e.w, "# seq %d variant %s miscap %d directed %s\n", e.seq, variant, misCap, s.name)
		fmt.Fprintf(e.w, "reset %s\tok\n", w.qkind())
		ops := s.run(w)
		for _, t := range w.trigs {
			fmt.Fprintf(e.w, "T %d %s\tok\n", t.id, t.spec)
		}
		for _, o := range ops {
			c, ob := w.step(o)
			st.calls++
			if ob == "BLOCKED" {
				st.blocked++
				fmt.Fprintf(e.w, "%s\t%s\n", c, ob)
				break
			}
			fmt.Fprintf(e.w, "%s\t%s | %s\n", c, ob, registry(w.scheds[0]))
		}
		if aborted {
			st.sequences++
			return
		}
		w.close()
		st.absorb(w)
		e.seq++
		st.sequences++
	}
}

// steps <profile> <seed> <out> [only-seq]
//
//	profiles: api-quick api-thorough (C09), fetch-quick fetch-thorough (C03/C04/C08)
func cmdSteps(args []string) {
	if len(args) < 3 {
		fmt.Fprintln(os.Stderr, "usage: schedh steps <profile> <seed> <outfile> [only-seq]")
		os.Exit(2)
	}
	seed, _ := strconv.ParseInt(args[1], 10, 64)
	only := -1
	if len(args) > 3 {
		only, _ = strconv.Atoi(args[3])
	}
	out, err := os.Create(args[2])
	if err != nil {
		panic(err)
	}
	defer out.Close()
	e := &emitter{w: bufio.NewWriterSize(out, 1<<20)}
	defer e.w.Flush()
	st := &stats{}
	r := rand.New(rand.NewSource(seed))
	quiet := []string{"nd", "nc", "nh", "td"}
	all := []string{"nd", "nc", "nh", "sd", "sc", "sh", "td", "tc", "th"}
	var wg sync.WaitGroup
	switch args[0] {
	case "api-quick":
		runExhaustive(e, st, "small", 4, quiet, only)
		runExhaustive(e, st, "small", 3, []string{"sd", "sh", "sc"}, only)
		runExhaustive(e, st, "collide", 3, quiet, only)
		runExhaustive(e, st, "full", 2, all, only)
		runExhaustive(e, st, "full", 1, all, only)
		runRandom(e, st, r, 600, 60, false, all, only)
	case "api-thorough":
		runExhaustive(e, st, "small", 4, quiet, only)
		runExhaustive(e, st, "small", 4, []string{"sd", "sh", "sc", "tc", "th"}, only)
		runExhaustive(e, st, "collide", 4, quiet, only)
		runExhaustive(e, st, "full4", 3, []string{"nd", "nc", "nh"}, only)
		runExhaustive(e, st, "full", 2, all, only)
		runExhaustive(e, st, "full", 1, all, only)
		runRandom(e, st, r, 6000, 60, false, all, only)
	case "fetch-quick":
		runDirected(e, st, only)
		runRandom(e, st, r, 1500, 40, true, []string{"nd", "nc", "nh"}, only)
	case "fetch-thorough":
		runDirected(e, st, only)
		runRandom(e, st, r, 20000, 40, true, []string{"nd", "nc", "nh"}, only)
		runRandom(e, st, r, 2000, 200, true, []string{"nd", "nc", "nh"}, only)
	default:
		fmt.Fprintln(os.Stderr, "unknown profile", args[0])
		os.Exit(2)
	}
	wg.Wait()
	e.w.Flush()
	fmt.Printf("{\"sequences\": %d, \"calls\": %d, \"queue_calls_checked\": %d, \"lock_violations\": %d, \"first_violation\": %q, \"bad_illegal_state_wrapping\": %d, \"stalled_retries\": %d, \"blocked\": %d}\n",
		st.sequences, st.calls, st.lockCalls, st.lockViolations, st.firstViolation, st.badWrap, st.stalled, st.blocked)
}
